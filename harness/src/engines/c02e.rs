//! How a tunnel through the real endpoint (`Core::listen` on a loopback port) ends: the two directions end in either order,
//! the destination fails, the client fails.
//! in : [proto (1 HTTP/1.1 over TLS | 2 HTTP/2 over TLS | 3 HTTP/3 over QUIC), scenario, N bytes the client uploads, M bytes the destination sends]
//!      scenario 0: the client uploads N and ends its stream; the destination reads to the end, then sends M and ends
//!               1: the destination sends M and ends; the client reads to the end, then uploads N (1000 bytes every 5 ms) and ends
//!               2: both send at once (the destination ends right after its M bytes, the client after its N), neither waits for the other
//!               3: the destination sends M, and 300 ms later resets its connection (SO_LINGER 0: RST)
//!               4: the client uploads N, and 300 ms later fails: its TCP connection is reset (HTTP/1.1, HTTP/2), its request stream is
//!                  reset (HTTP/3); the destination keeps its side open whatever it sees
//!               5: the same failure of the client while the tunnel is back-pressured: the destination does not read for 3 s, the client
//!                  uploads until nothing more is taken from it for 500 ms (or 32 MiB / 2.2 s have gone), fails as in 4, and the destination
//!                  then reads on (N is not used: the number of bytes handed over is reported)
//!               6: HTTP/3 only, in : [3, 6, N, size of a DATA frame, rounds]: the client uploads N bytes in DATA frames of that size without
//!                  a pause and resets its request stream right behind the last of them (no wait as in 4, no back-pressure as in 5), the
//!                  destination sends nothing and keeps its side open; repeated on fresh endpoints up to `rounds` times, the first round
//!                  that is not "the endpoint let go of the destination, the client was not shown a clean end" is reported (else the last),
//!                  with the number of rounds run appended to the output
//! out: [996] | [status, bytes the destination received, they are the client's (0|1), how the upload ended at the destination (0 not yet | 1 end of stream | 2 error),
//!               bytes the client received, they are the destination's (0|1), how the download ended at the client (0 not within 10 s | 1 clean end | 2 failure: reset / error / connection lost),
//!               the endpoint's connection to the destination (0 still held open by the endpoint 5 s later | 1 released | 2 cannot tell here), ms until it was released,
//!               bytes the client handed to its transport before it ended or failed]
//! Whether the endpoint still holds its side of the connection to the destination is read from /proc/net/tcp (the socket with the
//! destination's peer address as local address: present with an owner = held; absent, orphaned or in TIME_WAIT = released).
use crate::util::*;
use std::net::SocketAddr;
use std::sync::atomic::{AtomicUsize, Ordering};
use std::sync::{Arc, Mutex};
use std::time::Duration;
use tokio::io::{AsyncReadExt, AsyncWriteExt};
use tokio::net::TcpListener;
use trusttunnel::settings::{Http1Settings, Http2Settings, ListenProtocolSettings, QuicSettings, Settings};

/// scenario 5: how long the destination leaves its socket unread, the most the client uploads, for how long it tries, and after how
/// long without a byte taken it considers the tunnel stalled
const STALL_MS: u64 = 3000;
const STALL_CAP: usize = 32 << 20;
const STALL_UPLOAD_MS: u64 = 2200;
const STALL_QUIET_MS: u64 = 500;

fn pattern(n: usize, salt: usize) -> Vec<u8> {
    (0..n).map(|i| ((i * 31 + (i >> 8) * 7 + (i >> 16) + salt) & 0xff) as u8).collect()
}

/// Some(true) = a socket local = `local`, remote = `remote` exists and belongs to a process; Some(false) = no such socket, or nobody
/// owns it any more (closed: orphaned FIN_WAIT / TIME_WAIT); None = /proc/net/tcp cannot be read
fn held(local: SocketAddr, remote: SocketAddr) -> Option<bool> {
    fn hex(a: SocketAddr) -> Option<String> {
        match a {
            SocketAddr::V4(a) => Some(format!("{:08X}:{:04X}", u32::from_le_bytes(a.ip().octets()), a.port())),
            _ => None,
        }
    }
    let (l, r) = (hex(local)?, hex(remote)?);
    let text = std::fs::read_to_string("/proc/net/tcp").ok()?;
    let mut lines = text.lines();
    let head = lines.next()?;
    if !head.contains("local_address") || !head.contains("inode") {
        return None;
    }
    for line in lines {
        let f: Vec<&str> = line.split_whitespace().collect();
        if f.len() < 10 {
            return None;
        }
        if f[1] == l && f[2] == r {
            let state = u8::from_str_radix(f[3], 16).ok()?;
            let inode: u64 = f[9].parse().ok()?;
            // 06 = TIME_WAIT, 07 = CLOSE; an orphaned socket has no inode
            return Some(inode != 0 && state != 6 && state != 7);
        }
    }
    Some(false)
}

struct Seen {
    got: Mutex<Vec<u8>>,
    end: AtomicUsize,
    peer: Mutex<Option<SocketAddr>>,
}

pub fn run(toks: Vec<Tok>) -> Vec<Tok> {
    let f = toks[0].clone();
    if f[1] != 6 {
        return run_once(f);
    }
    // scenario 6 fails only now and then on an endpoint that has the defect: the same history is repeated, each round on a fresh
    // endpoint, up to f[4] times; the first round in which the endpoint does not let go of the destination (or shows the client a
    // clean end, or delivers other bytes than the client's, or the environment fails) is the one reported, else the last one;
    // the last token is the number of rounds run
    let rounds = f.get(4).copied().unwrap_or(1).max(1);
    let mut out = vec![vec![996]];
    for round in 1..=rounds {
        out = run_once(f.clone());
        let r = &out[0];
        let good = r.len() >= 10 && r[0] == 200 && r[2] == 1 && r[5] == 1 && r[6] != 1 && r[7] == 1;
        if r.len() >= 10 {
            out[0].push(round);
        }
        if !good {
            break;
        }
    }
    out
}

fn run_once(f: Tok) -> Vec<Tok> {
    let rt = tokio::runtime::Builder::new_multi_thread().worker_threads(3).enable_all().build().unwrap();
    rt.block_on(async move {
        let (proto, scen, n_up, m_down) = (f[0], f[1], f[2] as usize, f[3] as usize);
        // scenario 6: the fourth number is the size of the client's DATA frames, the destination sends nothing
        let (piece, m_down) = if scen == 6 { (m_down.clamp(1, 60000), 0) } else { (0, m_down) };
        let l = TcpListener::bind("127.0.0.1:0").await.unwrap();
        let canary = l.local_addr().unwrap();
        let seen = Arc::new(Seen { got: Mutex::new(vec![]), end: AtomicUsize::new(0), peer: Mutex::new(None) });
        {
            let seen = seen.clone();
            tokio::spawn(async move {
                loop {
                    let Ok((mut s, from)) = l.accept().await else { continue };
                    let seen = seen.clone();
                    *seen.peer.lock().unwrap() = Some(from);
                    tokio::spawn(async move {
                        let answer = pattern(m_down, 77);
                        let mut buf = vec![0u8; 16384];
                        if scen == 3 {
                            let _ = s.write_all(&answer).await;
                            tokio::time::sleep(Duration::from_millis(300)).await;
                            let _ = s.set_linger(Some(Duration::from_secs(0)));
                            drop(s);
                            return;
                        }
                        let (mut r, mut w) = s.into_split();
                        let mut writer = None;
                        if scen == 1 {
                            let _ = w.write_all(&answer).await;
                            let _ = w.shutdown().await;
                        } else if scen == 2 {
                            let a = answer.clone();
                            writer = Some(tokio::spawn(async move {
                                let _ = w.write_all(&a).await;
                                let _ = w.shutdown().await;
                                w
                            }));
                        } else {
                            writer = Some(tokio::spawn(async move { w }));
                        }
                        if scen == 5 || scen == 7 {
                            // the destination does not read for a while: the whole upload path fills up
                            tokio::time::sleep(Duration::from_millis(STALL_MS)).await;
                        }
                        loop {
                            match r.read(&mut buf).await {
                                Ok(n) if n > 0 => seen.got.lock().unwrap().extend_from_slice(&buf[..n]),
                                Ok(_) => {
                                    seen.end.store(1, Ordering::SeqCst);
                                    break;
                                }
                                Err(_) => {
                                    seen.end.store(2, Ordering::SeqCst);
                                    break;
                                }
                            }
                        }
                        let mut w = match writer {
                            Some(t) => t.await.ok(),
                            None => None,
                        };
                        if scen == 0 {
                            if let Some(w) = w.as_mut() {
                                tokio::time::sleep(Duration::from_millis(100)).await;
                                let _ = w.write_all(&answer).await;
                                let _ = w.shutdown().await;
                            }
                        }
                        // the destination does not close because its peer did: both halves stay with this task
                        tokio::time::sleep(Duration::from_secs(60)).await;
                        drop((r, w));
                    });
                }
            });
        }
        let make = move |addr: SocketAddr| {
            Settings::builder()
                .listen_address(addr)
                .unwrap()
                .listen_protocols(ListenProtocolSettings {
                    http1: Some(Http1Settings::builder().build()),
                    http2: Some(Http2Settings::builder().build()),
                    quic: if proto == 3 { Some(QuicSettings::builder().build()) } else { None },
                })
                .allow_private_network_connections(true)
                .build()
                .unwrap()
        };
        let Some(ep) = crate::front::start(make, crate::ctxutil::basic_hosts, None).await else {
            return vec![vec![996]];
        };
        let data = pattern(if scen == 5 || scen == 7 { STALL_CAP } else { n_up }, 0);
        // what the client handed to its transport (scenario 5: counted while it uploads)
        let mut uploaded = data.len();
        let mut back: Vec<u8> = vec![];
        let mut status = 0u128;
        // 0 = no end within the time allowed, 1 = clean end, 2 = failure
        let mut end = 0u128;
        let patience = Duration::from_secs(10);
        // the upload is complete at the destination (or has ended there), or `patience` has passed
        let upload_settled = |seen: Arc<Seen>, want: usize| async move {
            let deadline = tokio::time::Instant::now() + patience;
            while tokio::time::Instant::now() < deadline {
                if seen.end.load(Ordering::SeqCst) != 0 || (want > 0 && seen.got.lock().unwrap().len() >= want) {
                    return;
                }
                tokio::time::sleep(Duration::from_millis(20)).await;
            }
        };
        if proto == 1 {
            let Some(s) = crate::front::tls_connect(ep.addr, "localhost", &[b"http/1.1"]).await else { return vec![vec![996]] };
            let (mut rd, mut wr) = tokio::io::split(s);
            let _ = wr.write_all(format!("CONNECT {} HTTP/1.1\r\nHost: x\r\n\r\n", canary).as_bytes()).await;
            let mut acc = vec![];
            let mut buf = vec![0u8; 16384];
            while !acc.windows(4).any(|w| w == b"\r\n\r\n") {
                match tokio::time::timeout(Duration::from_secs(5), rd.read(&mut buf)).await {
                    Ok(Ok(n)) if n > 0 => acc.extend_from_slice(&buf[..n]),
                    _ => break,
                }
            }
            let p = acc.windows(4).position(|w| w == b"\r\n\r\n").map(|p| p + 4).unwrap_or(acc.len());
            status = String::from_utf8_lossy(&acc).split(' ').nth(1).and_then(|x| x.parse().ok()).unwrap_or(0);
            back.extend_from_slice(&acc[p..]);
            async fn read_all(rd: &mut tokio::io::ReadHalf<crate::front::Tls>, back: &mut Vec<u8>, patience: Duration) -> u128 {
                let mut buf = vec![0u8; 16384];
                let deadline = tokio::time::Instant::now() + patience;
                loop {
                    match tokio::time::timeout_at(deadline, rd.read(&mut buf)).await {
                        Ok(Ok(n)) if n > 0 => back.extend_from_slice(&buf[..n]),
                        Ok(Ok(_)) => return 1, // close_notify
                        Ok(Err(_)) => return 2,
                        Err(_) => return 0,
                    }
                }
            }
            if status == 200 {
                match scen {
                    0 => {
                        let _ = wr.write_all(&data).await;
                        let _ = wr.flush().await;
                        let _ = wr.shutdown().await;
                        end = read_all(&mut rd, &mut back, patience).await;
                    }
                    1 => {
                        end = read_all(&mut rd, &mut back, patience).await;
                        for c in data.chunks(1000) {
                            if wr.write_all(c).await.is_err() {
                                break;
                            }
                            let _ = wr.flush().await;
                            tokio::time::sleep(Duration::from_millis(5)).await;
                        }
                        let _ = wr.shutdown().await;
                        upload_settled(seen.clone(), 0).await;
                    }
                    2 => {
                        let d2 = data.clone();
                        let up = tokio::spawn(async move {
                            let _ = wr.write_all(&d2).await;
                            let _ = wr.flush().await;
                            let _ = wr.shutdown().await;
                            wr
                        });
                        end = read_all(&mut rd, &mut back, patience).await;
                        let _ = tokio::time::timeout(patience, up).await;
                        upload_settled(seen.clone(), 0).await;
                    }
                    3 => end = read_all(&mut rd, &mut back, patience).await,
                    5 => {
                        uploaded = 0;
                        let t0 = tokio::time::Instant::now();
                        while uploaded < data.len() && t0.elapsed() < Duration::from_millis(STALL_UPLOAD_MS) {
                            let piece = &data[uploaded..data.len().min(uploaded + 32 * 1024)];
                            match tokio::time::timeout(Duration::from_millis(STALL_QUIET_MS), wr.write(piece)).await {
                                Ok(Ok(n)) if n > 0 => uploaded += n,
                                _ => break,
                            }
                        }
                        log::info!("the client handed over {} bytes in {} ms", uploaded, t0.elapsed().as_millis());
                        let s = rd.unsplit(wr);
                        let _ = s.get_ref().0.set_linger(Some(Duration::from_secs(0)));
                        drop(s); // RST
                        upload_settled(seen.clone(), 0).await;
                    }
                    _ => {
                        let _ = wr.write_all(&data).await;
                        let _ = wr.flush().await;
                        upload_settled(seen.clone(), n_up).await;
                        tokio::time::sleep(Duration::from_millis(300)).await;
                        let s = rd.unsplit(wr);
                        let _ = s.get_ref().0.set_linger(Some(Duration::from_secs(0)));
                        drop(s); // RST
                    }
                }
            }
        } else if proto == 2 {
            let Some(s) = crate::front::tls_connect(ep.addr, "localhost", &[b"h2"]).await else { return vec![vec![996]] };
            if scen == 4 || scen == 5 {
                // the connection task owns the socket: when that task is aborted the socket is closed, with RST
                let _ = s.get_ref().0.set_linger(Some(Duration::from_secs(0)));
            }
            let Ok(Ok((send, conn))) = tokio::time::timeout(Duration::from_secs(5), h2::client::handshake(s)).await else { return vec![vec![996]] };
            let driver = tokio::spawn(async move {
                let _ = conn.await;
            });
            let req = http::Request::builder().method("CONNECT").uri(canary.to_string().as_str()).body(()).unwrap();
            async fn send_all(stream: &mut h2::SendStream<bytes::Bytes>, data: &[u8], piece: usize, pause: u64) -> bool {
                for c in data.chunks(piece) {
                    let mut off = 0;
                    while off < c.len() {
                        stream.reserve_capacity(c.len() - off);
                        match futures::future::poll_fn(|cx| stream.poll_capacity(cx)).await {
                            Some(Ok(n)) if n > 0 => {
                                let n = n.min(c.len() - off);
                                if stream.send_data(bytes::Bytes::copy_from_slice(&c[off..off + n]), false).is_err() {
                                    return false;
                                }
                                off += n;
                            }
                            Some(Ok(_)) => continue,
                            _ => return false,
                        }
                    }
                    if pause > 0 {
                        tokio::time::sleep(Duration::from_millis(pause)).await;
                    }
                }
                true
            }
            async fn read_all(body: &mut h2::RecvStream, back: &mut Vec<u8>, patience: Duration) -> u128 {
                let deadline = tokio::time::Instant::now() + patience;
                loop {
                    match tokio::time::timeout_at(deadline, body.data()).await {
                        Ok(Some(Ok(c))) => {
                            let _ = body.flow_control().release_capacity(c.len());
                            back.extend_from_slice(&c);
                        }
                        Ok(None) => return 1, // END_STREAM
                        Ok(Some(Err(_))) => return 2,
                        Err(_) => return 0,
                    }
                }
            }
            let mut keep = None;
            if let Ok(Ok(mut sr)) = tokio::time::timeout(Duration::from_secs(5), send.clone().ready()).await {
                if let Ok((resp, mut stream)) = sr.send_request(req, false) {
                    if let Ok(Ok(resp)) = tokio::time::timeout(Duration::from_secs(5), resp).await {
                        status = resp.status().as_u16() as u128;
                        let mut body = resp.into_body();
                        if status == 200 {
                            match scen {
                                0 => {
                                    if send_all(&mut stream, &data, 16384, 0).await {
                                        let _ = stream.send_data(bytes::Bytes::new(), true);
                                    }
                                    end = read_all(&mut body, &mut back, patience).await;
                                }
                                1 => {
                                    end = read_all(&mut body, &mut back, patience).await;
                                    if send_all(&mut stream, &data, 1000, 5).await {
                                        let _ = stream.send_data(bytes::Bytes::new(), true);
                                    }
                                    upload_settled(seen.clone(), 0).await;
                                }
                                2 => {
                                    let d2 = data.clone();
                                    let up = tokio::spawn(async move {
                                        if send_all(&mut stream, &d2, 16384, 0).await {
                                            let _ = stream.send_data(bytes::Bytes::new(), true);
                                        }
                                        stream
                                    });
                                    end = read_all(&mut body, &mut back, patience).await;
                                    let _ = tokio::time::timeout(patience, up).await;
                                    upload_settled(seen.clone(), 0).await;
                                }
                                3 => end = read_all(&mut body, &mut back, patience).await,
                                5 => {
                                    uploaded = 0;
                                    let t0 = tokio::time::Instant::now();
                                    while uploaded < data.len() && t0.elapsed() < Duration::from_millis(STALL_UPLOAD_MS) {
                                        let want = (data.len() - uploaded).min(32 * 1024);
                                        stream.reserve_capacity(want);
                                        match tokio::time::timeout(Duration::from_millis(STALL_QUIET_MS), futures::future::poll_fn(|cx| stream.poll_capacity(cx))).await {
                                            Ok(Some(Ok(n))) if n > 0 => {
                                                let n = n.min(want);
                                                if stream.send_data(bytes::Bytes::copy_from_slice(&data[uploaded..uploaded + n]), false).is_err() {
                                                    break;
                                                }
                                                uploaded += n;
                                            }
                                            Ok(Some(Ok(_))) => continue,
                                            _ => break,
                                        }
                                    }
                                    log::info!("the client handed over {} bytes in {} ms", uploaded, t0.elapsed().as_millis());
                                    keep = Some((stream, body));
                                }
                                _ => {
                                    let _ = send_all(&mut stream, &data, 16384, 0).await;
                                    upload_settled(seen.clone(), n_up).await;
                                    tokio::time::sleep(Duration::from_millis(300)).await;
                                    keep = Some((stream, body));
                                }
                            }
                        }
                    }
                }
            }
            if scen != 4 && scen != 5 {
                // the last frames of the client go out
                tokio::time::sleep(Duration::from_millis(200)).await;
            }
            driver.abort();
            let _ = driver.await;
            drop(keep);
            drop(send);
            if scen == 5 {
                upload_settled(seen.clone(), 0).await;
            }
        } else {
            let Some(mut c) = crate::front::H3Client::connect(ep.addr, "localhost").await else { return vec![vec![996]] };
            let hs = vec![(b":method".to_vec(), b"CONNECT".to_vec()), (b":authority".to_vec(), canary.to_string().into_bytes()), (b"user-agent".to_vec(), b"verif".to_vec())];
            if let Some(id) = c.request(&hs, false) {
                c.drive(Duration::from_secs(5), |x| x.streams[&id].headers.is_some() || x.is_shut()).await;
                status = c.streams[&id].status() as u128;
                let ended = |x: &crate::front::H3Client| x.streams[&id].finished || x.streams[&id].reset || x.is_shut();
                if status == 200 {
                    match scen {
                        0 | 2 => {
                            c.send_body(id, &data, true).await;
                            c.drive(patience, ended).await;
                        }
                        1 => {
                            c.drive(patience, ended).await;
                            for ch in data.chunks(1000) {
                                if !c.send_body(id, ch, false).await {
                                    break;
                                }
                                c.drive(Duration::from_millis(5), |_| false).await;
                            }
                            c.send_body(id, &[], true).await;
                            let deadline = tokio::time::Instant::now() + patience;
                            while seen.end.load(Ordering::SeqCst) == 0 && tokio::time::Instant::now() < deadline {
                                c.drive(Duration::from_millis(20), |_| false).await;
                            }
                        }
                        3 => c.drive(patience, ended).await,
                        5 => {
                            uploaded = 0;
                            let t0 = tokio::time::Instant::now();
                            let mut last = t0;
                            while uploaded < data.len() && last.elapsed() < Duration::from_millis(STALL_QUIET_MS) && t0.elapsed() < Duration::from_millis(STALL_UPLOAD_MS) {
                                let n = c.send_some(id, &data[uploaded..data.len().min(uploaded + 32 * 1024)]);
                                if n > 0 {
                                    uploaded += n;
                                    last = tokio::time::Instant::now();
                                } else {
                                    c.drive(Duration::from_millis(10), |_| false).await;
                                }
                            }
                            log::info!("the client handed over {} bytes in {} ms", uploaded, t0.elapsed().as_millis());
                            // RESET_STREAM: the client gives its upload up, the connection lives on
                            c.reset_stream(id, 0x10c);
                            let deadline = tokio::time::Instant::now() + patience;
                            while seen.end.load(Ordering::SeqCst) == 0 && tokio::time::Instant::now() < deadline {
                                c.drive(Duration::from_millis(20), |_| false).await;
                            }
                        }
                        7 => {
                            // like 5, but the client ends its upload (FIN) and resets the stream `n_up` ms behind the FIN:
                            // the cancellation of a request whose body has been sent to its end
                            uploaded = 0;
                            let t0 = tokio::time::Instant::now();
                            let mut last = t0;
                            while uploaded < data.len() && last.elapsed() < Duration::from_millis(STALL_QUIET_MS) && t0.elapsed() < Duration::from_millis(STALL_UPLOAD_MS) {
                                let n = c.send_some(id, &data[uploaded..data.len().min(uploaded + 32 * 1024)]);
                                if n > 0 {
                                    uploaded += n;
                                    last = tokio::time::Instant::now();
                                } else {
                                    c.drive(Duration::from_millis(10), |_| false).await;
                                }
                            }
                            // the end of the upload (FIN), and RESET_STREAM behind it
                            let _ = c.raw_fin(id);
                            c.drive(Duration::from_millis(n_up as u64), |_| false).await;
                            c.reset_stream(id, 0x10c);
                            let deadline = tokio::time::Instant::now() + patience;
                            while seen.end.load(Ordering::SeqCst) == 0 && tokio::time::Instant::now() < deadline {
                                c.drive(Duration::from_millis(20), |_| false).await;
                            }
                        }
                        6 => {
                            // the upload in DATA frames of `piece` bytes without a pause, and RESET_STREAM right behind the last
                            // of them: the connection lives on
                            uploaded = 0;
                            while uploaded < data.len() {
                                let n = c.send_some(id, &data[uploaded..data.len().min(uploaded + piece)]);
                                if n > 0 {
                                    uploaded += n;
                                } else {
                                    c.drive(Duration::from_millis(1), |_| false).await;
                                    if c.is_shut() {
                                        break;
                                    }
                                }
                            }
                            c.reset_stream(id, 0x10c);
                            let deadline = tokio::time::Instant::now() + patience;
                            while seen.end.load(Ordering::SeqCst) == 0 && tokio::time::Instant::now() < deadline {
                                c.drive(Duration::from_millis(20), |_| false).await;
                            }
                        }
                        _ => {
                            c.send_body(id, &data, false).await;
                            let deadline = tokio::time::Instant::now() + patience;
                            while seen.got.lock().unwrap().len() < n_up && tokio::time::Instant::now() < deadline {
                                c.drive(Duration::from_millis(20), |_| false).await;
                            }
                            c.drive(Duration::from_millis(300), |_| false).await;
                            // RESET_STREAM: the client gives its upload up, the connection lives on
                            c.reset_stream(id, 0x10c);
                            c.drive(Duration::from_millis(300), |_| false).await;
                        }
                    }
                    let st = &c.streams[&id];
                    end = if st.reset || (c.is_shut() && !st.finished) { 2 } else if st.finished { 1 } else { 0 };
                    back = st.data.clone();
                }
            }
            if scen == 4 || scen == 5 || scen == 6 || scen == 7 {
                // the connection stays: what is observed below is the answer to the stream's reset alone
                let out = finish(&seen, canary, status, &data, uploaded, &back, m_down, end, Some(&mut c)).await;
                c.close();
                return out;
            }
            c.close();
        }
        finish(&seen, canary, status, &data, uploaded, &back, m_down, end, None).await
    })
}

#[allow(clippy::too_many_arguments)]
async fn finish(seen: &Arc<Seen>, canary: SocketAddr, status: u128, data: &[u8], uploaded: usize, back: &[u8], m_down: usize, end: u128, mut h3: Option<&mut crate::front::H3Client>) -> Vec<Tok> {
    // is the endpoint's side of the connection to the destination still open? (up to 5 s for it to go)
    let peer = *seen.peer.lock().unwrap();
    let (mut released, mut waited) = (2u128, 0u128);
    if let Some(peer) = peer {
        let started = tokio::time::Instant::now();
        loop {
            match held(peer, canary) {
                None => break,
                Some(false) => {
                    released = 1;
                    break;
                }
                Some(true) => released = 0,
            }
            if started.elapsed() >= Duration::from_secs(5) {
                break;
            }
            match h3.as_mut() {
                Some(c) => c.drive(Duration::from_millis(50), |_| false).await,
                None => tokio::time::sleep(Duration::from_millis(50)).await,
            }
        }
        waited = started.elapsed().as_millis();
    }
    let got = seen.got.lock().unwrap().clone();
    let answer = pattern(m_down, 77);
    let up_same = got.len() <= uploaded && got.len() <= data.len() && got[..] == data[..got.len()];
    let down_same = back.len() <= answer.len() && back[..] == answer[..back.len()];
    vec![vec![status, got.len() as u128, up_same as u128, seen.end.load(Ordering::SeqCst) as u128, back.len() as u128, down_same as u128, end, released, waited, uploaded as u128]]
}
