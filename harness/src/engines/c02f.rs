//! A tunnel through the real endpoint (`Core::listen` on a loopback port) to an echo server: bytes in, the same bytes back.
//! in : [proto (1 HTTP/1.1 over TLS | 2 HTTP/2 over TLS | 3 HTTP/3 over QUIC), total bytes, write size, server: 0 echo | 1 echo that reads slowly]
//! out: [996] | [status, bytes received back, identical (0|1), position of the first difference or 0, ended cleanly after the client's end of stream (0|1)]
use crate::util::*;
use std::time::Duration;
use tokio::io::{AsyncReadExt, AsyncWriteExt};
use tokio::net::TcpListener;
use trusttunnel::settings::{Http1Settings, Http2Settings, ListenProtocolSettings, QuicSettings, Settings};

fn pattern(n: usize) -> Vec<u8> {
    // no short period: a lost, repeated or reordered stretch shows
    (0..n).map(|i| ((i * 31 + (i >> 8) * 7 + (i >> 16)) & 0xff) as u8).collect()
}

pub fn run(toks: Vec<Tok>) -> Vec<Tok> {
    let f = toks[0].clone();
    let rt = tokio::runtime::Builder::new_multi_thread().worker_threads(3).enable_all().build().unwrap();
    rt.block_on(async move {
        let (proto, total, wsize, slow) = (f[0], f[1] as usize, (f[2] as usize).max(1), f[3] == 1);
        let l = TcpListener::bind("127.0.0.1:0").await.unwrap();
        let canary = l.local_addr().unwrap();
        tokio::spawn(async move {
            loop {
                if let Ok((mut s, _)) = l.accept().await {
                    tokio::spawn(async move {
                        let mut buf = vec![0u8; 16384];
                        loop {
                            if slow {
                                tokio::time::sleep(Duration::from_millis(2)).await;
                            }
                            match s.read(&mut buf).await {
                                Ok(n) if n > 0 => {
                                    if s.write_all(&buf[..n]).await.is_err() {
                                        return;
                                    }
                                }
                                _ => {
                                    let _ = s.shutdown().await;
                                    return;
                                }
                            }
                        }
                    });
                }
            }
        });
        let make = move |addr: std::net::SocketAddr| {
            Settings::builder()
                .listen_address(addr)
                .unwrap()
                .listen_protocols(ListenProtocolSettings {
                    http1: Some(Http1Settings::builder().build()),
                    http2: Some(Http2Settings::builder().build()),
                    quic: if proto == 3 { Some(QuicSettings::builder().build()) } else { None },
                })
                .allow_private_network_connections(true)
                .build()
                .unwrap()
        };
        let Some(ep) = crate::front::start(make, crate::ctxutil::basic_hosts, None).await else {
            return vec![vec![996]];
        };
        let data = pattern(total);
        let mut back: Vec<u8> = Vec::with_capacity(total);
        let mut status = 0u128;
        let mut clean = 0u128;
        let limit = Duration::from_secs(20);
        if proto == 1 {
            let Some(s) = crate::front::tls_connect(ep.addr, "localhost", &[b"http/1.1"]).await else { return vec![vec![996]] };
            let (mut rd, mut wr) = tokio::io::split(s);
            let _ = wr.write_all(format!("CONNECT {} HTTP/1.1\r\nHost: x\r\n\r\n", canary).as_bytes()).await;
            let mut acc = vec![];
            let mut buf = vec![0u8; 16384];
            while !acc.windows(4).any(|w| w == b"\r\n\r\n") {
                match tokio::time::timeout(Duration::from_secs(3), rd.read(&mut buf)).await {
                    Ok(Ok(n)) if n > 0 => acc.extend_from_slice(&buf[..n]),
                    _ => break,
                }
            }
            let p = acc.windows(4).position(|w| w == b"\r\n\r\n").map(|p| p + 4).unwrap_or(acc.len());
            status = String::from_utf8_lossy(&acc).split(' ').nth(1).and_then(|x| x.parse().ok()).unwrap_or(0);
            back.extend_from_slice(&acc[p..]);
            if status == 200 {
                let d2 = data.clone();
                let writer = tokio::spawn(async move {
                    for c in d2.chunks(wsize) {
                        if wr.write_all(c).await.is_err() {
                            break;
                        }
                    }
                    let _ = wr.flush().await;
                    wr
                });
                let _ = tokio::time::timeout(limit, async {
                    while back.len() < total {
                        match rd.read(&mut buf).await {
                            Ok(n) if n > 0 => back.extend_from_slice(&buf[..n]),
                            _ => break,
                        }
                    }
                })
                .await;
                if let Ok(Ok(mut wr)) = tokio::time::timeout(Duration::from_secs(2), writer).await {
                    let _ = wr.shutdown().await;
                    // the echo server answers the end of stream with its own: the endpoint closes
                    clean = matches!(tokio::time::timeout(Duration::from_secs(3), rd.read(&mut buf)).await, Ok(Ok(0)) | Ok(Err(_))) as u128;
                }
            }
        } else if proto == 2 {
            let Some(s) = crate::front::tls_connect(ep.addr, "localhost", &[b"h2"]).await else { return vec![vec![996]] };
            let Ok(Ok((send, conn))) = tokio::time::timeout(Duration::from_secs(3), h2::client::handshake(s)).await else { return vec![vec![996]] };
            let driver = tokio::spawn(async move {
                let _ = conn.await;
            });
            let req = http::Request::builder().method("CONNECT").uri(canary.to_string().as_str()).body(()).unwrap();
            if let Ok(mut sr) = send.clone().ready().await {
                if let Ok((resp, mut stream)) = sr.send_request(req, false) {
                    if let Ok(Ok(resp)) = tokio::time::timeout(Duration::from_secs(3), resp).await {
                        status = resp.status().as_u16() as u128;
                        let mut body = resp.into_body();
                        if status == 200 {
                            let d2 = data.clone();
                            let writer = tokio::spawn(async move {
                                for c in d2.chunks(wsize) {
                                    let mut off = 0;
                                    while off < c.len() {
                                        stream.reserve_capacity(c.len() - off);
                                        match futures::future::poll_fn(|cx| stream.poll_capacity(cx)).await {
                                            Some(Ok(n)) if n > 0 => {
                                                let n = n.min(c.len() - off);
                                                if stream.send_data(bytes::Bytes::copy_from_slice(&c[off..off + n]), false).is_err() {
                                                    return stream;
                                                }
                                                off += n;
                                            }
                                            Some(Ok(_)) => continue,
                                            _ => return stream,
                                        }
                                    }
                                }
                                stream
                            });
                            let _ = tokio::time::timeout(limit, async {
                                while back.len() < total {
                                    match body.data().await {
                                        Some(Ok(c)) => {
                                            let _ = body.flow_control().release_capacity(c.len());
                                            back.extend_from_slice(&c);
                                        }
                                        _ => break,
                                    }
                                }
                            })
                            .await;
                            if let Ok(Ok(mut stream)) = tokio::time::timeout(Duration::from_secs(2), writer).await {
                                let _ = stream.send_data(bytes::Bytes::new(), true);
                                // (an empty DATA frame may precede the END_STREAM)
                                let r = tokio::time::timeout(Duration::from_secs(3), async {
                                    loop {
                                        match body.data().await {
                                            Some(Ok(c)) if c.is_empty() => continue,
                                            Some(_) => break false,
                                            None => break true,
                                        }
                                    }
                                })
                                .await;
                                clean = matches!(r, Ok(true)) as u128;
                            }
                        }
                    }
                }
            }
            driver.abort();
        } else {
            let Some(mut c) = crate::front::H3Client::connect(ep.addr, "localhost").await else { return vec![vec![996]] };
            let hs = vec![(b":method".to_vec(), b"CONNECT".to_vec()), (b":authority".to_vec(), canary.to_string().into_bytes()), (b"user-agent".to_vec(), b"verif".to_vec())];
            if let Some(id) = c.request(&hs, false) {
                c.drive(Duration::from_secs(3), |x| x.streams[&id].headers.is_some() || x.is_shut()).await;
                status = c.streams[&id].status() as u128;
                if status == 200 {
                    let started = tokio::time::Instant::now();
                    let mut off = 0;
                    while (off < total || c.streams[&id].data.len() < total) && started.elapsed() < limit && !c.is_shut() && !c.streams[&id].reset && !c.streams[&id].finished {
                        if off < total {
                            let e = (off + wsize).min(total);
                            off += c.send_some(id, &data[off..e]);
                        }
                        c.drive(Duration::from_millis(if off < total { 0 } else { 20 }), |_| false).await;
                    }
                    back = c.streams[&id].data.clone();
                    c.send_body(id, &[], true).await;
                    c.drive(Duration::from_secs(3), |x| x.streams[&id].finished || x.streams[&id].reset || x.is_shut()).await;
                    clean = c.streams[&id].finished as u128;
                    back = c.streams[&id].data.clone();
                }
            }
            c.close();
        }
        let same = back == data;
        let diff = back.iter().zip(data.iter()).position(|(a, b)| a != b).unwrap_or(back.len().min(data.len()));
        vec![vec![status, back.len() as u128, same as u128, if same { 0 } else { diff as u128 }, clean]]
    })
}
