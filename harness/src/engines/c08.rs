//! The real Http1Codec over an in-memory stream, fed with a client byte stream cut into segments.
//! in : [status, close_after (0|1)] stream seg_sizes download
//!        stream    : the client's bytes (request head followed by payload)
//!        seg_sizes : sizes of the pieces the client writes, one piece per (virtual) millisecond; the rest of the
//!                    stream follows as one last piece
//!        download  : bytes the tunnel side writes after answering with `status`
//! out: [outcome] method uri [minor_version] headers upload client_received [poll_reads, listen_results]
//!        outcome 0 request recognised | 1 connection closed before a request | 2 failed | 995 no progress (spinning)
//!        headers: flat [name_len, name..., value_len, value...]*
use crate::util::*;
use bytes::Bytes;
use std::pin::Pin;
use std::sync::atomic::{AtomicUsize, Ordering};
use std::sync::Arc;
use std::task::{Context, Poll};
use std::time::Duration;
use tokio::io::{AsyncRead, AsyncReadExt, AsyncWrite, AsyncWriteExt, ReadBuf};
use trusttunnel::verif::http1;

struct CountingIo<IO> {
    io: IO,
    reads: Arc<AtomicUsize>,
}

impl<IO: AsyncRead + Unpin> AsyncRead for CountingIo<IO> {
    fn poll_read(mut self: Pin<&mut Self>, cx: &mut Context<'_>, buf: &mut ReadBuf<'_>) -> Poll<std::io::Result<()>> {
        self.reads.fetch_add(1, Ordering::Relaxed);
        Pin::new(&mut self.io).poll_read(cx, buf)
    }
}

impl<IO: AsyncWrite + Unpin> AsyncWrite for CountingIo<IO> {
    fn poll_write(mut self: Pin<&mut Self>, cx: &mut Context<'_>, buf: &[u8]) -> Poll<std::io::Result<usize>> {
        Pin::new(&mut self.io).poll_write(cx, buf)
    }
    fn poll_flush(mut self: Pin<&mut Self>, cx: &mut Context<'_>) -> Poll<std::io::Result<()>> {
        Pin::new(&mut self.io).poll_flush(cx)
    }
    fn poll_shutdown(mut self: Pin<&mut Self>, cx: &mut Context<'_>) -> Poll<std::io::Result<()>> {
        Pin::new(&mut self.io).poll_shutdown(cx)
    }
}

pub fn run(toks: Vec<Tok>) -> Vec<Tok> {
    // the codec under test may spin inside a single poll: run it on its own thread under a watchdog
    let (tx, rx) = std::sync::mpsc::channel();
    std::thread::spawn(move || {
        let r = std::panic::catch_unwind(|| run_inner(toks));
        let _ = tx.send(r);
    });
    match rx.recv_timeout(Duration::from_secs(4)) {
        Ok(Ok(v)) => v,
        Ok(Err(e)) => std::panic::resume_unwind(e),
        Err(_) => vec![vec![995]],
    }
}

fn run_inner(toks: Vec<Tok>) -> Vec<Tok> {
    let status = toks[0][0] as u16;
    let close_after = toks[0][1] == 1;
    let stream = bytes(&toks[1]);
    let sizes: Vec<usize> = toks[2].iter().map(|x| *x as usize).collect();
    let download = bytes(&toks[3]);
    let rt = tokio::runtime::Builder::new_current_thread().enable_all().start_paused(true).build().unwrap();
    rt.block_on(async move {
        let settings = std::sync::Arc::new(crate::engines::c05::settings(true, false, false, false));
        let (client, server) = tokio::io::duplex(1 << 20);
        let reads = Arc::new(AtomicUsize::new(0));
        let mut codec = http1::codec(settings, CountingIo { io: server, reads: reads.clone() });
        let (ev_tx, mut ev_rx) = tokio::sync::mpsc::unbounded_channel();
        let listener = tokio::spawn(async move {
            let mut results = 0usize;
            loop {
                results += 1;
                match codec.listen().await {
                    http1::Listened::Stream(r, u, d) => {
                        if ev_tx.send(Some((r, u, d))).is_err() {
                            return (results, 0u128);
                        }
                    }
                    http1::Listened::Closed => return (results, 1),
                    http1::Listened::Failed(_) => return (results, 2),
                }
            }
        });
        let (mut cr, mut cw) = tokio::io::split(client);
        let writer = tokio::spawn(async move {
            let mut pos = 0;
            for s in sizes {
                let end = (pos + s).min(stream.len());
                if end > pos && cw.write_all(&stream[pos..end]).await.is_err() {
                    return;
                }
                pos = end;
                tokio::time::sleep(Duration::from_millis(1)).await;
            }
            if pos < stream.len() {
                let _ = cw.write_all(&stream[pos..]).await;
                tokio::time::sleep(Duration::from_millis(1)).await;
            }
            if close_after {
                let _ = cw.shutdown().await;
            } else {
                // keep the connection open until the harness is done
                tokio::time::sleep(Duration::from_secs(3600)).await;
            }
        });
        let reader = tokio::spawn(async move {
            let mut got = vec![];
            let mut buf = vec![0u8; 65536];
            loop {
                match cr.read(&mut buf).await {
                    Ok(0) | Err(_) => break,
                    Ok(n) => got.extend_from_slice(&buf[..n]),
                }
            }
            got
        });
        let mut out = vec![];
        let first = tokio::time::timeout(Duration::from_secs(30), ev_rx.recv()).await;
        let mut upload = vec![];
        match first {
            Ok(Some(Some((req, mut up, resp)))) => {
                out.push(vec![0]);
                out.push(tok(req.method.as_bytes()));
                out.push(tok(req.uri.as_bytes()));
                out.push(vec![req.minor_version as u128]);
                let mut h = vec![];
                for (n, v) in &req.headers {
                    h.push(n.len() as u128);
                    h.extend(n.bytes().map(|b| b as u128));
                    h.push(v.len() as u128);
                    h.extend(v.iter().map(|b| *b as u128));
                }
                out.push(h);
                let up_task = tokio::spawn(async move {
                    let mut got = vec![];
                    while let Ok(Some(b)) = up.read().await {
                        got.extend_from_slice(&b);
                    }
                    got
                });
                if let Ok(mut dl) = resp.send_response(status, false) {
                    let mut rest = Bytes::from(download);
                    while !rest.is_empty() {
                        match dl.write(rest.clone()) {
                            Ok(unsent) => {
                                rest = unsent;
                                if !rest.is_empty() && dl.wait_writable().await.is_err() {
                                    break;
                                }
                            }
                            Err(_) => break,
                        }
                    }
                    // wait (virtual time) until the client has sent everything, then end the download side
                    tokio::time::sleep(Duration::from_secs(5)).await;
                    let _ = dl.eof();
                    drop(dl);
                }
                upload = tokio::time::timeout(Duration::from_secs(30), up_task).await.ok().and_then(|r| r.ok()).unwrap_or_default();
            }
            _ => {
                // no request: closed (1) or failed (2), decided below from the listener's result
                out.push(vec![9]);
                for _ in 0..4 {
                    out.push(vec![]);
                }
            }
        }
        let (results, end) = tokio::time::timeout(Duration::from_secs(30), listener).await.ok().and_then(|r| r.ok()).unwrap_or((0, 7));
        if out[0][0] == 9 {
            out[0][0] = end;
        }
        writer.abort();
        let received = tokio::time::timeout(Duration::from_secs(30), reader).await.ok().and_then(|r| r.ok()).unwrap_or_default();
        out.push(tok(&upload));
        out.push(tok(&received));
        out.push(vec![reads.load(Ordering::Relaxed) as u128, results as u128, end]);
        out
    })
}
