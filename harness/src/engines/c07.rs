//! The real UDP multiplexer with real loopback sockets (real time, short timeouts).
//! in : [timeout_ms] then ops
//!        [1, flow, len]        client datagram on flow (payload = len bytes tagged with a running number)
//!        [2, ms]               sleep
//!        [3]                   observe: open outbound sockets (gauge), multiplexer alive
//!      flows: index into the fixed table below (client source address, destination kind)
//! out: per op:
//!        datagram -> [1, server_got (0|1), distinct source-port id at the server, reply_got (0|1), reply label ok (0|1)]
//!        sleep    -> [2]
//!        observe  -> [3, gauge, alive]
use crate::util::*;
use std::collections::HashMap;
use std::net::SocketAddr;
use std::sync::{Arc, Mutex};
use std::time::Duration;
use tokio::net::UdpSocket;
use tokio::sync::mpsc;
use trusttunnel::verif::{metrics, udp};

/// destination kinds: 0 echo A, 1 echo B, 2 echo on port 53-like "dns" (real port 53 on 127.0.0.2),
/// 3 closed port (nobody listens), 4 unconnectable (limited broadcast: connect() is refused)
pub fn run(toks: Vec<Tok>) -> Vec<Tok> {
    let timeout = Duration::from_millis(toks[0][0] as u64);
    let rt = tokio::runtime::Builder::new_multi_thread().worker_threads(2).enable_all().build().unwrap();
    rt.block_on(async move {
        let ctx = crate::ctxutil::simple_ctx(&crate::ctxutil::Opts { allow_private: true, ipv6_available: true }, None);
        // echo servers record the source port of every datagram and answer with the same payload
        let seen: Arc<Mutex<Vec<(usize, u16, Vec<u8>)>>> = Arc::new(Mutex::new(vec![]));
        let mut dests: Vec<SocketAddr> = vec![];
        // one "DNS" address per harness process, so that parallel shards do not collide on port 53
        let pid = std::process::id();
        let dns_bind = format!("127.{}.{}.{}:53", 1 + (pid >> 16) % 200, (pid >> 8) & 255, pid & 255);
        for (i, bind) in ["127.0.0.1:0", "127.0.0.1:0", dns_bind.as_str()].iter().enumerate() {
            let s = match UdpSocket::bind(bind).await {
                Ok(s) => s,
                Err(_) => return vec![vec![996]],
            };
            dests.push(s.local_addr().unwrap());
            let seen = seen.clone();
            tokio::spawn(async move {
                let mut buf = vec![0u8; 70000];
                loop {
                    if let Ok((n, from)) = s.recv_from(&mut buf).await {
                        seen.lock().unwrap().push((i, from.port(), buf[..n].to_vec()));
                        let _ = s.send_to(&buf[..n], from).await;
                    }
                }
            });
        }
        // a port nobody listens on
        let closed = {
            let s = UdpSocket::bind("127.0.0.1:0").await.unwrap();
            let a = s.local_addr().unwrap();
            drop(s);
            a
        };
        dests.push(closed);
        dests.push("255.255.255.255:9".parse().unwrap());
        let (tx_in, rx_in) = mpsc::channel(64);
        let (tx_out, mut rx_out) = mpsc::unbounded_channel::<udp::Datagram>();
        let ctx2 = ctx.clone();
        let mux = tokio::spawn(async move { udp::run_multiplexer(&ctx2, rx_in, tx_out, timeout, |_, _| {}).await });
        // flows: (client source, destination kind)
        let flow = |f: u128| -> (SocketAddr, SocketAddr) {
            let src: SocketAddr = format!("10.8.0.{}:{}", 2 + (f / 8), 40000 + f).parse().unwrap();
            (src, dests[(f % 8).min(4) as usize])
        };
        let mut out = vec![];
        let mut counter: u8 = 0;
        let mut ports: HashMap<u16, u128> = HashMap::new();
        for op in &toks[1..] {
            match op[0] {
                1 => {
                    let (src, dst) = flow(op[1]);
                    counter = counter.wrapping_add(1);
                    let mut payload = vec![counter; (op[2] as usize).max(1)];
                    payload[0] = counter;
                    let before = seen.lock().unwrap().len();
                    let _ = tx_in.send(udp::Datagram { source: src, destination: dst, payload: payload.clone() }).await;
                    // wait for the echo to come back to the client (or give up)
                    let mut reply = None;
                    let wait_ms = if (op[1] % 8) >= 3 { 25 } else { 150 };
                    let r = tokio::time::timeout(Duration::from_millis(wait_ms), async {
                        loop {
                            match rx_out.recv().await {
                                Some(d) if d.payload == payload => break Some(d),
                                Some(_) => continue,
                                None => break None,
                            }
                        }
                    })
                    .await;
                    if let Ok(Some(d)) = r {
                        reply = Some(d);
                    }
                    let s = seen.lock().unwrap();
                    let got = s[before..].iter().find(|x| x.2 == payload).cloned();
                    let (server_got, port_id) = match got {
                        Some((_, port, _)) => {
                            let n = ports.len() as u128 + 1;
                            (1, *ports.entry(port).or_insert(n))
                        }
                        None => (0, 0),
                    };
                    let (reply_got, label_ok) = match reply {
                        Some(d) => (1, (d.source == dst && d.destination == src) as u128),
                        None => (0, 0),
                    };
                    out.push(vec![1, server_got, port_id, reply_got, label_ok]);
                }
                2 => {
                    tokio::time::sleep(Duration::from_millis(op[1] as u64)).await;
                    out.push(vec![2]);
                }
                _ => {
                    // let the pipe finish what the last datagram triggered
                    tokio::time::sleep(Duration::from_millis(30)).await;
                    let g = metrics::snapshot(&ctx).outbound_udp_sockets;
                    out.push(vec![3, g.max(0) as u128, (!mux.is_finished()) as u128]);
                }
            }
        }
        drop(tx_in);
        out
    })
}
