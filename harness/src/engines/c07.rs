//! The real UDP multiplexer with real loopback sockets (real time, short timeouts).
//! in : [timeout_ms] then ops
//!        [1, flow, len]        client datagram on flow (payload = len bytes tagged with a running number)
//!        [2, ms]               sleep
//!        [3]                   observe: open outbound sockets (gauge), multiplexer alive
//!        [4]                   observe: socket descriptors open in this process now and before the first operation, gauge, multiplexer alive
//!      flows: index into the fixed table below (client source address, destination kind)
//! out: per op:
//!        datagram -> [1, server_got (0|1), distinct source-port id at the server, reply_got (0|1), reply label ok (0|1)]
//!        sleep    -> [2]
//!        observe  -> [3, gauge, alive]
//!        observe  -> [4, socket descriptors now, socket descriptors before the first operation, gauge, alive]
use crate::util::*;
use std::collections::HashMap;
use std::net::SocketAddr;
use std::sync::{Arc, Mutex};
use std::time::Duration;
use tokio::net::UdpSocket;
use tokio::sync::mpsc;
use trusttunnel::verif::{metrics, udp};

/// destination kinds: 0 echo A, 1 echo B, 2 echo on port 53-like "dns" (real port 53 on 127.0.0.2),
/// 3 closed port (nobody listens), 4 unconnectable (limited broadcast: connect() is refused)
pub fn run(toks: Vec<Tok>) -> Vec<Tok> {
    let timeout = Duration::from_millis(toks[0][0] as u64);
    let rt = tokio::runtime::Builder::new_multi_thread().worker_threads(2).enable_all().build().unwrap();
    rt.block_on(async move {
        let ctx = crate::ctxutil::simple_ctx(&crate::ctxutil::Opts { allow_private: true, ipv6_available: true }, None);
        // echo servers record the source port of every datagram and answer with the same payload
        let seen: Arc<Mutex<Vec<(usize, u16, Vec<u8>)>>> = Arc::new(Mutex::new(vec![]));
        let mut dests: Vec<SocketAddr> = vec![];
        // one "DNS" address per harness process, so that parallel shards do not collide on port 53
        let pid = std::process::id();
        let dns_bind = format!("127.{}.{}.{}:53", 1 + (pid >> 16) % 200, (pid >> 8) & 255, pid & 255);
        for (i, bind) in ["127.0.0.1:0", "127.0.0.1:0", dns_bind.as_str()].iter().enumerate() {
            let s = match UdpSocket::bind(bind).await {
                Ok(s) => s,
                Err(_) => return vec![vec![996]],
            };
            dests.push(s.local_addr().unwrap());
            let seen = seen.clone();
            tokio::spawn(async move {
                let mut buf = vec![0u8; 70000];
                loop {
                    if let Ok((n, from)) = s.recv_from(&mut buf).await {
                        seen.lock().unwrap().push((i, from.port(), buf[..n].to_vec()));
                        let _ = s.send_to(&buf[..n], from).await;
                    }
                }
            });
        }
        // a port nobody listens on
        let closed = {
            let s = UdpSocket::bind("127.0.0.1:0").await.unwrap();
            let a = s.local_addr().unwrap();
            drop(s);
            a
        };
        dests.push(closed);
        dests.push("255.255.255.255:9".parse().unwrap());
        let (tx_in, rx_in) = mpsc::channel(64);
        let (tx_out, mut rx_out) = mpsc::unbounded_channel::<udp::Datagram>();
        let ctx2 = ctx.clone();
        let mux = tokio::spawn(async move { udp::run_multiplexer(&ctx2, rx_in, tx_out, timeout, |_, _| {}).await });
        // flows: (client source, destination kind)
        let flow = |f: u128| -> (SocketAddr, SocketAddr) {
            let src: SocketAddr = format!("10.8.0.{}:{}", 2 + (f / 8), 40000 + f).parse().unwrap();
            (src, dests[(f % 8).min(4) as usize])
        };
        let mut out = vec![];
        let mut counter: u8 = 0;
        let mut ports: HashMap<u16, u128> = HashMap::new();
        // the descriptors of everything that is not a flow (echo servers, runtime), counted before any flow exists
        tokio::time::sleep(Duration::from_millis(20)).await;
        let fd_baseline = open_socket_fds();
        if fd_baseline.is_none() && toks[1..].iter().any(|op| op[0] == 4) {
            return vec![vec![996]];
        }
        for op in &toks[1..] {
            match op[0] {
                1 => {
                    let (src, dst) = flow(op[1]);
                    counter = counter.wrapping_add(1);
                    let mut payload = vec![counter; (op[2] as usize).max(1)];
                    payload[0] = counter;
                    let before = seen.lock().unwrap().len();
                    let _ = tx_in.send(udp::Datagram { source: src, destination: dst, payload: payload.clone() }).await;
                    // wait for the echo to come back to the client (or give up)
                    let mut reply = None;
                    let wait_ms = if (op[1] % 8) >= 3 { 25 } else { 150 };
                    let r = tokio::time::timeout(Duration::from_millis(wait_ms), async {
                        loop {
                            match rx_out.recv().await {
                                Some(d) if d.payload == payload => break Some(d),
                                Some(_) => continue,
                                None => break None,
                            }
                        }
                    })
                    .await;
                    if let Ok(Some(d)) = r {
                        reply = Some(d);
                    }
                    let s = seen.lock().unwrap();
                    let got = s[before..].iter().find(|x| x.2 == payload).cloned();
                    let (server_got, port_id) = match got {
                        Some((_, port, _)) => {
                            let n = ports.len() as u128 + 1;
                            (1, *ports.entry(port).or_insert(n))
                        }
                        None => (0, 0),
                    };
                    let (reply_got, label_ok) = match reply {
                        Some(d) => (1, (d.source == dst && d.destination == src) as u128),
                        None => (0, 0),
                    };
                    out.push(vec![1, server_got, port_id, reply_got, label_ok]);
                }
                2 => {
                    tokio::time::sleep(Duration::from_millis(op[1] as u64)).await;
                    out.push(vec![2]);
                }
                4 => {
                    tokio::time::sleep(Duration::from_millis(30)).await;
                    let Some(now) = open_socket_fds() else { return vec![vec![996]] };
                    let g = metrics::snapshot(&ctx).outbound_udp_sockets;
                    out.push(vec![4, now, fd_baseline.unwrap_or(0), g.max(0) as u128, (!mux.is_finished()) as u128]);
                }
                _ => {
                    // let the pipe finish what the last datagram triggered
                    tokio::time::sleep(Duration::from_millis(30)).await;
                    let g = metrics::snapshot(&ctx).outbound_udp_sockets;
                    out.push(vec![3, g.max(0) as u128, (!mux.is_finished()) as u128]);
                }
            }
        }
        drop(tx_in);
        out
    })
}

/// A socket error seen by the READING side of one flow (the peer answers and goes away, the client sends once
/// more before the reply is read: the pending ICMP error is reported by the next recv), on the single-threaded
/// runtime so that the order is by construction.
/// in : [timeout_ms]
/// out: [996] | [q1 reached the peer, one of three later datagrams on the same pair reached the restarted peer,
///       its reply came back with the right label, bystander flow still works, multiplexer alive,
///       open outbound sockets after everything has been idle for > 2 x timeout,
///       the failed flow's local port can be bound again by then]
pub fn read_error(toks: Vec<Tok>) -> Vec<Tok> {
    let timeout = Duration::from_millis(toks[0][0] as u64);
    let rt = tokio::runtime::Builder::new_current_thread().enable_all().build().unwrap();
    rt.block_on(async move {
        let ctx = crate::ctxutil::simple_ctx(&crate::ctxutil::Opts { allow_private: true, ipv6_available: true }, None);
        let (tx_in, rx_in) = mpsc::channel(64);
        let (tx_out, mut rx_out) = mpsc::unbounded_channel::<udp::Datagram>();
        let ctx2 = ctx.clone();
        let mux = tokio::spawn(async move { udp::run_multiplexer(&ctx2, rx_in, tx_out, timeout, |_, _| {}).await });
        let bind = |a: SocketAddr| -> Option<std::net::UdpSocket> {
            let s = std::net::UdpSocket::bind(a).ok()?;
            s.set_nonblocking(true).ok()?;
            Some(s)
        };
        async fn receives(s: &std::net::UdpSocket, want: &[u8]) -> Option<SocketAddr> {
            let mut buf = [0u8; 256];
            for _ in 0..40 {
                match s.recv_from(&mut buf) {
                    Ok((n, from)) if &buf[..n] == want => return Some(from),
                    Ok(_) => continue,
                    Err(_) => tokio::time::sleep(Duration::from_millis(10)).await,
                }
            }
            None
        }
        let client: SocketAddr = "10.8.0.2:40001".parse().unwrap();
        let other: SocketAddr = "10.8.0.2:40002".parse().unwrap();
        let Some(bystander) = bind("127.0.0.1:0".parse().unwrap()) else { return vec![vec![996]] };
        let by_addr = bystander.local_addr().unwrap();
        let _ = tx_in.try_send(udp::Datagram { source: other, destination: by_addr, payload: b"b1".to_vec() });
        let b1 = receives(&bystander, b"b1").await.is_some();
        let Some(peer) = bind("127.0.0.1:0".parse().unwrap()) else { return vec![vec![996]] };
        let peer_addr = peer.local_addr().unwrap();
        let _ = tx_in.try_send(udp::Datagram { source: client, destination: peer_addr, payload: b"q1".to_vec() });
        let flow_sock = receives(&peer, b"q1").await;
        let q1 = flow_sock.is_some();
        if let Some(fs) = flow_sock {
            // no yielding from here ...
            let _ = peer.send_to(b"r1", fs);
            drop(peer);
            let _ = tx_in.try_send(udp::Datagram { source: client, destination: peer_addr, payload: b"q2".to_vec() });
            // ... to here
        } else {
            drop(peer);
        }
        tokio::time::sleep(Duration::from_millis(150)).await;
        while rx_out.try_recv().is_ok() {}
        // the peer is back on the same port: later datagrams on the same pair must get through again
        let mut later = 0u128;
        let mut reply_ok = 0u128;
        if let Some(peer) = bind(peer_addr) {
            for q in [b"q3", b"q4", b"q5"] {
                let _ = tx_in.try_send(udp::Datagram { source: client, destination: peer_addr, payload: q.to_vec() });
                if let Some(from) = receives(&peer, q).await {
                    later = 1;
                    let _ = peer.send_to(b"r3", from);
                    let r = tokio::time::timeout(Duration::from_millis(500), async {
                        loop {
                            match rx_out.recv().await {
                                Some(d) if d.payload == b"r3" => break Some(d),
                                Some(_) => continue,
                                None => break None,
                            }
                        }
                    })
                    .await;
                    if let Ok(Some(d)) = r {
                        reply_ok = (d.source == peer_addr && d.destination == client) as u128;
                    }
                    break;
                }
            }
        } else {
            return vec![vec![996]];
        }
        let _ = tx_in.try_send(udp::Datagram { source: other, destination: by_addr, payload: b"b2".to_vec() });
        let b2 = receives(&bystander, b"b2").await.is_some();
        let alive = !mux.is_finished();
        // everything idle for more than two timeouts: no flow is left, so no socket may be left
        tokio::time::sleep(2 * timeout + Duration::from_millis(400)).await;
        let g = metrics::snapshot(&ctx).outbound_udp_sockets;
        let port_free = match flow_sock {
            Some(fs) => std::net::UdpSocket::bind(fs).is_ok() as u128,
            None => 1,
        };
        drop(tx_in);
        vec![vec![q1 as u128, later, reply_ok, (b1 && b2) as u128, alive as u128, g.max(0) as u128, port_free]]
    })
}

/// The UDP multiplexer through the real endpoint (`Core::listen` on a loopback port), direct forwarder: `CONNECT _udp2` over
/// HTTP/1.1-TLS, HTTP/2-TLS or HTTP/3-QUIC; `flows` client flows (distinct source ports) to two echo peers on loopback, `rounds`
/// datagrams on each, interleaved.
/// in : [proto (1|2|3), flows, rounds, payload length]
/// out: [996] | [status, datagrams the peers received, replies the client got with the right payload, replies labelled with their flow's
///       destination as source and its source as destination, distinct outbound source ports seen by the peers]
pub fn front(toks: Vec<Tok>) -> Vec<Tok> {
    use tokio::io::{AsyncReadExt, AsyncWriteExt};
    use trusttunnel::settings::{Http1Settings, Http2Settings, ListenProtocolSettings, QuicSettings, Settings};
    let f = toks[0].clone();
    let rt = tokio::runtime::Builder::new_multi_thread().worker_threads(3).enable_all().build().unwrap();
    rt.block_on(async move {
        let (proto, flows, rounds, plen) = (f[0], f[1] as usize, f[2] as usize, f[3] as usize);
        let seen: Arc<Mutex<Vec<(usize, u16, Vec<u8>)>>> = Arc::new(Mutex::new(vec![]));
        let mut peers = vec![];
        for i in 0..2usize {
            let Ok(s) = UdpSocket::bind("127.0.0.1:0").await else { return vec![vec![996]] };
            peers.push(s.local_addr().unwrap());
            let seen = seen.clone();
            tokio::spawn(async move {
                let mut buf = vec![0u8; 70000];
                loop {
                    if let Ok((n, from)) = s.recv_from(&mut buf).await {
                        seen.lock().unwrap().push((i, from.port(), buf[..n].to_vec()));
                        let back: Vec<u8> = buf[..n].iter().rev().cloned().collect();
                        let _ = s.send_to(&back, from).await;
                    }
                }
            });
        }
        let make = move |addr: SocketAddr| {
            Settings::builder()
                .listen_address(addr)
                .unwrap()
                .listen_protocols(ListenProtocolSettings {
                    http1: Some(Http1Settings::builder().build()),
                    http2: Some(Http2Settings::builder().build()),
                    quic: if proto == 3 { Some(QuicSettings::builder().build()) } else { None },
                })
                .allow_private_network_connections(true)
                .build()
                .unwrap()
        };
        let Some(ep) = crate::front::start(make, crate::ctxutil::basic_hosts, None).await else {
            return vec![vec![996]];
        };
        // what goes to the endpoint, in order; what is expected back per (flow, round)
        let src_of = |fl: usize| -> ([u8; 4], u16) { ([10, 8, 0, 2], 4000 + fl as u16) };
        let payload_of = |fl: usize, r: usize| -> Vec<u8> { (0..plen.max(2)).map(|k| if k == 0 { fl as u8 } else if k == 1 { r as u8 } else { (k * 5 + fl * 11 + r * 3) as u8 }).collect() };
        let mut stream_out: Vec<Vec<u8>> = vec![];
        for r in 0..rounds {
            for fl in 0..flows {
                let dst = peers[fl % 2];
                let (sip, sport) = src_of(fl);
                let mut body = vec![0u8; 12];
                body.extend_from_slice(&sip);
                body.extend_from_slice(&sport.to_be_bytes());
                body.extend_from_slice(&[0u8; 12]);
                body.extend_from_slice(&[127, 0, 0, 1]);
                body.extend_from_slice(&dst.port().to_be_bytes());
                body.push(0);
                body.extend_from_slice(&payload_of(fl, r));
                let mut pkt = (body.len() as u32).to_be_bytes().to_vec();
                pkt.extend_from_slice(&body);
                stream_out.push(pkt);
            }
        }
        let total = flows * rounds;
        let mut inbox: Vec<u8> = vec![];
        let mut status = 0u128;
        if proto == 1 {
            let Some(mut s) = crate::front::tls_connect(ep.addr, "localhost", &[b"http/1.1"]).await else { return vec![vec![996]] };
            let _ = s.write_all(b"CONNECT _udp2 HTTP/1.1\r\nHost: x\r\n\r\n").await;
            let mut acc = vec![];
            let mut buf = [0u8; 16384];
            while !acc.windows(4).any(|w| w == b"\r\n\r\n") {
                match tokio::time::timeout(Duration::from_secs(3), s.read(&mut buf)).await {
                    Ok(Ok(n)) if n > 0 => acc.extend_from_slice(&buf[..n]),
                    _ => break,
                }
            }
            status = String::from_utf8_lossy(&acc).split(' ').nth(1).and_then(|x| x.parse().ok()).unwrap_or(0);
            if status == 200 {
                let p = acc.windows(4).position(|w| w == b"\r\n\r\n").unwrap() + 4;
                inbox.extend_from_slice(&acc[p..]);
                for pkt in &stream_out {
                    let _ = s.write_all(pkt).await;
                    tokio::time::sleep(Duration::from_millis(2)).await;
                }
                let deadline = tokio::time::Instant::now() + Duration::from_secs(3);
                while count_frames(&inbox) < total {
                    match tokio::time::timeout_at(deadline, s.read(&mut buf)).await {
                        Ok(Ok(n)) if n > 0 => inbox.extend_from_slice(&buf[..n]),
                        _ => break,
                    }
                }
            }
        } else if proto == 2 {
            let Some(s) = crate::front::tls_connect(ep.addr, "localhost", &[b"h2"]).await else { return vec![vec![996]] };
            let Ok(Ok((send, conn))) = tokio::time::timeout(Duration::from_secs(3), h2::client::handshake(s)).await else { return vec![vec![996]] };
            let driver = tokio::spawn(async move {
                let _ = conn.await;
            });
            let req = http::Request::builder().method("CONNECT").uri("_udp2").body(()).unwrap();
            if let Ok(mut sr) = send.clone().ready().await {
                if let Ok((resp, mut stream)) = sr.send_request(req, false) {
                    if let Ok(Ok(resp)) = tokio::time::timeout(Duration::from_secs(3), resp).await {
                        status = resp.status().as_u16() as u128;
                        let mut body = resp.into_body();
                        if status == 200 {
                            for pkt in &stream_out {
                                let _ = stream.send_data(bytes::Bytes::from(pkt.clone()), false);
                                tokio::time::sleep(Duration::from_millis(2)).await;
                            }
                            let deadline = tokio::time::Instant::now() + Duration::from_secs(3);
                            while count_frames(&inbox) < total {
                                match tokio::time::timeout_at(deadline, body.data()).await {
                                    Ok(Some(Ok(c))) => {
                                        let _ = body.flow_control().release_capacity(c.len());
                                        inbox.extend_from_slice(&c);
                                    }
                                    _ => break,
                                }
                            }
                        }
                    }
                }
            }
            driver.abort();
        } else {
            let Some(mut c) = crate::front::H3Client::connect(ep.addr, "localhost").await else { return vec![vec![996]] };
            let hs = vec![(b":method".to_vec(), b"CONNECT".to_vec()), (b":authority".to_vec(), b"_udp2".to_vec()), (b"user-agent".to_vec(), b"verif".to_vec())];
            if let Some(id) = c.request(&hs, false) {
                c.drive(Duration::from_secs(3), |x| x.streams[&id].headers.is_some() || x.is_shut()).await;
                status = c.streams[&id].status() as u128;
                if status == 200 {
                    for pkt in &stream_out {
                        c.send_body(id, pkt, false).await;
                        c.drive(Duration::from_millis(2), |_| false).await;
                    }
                    let started = tokio::time::Instant::now();
                    while count_frames(&c.streams[&id].data) < total && started.elapsed() < Duration::from_secs(3) && !c.is_shut() {
                        c.drive(Duration::from_millis(20), |_| false).await;
                    }
                    inbox = c.streams[&id].data.clone();
                }
            }
            c.close();
        }
        // replies: length, source (16 + 2), destination (16 + 2), payload
        let mut good = 0u128;
        let mut labelled = 0u128;
        let mut i = 0;
        while inbox.len() >= i + 4 {
            let ln = u32::from_be_bytes([inbox[i], inbox[i + 1], inbox[i + 2], inbox[i + 3]]) as usize;
            if inbox.len() < i + 4 + ln || ln < 36 {
                break;
            }
            let d = &inbox[i + 4..i + 4 + ln];
            i += 4 + ln;
            let pl = &d[36..];
            if pl.len() >= 2 {
                // the peers answer with the payload reversed: flow and round are its last two bytes
                let (fl, r) = (pl[pl.len() - 1] as usize, pl[pl.len() - 2] as usize);
                if fl < flows && r < rounds {
                    let want: Vec<u8> = payload_of(fl, r).into_iter().rev().collect();
                    good += (pl == &want[..]) as u128;
                    let dst = peers[fl % 2];
                    let (sip, sport) = src_of(fl);
                    let ok = d[..12] == [0u8; 12] && d[12..16] == [127, 0, 0, 1] && d[16..18] == dst.port().to_be_bytes() && d[18..30] == [0u8; 12] && d[30..34] == sip && d[34..36] == sport.to_be_bytes();
                    labelled += ok as u128;
                }
            }
        }
        let s = seen.lock().unwrap();
        let ports: std::collections::HashSet<u16> = s.iter().map(|x| x.1).collect();
        vec![vec![status, s.len() as u128, good, labelled, ports.len() as u128]]
    })
}

fn count_frames(b: &[u8]) -> usize {
    let (mut i, mut n) = (0, 0);
    while b.len() >= i + 4 {
        let ln = u32::from_be_bytes([b[i], b[i + 1], b[i + 2], b[i + 3]]) as usize;
        if b.len() < i + 4 + ln {
            break;
        }
        i += 4 + ln;
        n += 1;
    }
    n
}
