//! Graceful shutdown of the real endpoint (`Core::listen` on a loopback port) while an HTTP/2 tunnel is in the middle of a slow
//! download and its client reads all the time: GOAWAY lets the stream in flight run to its end.
//! in : [chunks of 1 KiB the destination writes, ms between two chunks, bytes the client has read when the shutdown is submitted]
//! out: [996] | [bytes the client received (all 0x37, else 997 is reported instead of the count),
//!       the stream ended cleanly (END_STREAM, no error) 0|1,
//!       ms from the submission to the end of the stream,
//!       completion returned (within 8 s of the end of the stream) 0|1,
//!       ms from the submission to the return of completion (0 when it did not return),
//!       completion had returned more than 300 ms before the client saw the end of the stream 0|1,
//!       the destination wrote all of its chunks 0|1]
//! The client ends its own half of the stream as soon as it has seen the end of the download, and drops its handles, so that
//! nothing but the session's own wind-down stands between the end of the stream and completion.
use crate::util::*;
use std::sync::atomic::{AtomicBool, Ordering};
use std::sync::Arc;
use std::time::{Duration, Instant};
use tokio::io::AsyncWriteExt;
use tokio::net::TcpListener;
use trusttunnel::settings::{Http1Settings, Http2Settings, ListenProtocolSettings, QuicSettings, Settings};

pub fn run(toks: Vec<Tok>) -> Vec<Tok> {
    let chunks = toks[0][0] as usize;
    let every = Duration::from_millis(toks[0][1] as u64);
    let submit_after = toks[0][2] as usize;
    let rt = tokio::runtime::Builder::new_multi_thread().worker_threads(3).enable_all().build().unwrap();
    rt.block_on(async move {
        // the destination: writes one chunk every `every`, then closes
        let l = TcpListener::bind("127.0.0.1:0").await.unwrap();
        let slow = l.local_addr().unwrap();
        let wrote_all = Arc::new(AtomicBool::new(false));
        tokio::spawn({
            let wrote_all = wrote_all.clone();
            async move {
                if let Ok((mut s, _)) = l.accept().await {
                    for _ in 0..chunks {
                        if s.write_all(&[0x37u8; 1024]).await.is_err() {
                            return;
                        }
                        tokio::time::sleep(every).await;
                    }
                    wrote_all.store(true, Ordering::SeqCst);
                    let _ = s.shutdown().await;
                }
            }
        });
        let make = move |addr: std::net::SocketAddr| {
            Settings::builder()
                .listen_address(addr)
                .unwrap()
                .listen_protocols(ListenProtocolSettings {
                    http1: Some(Http1Settings::builder().build()),
                    http2: Some(Http2Settings::builder().build()),
                    quic: Some(QuicSettings::builder().build()),
                })
                .allow_private_network_connections(true)
                .build()
                .unwrap()
        };
        let Some(mut ep) = crate::front::start(make, crate::ctxutil::basic_hosts, None).await else {
            return vec![vec![996]];
        };
        let Some(s) = crate::front::tls_connect(ep.addr, "localhost", &[b"h2"]).await else {
            return vec![vec![996]];
        };
        let Ok(Ok((send, conn))) = tokio::time::timeout(Duration::from_secs(3), h2::client::handshake(s)).await else {
            return vec![vec![996]];
        };
        let driver = tokio::spawn(async move { conn.await.is_ok() });
        let req = http::Request::builder().method("CONNECT").uri(slow.to_string().as_str()).body(()).unwrap();
        let Ok(mut sr) = send.ready().await else {
            return vec![vec![996]];
        };
        let Ok((resp, mut stream)) = sr.send_request(req, false) else {
            return vec![vec![996]];
        };
        let resp = match tokio::time::timeout(Duration::from_secs(3), resp).await {
            Ok(Ok(r)) if r.status() == 200 => r,
            _ => return vec![vec![996]],
        };
        let mut body = resp.into_body();

        // the client reads all the time; the shutdown is submitted, as endpoint/src/main.rs does it, once `submit_after` bytes are in
        let shutdown = ep.shutdown.clone();
        let mut submitted: Option<Instant> = None;
        let mut completion_rx: Option<tokio::sync::oneshot::Receiver<Instant>> = None;
        let (mut total, mut clean, mut foreign) = (0usize, false, false);
        // no chunk is later than the whole script plus 15 s: a stream that neither ends nor fails is reported as not clean
        let deadline = Instant::now() + every * chunks as u32 + Duration::from_secs(15);
        loop {
            if total >= submit_after && submitted.is_none() {
                shutdown.lock().unwrap().submit();
                submitted = Some(Instant::now());
                // the coordinator: waits for completion, under the lock, from the moment of the submission (a thread of its own:
                // the guard of a std mutex does not move between workers)
                let shutdown = shutdown.clone();
                let (tx, rx) = tokio::sync::oneshot::channel();
                completion_rx = Some(rx);
                std::thread::spawn(move || {
                    let rt = tokio::runtime::Builder::new_current_thread().enable_all().build().unwrap();
                    rt.block_on(async move {
                        let mut g = shutdown.lock().unwrap();
                        g.completion().await;
                    });
                    let _ = tx.send(Instant::now());
                });
            }
            match tokio::time::timeout_at(deadline.into(), body.data()).await {
                Ok(Some(Ok(c))) => {
                    foreign |= c.iter().any(|b| *b != 0x37);
                    total += c.len();
                    let _ = body.flow_control().release_capacity(c.len());
                }
                Ok(None) => {
                    clean = true;
                    break;
                }
                Ok(Some(Err(_))) | Err(_) => break,
            }
        }
        let ended = Instant::now();
        let Some(submitted) = submitted else {
            // the download ended before `submit_after` bytes had come: nothing was submitted, the scenario did not take place
            return vec![vec![996]];
        };
        let Some(mut completion_rx) = completion_rx else {
            return vec![vec![996]];
        };
        let early = completion_rx.try_recv().ok();
        // the client ends its half and lets go of the connection
        let _ = stream.send_data(bytes::Bytes::new(), true);
        drop(stream);
        drop(body);
        drop(sr);
        let completed_at = match early {
            Some(t) => Some(t),
            None => tokio::time::timeout(Duration::from_secs(8), completion_rx).await.ok().and_then(|r| r.ok()),
        };
        // completion before the client saw the end of the stream, by more than the time the last frame needs to travel and be handled
        let already = completed_at.map(|t| t + Duration::from_millis(300) < ended).unwrap_or(false);
        let _ = tokio::time::timeout(Duration::from_secs(2), driver).await;
        let _ = tokio::time::timeout(Duration::from_secs(1), &mut ep.task).await;
        vec![vec![
            if foreign { 997 } else { total as u128 },
            clean as u128,
            ended.duration_since(submitted).as_millis(),
            completed_at.is_some() as u128,
            completed_at.map(|t| t.duration_since(submitted).as_millis()).unwrap_or(0),
            already as u128,
            wrote_all.load(Ordering::SeqCst) as u128,
        ]]
    })
}
