//! Runs another engine's scenario with a trace-level log capture and searches the captured text for secrets.
//! in : [inner_engine, n] needle_1 ... needle_n  inner tokens...
//!        inner_engine: 1 c01_session | 18 c18_session | 5 TlsDemux::select on the SNI given as the only inner token (its result is logged
//!                      with {:?} by core.rs) | 6 one TLS connection to the real listener: [auth_cfg as c01_session, http2] server-name
//!                      (a `CONNECT _check` without credentials follows when the handshake is answered)
//!        needles: byte strings that must not occur in any log line, neither verbatim nor as the decimal byte array that `{:?}`
//!                 prints for a byte slice holding them (caplog::shows)
//! out: [lines captured, leaks, (999 = panic | 996 = the environment did not let the scenario run)] then per leaked needle
//!      [needle index] excerpt(bytes of the first offending line, 240 max)
use crate::util::*;

pub fn run(toks: Vec<Tok>) -> Vec<Tok> {
    let inner = toks[0][0];
    let n = toks[0][1] as usize;
    let needles: Vec<Vec<u8>> = toks[1..1 + n].iter().map(bytes).collect();
    let rest: Vec<Tok> = toks[1 + n..].to_vec();
    crate::caplog::start();
    let r = std::panic::catch_unwind(|| match inner {
        1 => crate::engines::c01::session(rest),
        18 => crate::engines::c18::session(rest),
        5 => {
            let ctx = crate::ctxutil::simple_ctx(&crate::ctxutil::Opts { allow_private: true, ipv6_available: true }, None);
            let sni = String::from_utf8_lossy(&bytes(&rest[0])).to_string();
            match trusttunnel::verif::demux::select_debug(&ctx, &[b"h2".to_vec()], &sni) {
                Ok(text) => log::debug!("Connection meta: {}", text),
                Err(e) => log::debug!("Dropping connection due to error: {}", e),
            }
            vec![]
        }
        6 => listener_connection(rest),
        _ => vec![],
    });
    // let detached tasks of the scenario say their last words
    std::thread::sleep(std::time::Duration::from_millis(50));
    let lines = crate::caplog::stop();
    let mut out = vec![vec![lines.len() as u128, 0]];
    match &r {
        Err(_) => out[0].push(999),
        Ok(x) if x.len() == 1 && x[0] == vec![996] => out[0].push(996),
        Ok(_) => {}
    }
    let mut leaks = 0;
    for (i, nd) in needles.iter().enumerate() {
        if nd.is_empty() {
            continue;
        }
        if let Some(l) = lines.iter().find(|l| crate::caplog::shows(l.as_bytes(), nd)) {
            leaks += 1;
            out.push(vec![i as u128]);
            out.push(tok(&excerpt(l.as_bytes(), nd)));
        }
    }
    out[0][1] = leaks;
    out
}

/// at most 240 bytes of the offending line, the place that shows the needle included
fn excerpt(line: &[u8], nd: &[u8]) -> Vec<u8> {
    let dec = crate::caplog::decimal_array(nd).into_bytes();
    let at = line
        .windows(nd.len())
        .position(|w| w == nd)
        .or_else(|| line.windows(dec.len().max(1)).position(|w| w == dec.as_slice()))
        .unwrap_or(0);
    let from = at.saturating_sub(120);
    line[from..line.len().min(from + 240)].to_vec()
}

/// inner engine 6: the real listener, one TLS connection with the given server name (which may name a host the endpoint does
/// not serve), then - when the endpoint answered the handshake - a CONNECT without credentials
fn listener_connection(toks: Vec<Tok>) -> Vec<Tok> {
    use tokio::io::{AsyncReadExt, AsyncWriteExt};
    use trusttunnel::authentication::registry_based::RegistryBasedAuthenticator;
    use trusttunnel::authentication::Authenticator;
    let cfg = toks[0].clone();
    let name = String::from_utf8_lossy(&bytes(&toks[1])).to_string();
    let rt = tokio::runtime::Builder::new_multi_thread().worker_threads(2).enable_all().build().unwrap();
    rt.block_on(async move {
        let auth: Option<std::sync::Arc<dyn Authenticator>> = match cfg[0] {
            0 => None,
            _ => Some(std::sync::Arc::new(RegistryBasedAuthenticator::new(&crate::engines::c01::clients()))),
        };
        let make_settings = |addr: std::net::SocketAddr| {
            use trusttunnel::settings::{Http1Settings, Http2Settings, ListenProtocolSettings, Settings};
            Settings::builder()
                .listen_address(addr)
                .unwrap()
                .listen_protocols(ListenProtocolSettings {
                    http1: Some(Http1Settings::builder().build()),
                    http2: Some(Http2Settings::builder().build()),
                    quic: None,
                })
                .allow_private_network_connections(true)
                .build()
                .unwrap()
        };
        let Some(endpoint) = crate::front::start(make_settings, crate::ctxutil::basic_hosts, auth).await else {
            return vec![vec![996]];
        };
        let alpn: &[&[u8]] = if cfg[1] == 1 { &[b"h2"] } else { &[b"http/1.1"] };
        let mut answered = 0u128;
        if let Some(mut s) = crate::front::tls_connect(endpoint.addr, &name, alpn).await {
            answered = 1;
            if cfg[1] != 1 {
                let _ = s.write_all(b"CONNECT _check HTTP/1.1\r\nHost: x\r\n\r\n").await;
            }
            let mut buf = [0u8; 256];
            let _ = tokio::time::timeout(std::time::Duration::from_millis(300), s.read(&mut buf)).await;
        }
        // the endpoint says what it does with the connection on a task of its own
        tokio::time::sleep(std::time::Duration::from_millis(100)).await;
        drop(endpoint);
        vec![vec![answered]]
    })
}

fn flat_pairs(t: &Tok) -> Vec<(String, Vec<u8>)> {
    let b = bytes(t);
    let mut out = vec![];
    let mut i = 0;
    while i < b.len() {
        let nl = b[i] as usize;
        let name = String::from_utf8_lossy(&b[i + 1..i + 1 + nl]).to_string();
        i += 1 + nl;
        let vl = b[i] as usize;
        let val = b[i + 1..i + 1 + vl].to_vec();
        i += 1 + vl;
        out.push((name, val));
    }
    out
}

/// in: headers(flat) sni [proxy_basic] value.  out: scrubbed headers(flat) scrubbed_sni debug_text
pub fn scrub(toks: Vec<Tok>) -> Vec<Tok> {
    use trusttunnel::verif::scrub;
    let hs = scrub::request_headers(&flat_pairs(&toks[0]));
    let mut h = vec![];
    for (n, v) in &hs {
        h.push(n.len() as u128);
        h.extend(n.bytes().map(|b| b as u128));
        h.push(v.len() as u128);
        h.extend(v.iter().map(|b| *b as u128));
    }
    let sni = scrub::sni(&String::from_utf8_lossy(&bytes(&toks[1])));
    let dbg = scrub::source_debug(toks[2][0] == 1, &String::from_utf8_lossy(&bytes(&toks[3])));
    vec![h, tok(sni.as_bytes()), tok(dbg.as_bytes())]
}
