//! Runs another engine's scenario with a trace-level log capture and searches the captured text for secrets.
//! in : [inner_engine, n] needle_1 ... needle_n  inner tokens...
//!        inner_engine: 1 c01_session | 18 c18_session | 5 TlsDemux::select on the SNI given as the only inner token (its result is logged
//!                      with {:?} by core.rs)
//!        needles: byte strings that must not occur in any log line
//! out: [lines captured, leaks] then per leaked needle [needle index] excerpt(bytes of the first offending line, 240 max)
use crate::util::*;

pub fn run(toks: Vec<Tok>) -> Vec<Tok> {
    let inner = toks[0][0];
    let n = toks[0][1] as usize;
    let needles: Vec<Vec<u8>> = toks[1..1 + n].iter().map(bytes).collect();
    let rest: Vec<Tok> = toks[1 + n..].to_vec();
    crate::caplog::start();
    let r = std::panic::catch_unwind(|| match inner {
        1 => crate::engines::c01::session(rest),
        18 => crate::engines::c18::session(rest),
        5 => {
            let ctx = crate::ctxutil::simple_ctx(&crate::ctxutil::Opts { allow_private: true, ipv6_available: true }, None);
            let sni = String::from_utf8_lossy(&bytes(&rest[0])).to_string();
            match trusttunnel::verif::demux::select_debug(&ctx, &[b"h2".to_vec()], &sni) {
                Ok(text) => log::debug!("Connection meta: {}", text),
                Err(e) => log::debug!("Dropping connection due to error: {}", e),
            }
            vec![]
        }
        _ => vec![],
    });
    // let detached tasks of the scenario say their last words
    std::thread::sleep(std::time::Duration::from_millis(50));
    let lines = crate::caplog::stop();
    let mut out = vec![vec![lines.len() as u128, 0]];
    if r.is_err() {
        out[0].push(999);
    }
    let mut leaks = 0;
    for (i, nd) in needles.iter().enumerate() {
        if nd.is_empty() {
            continue;
        }
        if let Some(l) = lines.iter().find(|l| l.as_bytes().windows(nd.len()).any(|w| w == nd.as_slice())) {
            leaks += 1;
            out.push(vec![i as u128]);
            out.push(tok(&l.as_bytes()[..l.len().min(240)]));
        }
    }
    out[0][1] = leaks;
    out
}

fn flat_pairs(t: &Tok) -> Vec<(String, Vec<u8>)> {
    let b = bytes(t);
    let mut out = vec![];
    let mut i = 0;
    while i < b.len() {
        let nl = b[i] as usize;
        let name = String::from_utf8_lossy(&b[i + 1..i + 1 + nl]).to_string();
        i += 1 + nl;
        let vl = b[i] as usize;
        let val = b[i + 1..i + 1 + vl].to_vec();
        i += 1 + vl;
        out.push((name, val));
    }
    out
}

/// in: headers(flat) sni [proxy_basic] value.  out: scrubbed headers(flat) scrubbed_sni debug_text
pub fn scrub(toks: Vec<Tok>) -> Vec<Tok> {
    use trusttunnel::verif::scrub;
    let hs = scrub::request_headers(&flat_pairs(&toks[0]));
    let mut h = vec![];
    for (n, v) in &hs {
        h.push(n.len() as u128);
        h.extend(n.bytes().map(|b| b as u128));
        h.push(v.len() as u128);
        h.extend(v.iter().map(|b| *b as u128));
    }
    let sni = scrub::sni(&String::from_utf8_lossy(&bytes(&toks[1])));
    let dbg = scrub::source_debug(toks[2][0] == 1, &String::from_utf8_lossy(&bytes(&toks[3])));
    vec![h, tok(sni.as_bytes()), tok(dbg.as_bytes())]
}
