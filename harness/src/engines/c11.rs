use crate::util::*;
use trusttunnel::verif::icmp;

/// in: bytes. out: [0,checksum] (two numbers, so that no checksum value reads as a sentinel)
pub fn checksum(toks: Vec<Tok>) -> Vec<Tok> {
    let b = toks.first().map(bytes).unwrap_or_default();
    vec![vec![0, icmp::rfc1071_checksum(&b) as u128]]
}

/// in: [v6, id, seq] data. out: serialized bytes
pub fn serialize_echo(toks: Vec<Tok>) -> Vec<Tok> {
    let m = &toks[0];
    let data = toks.get(1).map(bytes).unwrap_or_default();
    vec![tok(&icmp::serialize_echo(m[0] == 1, m[1] as u16, m[2] as u16, &data))]
}

/// in: one token per chunk. out: per chunk [1000+k] then per request [fam, v6msg, id, seq, ttl, datalen] ip-bytes
pub fn decode_requests(toks: Vec<Tok>) -> Vec<Tok> {
    let chunks: Vec<Vec<u8>> = toks.iter().map(bytes).collect();
    let mut out = vec![];
    for per in icmp::decode_requests(&chunks) {
        out.push(vec![1000 + per.len() as u128]);
        for r in per {
            let (f, ip) = ip_bytes(&r.peer);
            out.push(vec![
                f,
                r.v6_message as u128,
                r.identifier as u128,
                r.sequence_number as u128,
                r.ttl as u128,
                r.data_len as u128,
            ]);
            out.push(ip);
        }
    }
    out
}

/// in: [v6(0|1)] packet. out: [proto] payload | [997]
pub fn skip_header(toks: Vec<Tok>) -> Vec<Tok> {
    let v6 = toks[0][0] == 1;
    let p = toks.get(1).map(bytes).unwrap_or_default();
    let r = if v6 {
        icmp::skip_ipv6_header(&p)
    } else {
        icmp::skip_ipv4_header(&p)
    };
    match r {
        Some((proto, payload)) => vec![vec![proto as u128], tok(&payload)],
        None => vec![vec![997]],
    }
}

/// in: [v6, peerfam] peer-ip-bytes packet.
/// out: [997] on a deserialisation error, else [type, code, len, has_responded, has_encoded]
///      [id, seq] data encoded
pub fn parse_message(toks: Vec<Tok>) -> Vec<Tok> {
    let v6 = toks[0][0] == 1;
    let peer = ip_from_bytes(toks[0][1], &toks[1]);
    let p = toks.get(2).map(bytes).unwrap_or_default();
    match icmp::parse_message(v6, peer, &p) {
        Err(_) => vec![vec![997]],
        Ok(m) => {
            let mut out = vec![vec![
                m.type_id as u128,
                m.code as u128,
                m.len as u128,
                m.responded.is_some() as u128,
                m.encoded.is_some() as u128,
            ]];
            match m.responded {
                Some((id, seq, data)) => {
                    out.push(vec![id as u128, seq as u128]);
                    out.push(tok(&data));
                }
                None => {
                    out.push(vec![]);
                    out.push(vec![]);
                }
            }
            out.push(m.encoded.map(|e| tok(&e)).unwrap_or_default());
            out
        }
    }
}

/// in: [id1, seq1] data1 [id2, seq2] data2. out: [keys equal, a waiter stored under the first key is found by the second]
pub fn echo_eq(toks: Vec<Tok>) -> Vec<Tok> {
    let d1 = bytes(&toks[1]);
    let d2 = bytes(&toks[3]);
    let r = icmp::echo_keys_equal(
        (toks[0][0] as u16, toks[0][1] as u16, &d1),
        (toks[2][0] as u16, toks[2][1] as u16, &d2),
    );
    let f = icmp::echo_waiter_found(
        (toks[0][0] as u16, toks[0][1] as u16, &d1),
        (toks[2][0] as u16, toks[2][1] as u16, &d2),
    );
    vec![vec![r as u128, f as u128]]
}
