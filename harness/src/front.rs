//! The endpoint's real front door: `Core::new` + `Core::listen` on a loopback port (TCP and, when QUIC is enabled, UDP),
//! reached by a real TLS client (HTTP/1.1 bytes or an `h2` client on top) or by a real QUIC + HTTP/3 client (quiche).
use std::collections::HashMap;
use std::net::SocketAddr;
use std::sync::{Arc, Mutex};
use std::time::Duration;
use tokio::net::{TcpListener, TcpStream, UdpSocket};
use trusttunnel::authentication::Authenticator;
use trusttunnel::core::Core;
use trusttunnel::settings::{Settings, TlsHostsSettings};
use trusttunnel::shutdown::Shutdown;

pub struct Endpoint {
    pub addr: SocketAddr,
    pub shutdown: Arc<Mutex<Shutdown>>,
    pub task: tokio::task::JoinHandle<std::io::Result<()>>,
    pub core: Arc<Core>,
}

impl Drop for Endpoint {
    fn drop(&mut self) {
        self.task.abort();
    }
}

/// a port that is free for TCP and UDP on loopback right now
async fn free_port() -> Option<u16> {
    for _ in 0..20 {
        let t = TcpListener::bind("127.0.0.1:0").await.ok()?;
        let p = t.local_addr().ok()?.port();
        if UdpSocket::bind(("127.0.0.1", p)).await.is_ok() {
            return Some(p);
        }
    }
    None
}

/// Starts the endpoint; `None` = the environment did not let it listen (reported as 996 by the engines)
pub async fn start(
    make_settings: impl Fn(SocketAddr) -> Settings,
    hosts: impl Fn() -> TlsHostsSettings,
    auth: Option<Arc<dyn Authenticator>>,
) -> Option<Endpoint> {
    for _ in 0..5 {
        let port = free_port().await?;
        let addr: SocketAddr = ([127, 0, 0, 1], port).into();
        let shutdown = Shutdown::new();
        let core = Arc::new(Core::new(make_settings(addr), auth.clone(), hosts(), shutdown.clone()).ok()?);
        let c2 = core.clone();
        let task = tokio::spawn(async move { c2.listen().await });
        // listening? (a connect that succeeds; the listener accepts it and waits for a ClientHello)
        for _ in 0..50 {
            tokio::time::sleep(Duration::from_millis(10)).await;
            if task.is_finished() {
                break;
            }
            if TcpStream::connect(addr).await.is_ok() {
                return Some(Endpoint { addr, shutdown, task, core });
            }
        }
        task.abort();
    }
    None
}

pub struct NoVerify;
impl rustls::client::ServerCertVerifier for NoVerify {
    fn verify_server_cert(
        &self,
        _end_entity: &rustls::Certificate,
        _intermediates: &[rustls::Certificate],
        _server_name: &rustls::ServerName,
        _scts: &mut dyn Iterator<Item = &[u8]>,
        _ocsp_response: &[u8],
        _now: std::time::SystemTime,
    ) -> Result<rustls::client::ServerCertVerified, rustls::Error> {
        Ok(rustls::client::ServerCertVerified::assertion())
    }
}

pub type Tls = tokio_rustls::client::TlsStream<TcpStream>;

/// TLS client connection with the given SNI and ALPN offer
pub async fn tls_connect(addr: SocketAddr, server_name: &str, alpn: &[&[u8]]) -> Option<Tls> {
    let mut cfg = rustls::ClientConfig::builder()
        .with_safe_defaults()
        .with_custom_certificate_verifier(Arc::new(NoVerify))
        .with_no_client_auth();
    cfg.alpn_protocols = alpn.iter().map(|x| x.to_vec()).collect();
    let connector = tokio_rustls::TlsConnector::from(Arc::new(cfg));
    let name = rustls::ServerName::try_from(server_name).ok()?;
    let tcp = TcpStream::connect(addr).await.ok()?;
    let _ = tcp.set_nodelay(true);
    tokio::time::timeout(Duration::from_secs(5), connector.connect(name, tcp)).await.ok()?.ok()
}

/// One handshake with the given SNI: `Some(true)` completed, `Some(false)` refused by the peer, `None` inconclusive
/// (no TCP connection, or neither outcome within 5 s)
pub async fn tls_probe(addr: SocketAddr, server_name: &str, alpn: &[&[u8]]) -> Option<bool> {
    let mut cfg = rustls::ClientConfig::builder()
        .with_safe_defaults()
        .with_custom_certificate_verifier(Arc::new(NoVerify))
        .with_no_client_auth();
    cfg.alpn_protocols = alpn.iter().map(|x| x.to_vec()).collect();
    let connector = tokio_rustls::TlsConnector::from(Arc::new(cfg));
    let name = rustls::ServerName::try_from(server_name).ok()?;
    let tcp = tokio::time::timeout(Duration::from_secs(5), TcpStream::connect(addr)).await.ok()?.ok()?;
    let _ = tcp.set_nodelay(true);
    match tokio::time::timeout(Duration::from_secs(5), connector.connect(name, tcp)).await {
        Ok(Ok(_)) => Some(true),
        Ok(Err(_)) => Some(false),
        Err(_) => None,
    }
}

// ------------------------------------------------------------------------------------------------ HTTP/3

const MAX_UDP: usize = 1350;

#[derive(Default, Debug, Clone)]
pub struct H3Stream {
    pub headers: Option<Vec<(Vec<u8>, Vec<u8>)>>,
    pub extra_heads: usize,
    pub data: Vec<u8>,
    pub finished: bool,
    pub reset: bool,
}

impl H3Stream {
    pub fn status(&self) -> u16 {
        self.headers
            .as_ref()
            .and_then(|h| h.iter().find(|(n, _)| n == b":status"))
            .and_then(|(_, v)| std::str::from_utf8(v).ok()?.parse().ok())
            .unwrap_or(0)
    }
}

pub struct H3Client {
    socket: UdpSocket,
    local: SocketAddr,
    conn: quiche::Connection,
    h3: quiche::h3::Connection,
    pub streams: HashMap<u64, H3Stream>,
}

fn flush(socket: &UdpSocket, conn: &mut quiche::Connection) {
    let mut buf = [0u8; MAX_UDP];
    loop {
        match conn.send(&mut buf) {
            Ok((n, info)) => {
                if socket.try_send_to(&buf[..n], info.to).is_err() {
                    break;
                }
            }
            Err(_) => break,
        }
    }
}

fn read_socket(socket: &UdpSocket, local: SocketAddr, conn: &mut quiche::Connection) {
    let mut buf = [0u8; 65536];
    while let Ok((n, from)) = socket.try_recv_from(&mut buf) {
        let _ = conn.recv(&mut buf[..n], quiche::RecvInfo { from, to: local });
    }
}

impl H3Client {
    pub async fn connect(peer: SocketAddr, server_name: &str) -> Option<Self> {
        Self::connect_with_window(peer, server_name, 1_000_000).await
    }

    /// `window` = the flow-control window the client grants per stream (a small one makes the endpoint wait for credit)
    pub async fn connect_with_window(peer: SocketAddr, server_name: &str, window: u64) -> Option<Self> {
        let socket = UdpSocket::bind("127.0.0.1:0").await.ok()?;
        // the endpoint sends a response as many small packets: a default receive buffer overflows under such a burst,
        // and heavy loss is not what these scenarios are about
        {
            use std::os::unix::io::AsRawFd;
            let size: libc::c_int = 16 << 20;
            unsafe {
                let p = &size as *const _ as *const libc::c_void;
                let l = std::mem::size_of::<libc::c_int>() as libc::socklen_t;
                if libc::setsockopt(socket.as_raw_fd(), libc::SOL_SOCKET, libc::SO_RCVBUFFORCE, p, l) != 0 {
                    libc::setsockopt(socket.as_raw_fd(), libc::SOL_SOCKET, libc::SO_RCVBUF, p, l);
                }
            }
        }
        let local = socket.local_addr().ok()?;
        let mut scid = [0u8; quiche::MAX_CONN_ID_LEN];
        for (i, b) in scid.iter_mut().enumerate() {
            *b = (std::process::id() as usize * 31 + i * 7 + local.port() as usize) as u8;
        }
        let mut config = quiche::Config::new(quiche::PROTOCOL_VERSION).ok()?;
        config.verify_peer(false);
        config.set_max_idle_timeout(8000);
        config.set_max_recv_udp_payload_size(MAX_UDP);
        config.set_max_send_udp_payload_size(MAX_UDP);
        config.set_initial_max_data(10_000_000);
        config.set_initial_max_stream_data_bidi_local(window);
        config.set_initial_max_stream_data_bidi_remote(window);
        config.set_initial_max_stream_data_uni(1_000_000);
        config.set_initial_max_streams_bidi(100);
        config.set_initial_max_streams_uni(100);
        config.set_application_protos(quiche::h3::APPLICATION_PROTOCOL).ok()?;
        let mut conn = quiche::connect(Some(server_name), &quiche::ConnectionId::from_ref(&scid), local, peer, &mut config).ok()?;
        flush(&socket, &mut conn);
        let deadline = tokio::time::Instant::now() + Duration::from_secs(4);
        while !conn.is_established() {
            if conn.is_closed() || tokio::time::Instant::now() >= deadline {
                return None;
            }
            let t = conn.timeout().unwrap_or(Duration::from_millis(50)).min(Duration::from_millis(50));
            if tokio::time::timeout(t, socket.readable()).await.is_err() {
                conn.on_timeout();
            }
            read_socket(&socket, local, &mut conn);
            flush(&socket, &mut conn);
        }
        let h3 = quiche::h3::Connection::with_transport(&mut conn, &quiche::h3::Config::new().ok()?).ok()?;
        flush(&socket, &mut conn);
        Some(Self { socket, local, conn, h3, streams: HashMap::new() })
    }

    pub fn is_closed(&self) -> bool {
        self.conn.is_closed()
    }

    /// the peer closed the connection (CONNECTION_CLOSE received), or it is over for another reason
    pub fn is_shut(&self) -> bool {
        self.conn.is_closed() || self.conn.is_draining() || self.conn.peer_error().is_some()
    }

    /// (is an application close, error code, reason) of the peer's CONNECTION_CLOSE
    pub fn peer_close(&self) -> Option<(bool, u64, Vec<u8>)> {
        self.conn.peer_error().map(|e| (e.is_app, e.error_code, e.reason.clone()))
    }

    /// headers as (name, value) pairs, pseudo-headers first; returns the stream id
    pub fn request(&mut self, headers: &[(Vec<u8>, Vec<u8>)], fin: bool) -> Option<u64> {
        let list: Vec<quiche::h3::Header> = headers.iter().map(|(n, v)| quiche::h3::Header::new(n, v)).collect();
        let id = self.h3.send_request(&mut self.conn, &list, fin).ok()?;
        self.streams.insert(id, H3Stream::default());
        flush(&self.socket, &mut self.conn);
        Some(id)
    }

    /// sends the whole of `data` (driving the connection while flow control blocks), then `fin` if asked
    pub async fn send_body(&mut self, id: u64, data: &[u8], fin: bool) -> bool {
        let mut off = 0;
        let deadline = tokio::time::Instant::now() + Duration::from_secs(5);
        loop {
            match self.h3.send_body(&mut self.conn, id, &data[off..], fin) {
                Ok(n) => {
                    off += n;
                    if off >= data.len() {
                        flush(&self.socket, &mut self.conn);
                        return true;
                    }
                }
                Err(quiche::h3::Error::Done) | Err(quiche::h3::Error::StreamBlocked) => {}
                Err(_) => return false,
            }
            if tokio::time::Instant::now() >= deadline {
                return false;
            }
            self.drive(Duration::from_millis(20), |_| false).await;
        }
    }

    /// offers `data` once; returns how many bytes the stream took now (0 when flow control blocks)
    pub fn send_some(&mut self, id: u64, data: &[u8]) -> usize {
        let n = self.h3.send_body(&mut self.conn, id, data, false).unwrap_or(0);
        flush(&self.socket, &mut self.conn);
        n
    }

    /// the end of the request stream's sending side without any data (FIN)
    pub fn raw_fin(&mut self, id: u64) -> Result<usize, quiche::Error> {
        let r = self.conn.stream_send(id, &[], true);
        flush(&self.socket, &mut self.conn);
        r
    }

    /// RESET_STREAM on the request stream: the client gives up its sending side, the connection lives on
    pub fn reset_stream(&mut self, id: u64, code: u64) {
        let _ = self.conn.stream_shutdown(id, quiche::Shutdown::Write, code);
        flush(&self.socket, &mut self.conn);
    }

    fn poll_events(&mut self) {
        loop {
            match self.h3.poll(&mut self.conn) {
                Ok((id, quiche::h3::Event::Headers { list, .. })) => {
                    use quiche::h3::NameValue;
                    let s = self.streams.entry(id).or_default();
                    let l: Vec<(Vec<u8>, Vec<u8>)> = list.iter().map(|h| (h.name().to_vec(), h.value().to_vec())).collect();
                    if s.headers.is_none() {
                        s.headers = Some(l);
                    } else {
                        s.extra_heads += 1;
                    }
                }
                Ok((id, quiche::h3::Event::Data)) => {
                    let mut buf = [0u8; 65536];
                    while let Ok(n) = self.h3.recv_body(&mut self.conn, id, &mut buf) {
                        self.streams.entry(id).or_default().data.extend_from_slice(&buf[..n]);
                    }
                }
                Ok((id, quiche::h3::Event::Finished)) => self.streams.entry(id).or_default().finished = true,
                Ok((id, quiche::h3::Event::Reset(_))) => self.streams.entry(id).or_default().reset = true,
                Ok(_) => {}
                Err(_) => break,
            }
        }
    }

    /// Runs the connection for at most `max`, or until `done` says so
    pub async fn drive(&mut self, max: Duration, mut done: impl FnMut(&Self) -> bool) {
        let deadline = tokio::time::Instant::now() + max;
        loop {
            read_socket(&self.socket, self.local, &mut self.conn);
            self.poll_events();
            flush(&self.socket, &mut self.conn);
            let now = tokio::time::Instant::now();
            if done(self) || now >= deadline || self.conn.is_closed() {
                return;
            }
            let t = self
                .conn
                .timeout()
                .unwrap_or(Duration::from_millis(50))
                .min(Duration::from_millis(50))
                .min(deadline - now);
            if tokio::time::timeout(t, self.socket.readable()).await.is_err() {
                self.conn.on_timeout();
            }
        }
    }

    /// client-side transport counters, for diagnosing a stalled exchange
    pub fn debug_stats(&self) -> String {
        let st = self.conn.stats();
        format!(
            "recv={} sent={} lost={} retrans={} recv_bytes={} sent_bytes={} timeout={:?} draining={} peer_error={:?} local_error={:?}",
            st.recv, st.sent, st.lost, st.retrans, st.recv_bytes, st.sent_bytes, self.conn.timeout(), self.conn.is_draining(), self.conn.peer_error(), self.conn.local_error()
        )
    }

    pub fn close(&mut self) {
        let _ = self.conn.close(true, 0x100, b"done");
        flush(&self.socket, &mut self.conn);
    }
}

// ------------------------------------------------------------------------------------------------ wire tap

/// A TCP stream that remembers the first bytes written to it (the ClientHello)
pub struct Tap {
    io: TcpStream,
    pub wire: Arc<Mutex<Vec<u8>>>,
    /// re-frame the first TLS record written (the ClientHello) as two records
    split_first: bool,
    pending: Vec<u8>,
}

impl Tap {
    fn drain(&mut self, cx: &mut std::task::Context<'_>) -> std::task::Poll<std::io::Result<()>> {
        use tokio::io::AsyncWrite;
        while !self.pending.is_empty() {
            let p = self.pending.clone();
            match std::pin::Pin::new(&mut self.io).poll_write(cx, &p) {
                std::task::Poll::Ready(Ok(n)) => {
                    self.pending.drain(..n);
                }
                std::task::Poll::Ready(Err(e)) => return std::task::Poll::Ready(Err(e)),
                std::task::Poll::Pending => return std::task::Poll::Pending,
            }
        }
        std::task::Poll::Ready(Ok(()))
    }
}

impl tokio::io::AsyncRead for Tap {
    fn poll_read(mut self: std::pin::Pin<&mut Self>, cx: &mut std::task::Context<'_>, buf: &mut tokio::io::ReadBuf<'_>) -> std::task::Poll<std::io::Result<()>> {
        std::pin::Pin::new(&mut self.io).poll_read(cx, buf)
    }
}

impl tokio::io::AsyncWrite for Tap {
    fn poll_write(mut self: std::pin::Pin<&mut Self>, cx: &mut std::task::Context<'_>, data: &[u8]) -> std::task::Poll<std::io::Result<usize>> {
        if let std::task::Poll::Pending = self.drain(cx)? {
            return std::task::Poll::Pending;
        }
        if self.split_first && data.len() > 5 + 60 && data[0] == 0x16 && 5 + (((data[3] as usize) << 8) | data[4] as usize) == data.len() {
            self.split_first = false;
            let body = &data[5..];
            let cut = 50; // inside the session id / cipher suites: the random is whole, the message is not
            let mut out = vec![0x16, data[1], data[2], (cut >> 8) as u8, cut as u8];
            out.extend_from_slice(&body[..cut]);
            let rest = body.len() - cut;
            out.extend_from_slice(&[0x16, data[1], data[2], (rest >> 8) as u8, rest as u8]);
            out.extend_from_slice(&body[cut..]);
            self.wire.lock().unwrap().extend_from_slice(&out);
            self.pending = out;
            let _ = self.drain(cx)?;
            return std::task::Poll::Ready(Ok(data.len()));
        }
        let r = std::pin::Pin::new(&mut self.io).poll_write(cx, data);
        if let std::task::Poll::Ready(Ok(n)) = &r {
            let mut w = self.wire.lock().unwrap();
            if w.len() < 1024 {
                w.extend_from_slice(&data[..*n]);
            }
        }
        r
    }
    fn poll_flush(mut self: std::pin::Pin<&mut Self>, cx: &mut std::task::Context<'_>) -> std::task::Poll<std::io::Result<()>> {
        if let std::task::Poll::Pending = self.drain(cx)? {
            return std::task::Poll::Pending;
        }
        std::pin::Pin::new(&mut self.io).poll_flush(cx)
    }
    fn poll_shutdown(mut self: std::pin::Pin<&mut Self>, cx: &mut std::task::Context<'_>) -> std::task::Poll<std::io::Result<()>> {
        std::pin::Pin::new(&mut self.io).poll_shutdown(cx)
    }
}

/// TLS client connection that also yields what was written to the socket first
pub async fn tls_connect_tap(addr: SocketAddr, server_name: &str, alpn: &[&[u8]]) -> (Option<tokio_rustls::client::TlsStream<Tap>>, Arc<Mutex<Vec<u8>>>) {
    tls_connect_tap_opt(addr, server_name, alpn, false).await
}

/// `split` = the ClientHello goes out as two TLS records (a handshake message may span records)
pub async fn tls_connect_tap_opt(
    addr: SocketAddr,
    server_name: &str,
    alpn: &[&[u8]],
    split: bool,
) -> (Option<tokio_rustls::client::TlsStream<Tap>>, Arc<Mutex<Vec<u8>>>) {
    let wire = Arc::new(Mutex::new(vec![]));
    let mut cfg = rustls::ClientConfig::builder()
        .with_safe_defaults()
        .with_custom_certificate_verifier(Arc::new(NoVerify))
        .with_no_client_auth();
    cfg.alpn_protocols = alpn.iter().map(|x| x.to_vec()).collect();
    let connector = tokio_rustls::TlsConnector::from(Arc::new(cfg));
    let Ok(name) = rustls::ServerName::try_from(server_name) else { return (None, wire) };
    let Ok(tcp) = TcpStream::connect(addr).await else { return (None, wire) };
    let _ = tcp.set_nodelay(true);
    let tap = Tap { io: tcp, wire: wire.clone(), split_first: split, pending: vec![] };
    let tls = tokio::time::timeout(Duration::from_secs(5), connector.connect(name, tap)).await.ok().and_then(|r| r.ok());
    (tls, wire)
}
