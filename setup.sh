#!/bin/sh
# Offline setup after a fresh restore: translator, full .vo build, extracted runner, harness, the endpoint binary.
set -e
cd "$(dirname "$0")"
export CARGO_NET_OFFLINE=true
python3 tools/gen_tables.py
(cd coq && coq_makefile -f _CoqProject -o Makefile && timeout 7200 make -j16)
python3 - <<'PY'
import sys, os
sys.path.insert(0, os.path.join(os.getcwd(), "tools"))
import vlib
vlib.build_model_runner()
vlib.build_harness()
vlib.build_endpoint_bin()
print("setup ok")
PY
