(* Four-valued result used by every model: the value, a clean rejection, a Rust panic
   (failed assert!/unwrap/index/advance/overflow-check), or exhausted model fuel. *)
From Coq Require Import List.
Import ListNotations.

Inductive res (A : Type) : Type :=
| Ok (a : A)
| Reject
| Panic
| Fuel.
Arguments Ok {A} a.
Arguments Reject {A}.
Arguments Panic {A}.
Arguments Fuel {A}.

Definition bind {A B} (r : res A) (f : A -> res B) : res B :=
  match r with
  | Ok a => f a
  | Reject => Reject
  | Panic => Panic
  | Fuel => Fuel
  end.

Notation "x <- r ;; k" := (bind r (fun x => k))
  (at level 61, r at next level, right associativity).
Notation "' p <- r ;; k" := (bind r (fun p => k))
  (at level 61, p pattern, r at next level, right associativity).

Definition is_ok {A} (r : res A) : bool := match r with Ok _ => true | _ => false end.
Definition is_panic {A} (r : res A) : bool := match r with Panic => true | _ => false end.
