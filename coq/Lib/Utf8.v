(* UTF-8 well-formedness exactly as Unicode Table 3-7 / Rust's core::str::from_utf8 accept it. *)
From Coq Require Import List NArith.
From TT Require Import Lib.BytesL.
Import ListNotations.
Open Scope N_scope.

Definition in_range (lo hi b : N) : bool := (lo <=? b) && (b <=? hi).
Definition cont (b : N) : bool := in_range 128 191 b.

Fixpoint utf8_valid (bs : list N) : bool :=
  match bs with
  | [] => true
  | b0 :: r =>
    if b0 <? 128 then utf8_valid r
    else if in_range 194 223 b0 then
      match r with b1 :: r1 => cont b1 && utf8_valid r1 | _ => false end
    else if in_range 224 239 b0 then
      match r with
      | b1 :: b2 :: r2 =>
        (if b0 =? 224 then in_range 160 191 b1
         else if b0 =? 237 then in_range 128 159 b1
         else cont b1) && cont b2 && utf8_valid r2
      | _ => false
      end
    else if in_range 240 244 b0 then
      match r with
      | b1 :: b2 :: b3 :: r3 =>
        (if b0 =? 240 then in_range 144 191 b1
         else if b0 =? 244 then in_range 128 143 b1
         else cont b1) && cont b2 && cont b3 && utf8_valid r3
      | _ => false
      end
    else false
  end.
