(* base64, STANDARD alphabet with padding, as the `base64` crate's general_purpose::STANDARD
   engine encodes and decodes it (canonical: padding required, trailing bits must be zero). *)
From Coq Require Import List NArith ZArith Bool Lia ZifyBool ZifyNat ZifyN.
From TT Require Import Lib.BytesL.
Import ListNotations.
Open Scope N_scope.

Definition char_of (i : N) : N :=
  if i <? 26 then 65 + i
  else if i <? 52 then 97 + (i - 26)
  else if i <? 62 then 48 + (i - 52)
  else if i =? 62 then 43 else 47.

Definition val_of (c : N) : option N :=
  if (65 <=? c) && (c <=? 90) then Some (c - 65)
  else if (97 <=? c) && (c <=? 122) then Some (c - 97 + 26)
  else if (48 <=? c) && (c <=? 57) then Some (c - 48 + 52)
  else if c =? 43 then Some 62
  else if c =? 47 then Some 63
  else None.

Definition PAD : N := 61.

Fixpoint b64_encode (l : list N) : list N :=
  match l with
  | a :: b :: c :: r =>
    [char_of (a / 4); char_of ((a mod 4) * 16 + b / 16); char_of ((b mod 16) * 4 + c / 64);
     char_of (c mod 64)] ++ b64_encode r
  | [a; b] => [char_of (a / 4); char_of ((a mod 4) * 16 + b / 16); char_of ((b mod 16) * 4); PAD]
  | [a] => [char_of (a / 4); char_of ((a mod 4) * 16); PAD; PAD]
  | [] => []
  end.

Fixpoint b64_decode (l : list N) : option (list N) :=
  match l with
  | [] => Some []
  | c0 :: c1 :: c2 :: c3 :: r =>
    match val_of c0, val_of c1 with
    | Some v0, Some v1 =>
      let a := v0 * 4 + v1 / 16 in
      if (c2 =? PAD) && (c3 =? PAD) then
        (if is_nil r && (v1 mod 16 =? 0) then Some [a] else None)
      else
        match val_of c2 with
        | Some v2 =>
          let b := (v1 mod 16) * 16 + v2 / 4 in
          if c3 =? PAD then
            (if is_nil r && (v2 mod 4 =? 0) then Some [a; b] else None)
          else
            match val_of c3, b64_decode r with
            | Some v3, Some rest => Some (a :: b :: ((v2 mod 4) * 64 + v3) :: rest)
            | _, _ => None
            end
        | None => None
        end
    | _, _ => None
    end
  | _ => None
  end.

Lemma val_char i : i < 64 -> val_of (char_of i) = Some i /\ char_of i <> PAD.
Proof.
  intros H. unfold char_of, val_of, PAD.
  destruct (i <? 26) eqn:E1.
  { replace ((65 <=? 65 + i) && (65 + i <=? 90)) with true by lia. split; [f_equal; lia|lia]. }
  destruct (i <? 52) eqn:E2.
  { replace ((65 <=? 97 + (i - 26)) && (97 + (i - 26) <=? 90)) with false by lia.
    replace ((97 <=? 97 + (i - 26)) && (97 + (i - 26) <=? 122)) with true by lia.
    split; [f_equal; lia|lia]. }
  destruct (i <? 62) eqn:E3.
  { replace ((65 <=? 48 + (i - 52)) && (48 + (i - 52) <=? 90)) with false by lia.
    replace ((97 <=? 48 + (i - 52)) && (48 + (i - 52) <=? 122)) with false by lia.
    replace ((48 <=? 48 + (i - 52)) && (48 + (i - 52) <=? 57)) with true by lia.
    split; [f_equal; lia|lia]. }
  destruct (i =? 62) eqn:E4.
  { apply N.eqb_eq in E4. subst i. vm_compute. split; [reflexivity|discriminate]. }
  assert (i = 63) by lia. subst. vm_compute. split; [reflexivity|discriminate].
Qed.

Ltac Zify.zify_post_hook ::= Z.div_mod_to_equations.

Lemma list_triple_ind (P : list N -> Prop) :
  P [] -> (forall a, P [a]) -> (forall a b, P [a; b]) ->
  (forall a b c r, P r -> P (a :: b :: c :: r)) -> forall l, P l.
Proof.
  intros H0 H1 H2 H3.
  assert (H : forall l, P l /\ (forall a, P (a :: l)) /\ (forall a b, P (a :: b :: l))).
  { induction l as [|x l (I0 & I1 & I2)]; repeat split; auto. }
  intros l. apply H.
Qed.

Theorem b64_roundtrip l : bytes_ok l = true -> b64_decode (b64_encode l) = Some l.
Proof.
  induction l as [|a|a b|a b c r IH] using list_triple_ind; intros Hok.
  - reflexivity.
  - unfold bytes_ok in Hok. cbn [forallb] in Hok. unfold is_byte in Hok.
    assert (Ha : a < 256) by lia.
    cbn [b64_encode b64_decode].
    destruct (val_char (a / 4)) as [V0 _]; [lia|].
    destruct (val_char ((a mod 4) * 16)) as [V1 _]; [lia|].
    rewrite V0, V1. rewrite !N.eqb_refl. cbn [andb is_nil].
    replace ((a mod 4 * 16) mod 16 =? 0) with true by lia.
    f_equal. f_equal. lia.
  - unfold bytes_ok in Hok. cbn [forallb] in Hok. unfold is_byte in Hok.
    assert (Ha : a < 256) by lia. assert (Hb : b < 256) by lia.
    cbn [b64_encode b64_decode].
    destruct (val_char (a / 4)) as [V0 _]; [lia|].
    destruct (val_char ((a mod 4) * 16 + b / 16)) as [V1 _]; [lia|].
    destruct (val_char ((b mod 16) * 4)) as [V2 P2]; [lia|].
    rewrite V0, V1, V2. rewrite N.eqb_refl.
    replace (char_of (b mod 16 * 4) =? PAD) with false by (symmetry; apply N.eqb_neq; exact P2).
    cbn [andb is_nil].
    replace ((b mod 16 * 4) mod 4 =? 0) with true by lia.
    f_equal. f_equal; [lia|]. f_equal. lia.
  - unfold bytes_ok in Hok. cbn [forallb] in Hok. unfold is_byte in Hok.
    apply andb_true_iff in Hok. destruct Hok as [Ha Hok].
    apply andb_true_iff in Hok. destruct Hok as [Hb Hok].
    apply andb_true_iff in Hok. destruct Hok as [Hc Hok].
    assert (a < 256) by lia. assert (b < 256) by lia. assert (c < 256) by lia.
    cbn [b64_encode Datatypes.app b64_decode].
    destruct (val_char (a / 4)) as [V0 _]; [lia|].
    destruct (val_char ((a mod 4) * 16 + b / 16)) as [V1 _]; [lia|].
    destruct (val_char ((b mod 16) * 4 + c / 64)) as [V2 P2]; [lia|].
    destruct (val_char (c mod 64)) as [V3 P3]; [lia|].
    rewrite V0, V1, V2, V3.
    replace (char_of (b mod 16 * 4 + c / 64) =? PAD) with false by (symmetry; apply N.eqb_neq; exact P2).
    replace (char_of (c mod 64) =? PAD) with false by (symmetry; apply N.eqb_neq; exact P3).
    cbn [andb]. rewrite (IH Hok).
    f_equal. f_equal; [lia|]. f_equal; [lia|]. f_equal. lia.
Qed.

Corollary b64_encode_inj x y :
  bytes_ok x = true -> bytes_ok y = true -> b64_encode x = b64_encode y -> x = y.
Proof.
  intros Hx Hy H. pose proof (b64_roundtrip x Hx) as R1. pose proof (b64_roundtrip y Hy) as R2.
  rewrite H in R1. congruence.
Qed.
