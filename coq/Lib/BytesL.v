(* Byte strings are [list N] with every element < 256; lengths of lists are [nat], declared
   lengths and values are [N]. *)
From Coq Require Import List NArith Lia ZifyBool ZifyNat ZifyN.
Import ListNotations.
Open Scope N_scope.

Arguments N.add : simpl never.
Arguments N.sub : simpl never.
Arguments N.mul : simpl never.
Arguments N.div : simpl never.
Arguments N.modulo : simpl never.
Arguments N.ltb : simpl never.
Arguments N.leb : simpl never.
Arguments N.eqb : simpl never.
Arguments N.min : simpl never.

Definition lenN {A} (l : list A) : N := N.of_nat (length l).
Definition takeN {A} (k : N) (l : list A) : list A := firstn (N.to_nat k) l.
Definition dropN {A} (k : N) (l : list A) : list A := skipn (N.to_nat k) l.

Definition is_byte (b : N) : bool := b <? 256.
Definition bytes_ok (l : list N) : bool := forallb is_byte l.

(* big-endian value of a byte string *)
Definition be (bs : list N) : N := fold_left (fun acc b => acc * 256 + b) bs 0.

(* big-endian encoding of [v] on [n] bytes (value taken modulo 256^n) *)
Fixpoint to_be (n : nat) (v : N) : list N :=
  match n with
  | O => []
  | S k => to_be k (v / 256) ++ [v mod 256]
  end.

Definition is_nil {A} (l : list A) : bool := match l with [] => true | _ => false end.

Fixpoint list_eqb {A} (eqb : A -> A -> bool) (a b : list A) : bool :=
  match a, b with
  | [], [] => true
  | x :: a', y :: b' => eqb x y && list_eqb eqb a' b'
  | _, _ => false
  end.

Definition all_zero (l : list N) : bool := forallb (fun b => b =? 0) l.

Lemma lenN_app {A} (a b : list A) : lenN (a ++ b) = lenN a + lenN b.
Proof. unfold lenN. rewrite app_length. lia. Qed.

Lemma lenN_nil {A} : lenN (@nil A) = 0.
Proof. reflexivity. Qed.

Lemma lenN_cons {A} (x : A) l : lenN (x :: l) = 1 + lenN l.
Proof. unfold lenN. cbn [length]. lia. Qed.

Lemma lenN_0 {A} (l : list A) : lenN l = 0 -> l = [].
Proof. destruct l; [reflexivity|]. rewrite lenN_cons. lia. Qed.

Lemma takeN_dropN {A} k (l : list A) : takeN k l ++ dropN k l = l.
Proof. apply firstn_skipn. Qed.

Lemma lenN_takeN {A} k (l : list A) : lenN (takeN k l) = N.min k (lenN l).
Proof. unfold lenN, takeN. rewrite firstn_length. lia. Qed.

Lemma lenN_dropN {A} k (l : list A) : lenN (dropN k l) = lenN l - k.
Proof. unfold lenN, dropN. rewrite skipn_length. lia. Qed.

Lemma takeN_all {A} k (l : list A) : lenN l <= k -> takeN k l = l.
Proof. unfold lenN, takeN. intros H. apply firstn_all2. lia. Qed.

Lemma dropN_all {A} k (l : list A) : lenN l <= k -> dropN k l = [].
Proof. unfold lenN, dropN. intros H. apply skipn_all2. lia. Qed.

Lemma takeN_0 {A} (l : list A) : takeN 0 l = [].
Proof. reflexivity. Qed.

Lemma dropN_0 {A} (l : list A) : dropN 0 l = l.
Proof. reflexivity. Qed.

Lemma takeN_app_le {A} k (a b : list A) : k <= lenN a -> takeN k (a ++ b) = takeN k a.
Proof.
  unfold lenN, takeN. intros H. rewrite firstn_app.
  replace (N.to_nat k - length a)%nat with 0%nat by lia.
  cbn [firstn]. apply app_nil_r.
Qed.

Lemma dropN_app_le {A} k (a b : list A) : k <= lenN a -> dropN k (a ++ b) = dropN k a ++ b.
Proof.
  unfold lenN, dropN. intros H. rewrite skipn_app.
  replace (N.to_nat k - length a)%nat with 0%nat by lia. reflexivity.
Qed.

Lemma takeN_app_ge {A} k (a b : list A) :
  lenN a <= k -> takeN k (a ++ b) = a ++ takeN (k - lenN a) b.
Proof.
  unfold lenN, takeN. intros H. rewrite firstn_app.
  rewrite firstn_all2 by lia. f_equal. f_equal. lia.
Qed.

Lemma dropN_app_ge {A} k (a b : list A) :
  lenN a <= k -> dropN k (a ++ b) = dropN (k - lenN a) b.
Proof.
  unfold lenN, dropN. intros H. rewrite skipn_app.
  rewrite skipn_all2 by lia. cbn [app]. f_equal. lia.
Qed.

Lemma takeN_exact {A} (a b : list A) : takeN (lenN a) (a ++ b) = a.
Proof. rewrite takeN_app_le by lia. apply takeN_all. lia. Qed.

Lemma dropN_exact {A} (a b : list A) : dropN (lenN a) (a ++ b) = b.
Proof. rewrite dropN_app_ge by lia. replace (lenN a - lenN a) with 0 by lia. reflexivity. Qed.
