(* Byte strings are [list N] with every element < 256; lengths of lists are [nat], declared
   lengths and values are [N]. *)
From Coq Require Import List NArith Lia ZifyBool ZifyNat ZifyN.
Import ListNotations.
Open Scope N_scope.

Arguments N.add : simpl never.
Arguments N.sub : simpl never.
Arguments N.mul : simpl never.
Arguments N.div : simpl never.
Arguments N.modulo : simpl never.
Arguments N.ltb : simpl never.
Arguments N.leb : simpl never.
Arguments N.eqb : simpl never.
Arguments N.min : simpl never.

Definition lenN {A} (l : list A) : N := N.of_nat (length l).
Definition takeN {A} (k : N) (l : list A) : list A := firstn (N.to_nat k) l.
Definition dropN {A} (k : N) (l : list A) : list A := skipn (N.to_nat k) l.

Definition is_byte (b : N) : bool := b <? 256.
Definition bytes_ok (l : list N) : bool := forallb is_byte l.

(* big-endian value of a byte string *)
Definition be (bs : list N) : N := fold_left (fun acc b => acc * 256 + b) bs 0.

(* big-endian encoding of [v] on [n] bytes (value taken modulo 256^n) *)
Fixpoint to_be (n : nat) (v : N) : list N :=
  match n with
  | O => []
  | S k => to_be k (v / 256) ++ [v mod 256]
  end.

Definition is_nil {A} (l : list A) : bool := match l with [] => true | _ => false end.

Fixpoint list_eqb {A} (eqb : A -> A -> bool) (a b : list A) : bool :=
  match a, b with
  | [], [] => true
  | x :: a', y :: b' => eqb x y && list_eqb eqb a' b'
  | _, _ => false
  end.

Definition all_zero (l : list N) : bool := forallb (fun b => b =? 0) l.

Lemma lenN_app {A} (a b : list A) : lenN (a ++ b) = lenN a + lenN b.
Proof. unfold lenN. rewrite app_length. lia. Qed.

Lemma lenN_nil {A} : lenN (@nil A) = 0.
Proof. reflexivity. Qed.

Lemma lenN_cons {A} (x : A) l : lenN (x :: l) = 1 + lenN l.
Proof. unfold lenN. cbn [length]. lia. Qed.

Lemma lenN_0 {A} (l : list A) : lenN l = 0 -> l = [].
Proof. destruct l; [reflexivity|]. rewrite lenN_cons. lia. Qed.

Lemma takeN_dropN {A} k (l : list A) : takeN k l ++ dropN k l = l.
Proof. apply firstn_skipn. Qed.

Lemma lenN_takeN {A} k (l : list A) : lenN (takeN k l) = N.min k (lenN l).
Proof. unfold lenN, takeN. rewrite firstn_length. lia. Qed.

Lemma lenN_dropN {A} k (l : list A) : lenN (dropN k l) = lenN l - k.
Proof. unfold lenN, dropN. rewrite skipn_length. lia. Qed.

Lemma takeN_all {A} k (l : list A) : lenN l <= k -> takeN k l = l.
Proof. unfold lenN, takeN. intros H. apply firstn_all2. lia. Qed.

Lemma dropN_all {A} k (l : list A) : lenN l <= k -> dropN k l = [].
Proof. unfold lenN, dropN. intros H. apply skipn_all2. lia. Qed.

Lemma takeN_0 {A} (l : list A) : takeN 0 l = [].
Proof. reflexivity. Qed.

Lemma dropN_0 {A} (l : list A) : dropN 0 l = l.
Proof. reflexivity. Qed.

Lemma takeN_app_le {A} k (a b : list A) : k <= lenN a -> takeN k (a ++ b) = takeN k a.
Proof.
  unfold lenN, takeN. intros H. rewrite firstn_app.
  replace (N.to_nat k - length a)%nat with 0%nat by lia.
  cbn [firstn]. apply app_nil_r.
Qed.

Lemma dropN_app_le {A} k (a b : list A) : k <= lenN a -> dropN k (a ++ b) = dropN k a ++ b.
Proof.
  unfold lenN, dropN. intros H. rewrite skipn_app.
  replace (N.to_nat k - length a)%nat with 0%nat by lia. reflexivity.
Qed.

Lemma takeN_app_ge {A} k (a b : list A) :
  lenN a <= k -> takeN k (a ++ b) = a ++ takeN (k - lenN a) b.
Proof.
  unfold lenN, takeN. intros H. rewrite firstn_app.
  rewrite firstn_all2 by lia. f_equal. f_equal. lia.
Qed.

Lemma dropN_app_ge {A} k (a b : list A) :
  lenN a <= k -> dropN k (a ++ b) = dropN (k - lenN a) b.
Proof.
  unfold lenN, dropN. intros H. rewrite skipn_app.
  rewrite skipn_all2 by lia. cbn [app]. f_equal. lia.
Qed.

Lemma takeN_exact {A} (a b : list A) : takeN (lenN a) (a ++ b) = a.
Proof. rewrite takeN_app_le by lia. apply takeN_all. lia. Qed.

Lemma dropN_exact {A} (a b : list A) : dropN (lenN a) (a ++ b) = b.
Proof. rewrite dropN_app_ge by lia. replace (lenN a - lenN a) with 0 by lia. reflexivity. Qed.

Lemma takeN_takeN {A} a b (l : list A) : takeN a (takeN b l) = takeN (N.min a b) l.
Proof.
  unfold takeN. rewrite firstn_firstn. f_equal. lia.
Qed.

Lemma dropN_dropN {A} a b (l : list A) : dropN a (dropN b l) = dropN (b + a) l.
Proof.
  unfold dropN. replace (N.to_nat (b + a)) with (N.to_nat b + N.to_nat a)%nat by lia.
  generalize (N.to_nat a) as m. generalize (N.to_nat b) as n. clear a b.
  intros n. revert l. induction n as [|n IH]; intros l m; [reflexivity|].
  destruct l as [|x l]; cbn [skipn plus]; [destruct m; reflexivity|apply IH].
Qed.

Lemma dropN_takeN {A} a b (l : list A) : dropN a (takeN b l) = takeN (b - a) (dropN a l).
Proof.
  unfold dropN, takeN. rewrite skipn_firstn_comm. f_equal. lia.
Qed.

Lemma be_snoc l b : be (l ++ [b]) = be l * 256 + b.
Proof. unfold be. rewrite fold_left_app. reflexivity. Qed.

Lemma length_to_be n v : length (to_be n v) = n.
Proof.
  revert v. induction n as [|k IH]; intros v; cbn [to_be]; [reflexivity|].
  rewrite app_length, IH. cbn. lia.
Qed.

Lemma lenN_to_be n v : lenN (to_be n v) = N.of_nat n.
Proof. unfold lenN. rewrite length_to_be. reflexivity. Qed.

Lemma be_to_be n v : be (to_be n v) = v mod 256 ^ N.of_nat n.
Proof.
  revert v. induction n as [|k IH]; intros v; cbn [to_be].
  - cbn. rewrite N.mod_1_r. reflexivity.
  - rewrite be_snoc, IH.
    replace (N.of_nat (S k)) with (N.succ (N.of_nat k)) by lia.
    rewrite N.pow_succ_r by lia.
    rewrite (N.mod_mul_r v 256 (256 ^ N.of_nat k)) by (try lia; apply N.pow_nonzero; lia).
    lia.
Qed.

Lemma be_to_be_small n v : v < 256 ^ N.of_nat n -> be (to_be n v) = v.
Proof. intros H. rewrite be_to_be. apply N.mod_small. exact H. Qed.

Lemma to_be_bytes_ok n v : bytes_ok (to_be n v) = true.
Proof.
  revert v. induction n as [|k IH]; intros v; cbn [to_be]; [reflexivity|].
  unfold bytes_ok in *. rewrite forallb_app, IH. cbn [forallb andb]. unfold is_byte.
  pose proof (N.mod_lt v 256). lia.
Qed.
