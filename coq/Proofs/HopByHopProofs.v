From Coq Require Import List NArith Bool.
From TT Require Import Lib.BytesL Lib.Utf8 Model.HopByHop.
Import ListNotations.
Open Scope N_scope.

Lemma s_eqb_true a : forall b, s_eqb a b = true -> a = b.
Proof.
  unfold s_eqb. induction a as [|x a IH]; intros [|y b] H; try discriminate; [reflexivity|].
  cbn [list_eqb] in H. apply andb_prop in H. destruct H as [H1 H2]. apply N.eqb_eq in H1. subst y. f_equal. apply IH, H2.
Qed.

Lemma mem_app x a b : mem x (a ++ b) = mem x a || mem x b.
Proof. unfold mem. apply existsb_app. Qed.

(* with the drop set complete from the start, the loop is a filter *)
Lemma fold_fixed_drop dechunked drop hs : forall out,
  fold_left (conv_step true dechunked) hs (drop, out) =
  (drop, out ++ filter (fun h => negb (mem (lower_s (fst h)) drop) && negb (s_eqb (lower_s (fst h)) n_connection)
                                 && negb (s_eqb (lower_s (fst h)) n_te && dechunked)) hs).
Proof.
  induction hs as [|h hs IH]; intros out; cbn [fold_left filter]; [rewrite app_nil_r; reflexivity|].
  unfold conv_step at 2. cbn [app].
  destruct (mem (lower_s (fst h)) drop); cbn [negb andb]; [apply IH|].
  destruct (s_eqb (lower_s (fst h)) n_connection); cbn [negb andb]; [apply IH|].
  destruct (s_eqb (lower_s (fst h)) n_te && dechunked); cbn [negb andb]; [apply IH|].
  rewrite IH, <- app_assoc. reflexivity.
Qed.

Lemma filter_ext_in' {A} (f g : A -> bool) l : (forall x, In x l -> f x = g x) -> filter f l = filter g l.
Proof.
  induction l as [|x l IH]; intros H; cbn [filter]; [reflexivity|].
  rewrite (H x (or_introl eq_refl)), IH; [reflexivity|]. intros y Hy. apply H. right. exact Hy.
Qed.

Lemma convert_is_end_to_end_proof dechunked hs : convert true dechunked hs = end_to_end dechunked hs.
Proof.
  unfold convert. cbn [app]. rewrite fold_fixed_drop. cbn [snd app]. unfold end_to_end.
  apply filter_ext_in'. intros h Hin.
  unfold hop_by_hop, prescan. rewrite !mem_app.
  set (n := lower_s (fst h)).
  set (L := mem n (flat_map (fun h0 => if s_eqb (lower_s (fst h0)) n_connection then connection_tokens (snd h0) else []) hs)).
  set (T := existsb (fun h0 => s_eqb (lower_s (fst h0)) n_te) hs).
  assert (HT : s_eqb n n_te = true -> T = true).
  { intros ET. unfold T. apply existsb_exists. exists h. split; [exact Hin|exact ET]. }
  assert (M : mem n (if T then n_cl :: (if dechunked then [n_te] else []) else []) =
              T && (s_eqb n n_cl || (dechunked && s_eqb n n_te))).
  { destruct T, dechunked; cbn [mem existsb andb orb]; rewrite ?orb_false_r; reflexivity. }
  rewrite M. clearbody L.
  destruct (s_eqb n n_te) eqn:ET; [rewrite (HT eq_refl)|]; clearbody T;
    destruct (s_eqb n n_connection), (mem n always_dropped), L, (s_eqb n n_cl), dechunked; try reflexivity;
    destruct T; reflexivity.
Qed.
