From Coq Require Import List NArith Bool Lia ZifyBool ZifyNat ZifyN.
From TT Require Import Lib.BytesL Model.TlsDemux Spec.SniRouting Generated.DemuxFacts.
Import ListNotations.
Open Scope N_scope.

Lemma index_of_app x a b base :
  index_of x (a ++ b) base =
  match index_of x a base with Some i => Some i | None => index_of x b (base + lenN a) end.
Proof.
  revert base. induction a as [|y a IH]; intros base; cbn [Datatypes.app index_of].
  - rewrite lenN_nil, N.add_0_r. reflexivity.
  - destruct (name_eqb y x); [reflexivity|]. rewrite IH, lenN_cons.
    replace (base + 1 + lenN a) with (base + (1 + lenN a)) by lia. reflexivity.
Qed.

Lemma index_of_range x l : forall base i, index_of x l base = Some i -> base <= i < base + lenN l.
Proof.
  induction l as [|y l IH]; intros base i H; cbn [index_of] in H; [discriminate|].
  rewrite lenN_cons. destruct (name_eqb y x).
  - inversion H. lia.
  - apply IH in H. lia.
Qed.

Lemma max_proto_filter_true l : filter (fun _ : proto => true) l = l.
Proof. induction l as [|x l IH]; cbn; [reflexivity|rewrite IH; reflexivity]. Qed.

Lemma filter_ext {A} (f g : A -> bool) l : (forall x, f x = g x) -> filter f l = filter g l.
Proof. intros H. induction l as [|x l IH]; cbn; [reflexivity|rewrite H, IH; reflexivity]. Qed.

Lemma tunnel_proto_spec c parsed alpn :
  tunnel_proto c parsed alpn = spec_proto true c ChTunnel parsed alpn.
Proof.
  unfold tunnel_proto, spec_proto. cbv zeta.
  assert (filter (fun p => permitted ChTunnel p && enabled c p) parsed = filter (enabled c) parsed) as ->
    by (apply filter_ext; intros []; reflexivity).
  destruct (max_proto (filter (enabled c) parsed)); [reflexivity|].
  cbn [permitted enabled andb]. rewrite andb_comm. reflexivity.
Qed.

Lemma parsed_nonempty_max l : l <> [] -> exists p, max_proto l = Some p.
Proof.
  destruct l as [|x l]; [congruence|]. intros _. cbn [max_proto].
  destruct (max_proto l); eexists; reflexivity.
Qed.

Lemma is_nil_false_iff {A} (l : list A) : is_nil l = false <-> l <> [].
Proof. destruct l; cbn; split; congruence. Qed.

(* the model of select is "designated host" x "protocol rule" *)
Lemma select_spec_proof c alpn sni : select c alpn sni = spec_select c alpn sni.
Proof.
  unfold select, spec_select.
  destruct (is_nil (parse_alpn alpn) && negb (is_nil alpn)) eqn:Eu; [reflexivity|].
  unfold designated, all_hosts. rewrite !index_of_app.
  change (lenN (main_names c)) with (lenN (map mh_name (c_main c))).
  assert (Hlen : lenN (map mh_name (c_main c)) = n_main c) by (unfold n_main, lenN; rewrite map_length; reflexivity).
  rewrite Hlen. fold (n_rp c). fold (n_ping c).
  replace (0 + n_main c) with (n_main c) by lia.
  destruct (index_of sni (main_names c) 0) as [i|] eqn:E1.
  { apply index_of_range in E1. fold (n_main c) in E1. unfold main_names in E1. rewrite Hlen in E1.
    unfold class_of. replace (i <? n_main c) with true by lia.
    cbn [respects_enabled]. rewrite tunnel_proto_spec. reflexivity. }
  destruct (index_of sni (rp_hosts c) (n_main c)) as [i|] eqn:E2.
  { apply index_of_range in E2. fold (n_rp c) in E2.
    unfold class_of. replace (i <? n_main c) with false by lia.
    replace (i <? n_main c + n_rp c) with true by lia.
    cbn [respects_enabled]. unfold spec_proto.
    rewrite (filter_ext (fun p => permitted ChRevProxy p && true)
                        (fun p => match p with H2 => false | _ => true end))
      by (intros []; reflexivity).
    destruct (max_proto _); [reflexivity|]. cbn [permitted andb]. rewrite andb_true_r.
    destruct (is_nil alpn); reflexivity. }
  destruct (index_of sni (c_ping c) (n_main c + n_rp c)) as [i|] eqn:E3.
  { apply index_of_range in E3. fold (n_ping c) in E3.
    unfold class_of. replace (i <? n_main c) with false by lia.
    replace (i <? n_main c + n_rp c) with false by lia.
    replace (i <? n_main c + n_rp c + n_ping c) with true by lia.
    cbn [respects_enabled]. unfold spec_proto.
    rewrite (filter_ext (fun p => permitted ChPing p && true) (fun _ => true)) by (intros []; reflexivity).
    rewrite max_proto_filter_true.
    destruct (max_proto (parse_alpn alpn)) eqn:Em; [reflexivity|].
    assert (Hp : parse_alpn alpn = []).
    { destruct (parse_alpn alpn) as [|x l] eqn:Ep; [reflexivity|].
      destruct (parsed_nonempty_max (x :: l)) as [p Hp]; [discriminate|]. congruence. }
    rewrite Hp in Eu. cbn [is_nil andb] in Eu. apply negb_false_iff in Eu. rewrite Eu. reflexivity. }
  destruct (index_of sni (c_speed c) (n_main c + n_rp c + n_ping c)) as [i|] eqn:E4.
  { apply index_of_range in E4.
    unfold class_of. replace (i <? n_main c) with false by lia.
    replace (i <? n_main c + n_rp c) with false by lia.
    replace (i <? n_main c + n_rp c + n_ping c) with false by lia.
    cbn [respects_enabled]. unfold spec_proto.
    rewrite (filter_ext (fun p => permitted ChSpeed p && true) (fun _ => true)) by (intros []; reflexivity).
    rewrite max_proto_filter_true.
    destruct (max_proto (parse_alpn alpn)) eqn:Em; [reflexivity|].
    assert (Hp : parse_alpn alpn = []).
    { destruct (parse_alpn alpn) as [|x l] eqn:Ep; [reflexivity|].
      destruct (parsed_nonempty_max (x :: l)) as [p Hp]; [discriminate|]. congruence. }
    rewrite Hp in Eu. cbn [is_nil andb] in Eu. apply negb_false_iff in Eu. rewrite Eu. reflexivity. }
  destruct (alt_lookup sni (c_main c) 0).
  { cbn [respects_enabled]. rewrite tunnel_proto_spec. reflexivity. }
  destruct (match split_dot sni with
            | Some (a, b) => match index_of b (main_names c) 0 with Some i => Some (i, a) | None => None end
            | None => None end) as [[i a]|]; [|reflexivity].
  cbn [respects_enabled]. rewrite tunnel_proto_spec. reflexivity.
Qed.

(* with unique names, the host whose exact name is the SNI is the designated one *)
Lemma name_eqb_refl x : name_eqb x x = true.
Proof. unfold name_eqb. induction x as [|a x IH]; cbn; [reflexivity|rewrite N.eqb_refl, IH; reflexivity]. Qed.

Lemma name_eqb_eq x y : name_eqb x y = true -> x = y.
Proof.
  unfold name_eqb. revert y. induction x as [|a x IH]; intros [|b y]; cbn; try discriminate; [reflexivity|].
  intros H. apply andb_true_iff in H. destruct H as [H1 H2]. apply N.eqb_eq in H1. f_equal; [exact H1|apply IH; exact H2].
Qed.

Lemma exact_name_designates l : forall j base x,
  nodupb l = true -> nth_error l j = Some x -> index_of x l base = Some (base + N.of_nat j).
Proof.
  induction l as [|y l IH]; intros j base x Hn Hj; [destruct j; discriminate|].
  cbn [nodupb] in Hn. apply andb_true_iff in Hn. destruct Hn as [Hy Hn].
  destruct j as [|j]; cbn [nth_error] in Hj.
  - inversion Hj; subst. cbn [index_of]. rewrite name_eqb_refl. f_equal. lia.
  - cbn [index_of]. destruct (name_eqb y x) eqn:E.
    + exfalso. apply name_eqb_eq in E. subst y.
      apply negb_true_iff in Hy.
      assert (existsb (name_eqb x) l = true); [|congruence].
      apply existsb_exists. exists x. split; [eapply nth_error_In; exact Hj|apply name_eqb_refl].
    + rewrite (IH j (base + 1) x Hn Hj). f_equal. lia.
Qed.

(* ---- TlsHostsSettings::validate: the threaded name set accepts exactly the settings in which every name
        designates at most one entry ---- *)
Lemma existsb_name_eqb_in x l : existsb (name_eqb x) l = true <-> In x l.
Proof.
  rewrite existsb_exists. split.
  - intros [y [Hy E]]. apply name_eqb_eq in E. subst. exact Hy.
  - intros H. exists x. split; [exact H|apply name_eqb_refl].
Qed.

Lemma entry_free_iff taken e :
  negb (existsb (fun x => existsb (name_eqb x) taken) e) = true <-> (forall x, In x e -> ~ In x taken).
Proof.
  rewrite negb_true_iff. split.
  - intros H x Hx Ht. assert (existsb (fun x => existsb (name_eqb x) taken) e = true); [|congruence].
    apply existsb_exists. exists x. split; [exact Hx|apply existsb_name_eqb_in; exact Ht].
  - intros H. destruct (existsb (fun x => existsb (name_eqb x) taken) e) eqn:E; [|reflexivity].
    apply existsb_exists in E. destruct E as [x [Hx Ht]]. apply existsb_name_eqb_in in Ht.
    exfalso. exact (H x Hx Ht).
Qed.

Lemma names_free_iff entries : forall taken,
  names_free taken entries = true <->
  ((forall e x, In e entries -> In x e -> ~ In x taken) /\ one_entry_per_name entries).
Proof.
  induction entries as [|e r IH]; intros taken; cbn [names_free].
  - split; [|reflexivity]. intros _. split; [intros e x []|].
    intros i j e1 e2 x H. destruct i; discriminate.
  - rewrite andb_true_iff, entry_free_iff, IH. split.
    + intros [HA [HB HO]]. split.
      * intros e' x [<-|He'] Hx; [exact (HA x Hx)|].
        intros Ht. apply (HB e' x He' Hx). apply in_or_app. right. exact Ht.
      * intros i j e1 e2 x H1 H2 Hx1 Hx2. destruct i as [|i], j as [|j]; cbn [nth_error] in H1, H2.
        -- reflexivity.
        -- exfalso. inversion H1; subst e1. apply (HB e2 x (nth_error_In _ _ H2) Hx2).
           apply in_or_app. left. exact Hx1.
        -- exfalso. inversion H2; subst e2. apply (HB e1 x (nth_error_In _ _ H1) Hx1).
           apply in_or_app. left. exact Hx2.
        -- f_equal. exact (HO i j e1 e2 x H1 H2 Hx1 Hx2).
    + intros [HC HO]. split; [|split].
      * intros x Hx. exact (HC e x (or_introl eq_refl) Hx).
      * intros e' x He' Hx Hin. apply in_app_or in Hin. destruct Hin as [Hin|Hin].
        -- destruct (In_nth_error _ _ He') as [j Hj].
           assert (O = S j) by exact (HO O (S j) e e' x eq_refl Hj Hin Hx). discriminate.
        -- exact (HC e' x (or_intror He') Hx Hin).
      * intros i j e1 e2 x H1 H2 Hx1 Hx2.
        assert (S i = S j) by exact (HO (S i) (S j) e1 e2 x H1 H2 Hx1 Hx2). congruence.
Qed.

Lemma hosts_accepted_iff_proof c :
  valid_hosts c = true <-> (c_main c <> [] /\ one_entry_per_name (claims c)).
Proof.
  unfold valid_hosts. rewrite andb_true_iff, negb_true_iff, names_free_iff. split.
  - intros [H1 [_ H2]]. split; [destruct (c_main c); discriminate|exact H2].
  - intros [H1 H2]. split; [destruct (c_main c); [contradiction|reflexivity]|].
    split; [intros e x _ _ []|exact H2].
Qed.

Lemma hosts_refused_iff_proof c :
  valid_hosts c = false <-> (c_main c = [] \/ ~ one_entry_per_name (claims c)).
Proof.
  split.
  - intros H. destruct (c_main c) eqn:E; [left; reflexivity|right].
    intros HO. assert (valid_hosts c = true); [|congruence].
    apply hosts_accepted_iff_proof. split; [rewrite E; discriminate|exact HO].
  - intros H. destruct (valid_hosts c) eqn:E; [|reflexivity].
    apply hosts_accepted_iff_proof in E. destruct E as [E1 E2]. destruct H as [H|H]; contradiction.
Qed.

(* the host names themselves are pairwise distinct across the four groups *)
Lemma all_names_heads c : all_names c = map (hd []) (claims c).
Proof.
  unfold all_names, claims, main_names. rewrite map_app, !map_map. cbn [host_names hd].
  f_equal. rewrite map_id. reflexivity.
Qed.

Lemma claims_nonempty c e : In e (claims c) -> In (hd [] e) e.
Proof.
  unfold claims. intros H. apply in_app_or in H. destruct H as [H|H]; apply in_map_iff in H;
    destruct H as [y [<- _]]; left; reflexivity.
Qed.

Lemma valid_hosts_names_distinct c : valid_hosts c = true -> NoDup (all_names c).
Proof.
  intros H. apply hosts_accepted_iff_proof in H. destruct H as [_ HO].
  rewrite all_names_heads. apply NoDup_nth_error. intros i j Hi E.
  rewrite map_length in Hi. rewrite !nth_error_map in E.
  destruct (nth_error (claims c) i) as [e1|] eqn:E1; [|apply nth_error_None in E1; lia].
  destruct (nth_error (claims c) j) as [e2|] eqn:E2; [|discriminate].
  cbn [option_map] in E. inversion E as [Eh].
  apply (HO i j e1 e2 (hd [] e1) E1 E2).
  - apply (claims_nonempty c). eapply nth_error_In. exact E1.
  - rewrite Eh. apply (claims_nonempty c). eapply nth_error_In. exact E2.
Qed.

(* an alternative SNI is looked up to the one main host that lists it *)
Lemma alt_lookup_first sni : forall hosts base j h,
  nth_error hosts j = Some h -> In sni (mh_alts h) ->
  (forall i h', (i < j)%nat -> nth_error hosts i = Some h' -> ~ In sni (mh_alts h')) ->
  alt_lookup sni hosts base = Some (base + N.of_nat j).
Proof.
  induction hosts as [|h0 hosts IH]; intros base j h Hj Hin Hbefore; [destruct j; discriminate|].
  cbn [alt_lookup]. destruct j as [|j]; cbn [nth_error] in Hj.
  - inversion Hj; subst h0.
    assert (E : existsb (name_eqb sni) (mh_alts h) = true) by (apply existsb_name_eqb_in; exact Hin).
    rewrite E. f_equal. lia.
  - destruct (existsb (name_eqb sni) (mh_alts h0)) eqn:E.
    + exfalso. apply existsb_name_eqb_in in E. apply (Hbefore O h0); [lia|reflexivity|exact E].
    + rewrite (IH (base + 1) j h Hj Hin).
      * f_equal. lia.
      * intros i h' Hi Hn. apply (Hbefore (S i) h'); [lia|exact Hn].
Qed.

Lemma claims_main c i h : nth_error (c_main c) i = Some h -> nth_error (claims c) i = Some (host_names h).
Proof.
  intros H. unfold claims. rewrite nth_error_app1.
  - rewrite nth_error_map, H. reflexivity.
  - rewrite map_length. apply nth_error_Some. congruence.
Qed.

Lemma alternative_sni_designates_proof c j h sni :
  valid_hosts c = true -> nth_error (c_main c) j = Some h -> In sni (mh_alts h) ->
  alt_lookup sni (c_main c) 0 = Some (N.of_nat j)
  /\ (forall i e, nth_error (claims c) i = Some e -> In sni e -> i = j).
Proof.
  intros Hv Hj Hin. apply hosts_accepted_iff_proof in Hv. destruct Hv as [_ HO].
  assert (Hc : forall i e, nth_error (claims c) i = Some e -> In sni e -> i = j).
  { intros i e Hi He. apply (HO i j e (host_names h) sni Hi (claims_main c j h Hj) He).
    right. exact Hin. }
  split; [|exact Hc].
  rewrite (alt_lookup_first sni (c_main c) 0 j h Hj Hin); [f_equal|].
  intros i h' Hi Hn Hin'. assert (i = j); [|lia].
  apply (Hc i (host_names h') (claims_main c i h' Hn)). right. exact Hin'.
Qed.

Lemma unknown_sni_refused_proof c alpn sni :
  designated c sni = None -> select c alpn sni = None.
Proof.
  intros H. rewrite select_spec_proof. unfold spec_select. rewrite H.
  destruct (is_nil (parse_alpn alpn) && negb (is_nil alpn)); reflexivity.
Qed.

Lemma never_h3_on_tcp_proof c alpn sni m :
  select_tcp c alpn sni = Some m -> m_proto m <> H3.
Proof.
  unfold select_tcp, select_tcp_with. destruct sni as [s|]; [|discriminate].
  destruct (TCP_H3_OFFER_IGNORED && is_nil (if TCP_H3_OFFER_IGNORED then filter not_h3 alpn else alpn) && negb (is_nil alpn)); [discriminate|].
  destruct (select c (if TCP_H3_OFFER_IGNORED then filter not_h3 alpn else alpn) s) as [m'|]; [|discriminate].
  destruct (m_proto m') eqn:E; intros H; inversion H; subst; congruence.
Qed.

(* an offer of h3 next to other protocols changes nothing on TCP: the outcome is the one of the offer without it *)
Lemma tcp_h3_offer_is_ignored_proof c alpn sni :
  filter not_h3 alpn <> [] ->
  select_tcp_with true c alpn sni = select_tcp_with true c (filter not_h3 alpn) sni.
Proof.
  intros NE. unfold select_tcp_with. destruct sni as [s|]; [|reflexivity]. cbn [andb].
  assert (F2 : filter not_h3 (filter not_h3 alpn) = filter not_h3 alpn).
  { clear NE. induction alpn as [|a r IH]; [reflexivity|]. cbn [filter]. destruct (not_h3 a) eqn:E; [|exact IH].
    cbn [filter]. rewrite E, IH. reflexivity. }
  rewrite F2.
  destruct (filter not_h3 alpn) as [|x l] eqn:EF; [contradiction|]. cbn [is_nil andb negb]. reflexivity.
Qed.

(* ... and a client that offers nothing but h3 is refused *)
Lemma tcp_only_h3_refused_proof c alpn sni :
  alpn <> [] -> filter not_h3 alpn = [] -> select_tcp_with true c alpn sni = None.
Proof.
  intros NE F. unfold select_tcp_with. destruct sni as [s|]; [|reflexivity]. rewrite F.
  destruct alpn; [contradiction|]. reflexivity.
Qed.

Lemma no_sni_refused_proof c alpn : select_tcp c alpn None = None.
Proof. reflexivity. Qed.

Lemma reload_proof cur c loadable :
  fst (dstep cur (DReload c loadable)) = (if valid_hosts c && loadable then c else cur)
  /\ (forall alpn sni, dstep cur (DSelect alpn sni) = (cur, Some (select cur alpn sni))).
Proof. split; reflexivity. Qed.

(* ---- the QUIC listener ---- *)
Lemma parse_alpn_h3 : parse_alpn [alpn_h3] = [H3].
Proof. vm_compute. reflexivity. Qed.

Lemma spec_select_h3 c s :
  spec_select c [alpn_h3] s =
  match designated c s with
  | None => None
  | Some (ch, i, creds) =>
    if (if respects_enabled ch then c_h3 c else true)
    then Some {| m_channel := ch; m_proto := H3; m_host := i; m_creds := creds |} else None
  end.
Proof.
  unfold spec_select. rewrite parse_alpn_h3. cbn [is_nil negb andb].
  destruct (designated c s) as [[[ch i] creds]|]; [|reflexivity].
  unfold spec_proto. cbn [filter is_nil andb].
  assert (P : permitted ch H3 = true) by (destruct ch; reflexivity).
  rewrite P. cbn [andb enabled].
  destruct (respects_enabled ch); [destruct (c_h3 c)|]; reflexivity.
Qed.

Lemma quic_serves_designated_entry_proof c boot x s ch i creds :
  c_h3 c = true -> designated c (x :: s) = Some (ch, i, creds) ->
  select_quic true c boot (Some (x :: s)) = {| m_channel := ch; m_proto := H3; m_host := i; m_creds := creds |}.
Proof.
  intros E D. unfold select_quic. rewrite select_spec_proof, spec_select_h3, D, E.
  destruct (respects_enabled ch); reflexivity.
Qed.

Lemma quic_undesignated_is_bootstrap_proof u c boot sni :
  match sni with Some s => designated c s = None | None => True end ->
  select_quic u c boot sni = bootstrap boot.
Proof.
  destruct sni as [[|x s]|]; intros D; try reflexivity.
  unfold select_quic. destruct u; [|reflexivity].
  rewrite select_spec_proof, spec_select_h3, D. reflexivity.
Qed.

Lemma quic_always_h3_proof u c boot sni : m_proto (select_quic u c boot sni) = H3.
Proof.
  destruct sni as [[|x s]|]; try reflexivity.
  unfold select_quic. destruct u; [|reflexivity].
  rewrite select_spec_proof, spec_select_h3.
  destruct (designated c (x :: s)) as [[[ch i] creds]|]; [|reflexivity].
  destruct (if respects_enabled ch then c_h3 c else true); reflexivity.
Qed.
