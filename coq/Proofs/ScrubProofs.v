From Coq Require Import List NArith Bool Lia.
From TT Require Import Lib.BytesL Model.Scrub Proofs.SettingsProofs.
Import ListNotations.
Open Scope N_scope.

(* after scrubbing, every header that can carry a secret has the placeholder as its only value *)
Lemma scrub_headers_secret hs : forall seen n v,
  In (n, v) (scrub_headers seen hs) -> secret_name n = true -> v = SCRUBBED.
Proof.
  induction hs as [|[m w] r IH]; intros seen n v H S; cbn [scrub_headers] in H; [contradiction|].
  destruct (secret_name m) eqn:Sm.
  - destruct (existsb (name_eqb m) seen).
    + eapply IH; eassumption.
    + destruct H as [H|H]; [inversion H; reflexivity|eapply IH; eassumption].
  - destruct H as [H|H]; [inversion H; subst; congruence|eapply IH; eassumption].
Qed.

(* and every other header is kept exactly *)
Lemma scrub_headers_other hs : forall seen,
  filter (fun h => negb (secret_name (fst h))) (scrub_headers seen hs)
  = filter (fun h => negb (secret_name (fst h))) hs.
Proof.
  induction hs as [|[m w] r IH]; intros seen; cbn [scrub_headers]; [reflexivity|].
  destruct (secret_name m) eqn:Sm.
  - cbn [filter fst]. rewrite Sm. cbn [negb].
    destruct (existsb (name_eqb m) seen); [apply IH|]. cbn [filter fst]. rewrite Sm. cbn [negb]. apply IH.
  - cbn [filter fst]. rewrite Sm. cbn [negb]. f_equal. apply IH.
Qed.

(* a secret-bearing name that was present stays present (with the placeholder): nothing is hidden silently *)
Lemma scrub_headers_keeps_names hs : forall seen n v,
  In (n, v) hs -> secret_name n = true -> existsb (name_eqb n) seen = false ->
  In (n, SCRUBBED) (scrub_headers seen hs).
Proof.
  induction hs as [|[m w] r IH]; intros seen n v H S E; [contradiction|]. cbn [scrub_headers].
  destruct H as [H|H].
  - inversion H; subst. rewrite S, E. left. reflexivity.
  - destruct (secret_name m) eqn:Sm.
    + destruct (existsb (name_eqb m) seen) eqn:Em.
      * eapply IH; eassumption.
      * destruct (name_eqb n m) eqn:Enm.
        -- unfold name_eqb in Enm. apply list_eqb_N_eq in Enm. subst. left. reflexivity.
        -- right. eapply IH; try eassumption. cbn [existsb].
           rewrite Enm. exact E.
    + right. eapply IH; eassumption.
Qed.

Lemma find_dot_spec s : match find_dot s with
                        | Some suf => exists pre, s = pre ++ suf /\ (forall c, In c pre -> c <> 46) /\ exists r, suf = 46 :: r
                        | None => forall c, In c s -> c <> 46
                        end.
Proof.
  induction s as [|c s IH]; cbn [find_dot]; [intros c []|].
  destruct (c =? 46) eqn:E.
  - apply N.eqb_eq in E. subst. exists []. split; [reflexivity|]. split; [intros c []|]. exists s. reflexivity.
  - apply N.eqb_neq in E. destruct (find_dot s) as [suf|].
    + destruct IH as (pre & H1 & H2 & H3). exists (c :: pre). split; [rewrite H1; reflexivity|]. split; [|exact H3].
      intros d [<-|Hd]; [exact E|apply H2; exact Hd].
    + intros d [<-|Hd]; [exact E|apply IH; exact Hd].
Qed.

(* an SNI of the form <credentials>.<host>, with no dot inside the credentials label, is logged as
   scrubbed.<host>: the label is gone whatever it is *)
Lemma scrub_sni_label creds host :
  (forall c, In c creds -> c <> 46) -> scrub_sni (creds ++ 46 :: host) = SCRUBBED ++ 46 :: host.
Proof.
  intros H. unfold scrub_sni. pose proof (find_dot_spec (creds ++ 46 :: host)) as F.
  destruct (find_dot (creds ++ 46 :: host)) as [suf|].
  - destruct F as (pre & E & P & r & ->). f_equal.
    (* the first dot is the one after the label *)
    revert pre E P. induction creds as [|x creds IH]; intros pre E P.
    + destruct pre as [|y pre]; [cbn in E; inversion E; reflexivity|].
      cbn in E. inversion E; subst. exfalso. apply (P 46); [left; reflexivity|reflexivity].
    + destruct pre as [|y pre].
      * cbn in E. inversion E; subst. exfalso. apply (H 46); [left; reflexivity|reflexivity].
      * cbn in E. inversion E; subst. apply (IH (fun c Hc => H c (or_intror Hc)) pre); [assumption|].
        intros c Hc. apply P. right. exact Hc.
  - exfalso. apply (F 46); [apply in_or_app; right; left; reflexivity|reflexivity].
Qed.

(* --- independence of the secret values (non-interference) ------------------------------------- *)
(* two header lists that differ at most in the VALUES of secret-bearing names *)
Definition same_but_secrets (h1 h2 : list N * list N) : Prop :=
  fst h1 = fst h2 /\ (secret_name (fst h1) = false -> snd h1 = snd h2).

Lemma scrub_headers_noninterference hs1 : forall hs2 seen,
  Forall2 same_but_secrets hs1 hs2 -> scrub_headers seen hs1 = scrub_headers seen hs2.
Proof.
  induction hs1 as [|[n1 v1] r1 IH]; intros hs2 seen F; inversion F as [|x y l l' Hxy Hr]; subst; [reflexivity|].
  destruct y as [n2 v2]. destruct Hxy as [Hn Hv]. cbn [fst snd] in Hn, Hv. subst n2.
  cbn [scrub_headers]. destruct (secret_name n1) eqn:S.
  - destruct (existsb (name_eqb n1) seen); [apply IH; assumption|]. f_equal. apply IH; assumption.
  - rewrite (Hv eq_refl). f_equal. apply IH; assumption.
Qed.

(* a byte that occurs in a scrubbed header value occurs in the placeholder or in the value of a
   header whose name is not secret-bearing: no byte of a secret value is carried over *)
Lemma scrub_headers_bytes_origin hs : forall seen n v k,
  In (n, v) (scrub_headers seen hs) -> In k v ->
  In k SCRUBBED \/ (secret_name n = false /\ In (n, v) hs).
Proof.
  induction hs as [|[m w] r IH]; intros seen n v k H K; cbn [scrub_headers] in H; [contradiction|].
  destruct (secret_name m) eqn:Sm.
  - destruct (existsb (name_eqb m) seen).
    + destruct (IH _ _ _ _ H K) as [A|[A B]]; [left; exact A|right; split; [exact A|right; exact B]].
    + destruct H as [H|H].
      * inversion H; subst. left. exact K.
      * destruct (IH _ _ _ _ H K) as [A|[A B]]; [left; exact A|right; split; [exact A|right; exact B]].
  - destruct H as [H|H].
    + inversion H; subst. right. split; [exact Sm|left; reflexivity].
    + destruct (IH _ _ _ _ H K) as [A|[A B]]; [left; exact A|right; split; [exact A|right; exact B]].
Qed.

(* the SNI shown does not depend on the credentials label *)
Lemma find_dot_app_nodot a : forall b, (forall c, In c a -> c <> 46) -> find_dot (a ++ 46 :: b) = Some (46 :: b).
Proof.
  induction a as [|x a IH]; intros b H; cbn [app find_dot].
  - rewrite N.eqb_refl. reflexivity.
  - destruct (x =? 46) eqn:E; [apply N.eqb_eq in E; exfalso; apply (H x); [left; reflexivity|exact E]|].
    apply IH. intros c Hc. apply H. right. exact Hc.
Qed.
