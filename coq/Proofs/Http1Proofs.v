From Coq Require Import List NArith Bool Arith Lia.
From TT Require Import Lib.BytesL Model.Http1.
Import ListNotations.
Local Open Scope nat_scope.

Definition wf (arrivals : list (list N)) : Prop := Forall (fun a => a <> []) arrivals.

Lemma take_read_spec limit arrivals r arr :
  wf arrivals -> 0 < limit -> take_read limit arrivals = (r, arr) ->
  r ++ concat arr = concat arrivals /\ length r <= limit /\ wf arr
  /\ (r = [] <-> arrivals = [])
  /\ length (concat arr) + length arr < length (concat arrivals) + length arrivals + (if r then 1 else 0).
Proof.
  intros W L H. destruct arrivals as [|a rest]; cbn [take_read] in H.
  - inversion H; subst. cbn. repeat split; auto; lia.
  - inversion W as [|x l Ha Wr]; subst.
    destruct (length a <=? limit) eqn:E.
    + inversion H; subst. apply Nat.leb_le in E. cbn [concat]. repeat split; auto.
      * intros ->. contradiction.
      * discriminate.
      * destruct r; [contradiction|]. rewrite app_length. cbn [length]. lia.
    + inversion H; subst. apply Nat.leb_gt in E. cbn [concat].
      rewrite app_assoc, firstn_skipn. repeat split; auto.
      * rewrite firstn_length. lia.
      * constructor; [|exact Wr]. intros C. apply (f_equal (@length N)) in C. rewrite skipn_length in C. cbn in C. lia.
      * intros C. apply (f_equal (@length N)) in C. rewrite firstn_length in C. cbn in C. lia.
      * discriminate.
      * assert (Hf : length (firstn limit a) = limit) by (rewrite firstn_length; lia).
        destruct (firstn limit a) eqn:F; [cbn in Hf; lia|].
        rewrite !app_length, skipn_length. cbn [length]. lia.
Qed.

Section Spec.
  Variable parse : list N -> presult.
  Hypothesis complete_stable : forall b i t, parse b = PComplete i -> parse (b ++ t) = PComplete i.
  Hypothesis error_stable : forall b t, parse b = PError -> parse (b ++ t) = PError.
  Hypothesis complete_idx : forall b i, parse b = PComplete i -> i <= length b.

  (* what the endpoint must make of a client byte stream, whatever the pieces *)
  Inductive Spec (s : list N) : outcome -> Prop :=
  | SRequest k i : 1 <= k <= Nat.min (length s) CAP -> parse (firstn k s) = PComplete i ->
                   Spec s (ORequest (firstn i s) (skipn i s))
  | SError k : 1 <= k <= Nat.min (length s) CAP -> parse (firstn k s) = PError -> Spec s OFailed
  | STooLong : (forall k, 1 <= k <= CAP -> parse (firstn k s) = PPartial) -> CAP <= length s -> Spec s OFailed
  | SClosed : (forall k, 1 <= k <= length s -> parse (firstn k s) = PPartial) -> length s < CAP -> Spec s OClosed.

  Lemma prefix_partial b k : parse b = PPartial -> parse (firstn k b) = PPartial.
  Proof.
    intros H. destruct (parse (firstn k b)) as [i| |] eqn:E; [|reflexivity|].
    - pose proof (complete_stable _ i (skipn k b) E) as C. rewrite firstn_skipn in C. congruence.
    - pose proof (error_stable _ (skipn k b) E) as C. rewrite firstn_skipn in C. congruence.
  Qed.

  Lemma prefix_mono (s : list N) k1 k2 : k1 <= k2 -> firstn k2 s = firstn k1 s ++ firstn (k2 - k1) (skipn k1 s).
  Proof.
    revert s k2. induction k1 as [|k1 IH]; intros s k2 H.
    - cbn [firstn skipn app]. rewrite Nat.sub_0_r. reflexivity.
    - destruct s as [|x s']; [rewrite !firstn_nil; reflexivity|].
      destruct k2 as [|k2']; [lia|]. cbn [firstn skipn app Nat.sub]. f_equal. apply IH. lia.
  Qed.

  Lemma Spec_functional s o1 o2 : Spec s o1 -> Spec s o2 -> o1 = o2.
  Proof.
    assert (two : forall k1 k2 r1 r2, k1 <= k2 -> parse (firstn k1 s) = r1 -> parse (firstn k2 s) = r2 ->
                                      r1 <> PPartial -> r1 = r2).
    { intros k1 k2 r1 r2 L H1 H2 N1. rewrite (prefix_mono s k1 k2 L) in H2.
      destruct r1 as [i| |]; [|contradiction|].
      - rewrite (complete_stable _ i _ H1) in H2. exact H2.
      - rewrite (error_stable _ _ H1) in H2. exact H2. }
    assert (any : forall k1 k2 r1 r2, parse (firstn k1 s) = r1 -> parse (firstn k2 s) = r2 ->
                                      r1 <> PPartial -> r2 <> PPartial -> r1 = r2).
    { intros k1 k2 r1 r2 H1 H2 N1 N2. destruct (Nat.le_ge_cases k1 k2) as [L|L].
      - eapply two; eassumption.
      - symmetry. eapply two; eassumption. }
    intros A B. destruct A as [k i K P|k K P|P L|P L]; destruct B as [k' i' K' P'|k' K' P'|P' L'|P' L']; try reflexivity;
      try (match goal with
           | H : forall k, _ -> parse (firstn k s) = PPartial, G : parse (firstn ?k0 s) = PComplete _ |- _ =>
             rewrite (H k0) in G by lia; discriminate
           | H : forall k, _ -> parse (firstn k s) = PPartial, G : parse (firstn ?k0 s) = PError |- _ =>
             rewrite (H k0) in G by lia; discriminate
           end); try lia.
    - assert (E : PComplete i = PComplete i') by (eapply any; eauto; discriminate). inversion E. reflexivity.
    - assert (E : PComplete i = PError) by (eapply any; eauto; discriminate). discriminate.
    - assert (E : PError = PComplete i') by (eapply any; eauto; discriminate). discriminate.
  Qed.

  (* the buffer the codec is about to parse *)
  Lemma process_buffer f buffer arrivals1 :
    buffer <> [] -> length buffer <= CAP -> wf arrivals1 ->
    (length buffer < CAP -> parse buffer = PPartial ->
     Spec (buffer ++ concat arrivals1) (head_phase parse true f buffer arrivals1)) ->
    Spec (buffer ++ concat arrivals1)
         match parse buffer with
         | PComplete i => ORequest (firstn i buffer) (skipn i buffer ++ concat arrivals1)
         | PError => OFailed
         | PPartial => if length buffer <? CAP then head_phase parse true f buffer arrivals1 else OFailed
         end.
  Proof.
    intros NE LE W IH. set (s := buffer ++ concat arrivals1).
    assert (Hk : 1 <= length buffer <= Nat.min (length s) CAP).
    { unfold s. rewrite app_length. destruct buffer; [contradiction|cbn [length]]. cbn [length] in LE. lia. }
    assert (Hp : firstn (length buffer) s = buffer).
    { unfold s. rewrite firstn_app, Nat.sub_diag, firstn_all. cbn [firstn]. apply app_nil_r. }
    destruct (parse buffer) as [i| |] eqn:P.
    - pose proof (complete_idx _ _ P) as Hi.
      replace (firstn i buffer) with (firstn i s).
      2:{ unfold s. rewrite firstn_app. replace (i - length buffer) with 0 by lia. cbn [firstn]. apply app_nil_r. }
      replace (skipn i buffer ++ concat arrivals1) with (skipn i s).
      2:{ unfold s. rewrite skipn_app. replace (i - length buffer) with 0 by lia. reflexivity. }
      apply (SRequest s (length buffer) i Hk). rewrite Hp. exact P.
    - destruct (length buffer <? CAP) eqn:E.
      + apply Nat.ltb_lt in E. apply IH; [exact E|reflexivity].
      + apply Nat.ltb_ge in E. apply STooLong.
        * intros k Kk. replace (firstn k s) with (firstn k buffer).
          -- apply prefix_partial. exact P.
          -- unfold s. rewrite firstn_app. replace (k - length buffer) with 0 by lia. cbn [firstn]. symmetry. apply app_nil_r.
        * unfold s. rewrite app_length. lia.
    - apply (SError s (length buffer) Hk). rewrite Hp. exact P.
  Qed.

  Lemma head_phase_spec fuel : forall buf arrivals,
    wf arrivals ->
    (buf = [] \/ (parse buf = PPartial /\ length buf < CAP)) ->
    length (concat arrivals) + length arrivals < fuel ->
    Spec (buf ++ concat arrivals) (head_phase parse true fuel buf arrivals).
  Proof.
    induction fuel as [|f IH]; intros buf arrivals W I F; [lia|].
    cbn [head_phase]. destruct buf as [|b0 buf'].
    - (* nothing buffered *)
      destruct (take_read CAP arrivals) as [buffer arrivals1] eqn:T.
      destruct (take_read_spec CAP arrivals buffer arrivals1 W ltac:(unfold CAP; lia) T) as (E & L & W1 & Z & M).
      cbn [app]. rewrite <- E. destruct buffer as [|x buffer'].
      + assert (arrivals = []) by (apply Z; reflexivity). subst. cbn in E. cbn [app]. rewrite E.
        apply SClosed; [intros k Hk; cbn in Hk; lia|cbn; unfold CAP; lia].
      + apply process_buffer; try assumption; [discriminate|].
        intros L1 P. apply IH; [exact W1|right; split; assumption|]. lia.
    - (* a partial head is buffered *)
      destruct I as [I|[P L]]; [discriminate|].
      set (buf := b0 :: buf') in *.
      destruct (take_read (CAP - length buf) arrivals) as [r arr] eqn:T.
      destruct (take_read_spec (CAP - length buf) arrivals r arr W ltac:(lia) T) as (E & Lr & W1 & Z & M).
      rewrite <- E. destruct r as [|x r'].
      + assert (arrivals = []) by (apply Z; reflexivity). subst arrivals. cbn in T. inversion T; subst arr. cbn.
        rewrite app_nil_r. apply SClosed; [|exact L].
        intros k Hk. apply prefix_partial. exact P.
      + set (r := x :: r') in *.
        replace (buf ++ r ++ concat arr) with ((buf ++ r) ++ concat arr) by (symmetry; apply app_assoc).
        change (match (b0 :: buf') ++ r with [] => OClosed | _ :: _ =>
                  match parse (buf ++ r) with
                  | PComplete i => ORequest (firstn i (buf ++ r)) (skipn i (buf ++ r) ++ concat arr)
                  | PError => OFailed
                  | PPartial => if length (buf ++ r) <? CAP then head_phase parse true f (buf ++ r) arr else OFailed
                  end end) with
               (match parse (buf ++ r) with
                  | PComplete i => ORequest (firstn i (buf ++ r)) (skipn i (buf ++ r) ++ concat arr)
                  | PError => OFailed
                  | PPartial => if length (buf ++ r) <? CAP then head_phase parse true f (buf ++ r) arr else OFailed
                  end).
        apply process_buffer; try assumption.
        * discriminate.
        * rewrite app_length. lia.
        * intros L1 P1. apply IH; [exact W1|right; split; assumption|].
          cbn [length] in M. lia.
  Qed.

  Theorem listen_meets_spec arrivals :
    wf arrivals -> Spec (concat arrivals) (listen parse true arrivals).
  Proof.
    intros W. unfold listen. change (concat arrivals) with ([] ++ concat arrivals) at 1.
    apply head_phase_spec; [exact W|left; reflexivity|lia].
  Qed.

  Theorem segmentation_invariance a1 a2 :
    wf a1 -> wf a2 -> concat a1 = concat a2 -> listen parse true a1 = listen parse true a2.
  Proof.
    intros W1 W2 E. apply (Spec_functional (concat a1)); [apply listen_meets_spec; exact W1|].
    rewrite E. apply listen_meets_spec. exact W2.
  Qed.

  Theorem never_spins arrivals : wf arrivals -> listen parse true arrivals <> OFuel.
  Proof. intros W C. pose proof (listen_meets_spec arrivals W) as S. rewrite C in S. inversion S. Qed.

End Spec.

  (* the code as found: with a partial head buffered it never reads again *)
Lemma old_code_spins (parse : list N -> presult) fuel buf arrivals :
    buf <> [] -> parse buf = PPartial -> length buf < CAP -> head_phase parse false fuel buf arrivals = OFuel.
  Proof.
    induction fuel as [|f IH]; intros NE P L; [reflexivity|].
    cbn [head_phase]. destruct buf as [|b0 b]; [contradiction|]. rewrite P.
    apply Nat.ltb_lt in L. rewrite L. apply IH; [discriminate|exact P|apply Nat.ltb_lt; exact L].
  Qed.

Theorem split_head_spun_before_repair (parse : list N -> presult) a rest fuel :
    a <> [] -> length a < CAP -> parse a = PPartial -> head_phase parse false (S fuel) [] (a :: rest) = OFuel.
  Proof.
    intros NE L P. cbn [head_phase take_read]. replace (length a <=? CAP) with true by (symmetry; apply Nat.leb_le; lia).
    destruct a as [|x a']; [contradiction|]. rewrite P.
    replace (length (x :: a') <? CAP) with true by (symmetry; apply Nat.ltb_lt; exact L).
    apply old_code_spins; [discriminate|exact P|exact L].
  Qed.

(* ---------- the upload side: every byte after the head, in order, in non-empty chunks ---------- *)
Lemma upload_is_the_rest fuel : forall ubs (tail : list N) arrivals,
  wf arrivals -> 0 < ubs -> length (concat arrivals) + length arrivals + (if tail then 0 else 1) + 1 < fuel ->
  concat (upload_chunks fuel ubs tail arrivals) = tail ++ concat arrivals
  /\ Forall (fun c => c <> []) (upload_chunks fuel ubs tail arrivals).
Proof.
  induction fuel as [|f IH]; intros ubs tail arrivals W U F; [lia|].
  cbn [upload_chunks]. destruct tail as [|t0 t].
  - destruct (take_read ubs arrivals) as [r arr] eqn:T.
    destruct (take_read_spec ubs arrivals r arr W U T) as (E & L & W1 & Z & M).
    destruct r as [|x r'].
    + assert (arrivals = []) by (apply Z; reflexivity). subst. cbn. split; [reflexivity|constructor].
    + destruct (IH ubs [] arr W1 U ltac:(cbv iota in F, M |- *; lia)) as [C1 C2]. cbn [concat]. rewrite C1. cbn [app].
      rewrite <- E. split; [reflexivity|constructor; [discriminate|exact C2]].
  - destruct (IH ubs [] arrivals W U ltac:(cbv iota in F |- *; lia)) as [C1 C2].
    cbn [concat]. rewrite C1. split; [reflexivity|constructor; [discriminate|exact C2]].
Qed.

(* ---------- the concrete parser of the executable model is stable ---------- *)
Lemma find_end_app b : forall pos i t, find_end b pos = Some i -> find_end (b ++ t) pos = Some i.
Proof.
  induction b as [|x b IH]; intros pos i t H; [discriminate|].
  cbn [find_end] in H. cbn [app find_end].
  destruct (N.eq_dec x 13) as [->|Nx].
  - destruct b as [|y b1]; [cbn in H; discriminate|].
    destruct (N.eq_dec y 10) as [->|Ny].
    + destruct b1 as [|z b2]; [cbn in H; discriminate|].
      destruct (N.eq_dec z 13) as [->|Nz].
      * destruct b2 as [|w b3]; [cbn in H; discriminate|].
        destruct (N.eq_dec w 10) as [->|Nw].
        -- cbn [app]. exact H.
        -- cbn [app]. assert (G : forall X, match w with 10%N => Some (pos + 4) | _ => X end = X).
           { intros X. destruct w as [|p]; [reflexivity|]. repeat (destruct p as [p|p|]; try reflexivity). contradiction. }
           rewrite G in H |- *. apply (IH (S pos) i t). exact H.
      * cbn [app]. assert (G : forall (X : option nat) Y, match z with 13%N => Y | _ => X end = X).
        { intros X Y. destruct z as [|p]; [reflexivity|]. repeat (destruct p as [p|p|]; try reflexivity). contradiction. }
        rewrite G in H |- *. apply (IH (S pos) i t). exact H.
    + cbn [app]. assert (G : forall (X : option nat) Y, match y with 10%N => Y | _ => X end = X).
      { intros X Y. destruct y as [|p]; [reflexivity|]. repeat (destruct p as [p|p|]; try reflexivity). contradiction. }
      rewrite G in H |- *. apply (IH (S pos) i t). exact H.
  - assert (G : forall (X : option nat) Y, match x with 13%N => Y | _ => X end = X).
    { intros X Y. destruct x as [|p]; [reflexivity|]. repeat (destruct p as [p|p|]; try reflexivity). contradiction. }
    rewrite G in H. rewrite G. apply (IH (S pos) i t). exact H.
Qed.

Lemma find_end_bound b : forall pos i, find_end b pos = Some i -> pos + 4 <= i <= pos + length b.
Proof.
  induction b as [|x b IH]; intros pos i H; [discriminate|].
  cbn [find_end] in H. cbn [length].
  assert (R : find_end b (S pos) = Some i -> pos + 4 <= i <= pos + S (length b)).
  { intros H1. specialize (IH _ _ H1). lia. }
  destruct x as [|p]; [apply R; exact H|].
  repeat (destruct p as [p|p|]; try (apply R; exact H)).
  destruct b as [|y b1]; [discriminate|].
  destruct y as [|p]; [apply R; exact H|].
  repeat (destruct p as [p|p|]; try (apply R; exact H)).
  destruct b1 as [|z b2]; [cbn in H; discriminate|].
  destruct z as [|p]; [apply R; exact H|].
  repeat (destruct p as [p|p|]; try (apply R; exact H)).
  destruct b2 as [|w b3]; [cbn in H; discriminate|].
  destruct w as [|p]; [apply R; exact H|].
  repeat (destruct p as [p|p|]; try (apply R; exact H)).
  inversion H; subst. cbn [length]. lia.
Qed.

Lemma parse_c_complete_stable b i t : parse_c b = PComplete i -> parse_c (b ++ t) = PComplete i.
Proof.
  unfold parse_c. destruct (find_end b 0) as [j|] eqn:F; [|discriminate].
  rewrite (find_end_app b 0 j t F). pose proof (find_end_bound b 0 j F) as B.
  replace (firstn j (b ++ t)) with (firstn j b); [exact (fun H => H)|].
  rewrite firstn_app. replace (j - length b) with 0 by lia. cbn [firstn]. symmetry. apply app_nil_r.
Qed.

Lemma parse_c_error_stable b t : parse_c b = PError -> parse_c (b ++ t) = PError.
Proof.
  unfold parse_c. destruct (find_end b 0) as [j|] eqn:F; [|discriminate].
  rewrite (find_end_app b 0 j t F). pose proof (find_end_bound b 0 j F) as B.
  replace (firstn j (b ++ t)) with (firstn j b); [exact (fun H => H)|].
  rewrite firstn_app. replace (j - length b) with 0 by lia. cbn [firstn]. symmetry. apply app_nil_r.
Qed.

Lemma parse_c_complete_idx b i : parse_c b = PComplete i -> i <= length b.
Proof.
  unfold parse_c. destruct (find_end b 0) as [j|] eqn:F; [|discriminate].
  pose proof (find_end_bound b 0 j F) as B.
  destruct (count_crlf (firstn j b) - 2 <=? MAX_HEADERS); [|discriminate].
  intros H. inversion H; subst. lia.
Qed.
