From Coq Require Import List NArith ZArith Bool Lia ZifyBool ZifyNat ZifyN.
From TT Require Import Lib.Res Lib.BytesL Lib.Utf8 Lib.Base64 Generated.Consts Model.Socks5 Spec.Rfc1928.
Import ListNotations.
Open Scope N_scope.

Ltac Zify.zify_post_hook ::= Z.div_mod_to_equations.

Ltac sconsts := unfold SOCKS_PROTOCOL_VERSION, SOCKS_RESERVED, SOCKS_ADDRESS_TYPE_IP_V4,
  SOCKS_ADDRESS_TYPE_IP_V6, SOCKS_ADDRESS_TYPE_DOMAIN_NAME, SOCKS_AUTHENTICATION_CODE_NO_AUTH,
  SOCKS_AUTHENTICATION_CODE_USERNAME_PASSWORD, SOCKS_AUTHENTICATION_CODE_EXTENDED_AUTH,
  SOCKS_AUTHENTICATION_CODE_NO_ACCEPTABLE, SOCKS_USERNAME_PASSWORD_AUTHENTICATION_VER,
  SOCKS_AUTHENTICATION_STATUS_SUCCESS, SOCKS_EXTENDED_AUTHENTICATION_TERM_TYPE_CODE,
  SOCKS_EXTENDED_AUTHENTICATION_TERM_VAL_LENGTH, SOCKS_UDP_HEADER_FRAG, SOCKS_USERPASS_LENGTH_CHECKED,
  SOCKS_USERPASS_EMPTY_REFUSED, SOCKS_EXT_EMPTY_REFUSED in *.

(* evaluate a comparison between numerals *)
Ltac lit a b :=
  let v := eval vm_compute in (N.eqb a b) in replace (N.eqb a b) with v by reflexivity.

(* ---------- writers produce well-formed messages ---------- *)

Lemma selection_wf a : spec_selection (selection_message a) = Some [method_of a; 0].
Proof. destruct a; reflexivity. Qed.

Lemma userpass_wf u p msg :
  bytes_ok u = true -> bytes_ok p = true ->
  auth_message (AUserPass u p) = Some msg -> spec_userpass msg = Some (u, p).
Proof.
  intros Hu Hp. unfold auth_message. sconsts. cbn [N.eqb Pos.eqb andb].
  destruct ((255 <? lenN u) || (255 <? lenN p)) eqn:E; [discriminate|].
  destruct ((lenN u =? 0) || (lenN p =? 0)) eqn:E0; [discriminate|].
  intros H. inversion H; subst. clear H.
  apply orb_false_iff in E. destruct E as [E1 E2].
  apply orb_false_iff in E0. destruct E0 as [E3 E4].
  unfold u8. rewrite !N.mod_small by lia.
  cbn [Datatypes.app spec_userpass].
  replace ((1 <=? lenN u) && (lenN u <=? 255) && (lenN u <? lenN (u ++ lenN p :: p))) with true
    by (rewrite lenN_app, lenN_cons; lia).
  rewrite takeN_exact, dropN_exact.
  replace ((1 <=? lenN p) && (lenN p <=? 255) && (lenN p =? lenN p)) with true by lia. reflexivity.
Qed.

Lemma userpass_too_long u p :
  255 < lenN u \/ 255 < lenN p -> auth_message (AUserPass u p) = None.
Proof.
  intros H. unfold auth_message. sconsts. cbn [N.eqb Pos.eqb andb].
  replace ((255 <? lenN u) || (255 <? lenN p)) with true by lia. reflexivity.
Qed.

(* RFC 1929: UNAME and PASSWD are 1 to 255 octets: with an empty half no message is written *)
Lemma userpass_empty u p :
  lenN u = 0 \/ lenN p = 0 -> auth_message (AUserPass u p) = None.
Proof.
  intros H. unfold auth_message. sconsts. cbn [N.eqb Pos.eqb andb].
  destruct ((255 <? lenN u) || (255 <? lenN p)); [reflexivity|].
  replace ((lenN u =? 0) || (lenN p =? 0)) with true by lia. reflexivity.
Qed.

(* what the grammar accepts has the lengths the RFC asks for *)
Lemma spec_userpass_lengths m u p :
  spec_userpass m = Some (u, p) -> 1 <= lenN u <= 255 /\ 1 <= lenN p <= 255.
Proof.
  unfold spec_userpass.
  destruct m as [|v [|ulen rest]]; try discriminate.
  - destruct v as [|[?|?|]]; discriminate.
  - destruct v as [|[?|?|]]; try discriminate.
    destruct ((1 <=? ulen) && (ulen <=? 255) && (ulen <? lenN rest)) eqn:E; [|discriminate].
    destruct (dropN ulen rest) as [|plen q] eqn:D; [discriminate|].
    destruct ((1 <=? plen) && (plen <=? 255) && (lenN q =? plen)) eqn:E2; [|discriminate].
    intros H. injection H as <- <-. rewrite lenN_takeN. lia.
Qed.

Definition dest_ok (d : s_dest) : Prop :=
  match d with
  | DIp b => (lenN b = 4 \/ lenN b = 16)
  | DDomain n => True
  end.

Lemma be_to_be2 port : port < 65536 -> be (to_be 2 port) = port.
Proof. intros H. apply be_to_be_small. exact H. Qed.

Lemma request_wf cmd d port msg :
  dest_ok d -> port < 65536 ->
  request_message cmd d port = Some msg ->
  spec_request msg =
  Some (cmd,
        match d with DIp b => if lenN b =? 4 then 1 else 4 | DDomain _ => 3 end,
        match d with DIp b => b | DDomain n => n end, port).
Proof.
  intros Hd Hp. unfold request_message. sconsts. destruct d as [b|name]; cbn [dest_ok] in Hd.
  - intros H. injection H as <-.
    change ([5; cmd; 0] ++ [if lenN b =? 4 then 1 else 4] ++ b ++ to_be 2 port)
      with (5 :: cmd :: 0 :: (if lenN b =? 4 then 1 else 4) :: b ++ to_be 2 port).
    unfold spec_request.
    destruct Hd as [Hd|Hd]; rewrite Hd.
    + lit 4 4. lit 1 1. change [(port / 256) mod 256; port mod 256] with (to_be 2 port).
      replace (lenN (b ++ to_be 2 port) =? 6) with true
        by (rewrite lenN_app, lenN_to_be, Hd; reflexivity).
      rewrite <- Hd, takeN_exact, dropN_exact, be_to_be2 by exact Hp. reflexivity.
    + lit 16 4. lit 4 1. lit 4 4. change [(port / 256) mod 256; port mod 256] with (to_be 2 port).
      replace (lenN (b ++ to_be 2 port) =? 18) with true
        by (rewrite lenN_app, lenN_to_be, Hd; reflexivity).
      rewrite <- Hd, takeN_exact, dropN_exact, be_to_be2 by exact Hp. reflexivity.
  - destruct (255 <? lenN name) eqn:E; [discriminate|].
    intros H. injection H as <-.
    change ([5; cmd; 0] ++ [3; lenN name] ++ name ++ to_be 2 port)
      with (5 :: cmd :: 0 :: 3 :: lenN name :: name ++ to_be 2 port).
    unfold spec_request. lit 3 1. lit 3 4. lit 3 3. change [(port / 256) mod 256; port mod 256] with (to_be 2 port).
    replace ((lenN name <=? 255) && (lenN (name ++ to_be 2 port) =? lenN name + 2)) with true
      by (rewrite lenN_app, lenN_to_be; lia).
    rewrite takeN_exact, dropN_exact, be_to_be2 by exact Hp. reflexivity.
Qed.

Lemma request_too_long cmd name port :
  255 < lenN name -> request_message cmd (DDomain name) port = None.
Proof. intros H. unfold request_message. replace (255 <? lenN name) with true by lia. reflexivity. Qed.

(* extended authentication values: what the types of socks5_client.rs guarantee (a CLIENT_ADDRESS is an IP address, SNI_AUTH has
   no value); that the strings are not empty is NOT assumed: the writer refuses empty ones *)
Definition val_ok (tv : N * list N) : Prop :=
  bytes_ok (snd tv) = true
  /\ (fst tv = 1 \/ fst tv = 3 \/ fst tv = 4
      \/ (fst tv = 2 /\ (lenN (snd tv) = 4 \/ lenN (snd tv) = 16))
      \/ (fst tv = 5 /\ lenN (snd tv) = 0)).

Definition vals_ok (vals : list (N * list N)) : Prop := Forall val_ok vals.

Lemma to_be2_pair n : n <= 65535 -> to_be 2 n = [n / 256; n mod 256].
Proof.
  intros H. change (to_be 2 n) with [(n / 256) mod 256; n mod 256].
  rewrite N.mod_small by lia. reflexivity.
Qed.

Lemma ext_length_ok t v :
  val_ok (t, v) -> ext_is_string t && (lenN v =? 0) = false -> lenN v <= 65535 ->
  spec_ext_length_ok t (lenN v) = true /\ t <> 0.
Proof.
  unfold val_ok, ext_is_string, spec_ext_length_ok. cbn [fst snd]. intros [_ H] E L.
  destruct H as [->|[->|[->|[[-> H]|[-> H]]]]].
  - lit 1 1. cbn [orb andb] in *. split; lia.
  - lit 3 1. lit 3 3. cbn [orb andb] in *. split; lia.
  - lit 4 1. lit 4 3. lit 4 4. cbn [orb andb] in *. split; lia.
  - lit 2 1. lit 2 3. lit 2 4. lit 2 2. cbn [orb]. split; lia.
  - lit 5 1. lit 5 3. lit 5 4. lit 5 2. lit 5 5. cbn [orb]. split; lia.
Qed.

Lemma ext_values_wf vals : forall b fuel,
  vals_ok vals -> ext_values vals = Some b -> (length b < fuel)%nat ->
  spec_ext_values fuel (b ++ [0; 0; 0]) = Some vals.
Proof.
  induction vals as [|[t v] rest IH]; intros b fuel Hok Hb Hf; cbn [ext_values] in Hb.
  - inversion Hb; subst. destruct fuel; [cbn in Hf; lia|]. reflexivity.
  - sconsts. change (1 =? 1) with true in Hb. cbn [andb] in Hb.
    destruct (ext_is_string t && (lenN v =? 0)) eqn:Es; [discriminate|].
    destruct (65535 <? lenN v) eqn:E; [discriminate|].
    destruct (ext_values rest) as [r|] eqn:Er; [|discriminate].
    inversion Hb; subst. clear Hb.
    inversion Hok as [|? ? Hv Hok']; subst.
    destruct (ext_length_ok t v Hv Es) as [Hl Ht]; [lia|].
    destruct fuel as [|f]; [cbn in Hf; lia|].
    change (to_be 2 (lenN v)) with [(lenN v / 256) mod 256; lenN v mod 256].
    rewrite (N.mod_small (lenN v / 256) 256) by lia. cbn [Datatypes.app spec_ext_values].
    replace (t =? 0) with false by lia.
    replace (lenN v / 256 * 256 + lenN v mod 256) with (lenN v) by lia.
    rewrite Hl. cbn [negb].
    rewrite <- app_assoc.
    replace (lenN (v ++ r ++ [0; 0; 0]) <? lenN v) with false by (rewrite lenN_app; lia).
    rewrite takeN_exact, dropN_exact.
    rewrite (IH r f Hok' eq_refl).
    + reflexivity.
    + cbn [Datatypes.app length] in Hf. rewrite !app_length in Hf. cbn [length] in Hf. lia.
Qed.

(* lib/README.md: DOMAIN, USER_AGENT, PROXY_AUTH have length (0..MAX]: with an empty one no message is written *)
Lemma ext_values_empty_string vals t v :
  In (t, v) vals -> ext_is_string t = true -> lenN v = 0 -> ext_values vals = None.
Proof.
  induction vals as [|[t' v'] rest IH]; intros Hin Ht Hv; [destruct Hin|].
  cbn [ext_values]. sconsts. change (1 =? 1) with true. cbn [andb].
  destruct Hin as [E|Hin].
  - injection E as -> ->. rewrite Ht. replace (lenN v =? 0) with true by lia. reflexivity.
  - destruct (ext_is_string t' && (lenN v' =? 0)); [reflexivity|].
    destruct (65535 <? lenN v'); [reflexivity|]. rewrite (IH Hin Ht Hv). reflexivity.
Qed.

Lemma ext_wf vals msg :
  vals_ok vals -> auth_message (AExt vals) = Some msg -> spec_ext msg = Some vals.
Proof.
  intros Hok. unfold auth_message. sconsts.
  destruct (ext_values vals) as [b|] eqn:E; [|discriminate].
  intros H. inversion H; subst. clear H.
  cbn [Datatypes.app spec_ext]. change (to_be 2 0) with [0; 0].
  change ([0] ++ [0; 0]) with [0; 0; 0].
  apply ext_values_wf; [exact Hok|exact E|]. rewrite app_length. cbn [length]. lia.
Qed.

(* socks5_forwarder::make_extended_auth *)
Lemma ext_auth_empty_user_agent_is_none domain addr src :
  make_extended_auth domain addr (Some []) src = make_extended_auth domain addr None src.
Proof. reflexivity. Qed.

Lemma make_extended_auth_ok domain addr agent src :
  bytes_ok domain = true -> bytes_ok addr = true -> (lenN addr = 4 \/ lenN addr = 16) ->
  match agent with Some ua => bytes_ok ua = true | None => True end ->
  match src with SrcBasic t => bytes_ok t = true | SrcSni => True end ->
  vals_ok (make_extended_auth domain addr agent src).
Proof.
  intros Hd Ha Hl Hu Hs. unfold make_extended_auth, vals_ok.
  assert (H1 : val_ok (1, domain)) by (split; [exact Hd|left; reflexivity]).
  assert (H2 : val_ok (2, addr)) by (split; [exact Ha|right; right; right; left; split; [reflexivity|exact Hl]]).
  assert (H3 : val_ok (match src with SrcSni => (5, []) | SrcBasic t => (4, t) end)).
  { destruct src as [|t]; split; cbn [fst snd]; try reflexivity; try exact Hs.
    - right; right; right; right. split; reflexivity.
    - right; right; left; reflexivity. }
  destruct agent as [ua|]; [destruct ua as [|c ua]|]; cbn [is_nil Datatypes.app].
  - repeat (apply Forall_cons; [assumption|]). apply Forall_nil.
  - apply Forall_cons; [exact H1|]. apply Forall_cons; [exact H2|].
    apply Forall_cons; [split; [exact Hu|right; left; reflexivity]|].
    apply Forall_cons; [exact H3|apply Forall_nil].
  - repeat (apply Forall_cons; [assumption|]). apply Forall_nil.
Qed.

(* the message made of a request's values is well-formed whatever the User-Agent field was, an empty one included *)
Lemma ext_auth_of_a_request_wf domain addr agent src msg :
  bytes_ok domain = true -> bytes_ok addr = true -> (lenN addr = 4 \/ lenN addr = 16) ->
  match agent with Some ua => bytes_ok ua = true | None => True end ->
  match src with SrcBasic t => bytes_ok t = true | SrcSni => True end ->
  auth_message (AExt (make_extended_auth domain addr agent src)) = Some msg ->
  spec_ext msg = Some (make_extended_auth domain addr agent src).
Proof.
  intros Hd Ha Hl Hu Hs. apply ext_wf. apply make_extended_auth_ok; assumption.
Qed.

(* ---------- the dialogue ---------- *)

Definition auth_ok (a : s_auth) : Prop :=
  match a with
  | ANone => True
  | AUserPass u p => bytes_ok u = true /\ bytes_ok p = true
  | AExt vals => vals_ok vals
  end.

Definition em_wellformed (a : s_auth) (d : s_dest) (port : N) (e : emitted) : Prop :=
  match e with
  | EmSel m => spec_selection m = Some [method_of a; 0]
  | EmAuth m =>
    match a with
    | AUserPass u p => spec_userpass m = Some (u, p)
    | AExt vals => spec_ext m = Some vals
    | ANone => False
    end
  | EmReq m => spec_request m =
               Some (1,
                     match d with DIp b => if lenN b =? 4 then 1 else 4 | DDomain _ => 3 end,
                     match d with DIp b => b | DDomain n => n end, port)
  end.

Lemma after_auth_wf a d port s em :
  dest_ok d -> port < 65536 ->
  Forall (em_wellformed a d port) em ->
  Forall (em_wellformed a d port) (fst (after_auth a d port s em)).
Proof.
  intros Hd Hp Hem. unfold after_auth.
  destruct (request_message 1 d port) as [req|] eqn:E; cbn [fst]; [|exact Hem].
  apply Forall_app. split; [exact Hem|]. constructor; [|constructor].
  cbn [em_wellformed]. apply (request_wf 1 d port req Hd Hp E).
Qed.

Lemma auth_message_wf a msg :
  auth_ok a -> auth_message a = Some msg ->
  match a with
  | AUserPass u p => spec_userpass msg = Some (u, p)
  | AExt vals => spec_ext msg = Some vals
  | ANone => False
  end.
Proof.
  destruct a as [|u p|vals]; cbn [auth_ok]; intros Hok H.
  - discriminate.
  - destruct Hok. eapply userpass_wf; eassumption.
  - eapply ext_wf; eassumption.
Qed.

(* whatever the server sends (any byte string, any truncation), every message the client emits is
   well-formed and carries the intended fields *)
Lemma emitted_wellformed_proof a d port server :
  auth_ok a -> dest_ok d -> port < 65536 ->
  Forall (em_wellformed a d port) (fst (connect a d port server)).
Proof.
  intros Ha Hd Hp. unfold connect.
  assert (H0 : Forall (em_wellformed a d port) [EmSel (selection_message a)]).
  { constructor; [apply selection_wf|constructor]. }
  destruct (read_u8 server) as [[ver s1]|]; [|exact H0].
  destruct (negb (ver =? SOCKS_PROTOCOL_VERSION)); [exact H0|].
  destruct (read_u8 s1) as [[m s2]|]; [|exact H0].
  destruct (m =? SOCKS_AUTHENTICATION_CODE_NO_AUTH); [apply after_auth_wf; assumption|].
  destruct ((m =? SOCKS_AUTHENTICATION_CODE_USERNAME_PASSWORD) || (m =? SOCKS_AUTHENTICATION_CODE_EXTENDED_AUTH)).
  - destruct (m =? method_of a); [|exact H0].
    destruct (auth_message a) as [msg|] eqn:E; [|exact H0].
    assert (H1 : Forall (em_wellformed a d port) ([EmSel (selection_message a)] ++ [EmAuth msg])).
    { apply Forall_app. split; [exact H0|]. constructor; [|constructor].
      cbn [em_wellformed]. apply (auth_message_wf a msg Ha E). }
    destruct (read_u8 s2) as [[v s3]|]; [|exact H1].
    destruct (negb (v =? SOCKS_USERNAME_PASSWORD_AUTHENTICATION_VER)); [exact H1|].
    destruct (read_u8 s3) as [[status s4]|]; [|exact H1].
    destruct (negb (status =? SOCKS_AUTHENTICATION_STATUS_SUCCESS)); [exact H1|].
    apply after_auth_wf; assumption.
  - destruct (m =? SOCKS_AUTHENTICATION_CODE_NO_ACCEPTABLE); exact H0.
Qed.

(* a too long field fails the request before anything of that message is written *)
Lemma read_reply_tcp s : read_reply s = OTcp -> exists rest, s = 5 :: 0 :: 0 :: rest.
Proof.
  unfold read_reply. sconsts.
  destruct s as [|ver s1]; cbn [read_u8]; [discriminate|].
  destruct (negb (ver =? 5)) eqn:Ev; [discriminate|].
  destruct s1 as [|code s2]; cbn [read_u8]; [discriminate|].
  destruct (8 <? code); [discriminate|].
  destruct s2 as [|rsv s3]; cbn [read_u8]; [discriminate|].
  destruct (negb (rsv =? 0)) eqn:Er; [discriminate|].
  destruct s3 as [|atyp s4]; cbn [read_u8]; [discriminate|].
  match goal with |- context [match ?x with Ok _ => _ | _ => _ end] => destruct x end; try discriminate.
  destruct (take_bytes 2 a); [|discriminate].
  destruct (code =? 0) eqn:Ec; [|discriminate].
  intros _. exists (atyp :: s4).
  apply negb_false_iff in Ev, Er. apply N.eqb_eq in Ev, Er, Ec. subst. reflexivity.
Qed.

Lemma proceeds_only_if_offered_and_success_proof a d port server em :
  connect a d port server = (em, OTcp) ->
  exists m rest, server = 5 :: m :: rest /\ (m = 0 \/ (m = method_of a /\ exists r2, rest = 1 :: 0 :: r2)).
Proof.
  unfold connect. sconsts.
  destruct server as [|ver s1]; cbn [read_u8]; [intros H; inversion H|].
  destruct (negb (ver =? 5)) eqn:Ev; [intros H; inversion H|].
  apply negb_false_iff, N.eqb_eq in Ev. subst ver.
  destruct s1 as [|m s2]; cbn [read_u8]; [intros H; inversion H|].
  destruct (m =? 0) eqn:E0.
  { intros _. apply N.eqb_eq in E0. subst. eexists _, _. split; [reflexivity|left; reflexivity]. }
  destruct ((m =? 2) || (m =? 128)) eqn:E1.
  - destruct (m =? method_of a) eqn:Em; [|intros H; inversion H].
    destruct (auth_message a) as [msg|]; [|intros H; inversion H].
    destruct s2 as [|v s3]; cbn [read_u8]; [intros H; inversion H|].
    destruct (negb (v =? 1)) eqn:E2; [intros H; inversion H|].
    destruct s3 as [|st s4]; cbn [read_u8]; [intros H; inversion H|].
    destruct (negb (st =? 0)) eqn:E3; [intros H; inversion H|].
    intros _. apply negb_false_iff, N.eqb_eq in E2, E3. apply N.eqb_eq in Em. subst.
    eexists _, _. split; [reflexivity|right]. split; [reflexivity|eexists; reflexivity].
  - destruct (m =? 255); intros H; inversion H.
Qed.

(* any reply other than success fails the request *)
Lemma after_auth_tcp_needs_success a d port s em em' :
  after_auth a d port s em = (em', OTcp) -> exists rest, s = 5 :: 0 :: 0 :: rest.
Proof.
  unfold after_auth. destruct (request_message 1 d port); intros H; inversion H.
  apply read_reply_tcp. assumption.
Qed.


(* ---------- the stream after the reply ---------- *)

Lemma read_reply_full_outcome s : fst (read_reply_full s) = read_reply s.
Proof.
  unfold read_reply_full, read_reply.
  destruct s as [|ver [|code [|rsv [|atyp s4]]]]; try reflexivity.
  cbn [read_u8].
  destruct (negb (ver =? SOCKS_PROTOCOL_VERSION)); [reflexivity|].
  destruct (8 <? code); [reflexivity|].
  destruct (negb (rsv =? SOCKS_RESERVED)); [reflexivity|].
  assert (E : (match s4 with
               | [] => Reject
               | l :: s5 => match take_bytes l s5 with
                            | Some (name, r) => if utf8_valid name then Ok r else Panic
                            | None => Reject end
               end) =
              (match read_u8 s4 with
               | Some (l, s5) => match take_bytes l s5 with
                                 | Some (name, r) => if utf8_valid name then Ok r else Panic
                                 | None => Reject end
               | None => Reject end)).
  { destruct s4; reflexivity. }
  rewrite E.
  match goal with |- context [match ?x with Ok _ => _ | _ => _ end] => destruct x end; try reflexivity.
  destruct (take_bytes 2 a) as [[p rest]|]; [|reflexivity].
  destruct (code =? 0); reflexivity.
Qed.

Lemma take_bytes_some n s a r : take_bytes n s = Some (a, r) -> s = a ++ r /\ lenN a = n.
Proof.
  unfold take_bytes. destruct (lenN s <? n) eqn:E; [discriminate|].
  intros H. injection H as <- <-. split; [symmetry; apply takeN_dropN|].
  rewrite lenN_takeN. lia.
Qed.

Lemma read_reply_full_frames s rest :
  read_reply_full s = (OTcp, rest) ->
  exists reply, s = reply ++ rest /\ reply_len s = Some (lenN reply) /\ exists a, reply = 5 :: 0 :: 0 :: a.
Proof.
  unfold read_reply_full, reply_len.
  destruct s as [|ver [|code [|rsv [|atyp s4]]]];
    try (intros H; injection H as H _; revert H; unfold read_reply; cbn [read_u8];
         repeat match goal with |- context [if ?c then _ else _] => destruct c end; discriminate).
  sconsts.
  destruct (negb (ver =? 5)) eqn:Ev; [discriminate|].
  destruct (8 <? code); [discriminate|].
  destruct (negb (rsv =? 0)) eqn:Er; [discriminate|].
  apply negb_false_iff, N.eqb_eq in Ev, Er. subst ver rsv.
  destruct (atyp =? 1) eqn:A1.
  { destruct (take_bytes 4 s4) as [[ad r]|] eqn:T; [|discriminate].
    destruct (take_bytes 2 r) as [[p rest']|] eqn:T2; [|discriminate].
    destruct (code =? 0) eqn:Ec; [|discriminate]. apply N.eqb_eq in Ec. subst code.
    intros H. injection H as <-.
    apply take_bytes_some in T, T2. destruct T as [-> L1], T2 as [-> L2].
    exists (5 :: 0 :: 0 :: atyp :: ad ++ p). split; [cbn; rewrite <- app_assoc; reflexivity|].
    split; [|eexists; reflexivity].
    f_equal. rewrite !lenN_cons, lenN_app. lia. }
  destruct (atyp =? 4) eqn:A4.
  { destruct (take_bytes 16 s4) as [[ad r]|] eqn:T; [|discriminate].
    destruct (take_bytes 2 r) as [[p rest']|] eqn:T2; [|discriminate].
    destruct (code =? 0) eqn:Ec; [|discriminate]. apply N.eqb_eq in Ec. subst code.
    intros H. injection H as <-.
    apply take_bytes_some in T, T2. destruct T as [-> L1], T2 as [-> L2].
    exists (5 :: 0 :: 0 :: atyp :: ad ++ p). split; [cbn; rewrite <- app_assoc; reflexivity|].
    split; [|eexists; reflexivity].
    f_equal. rewrite !lenN_cons, lenN_app. lia. }
  destruct (atyp =? 3) eqn:A3; [|discriminate].
  destruct s4 as [|l s5]; [discriminate|].
  destruct (take_bytes l s5) as [[name r]|] eqn:T; [|discriminate].
  destruct (utf8_valid name); [|discriminate].
  destruct (take_bytes 2 r) as [[p rest']|] eqn:T2; [|discriminate].
  destruct (code =? 0) eqn:Ec; [|discriminate]. apply N.eqb_eq in Ec. subst code.
  intros H. injection H as <-.
  apply take_bytes_some in T, T2. destruct T as [-> L1], T2 as [-> L2].
  exists (5 :: 0 :: 0 :: atyp :: l :: name ++ p). split; [cbn; rewrite <- app_assoc; reflexivity|].
  split; [|eexists; reflexivity].
  f_equal. rewrite !lenN_cons, lenN_app. lia.
Qed.

(* nothing of the stream is handed on unless the dialogue succeeded *)
Lemma connect_rest_only_on_success a d port server :
  snd (connect a d port server) <> OTcp -> connect_rest a d port server = [].
Proof.
  unfold connect_rest. destruct (connect a d port server) as [em o]. cbn [snd].
  destruct o; try reflexivity. intros H. exfalso. apply H. reflexivity.
Qed.


Lemma after_auth_tcp_reply a d port s em em' :
  after_auth a d port s em = (em', OTcp) -> read_reply s = OTcp.
Proof.
  unfold after_auth. destruct (request_message 1 d port); intros H; inversion H. reflexivity.
Qed.

(* after a successful CONNECT dialogue the server's stream is: method selection, the authentication
   status when credentials were exchanged, one RFC 1928 reply reporting success, and then exactly the
   bytes that become the tunnelled stream *)
Lemma connect_rest_frames a d port server em :
  connect a d port server = (em, OTcp) ->
  exists pre reply,
    server = pre ++ reply ++ connect_rest a d port server
    /\ (pre = [5; 0] \/ pre = [5; method_of a; 1; 0])
    /\ reply_len (reply ++ connect_rest a d port server) = Some (lenN reply)
    /\ exists r, reply = 5 :: 0 :: 0 :: r.
Proof.
  intros H. unfold connect_rest. rewrite H. revert H.
  unfold connect. sconsts.
  destruct server as [|ver s1]; cbn [read_u8]; [intros H; inversion H|].
  destruct (negb (ver =? 5)) eqn:Ev; [intros H; inversion H|].
  apply negb_false_iff, N.eqb_eq in Ev. subst ver.
  destruct s1 as [|m s2]; cbn [read_u8]; [intros H; inversion H|].
  destruct (m =? 0) eqn:E0.
  { apply N.eqb_eq in E0. subst m. intros H. apply after_auth_tcp_reply in H.
    unfold read_reply_rest.
    pose proof (read_reply_full_outcome s2) as O. rewrite H in O.
    destruct (read_reply_full s2) as [o rest] eqn:F. cbn [fst snd] in *. subst o.
    apply read_reply_full_frames in F. destruct F as (reply & -> & L & R).
    exists [5; 0], reply. repeat split; try assumption. left; reflexivity. }
  destruct ((m =? 2) || (m =? 128)) eqn:E1.
  - destruct (m =? method_of a) eqn:Em; [|intros H; inversion H].
    destruct (auth_message a) as [msg|]; [|intros H; inversion H].
    destruct s2 as [|v s3]; cbn [read_u8]; [intros H; inversion H|].
    destruct (negb (v =? 1)) eqn:E2; [intros H; inversion H|].
    destruct s3 as [|st s4]; cbn [read_u8]; [intros H; inversion H|].
    destruct (negb (st =? 0)) eqn:E3; [intros H; inversion H|].
    apply negb_false_iff, N.eqb_eq in E2, E3. apply N.eqb_eq in Em. subst v st.
    intros H. apply after_auth_tcp_reply in H.
    change (dropN 2 (1 :: 0 :: s4)) with s4.
    unfold read_reply_rest.
    pose proof (read_reply_full_outcome s4) as O. rewrite H in O.
    destruct (read_reply_full s4) as [o rest] eqn:F. cbn [fst snd] in *. subst o.
    apply read_reply_full_frames in F. destruct F as (reply & -> & L & R).
    exists [5; m; 1; 0], reply. repeat split; try assumption. right. rewrite Em. reflexivity.
  - destruct (m =? 255); intros H; inversion H.
Qed.

(* ---------- UDP relay header ---------- *)

Lemma take_n {A} n (a b : list A) : lenN a = n -> takeN n (a ++ b) = a.
Proof. intros <-. apply takeN_exact. Qed.
Lemma drop_n {A} n (a b : list A) : lenN a = n -> dropN n (a ++ b) = b.
Proof. intros <-. apply dropN_exact. Qed.

Lemma udp_roundtrip ip port data :
  (lenN ip = 4 \/ lenN ip = 16) -> port < 65536 ->
  udp_unwrap (udp_wrap ip port data) = Ok (ip, port, data)
  /\ spec_udp (udp_wrap ip port data) = Some (ip, port, data).
Proof.
  intros Hi Hp. unfold udp_wrap. sconsts.
  assert (H2 : lenN (to_be 2 port) = 2) by apply lenN_to_be.
  set (p2 := to_be 2 port) in *.
  assert (Hbe : be p2 = port) by (apply be_to_be2; exact Hp).
  destruct Hi as [Hi|Hi]; rewrite Hi.
  - lit 4 4.
    change ([0; 0; 0; 1] ++ ip ++ p2 ++ data) with (0 :: 0 :: 0 :: 1 :: ip ++ p2 ++ data).
    unfold udp_unwrap, spec_udp. sconsts.
    replace (lenN (0 :: 0 :: 0 :: 1 :: ip ++ p2 ++ data) <? 10) with false
      by (rewrite !lenN_cons, !lenN_app, H2, Hi; lia).
    lit 0 0. lit 1 1. cbn [andb negb orb].
    replace (lenN (ip ++ p2 ++ data) <? 4) with false by (rewrite lenN_app, Hi; lia).
    replace (lenN (ip ++ p2 ++ data) <? 4 + 2) with false by (rewrite !lenN_app, H2, Hi; lia).
    lit 4 0. cbn [orb].
    rewrite (take_n 4 ip _ Hi), (drop_n 4 ip _ Hi).
    replace (lenN (p2 ++ data) <? 2) with false by (rewrite lenN_app, H2; lia).
    rewrite (take_n 2 p2 _ H2), (drop_n 2 p2 _ H2), Hbe.
    split; [reflexivity|].
    replace (dropN (4 + 2) (ip ++ p2 ++ data)) with data; [reflexivity|].
    rewrite <- dropN_dropN, (drop_n 4 ip _ Hi), (drop_n 2 p2 _ H2). reflexivity.
  - lit 16 4.
    change ([0; 0; 0; 4] ++ ip ++ p2 ++ data) with (0 :: 0 :: 0 :: 4 :: ip ++ p2 ++ data).
    unfold udp_unwrap, spec_udp. sconsts.
    replace (lenN (0 :: 0 :: 0 :: 4 :: ip ++ p2 ++ data) <? 10) with false
      by (rewrite !lenN_cons, !lenN_app, H2, Hi; lia).
    lit 0 0. lit 4 1. lit 4 4. cbn [andb negb orb].
    replace (lenN (ip ++ p2 ++ data) <? 16) with false by (rewrite lenN_app, Hi; lia).
    replace (lenN (ip ++ p2 ++ data) <? 16 + 2) with false by (rewrite !lenN_app, H2, Hi; lia).
    lit 16 0. cbn [orb].
    rewrite (take_n 16 ip _ Hi), (drop_n 16 ip _ Hi).
    replace (lenN (p2 ++ data) <? 2) with false by (rewrite lenN_app, H2; lia).
    rewrite (take_n 2 p2 _ H2), (drop_n 2 p2 _ H2), Hbe.
    split; [reflexivity|].
    replace (dropN (16 + 2) (ip ++ p2 ++ data)) with data; [reflexivity|].
    rewrite <- dropN_dropN, (drop_n 16 ip _ Hi), (drop_n 2 p2 _ H2). reflexivity.
Qed.

Lemma udp_unwrap_total pkt : udp_unwrap pkt <> Panic /\ udp_unwrap pkt <> Fuel.
Proof.
  unfold udp_unwrap. sconsts.
  destruct (lenN pkt <? 10) eqn:E; [split; discriminate|].
  destruct pkt as [|r0 [|r1 [|frag [|atyp rest]]]]; try (split; discriminate).
  rewrite !lenN_cons in E.
  destruct (negb ((r0 =? 0) && (r1 =? 0))); [split; discriminate|].
  destruct (negb (frag =? 0)); [split; discriminate|].
  destruct (atyp =? 1).
  - destruct (lenN rest <? 4) eqn:E2; [lia|].
    destruct (lenN (dropN 4 rest) <? 2); split; discriminate.
  - destruct (atyp =? 4); [|split; discriminate].
    destruct (lenN rest <? 16); [split; discriminate|].
    destruct (lenN (dropN 16 rest) <? 2); split; discriminate.
Qed.

(* ---------- credentials are split at the first colon ---------- *)

Lemma split_colon_first u p : ~ In 58 u -> split_colon (u ++ 58 :: p) = Some (u, p).
Proof.
  induction u as [|c u IH]; intros H; cbn [Datatypes.app split_colon].
  - reflexivity.
  - destruct (c =? 58) eqn:E; [exfalso; apply H; left; lia|].
    rewrite IH; [reflexivity|]. intros Hin. apply H. right. exact Hin.
Qed.

Lemma creds_split_first_colon_proof u p :
  bytes_ok (u ++ 58 :: p) = true -> utf8_valid (u ++ 58 :: p) = true -> ~ In 58 u ->
  make_auth_basic (b64_encode (u ++ 58 :: p)) = Some (u, p).
Proof.
  intros Hb Hu Hn. unfold make_auth_basic. rewrite b64_roundtrip by exact Hb. rewrite Hu.
  apply split_colon_first. exact Hn.
Qed.
