From Coq Require Import List NArith Bool.
From TT Require Import Model.H3Stream.
Import ListNotations.

Lemma h3run_from evs : forall s,
  wr_open s = true -> known s = true -> ~ In ClientReset evs ->
  let s' := fold_left (h3step true true) evs s in
  wr_open s' = true /\ known s' = true /\ delivered s' = delivered s ++ responses evs /\ lost s' = lost s.
Proof.
  induction evs as [|e r IH]; intros s W K NR; cbn [fold_left responses].
  - rewrite app_nil_r. auto.
  - assert (NR' : ~ In ClientReset r) by (intros H; apply NR; right; exact H).
    destruct e as [| |c].
    + assert (E : h3step true true s ClientFin =
                  {| rd_open := false; wr_open := true; known := true; delivered := delivered s; lost := lost s |}).
      { unfold h3step, still_known. rewrite W, K. reflexivity. }
      rewrite E.
      apply (IH {| rd_open := false; wr_open := true; known := true; delivered := delivered s; lost := lost s |} eq_refl eq_refl NR').
    + exfalso. apply NR. left. reflexivity.
    + assert (E : h3step true true s (Respond c) =
                  {| rd_open := rd_open s; wr_open := true; known := true; delivered := delivered s ++ [c]; lost := lost s |}).
      { unfold h3step. rewrite W, K. reflexivity. }
      rewrite E.
      destruct (IH {| rd_open := rd_open s; wr_open := true; known := true; delivered := delivered s ++ [c]; lost := lost s |}
                   eq_refl eq_refl NR') as (A & B & C & D).
      cbn [delivered lost] in C, D. repeat split; [exact A|exact B| |exact D].
      rewrite C, <- app_assoc. reflexivity.
Qed.

Lemma every_response_piece_is_delivered_proof evs :
  ~ In ClientReset evs ->
  delivered (h3run true true evs) = responses evs /\ lost (h3run true true evs) = [].
Proof.
  intros NR. destruct (h3run_from evs h3_0 eq_refl eq_refl NR) as (_ & _ & C & D). split; assumption.
Qed.

(* the read side (StreamSource::read with nothing buffered), with the check of the reset flag in place *)
Lemma h3src_reset_stays : forall evs s, reset_seen s = true -> reset_seen (fold_left h3src_step evs s) = true.
Proof.
  induction evs as [|e r IH]; intros s H; cbn [fold_left]; [exact H|].
  apply IH. destruct e; cbn; try exact H; reflexivity.
Qed.

Lemma h3src_reset_seen_after : forall evs s, In ClientReset evs -> reset_seen (fold_left h3src_step evs s) = true.
Proof.
  induction evs as [|e r IH]; intros s H; [destruct H|].
  cbn [fold_left]. destruct H as [E|H].
  - subst e. apply h3src_reset_stays. reflexivity.
  - apply IH. exact H.
Qed.

Lemma h3_reset_read_proof :
  (forall evs, In ClientReset evs -> h3_read_empty true (h3src_run evs) = SrcErr)
  /\ (forall evs, h3_read_empty true (h3src_run evs) = SrcEof -> ~ In ClientReset evs /\ In ClientFin evs).
Proof.
  split.
  - intros evs H. unfold h3_read_empty, h3src_run. rewrite (h3src_reset_seen_after evs h3src_0 H). reflexivity.
  - intros evs H. split.
    + intros R. unfold h3_read_empty, h3src_run in H. rewrite (h3src_reset_seen_after evs h3src_0 R) in H. discriminate H.
    + unfold h3src_run in H.
      assert (G : forall l s, q_finished (fold_left h3src_step l s) = true -> q_finished s = true \/ In ClientFin l \/ In ClientReset l).
      { induction l as [|e r IH]; intros s Q; cbn [fold_left] in Q; [left; exact Q|].
        destruct (IH _ Q) as [Q'|[F|R]].
        - destruct e; cbn in Q'; [right; left; left; reflexivity|right; right; left; reflexivity|left; exact Q'].
        - right; left; right; exact F.
        - right; right; right; exact R. }
      unfold h3_read_empty in H.
      destruct (reset_seen (fold_left h3src_step evs h3src_0)) eqn:RS; [discriminate H|].
      cbn [andb] in H.
      destruct (q_finished (fold_left h3src_step evs h3src_0)) eqn:Q.
      * destruct (G evs h3src_0 Q) as [Q0|[F|R]]; [discriminate Q0|exact F|].
        rewrite (h3src_reset_seen_after evs h3src_0 R) in RS. discriminate RS.
      * destruct (registered (fold_left h3src_step evs h3src_0)); discriminate H.
Qed.
