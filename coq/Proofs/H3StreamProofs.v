From Coq Require Import List NArith Bool.
From TT Require Import Model.H3Stream.
Import ListNotations.

Lemma h3run_from evs : forall s,
  wr_open s = true -> known s = true -> ~ In ClientReset evs ->
  let s' := fold_left (h3step true true) evs s in
  wr_open s' = true /\ known s' = true /\ delivered s' = delivered s ++ responses evs /\ lost s' = lost s.
Proof.
  induction evs as [|e r IH]; intros s W K NR; cbn [fold_left responses].
  - rewrite app_nil_r. auto.
  - assert (NR' : ~ In ClientReset r) by (intros H; apply NR; right; exact H).
    destruct e as [| |c].
    + assert (E : h3step true true s ClientFin =
                  {| rd_open := false; wr_open := true; known := true; delivered := delivered s; lost := lost s |}).
      { unfold h3step, still_known. rewrite W, K. reflexivity. }
      rewrite E.
      apply (IH {| rd_open := false; wr_open := true; known := true; delivered := delivered s; lost := lost s |} eq_refl eq_refl NR').
    + exfalso. apply NR. left. reflexivity.
    + assert (E : h3step true true s (Respond c) =
                  {| rd_open := rd_open s; wr_open := true; known := true; delivered := delivered s ++ [c]; lost := lost s |}).
      { unfold h3step. rewrite W, K. reflexivity. }
      rewrite E.
      destruct (IH {| rd_open := rd_open s; wr_open := true; known := true; delivered := delivered s ++ [c]; lost := lost s |}
                   eq_refl eq_refl NR') as (A & B & C & D).
      cbn [delivered lost] in C, D. repeat split; [exact A|exact B| |exact D].
      rewrite C, <- app_assoc. reflexivity.
Qed.

Lemma every_response_piece_is_delivered_proof evs :
  ~ In ClientReset evs ->
  delivered (h3run true true evs) = responses evs /\ lost (h3run true true evs) = [].
Proof.
  intros NR. destruct (h3run_from evs h3_0 eq_refl eq_refl NR) as (_ & _ & C & D). split; assumption.
Qed.

(* the read side (StreamSource::read with nothing buffered), with the check of the reset flag and the question to the
   connection in place: a reset is known to the source one way or the other, whether or not the codec has handled it *)
Lemma h3src_reset_stays : forall told evs s, reset_seen s || q_reset s = true ->
  let s' := fold_left (h3src_step told) evs s in reset_seen s' || q_reset s' = true.
Proof.
  intros told. induction evs as [|e r IH]; intros s H; cbn [fold_left]; [exact H|].
  apply IH. destruct e; cbn; try exact H.
  destruct (reset_seen s), told; reflexivity.
Qed.

Lemma h3src_finished_stays : forall told evs s, q_finished s = true -> q_finished (fold_left (h3src_step told) evs s) = true.
Proof.
  intros told. induction evs as [|e r IH]; intros s H; cbn [fold_left]; [exact H|].
  apply IH. destruct e; cbn; try exact H; reflexivity.
Qed.

Lemma h3src_reset_known_after : forall told evs s, In ClientReset evs ->
  let s' := fold_left (h3src_step told) evs s in reset_seen s' || q_reset s' = true /\ q_finished s' = true.
Proof.
  intros told. induction evs as [|e r IH]; intros s H; [destruct H|].
  cbn [fold_left]. destruct H as [E|H].
  - subst e. split.
    + apply h3src_reset_stays. cbn. destruct (reset_seen s), told; reflexivity.
    + apply h3src_finished_stays. reflexivity.
  - apply IH. exact H.
Qed.

Lemma h3_reset_read_proof :
  (forall told evs, In ClientReset evs -> h3_read_empty true true (h3src_run told evs) = SrcErr)
  /\ (forall told evs, h3_read_empty true true (h3src_run told evs) = SrcEof -> ~ In ClientReset evs /\ In ClientFin evs).
Proof.
  assert (P1 : forall told evs, In ClientReset evs -> h3_read_empty true true (h3src_run told evs) = SrcErr).
  { intros told evs H. unfold h3_read_empty, h3src_run.
    destruct (h3src_reset_known_after told evs h3src_0 H) as [K Q]. cbn zeta in K, Q.
    rewrite Q. destruct (reset_seen (fold_left (h3src_step told) evs h3src_0)); [reflexivity|].
    cbn [orb] in K. rewrite K. reflexivity. }
  split; [exact P1|].
  intros told evs H. split.
  - intros R. rewrite (P1 told evs R) in H. discriminate H.
  - unfold h3src_run in H.
    assert (G : forall l s, q_finished (fold_left (h3src_step told) l s) = true -> q_finished s = true \/ In ClientFin l \/ In ClientReset l).
    { induction l as [|e r IH]; intros s Q; cbn [fold_left] in Q; [left; exact Q|].
      destruct (IH _ Q) as [Q'|[F|R]].
      - destruct e; cbn in Q'; [right; left; left; reflexivity|right; right; left; reflexivity|left; exact Q'].
      - right; left; right; exact F.
      - right; right; right; exact R. }
    destruct (q_finished (fold_left (h3src_step told) evs h3src_0)) eqn:Q.
    + destruct (G evs h3src_0 Q) as [Q0|[F|R]]; [discriminate Q0|exact F|].
      fold (h3src_run told evs) in H. rewrite (P1 told evs R) in H. discriminate H.
    + unfold h3_read_empty in H. rewrite Q in H.
      destruct (true && reset_seen (fold_left (h3src_step told) evs h3src_0)); [discriminate H|].
      destruct (registered (fold_left (h3src_step told) evs h3src_0)); discriminate H.
Qed.
