From Coq Require Import List NArith Bool.
From TT Require Import Model.H3Stream.
Import ListNotations.

Lemma h3run_from evs : forall s,
  wr_open s = true -> known s = true -> ~ In ClientReset evs ->
  let s' := fold_left (h3step true true) evs s in
  wr_open s' = true /\ known s' = true /\ delivered s' = delivered s ++ responses evs /\ lost s' = lost s.
Proof.
  induction evs as [|e r IH]; intros s W K NR; cbn [fold_left responses].
  - rewrite app_nil_r. auto.
  - assert (NR' : ~ In ClientReset r) by (intros H; apply NR; right; exact H).
    destruct e as [| |c].
    + assert (E : h3step true true s ClientFin =
                  {| rd_open := false; wr_open := true; known := true; delivered := delivered s; lost := lost s |}).
      { unfold h3step, still_known. rewrite W, K. reflexivity. }
      rewrite E.
      apply (IH {| rd_open := false; wr_open := true; known := true; delivered := delivered s; lost := lost s |} eq_refl eq_refl NR').
    + exfalso. apply NR. left. reflexivity.
    + assert (E : h3step true true s (Respond c) =
                  {| rd_open := rd_open s; wr_open := true; known := true; delivered := delivered s ++ [c]; lost := lost s |}).
      { unfold h3step. rewrite W, K. reflexivity. }
      rewrite E.
      destruct (IH {| rd_open := rd_open s; wr_open := true; known := true; delivered := delivered s ++ [c]; lost := lost s |}
                   eq_refl eq_refl NR') as (A & B & C & D).
      cbn [delivered lost] in C, D. repeat split; [exact A|exact B| |exact D].
      rewrite C, <- app_assoc. reflexivity.
Qed.

Lemma every_response_piece_is_delivered_proof evs :
  ~ In ClientReset evs ->
  delivered (h3run true true evs) = responses evs /\ lost (h3run true true evs) = [].
Proof.
  intros NR. destruct (h3run_from evs h3_0 eq_refl eq_refl NR) as (_ & _ & C & D). split; assumption.
Qed.
