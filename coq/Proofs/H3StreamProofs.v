From Coq Require Import List NArith Bool.
From TT Require Import Model.H3Stream.
Import ListNotations.

Lemma h3run_from evs : forall s,
  wr_open s = true -> ~ In ClientReset evs ->
  let s' := fold_left (h3step true) evs s in
  wr_open s' = true /\ delivered s' = delivered s ++ responses evs /\ lost s' = lost s.
Proof.
  induction evs as [|e r IH]; intros s W NR; cbn [fold_left responses].
  - rewrite app_nil_r. auto.
  - assert (NR' : ~ In ClientReset r) by (intros H; apply NR; right; exact H).
    destruct e as [| |c].
    + apply (IH (h3step true s ClientFin)); [exact W|exact NR'].
    + exfalso. apply NR. left. reflexivity.
    + assert (E : h3step true s (Respond c) =
                  {| rd_open := rd_open s; wr_open := true; delivered := delivered s ++ [c]; lost := lost s |}).
      { unfold h3step. rewrite W. reflexivity. }
      rewrite E.
      destruct (IH {| rd_open := rd_open s; wr_open := true; delivered := delivered s ++ [c]; lost := lost s |} eq_refl NR')
        as (A & B & C).
      cbn [delivered lost] in B, C. repeat split; [exact A| |exact C].
      rewrite B, <- app_assoc. reflexivity.
Qed.

(* whatever the order of the client's FIN and the pieces of the response, every piece reaches the client *)
Lemma every_response_piece_is_delivered_proof evs :
  ~ In ClientReset evs ->
  delivered (h3run true evs) = responses evs /\ lost (h3run true evs) = [].
Proof.
  intros NR. destruct (h3run_from evs h3_0 eq_refl NR) as (_ & B & C). split; assumption.
Qed.

