From Coq Require Import List NArith Bool Lia.
From TT Require Import Lib.BytesL Model.Http1Wire Spec.Rfc9112.
Import ListNotations.
Open Scope N_scope.

Ltac norm_app := repeat (first [rewrite <- app_assoc | progress cbn [app]]).

Definition no_byte (c : N) (l : list N) : bool := forallb (fun b => negb (b =? c)) l.
Definition no_cr (l : list N) : bool := no_byte 13 l.
(* what the http crate guarantees of a header: no colon in the name, no line break in either part *)
Definition hdr_ok (h : header) : bool := no_byte 58 (fst h) && no_cr (fst h) && no_cr (snd h).

Lemma no_byte_app c a b : no_byte c (a ++ b) = no_byte c a && no_byte c b.
Proof. unfold no_byte. apply forallb_app. Qed.

Lemma take_line_app l : forall r, no_cr l = true -> take_line (l ++ 13 :: 10 :: r) = Some (l, r).
Proof.
  induction l as [|x l IH]; intros r H.
  - cbn [app take_line]. rewrite !N.eqb_refl. reflexivity.
  - cbn [no_cr no_byte forallb] in H. apply andb_prop in H. destruct H as [Hx Hl].
    change ((x :: l) ++ 13 :: 10 :: r) with (x :: (l ++ 13 :: 10 :: r)).
    cbn [take_line].
    destruct (l ++ 13 :: 10 :: r) as [|y t] eqn:E.
    + destruct l; discriminate E.
    + apply negb_true_iff in Hx. rewrite Hx. cbn [andb].
      rewrite <- E, (IH r Hl). reflexivity.
Qed.

Lemma split_at_app c a : forall b, no_byte c a = true -> split_at c (a ++ c :: b) = Some (a, b).
Proof.
  induction a as [|x a IH]; intros b H.
  - cbn [app split_at]. rewrite N.eqb_refl. reflexivity.
  - cbn [no_byte forallb] in H. apply andb_prop in H. destruct H as [Hx Ha].
    cbn [app split_at]. apply negb_true_iff in Hx. rewrite Hx, (IH b Ha). reflexivity.
Qed.

Definition as_read (hs : list header) : list header := map (fun h => (fst h, trim_ows (snd h))) hs.

Lemma read_headers_S f s :
  read_headers (S f) s =
  match take_line s with
  | None => None
  | Some ([], rest) => Some ([], rest)
  | Some (line, rest) =>
    match split_at 58 line with
    | None => None
    | Some (name, v) =>
      match read_headers f rest with
      | Some (hs, tail) => Some ((name, trim_ows v) :: hs, tail)
      | None => None
      end
    end
  end.
Proof. reflexivity. Qed.

Lemma read_headers_enc hs : forall rest,
  forallb hdr_ok hs = true ->
  read_headers (S (length hs)) (enc_headers hs ++ rest) = Some (as_read hs, rest).
Proof.
  induction hs as [|h hs IH]; intros rest H.
  - unfold enc_headers. cbn [flat_map app length]. rewrite read_headers_S.
    change (crlf ++ rest) with ([] ++ 13 :: 10 :: rest). rewrite take_line_app by reflexivity. reflexivity.
  - cbn [forallb] in H. apply andb_prop in H. destruct H as [Hh Hs].
    unfold hdr_ok in Hh. apply andb_prop in Hh. destruct Hh as [Hh Hv]. apply andb_prop in Hh. destruct Hh as [Hc Hn].
    assert (E : enc_headers (h :: hs) ++ rest = (fst h ++ 58 :: 32 :: snd h) ++ 13 :: 10 :: (enc_headers hs ++ rest)).
    { unfold enc_headers, crlf. cbn [flat_map]. norm_app. reflexivity. }
    rewrite E. change (length (h :: hs)) with (S (length hs)).
    rewrite read_headers_S.
    rewrite take_line_app.
    2:{ unfold no_cr. rewrite no_byte_app. fold (no_cr (fst h)). rewrite Hn. cbn [no_byte forallb andb negb].
        change (58 =? 13) with false. change (32 =? 13) with false. cbn [negb andb]. exact Hv. }
    destruct (fst h ++ 58 :: 32 :: snd h) as [|z line] eqn:EL.
    { destruct (fst h); discriminate EL. }
    rewrite <- EL. rewrite (split_at_app 58 (fst h) (32 :: snd h) Hc).
    rewrite (IH rest Hs). cbn [trim_ows]. change (32 =? 32) with true. cbn [orb].
    cbn [as_read map]. reflexivity.
Qed.

Lemma strip_version minor r :
  strip_prefix [72; 84; 84; 80; 47; 49; 46] (http1_version minor ++ r) = Some ((48 + minor) :: r).
Proof. unfold http1_version. cbn [app strip_prefix]. rewrite !N.eqb_refl. reflexivity. Qed.

Lemma digit_minor minor : minor < 10 -> is_digit (48 + minor) = true /\ 48 + minor - 48 = minor.
Proof. intros H. unfold is_digit. split; [|lia]. apply andb_true_intro. split; apply N.leb_le; lia. Qed.

Lemma digit_not_cr a : is_digit a = true -> (a =? 13) = false.
Proof. unfold is_digit. intros H. apply andb_prop in H. destruct H as [H _]. apply N.leb_le in H. apply N.eqb_neq. lia. Qed.

Lemma response_round_trip_proof minor a b c reason hs rest :
  minor < 10 -> is_digit a = true -> is_digit b = true -> is_digit c = true ->
  no_cr reason = true -> forallb hdr_ok hs = true ->
  read_response (S (length hs)) (enc_response minor [a; b; c] reason hs ++ rest) =
  Some ({| rs_minor := minor; rs_status := [a; b; c]; rs_reason := reason; rs_headers := as_read hs |}, rest).
Proof.
  intros Hm Ha Hb Hc Hr Hh.
  destruct (digit_minor minor Hm) as [Dm Em].
  assert (E : enc_response minor [a; b; c] reason hs ++ rest =
              (http1_version minor ++ 32 :: a :: b :: c :: 32 :: reason) ++ 13 :: 10 :: (enc_headers hs ++ rest)).
  { unfold enc_response, crlf. norm_app. reflexivity. }
  rewrite E. unfold read_response.
  rewrite take_line_app.
  2:{ unfold no_cr, http1_version. cbn [app no_byte forallb].
      rewrite (digit_not_cr _ Dm), (digit_not_cr _ Ha), (digit_not_cr _ Hb), (digit_not_cr _ Hc).
      change (72 =? 13) with false. change (84 =? 13) with false. change (80 =? 13) with false. change (47 =? 13) with false.
      change (49 =? 13) with false. change (46 =? 13) with false. change (32 =? 13) with false. cbn [negb andb]. exact Hr. }
  unfold read_version. rewrite strip_version, Dm, Em, Ha, Hb, Hc. cbn [andb].
  rewrite (read_headers_enc hs rest Hh). reflexivity.
Qed.

Lemma request_round_trip_proof method target minor hs rest :
  minor < 10 -> no_byte 32 method = true -> no_cr method = true -> no_byte 32 target = true -> no_cr target = true ->
  forallb hdr_ok hs = true ->
  read_request (S (length hs)) (enc_request method target minor None hs ++ rest) =
  Some ({| rq_method := method; rq_target := target; rq_minor := minor; rq_headers := as_read hs |}, rest).
Proof.
  intros Hm Hms Hmc Hts Htc Hh.
  destruct (digit_minor minor Hm) as [Dm Em].
  assert (E : enc_request method target minor None hs ++ rest =
              (method ++ 32 :: target ++ 32 :: http1_version minor) ++ 13 :: 10 :: (enc_headers hs ++ rest)).
  { unfold enc_request, crlf. norm_app. reflexivity. }
  rewrite E. unfold read_request.
  rewrite take_line_app.
  2:{ unfold no_cr. rewrite no_byte_app. fold (no_cr method). rewrite Hmc. cbn [andb no_byte forallb].
      change (32 =? 13) with false. cbn [negb andb].
      change (forallb (fun b => negb (b =? 13)) (target ++ 32 :: http1_version minor)) with (no_byte 13 (target ++ 32 :: http1_version minor)).
      rewrite no_byte_app. fold (no_cr target). rewrite Htc. unfold http1_version. cbn [andb no_byte forallb].
      rewrite (digit_not_cr _ Dm).
      change (72 =? 13) with false. change (84 =? 13) with false. change (80 =? 13) with false. change (47 =? 13) with false.
      change (49 =? 13) with false. change (46 =? 13) with false. change (32 =? 13) with false. reflexivity. }
  rewrite (split_at_app 32 method _ Hms).
  rewrite (split_at_app 32 target _ Hts).
  unfold read_version.
  rewrite <- (app_nil_r (http1_version minor)), strip_version, Dm, Em.
  rewrite (read_headers_enc hs rest Hh). reflexivity.
Qed.

(* with a Host line: it is read back as the first header *)
Lemma request_with_host_proof method target minor host hs :
  enc_request method target minor (Some host) hs = enc_request method target minor None (([72; 111; 115; 116], host) :: hs).
Proof.
  unfold enc_request, enc_headers, crlf. cbn [flat_map fst snd]. norm_app. reflexivity.
Qed.
