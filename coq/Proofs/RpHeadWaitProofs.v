From Coq Require Import List NArith Bool.
From TT Require Import Model.RpHeadWait.
Import ListNotations.

Section P.
  Variable complete : list N -> option (list N * list N).

  Lemma settled_stays o evs keeps :
    (forall b w, o <> Waiting b w) -> run_from complete keeps o evs = o.
  Proof.
    revert o. induction evs as [|e r IH]; intros o H; cbn [run_from fold_left]; [reflexivity|].
    assert (E : step complete keeps o e = o) by (destruct o; [exfalso; eapply H; reflexivity|reflexivity|reflexivity]).
    rewrite E. apply IH, H.
  Qed.

  (* what happens to the body write has no say in what the client is told: only the origin's side decides *)
  Lemma write_events_do_not_matter evs : forall buf w w',
    verdict (run_from complete true (Waiting buf w) evs)
    = verdict (run_from complete true (Waiting buf w') (filter is_origin evs)).
  Proof.
    induction evs as [|e r IH]; intros buf w w'; [reflexivity|].
    destruct e as [b| | | | |]; cbn [filter is_origin run_from fold_left step].
    - destruct (complete (buf ++ b)) as [[h t]|].
      + change (fold_left (step complete true) r (Head h t)) with (run_from complete true (Head h t) r).
        change (fold_left (step complete true) (filter is_origin r) (Head h t)) with (run_from complete true (Head h t) (filter is_origin r)).
        rewrite !settled_stays by discriminate. reflexivity.
      + apply IH.
    - change (fold_left (step complete true) r BadGateway) with (run_from complete true BadGateway r).
      change (fold_left (step complete true) (filter is_origin r) BadGateway) with (run_from complete true BadGateway (filter is_origin r)).
      rewrite !settled_stays by discriminate. reflexivity.
    - change (fold_left (step complete true) r BadGateway) with (run_from complete true BadGateway r).
      change (fold_left (step complete true) (filter is_origin r) BadGateway) with (run_from complete true BadGateway (filter is_origin r)).
      rewrite !settled_stays by discriminate. reflexivity.
    - apply IH.
    - apply IH.
    - apply IH.
  Qed.

  Lemma origins_answer_decides_proof evs :
    verdict (run complete true evs) = verdict (run complete true (filter is_origin evs)).
  Proof. apply write_events_do_not_matter. Qed.

  (* in particular: once the origin's bytes make a whole head before its side ends, that head is what the client gets, wherever the
     failures of the body write fall *)
  Lemma refused_upload_is_relayed_proof pre post bytes h t :
    forallb (fun e => negb (is_origin e)) pre = true ->
    complete bytes = Some (h, t) ->
    run complete true (pre ++ EOrigin bytes :: post) = Head h t.
  Proof.
    intros P C. unfold run, run_from. rewrite fold_left_app.
    assert (W : exists w, fold_left (step complete true) pre (Waiting [] false) = Waiting [] w).
    { clear C. generalize false. induction pre as [|e r IH]; intros w; [eexists; reflexivity|].
      cbn [forallb] in P. apply andb_true_iff in P. destruct P as [Pe Pr].
      destruct e; cbn in Pe; try discriminate; cbn [fold_left step]; apply (IH Pr). }
    destruct W as [w W]. rewrite W. cbn [fold_left step app]. rewrite C.
    apply (settled_stays (Head h t) post true). discriminate.
  Qed.
End P.

(* as found: the write failure handled first cost the client the origin's answer *)
Lemma write_failure_first_was_502 :
  let complete := fun b : list N => match b with [] => None | _ => Some (b, []) end in
  run complete false [EFwdFailed; EOrigin [52; 49; 51]%N] = BadGateway
  /\ run complete false [EOrigin [52; 49; 51]%N; EFwdFailed] = Head [52; 49; 51]%N []
  /\ run complete true [EFwdFailed; EOrigin [52; 49; 51]%N] = Head [52; 49; 51]%N [].
Proof. vm_compute. repeat split; reflexivity. Qed.
