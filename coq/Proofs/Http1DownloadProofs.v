From Coq Require Import List NArith Bool.
From TT Require Import Model.Http1Download.
Import ListNotations.

(* nothing accepted is ever lost: what was sent, what is left of the message in flight and what is queued make up what was accepted *)
Definition DInv (s : dl) : Prop := wire s ++ flight s ++ concat (queued s) = accepted s.

Lemma dstep_inv s o : DInv s -> DInv (dstep true s o).
Proof.
  unfold DInv. destruct s as [q f w a]. cbn [wire flight queued accepted]. intros I.
  destruct o as [m| |k| |]; cbn [dstep wire flight queued accepted].
  - destruct q as [|q0 qs]; cbn [wire flight queued accepted]; [|exact I].
    rewrite <- I. cbn [concat]. rewrite !app_nil_r, <- app_assoc. reflexivity.
  - destruct f as [|b f]; [|exact I].
    destruct q as [|q0 qs]; cbn [wire flight queued accepted]; [exact I|].
    rewrite <- I. cbn [concat app]. reflexivity.
  - rewrite <- I, <- app_assoc. f_equal. rewrite app_assoc, firstn_skipn. reflexivity.
  - exact I.
  - cbn [concat]. rewrite !app_nil_r. exact I.
Qed.

Lemma drun_from_inv ops : forall s, DInv s -> DInv (fold_left (dstep true) ops s).
Proof. induction ops as [|o r IH]; intros s I; cbn [fold_left]; [exact I|]. apply IH, dstep_inv, I. Qed.

Lemma drun_inv ops : DInv (drun true ops).
Proof. apply drun_from_inv. reflexivity. Qed.

(* once the session has been closed in an orderly way the client has been sent exactly what the sink accepted,
   whichever way offers, partial writes and dropped futures were interleaved before *)
Lemma closed_session_delivered_everything ops :
  wire (drun true (ops ++ [DClose])) = accepted (drun true (ops ++ [DClose])).
Proof.
  unfold drun. rewrite fold_left_app. cbn [fold_left dstep wire accepted].
  exact (drun_inv ops).
Qed.

(* at every moment the client has been sent a prefix of what was accepted: nothing out of order, nothing made up *)
Lemma sent_is_a_prefix ops : exists rest, accepted (drun true ops) = wire (drun true ops) ++ rest.
Proof. eexists. symmetry. exact (drun_inv ops). Qed.

(* the as-found arrangement loses the rest of a message whose future is dropped half way *)
Lemma dropped_future_lost_the_tail :
  let s := drun false [DOffer [1;2;3;4]%N; DTake; DWrite 1; DDrop; DClose] in
  wire s = [1]%N /\ accepted s = [1;2;3;4]%N.
Proof. vm_compute. split; reflexivity. Qed.
