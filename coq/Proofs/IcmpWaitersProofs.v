From Coq Require Import List NArith Bool Lia ZifyBool ZifyNat ZifyN.

From TT Require Import Lib.BytesL Model.Icmp Model.IcmpWaiters Generated.IcmpWaiterFacts.
Import ListNotations.
Open Scope N_scope.

Lemma NoDup_app_snoc {A} (l : list A) (x : A) : NoDup l -> ~ In x l -> NoDup (l ++ [x]).
Proof.
  intros Hn Hx. induction l as [|a l IH]; cbn [app]; [constructor; [intros []|constructor]|].
  inversion Hn; subst. constructor.
  - intros Hin. apply in_app_or in Hin. destruct Hin as [Hin|[->|[]]]; [contradiction|]. apply Hx. left. reflexivity.
  - apply IH; [assumption|]. intros Hin. apply Hx. right. exact Hin.
Qed.

Definition ids (k : echo_key) : N * N := (fst (fst k), snd (fst k)).

Lemma echo_eq_ids a b : echo_eq a b = true -> ids a = ids b.
Proof.
  destruct a as [[i1 s1] d1], b as [[i2 s2] d2]. unfold echo_eq, ids. cbn [fst snd].
  intros H. apply andb_true_iff in H. destruct H as [H _]. apply andb_true_iff in H.
  destruct H as [H1 H2]. apply N.eqb_eq in H1, H2. subst. reflexivity.
Qed.

(* pending requests carry pairwise different (identifier, sequence number) *)
Definition NoDupIds (t : list entry) : Prop := NoDup (map (fun e => ids (e_key e)) t).

Lemma lookup_In t k e : lookup t k = Some e -> In e t /\ echo_eq (e_key e) k = true.
Proof.
  induction t as [|x t IH]; cbn [lookup]; [discriminate|].
  destruct (echo_eq (e_key x) k) eqn:E; intros H.
  - inversion H; subst. split; [left; reflexivity|exact E].
  - destruct (IH H) as [H1 H2]. split; [right; exact H1|exact H2].
Qed.

Lemma lookup_None t k : lookup t k = None -> forall e, In e t -> echo_eq (e_key e) k = false.
Proof.
  induction t as [|x t IH]; cbn [lookup]; intros H e Hin; [contradiction|].
  destruct (echo_eq (e_key x) k) eqn:E; [discriminate|].
  destruct Hin as [->|Hin]; [exact E|apply IH; assumption].
Qed.

Lemma remove_key_subset t k e : In e (remove_key t k) -> In e t.
Proof.
  induction t as [|x t IH]; cbn [remove_key]; [contradiction|].
  destruct (echo_eq (e_key x) k); intros H; [right; exact H|].
  destruct H as [H|H]; [left; exact H|right; apply IH; exact H].
Qed.

Lemma remove_key_NoDupIds t k : NoDupIds t -> NoDupIds (remove_key t k).
Proof.
  unfold NoDupIds. induction t as [|x t IH]; cbn [remove_key map]; intros H; [exact H|].
  inversion H as [|? ? Hn Hd]; subst.
  destruct (echo_eq (e_key x) k); [exact Hd|].
  cbn [map]. constructor; [|apply IH; exact Hd].
  intros Hin. apply Hn. apply in_map_iff in Hin. destruct Hin as (e & He & Hin).
  apply in_map_iff. exists e. split; [exact He|apply remove_key_subset in Hin; exact Hin].
Qed.

(* after removing k, nothing matching k is left *)
Lemma remove_key_gone t k :
  NoDupIds t -> forall e, In e (remove_key t k) -> echo_eq (e_key e) k = false.
Proof.
  unfold NoDupIds. induction t as [|x t IH]; cbn [remove_key map]; intros H e Hin; [contradiction|].
  inversion H as [|? ? Hn Hd]; subst.
  destruct (echo_eq (e_key x) k) eqn:E.
  - destruct (echo_eq (e_key e) k) eqn:E2; [|reflexivity].
    exfalso. apply Hn. apply in_map_iff. exists e. split; [|exact Hin].
    apply echo_eq_ids in E, E2. congruence.
  - destruct Hin as [<-|Hin]; [exact E|apply IH; assumption].
Qed.

Lemma lookup_remove_key t k : NoDupIds t -> lookup (remove_key t k) k = None.
Proof.
  intros H. destruct (lookup (remove_key t k) k) as [e|] eqn:E; [|reflexivity].
  apply lookup_In in E. destruct E as [Hin He].
  rewrite (remove_key_gone t k H e Hin) in He. discriminate.
Qed.

Section Facts.
  (* the structural facts the translator reads from icmp_forwarder.rs *)
  Hypothesis F_lookup : WAITER_LOOKUP_BY_REQUEST = true.
  Hypothesis F_rm : WAITER_REMOVED_ON_DELIVERY = true.
  Hypothesis F_expire : WAITERS_EXPIRED_UP_TO_NOW = true.
  Hypothesis F_insert : WAITER_INSERTED_FOR_SENDER = true.
  Hypothesis F_own : WAITER_EXPIRES_BY_ITS_OWN_DEADLINE = true.
  Variables T cap : N.

  Lemma deliver_only_to_requester_s s k s' c :
    wstep T cap s (WPacket k) = (s', Some c) ->
    exists e, In e (table s) /\ echo_eq (e_key e) k = true /\ e_client e = c.
  Proof.
    cbn [wstep]. rewrite F_lookup. cbn [negb].
    destruct (lookup (table s) k) as [e|] eqn:L; [|intros H; inversion H].
    destruct (queue_len (queues s) (e_client e) <? cap); intros H; inversion H; subst.
    apply lookup_In in L. destruct L as [L1 L2]. exists e. auto.
  Qed.

  Lemma unrelated_not_reported_s s k :
    (forall e, In e (table s) -> echo_eq (e_key e) k = false) ->
    wstep T cap s (WPacket k) = (s, None).
  Proof.
    intros H. cbn [wstep]. rewrite F_lookup. cbn [negb].
    destruct (lookup (table s) k) as [e|] eqn:L; [|reflexivity].
    apply lookup_In in L. destruct L as [L1 L2]. rewrite (H e L1) in L2. discriminate.
  Qed.

  Lemma deliver_once_s s k s' c :
    NoDupIds (table s) ->
    wstep T cap s (WPacket k) = (s', Some c) ->
    wstep T cap s' (WPacket k) = (s', None).
  Proof.
    intros Hn. cbn [wstep]. rewrite F_lookup, F_rm. cbn [negb].
    destruct (lookup (table s) k) as [e|] eqn:L; [|intros H; inversion H].
    destruct (queue_len (queues s) (e_client e) <? cap); intros H; inversion H; subst.
    cbn [table]. rewrite lookup_remove_key by exact Hn. reflexivity.
  Qed.

  Lemma remove_due_subset t d e : In e (remove_due t d) -> In e t.
  Proof.
    induction t as [|x t IH]; cbn [remove_due]; [contradiction|].
    destruct (echo_eq (e_key x) (snd d)).
    - destruct (WAITER_EXPIRES_BY_ITS_OWN_DEADLINE && negb (e_deadline x <=? fst d)); intros H; [exact H|right; exact H].
    - intros [H|H]; [left; exact H|right; apply IH; exact H].
  Qed.

  Lemma remove_due_NoDupIds t d : NoDupIds t -> NoDupIds (remove_due t d).
  Proof.
    unfold NoDupIds. induction t as [|x t IH]; cbn [remove_due map]; intros H; [exact H|].
    inversion H as [|? ? Hn Hd]; subst.
    destruct (echo_eq (e_key x) (snd d)).
    - destruct (WAITER_EXPIRES_BY_ITS_OWN_DEADLINE && negb (e_deadline x <=? fst d)); [exact H|exact Hd].
    - cbn [map]. constructor; [|apply IH; exact Hd].
      intros Hin. apply Hn. apply in_map_iff in Hin. destruct Hin as (e & He & Hin).
      apply in_map_iff. exists e. split; [exact He|apply remove_due_subset in Hin; exact Hin].
  Qed.

  (* after deadline d was handled, a waiter that d's key still finds has a later deadline of its own *)
  Lemma remove_due_gone t d :
    NoDupIds t -> forall e, In e (remove_due t d) -> echo_eq (e_key e) (snd d) = true -> fst d < e_deadline e.
  Proof.
    unfold NoDupIds. induction t as [|x t IH]; cbn [remove_due map]; intros H e Hin He; [contradiction|].
    inversion H as [|? ? Hn Hd]; subst.
    destruct (echo_eq (e_key x) (snd d)) eqn:E.
    - assert (Hother : In e t -> False).
      { intros Hin'. apply Hn. apply in_map_iff. exists e. split; [|exact Hin'].
        apply echo_eq_ids in E, He. congruence. }
      destruct (WAITER_EXPIRES_BY_ITS_OWN_DEADLINE && negb (e_deadline x <=? fst d)) eqn:G.
      + destruct Hin as [<-|Hin]; [|exfalso; apply Hother; exact Hin].
        apply andb_true_iff in G. destruct G as [_ G]. lia.
      + exfalso. apply Hother. exact Hin.
    - destruct Hin as [<-|Hin]; [congruence|]. apply IH; assumption.
  Qed.

  Lemma fold_remove_due_NoDupIds ds : forall t, NoDupIds t -> NoDupIds (fold_left remove_due ds t).
  Proof.
    induction ds as [|d ds IH]; intros t H; cbn [fold_left]; [exact H|].
    apply IH. apply remove_due_NoDupIds. exact H.
  Qed.

  Lemma fold_remove_due_subset ds : forall t e, In e (fold_left remove_due ds t) -> In e t.
  Proof.
    induction ds as [|d ds IH]; intros t e H; cbn [fold_left] in H; [exact H|].
    apply IH in H. apply remove_due_subset in H. exact H.
  Qed.

  Lemma fold_remove_due_gone ds : forall t (d : N * echo_key),
    NoDupIds t -> In d ds ->
    forall e, In e (fold_left remove_due ds t) -> echo_eq (e_key e) (snd d) = true -> fst d < e_deadline e.
  Proof.
    induction ds as [|x ds IH]; intros t d Hn Hin e He Hk; [contradiction|].
    cbn [fold_left] in He. destruct Hin as [->|Hin].
    - apply fold_remove_due_subset in He. eapply remove_due_gone; eassumption.
    - eapply IH; [apply remove_due_NoDupIds; exact Hn|exact Hin|exact He|exact Hk].
  Qed.

  (* every waiter has its deadline in the list, under a key that finds it (IcmpSink::write makes both together) *)
  Definition well_timed (s : wstate) : Prop :=
    forall e, In e (table s) ->
              exists k, In (e_deadline e, k) (deadlines s) /\ echo_eq (e_key e) k = true.

  (* when maintain_listeners has run at [now], no waiter and no deadline that was due is left: the table holds
     requests younger than the timeout only *)
  Lemma expired_forgotten_s s now s' o :
    NoDupIds (table s) -> well_timed s ->
    wstep T cap s (WExpire now) = (s', o) ->
    (forall e, In e (table s') -> now < e_deadline e)
    /\ (forall d, In d (deadlines s') -> now < fst d).
  Proof.
    intros Hn Hw. cbn [wstep]. rewrite F_expire. cbn [negb]. intros H. inversion H; subst.
    cbn [table deadlines]. split.
    - intros e He. destruct (N.lt_ge_cases now (e_deadline e)) as [Hlt|Hge]; [exact Hlt|exfalso].
      destruct (Hw e (fold_remove_due_subset _ _ _ He)) as (k & Hd & Hk).
      assert (Hf : In (e_deadline e, k) (filter (fun d : N * echo_key => fst d <=? now) (deadlines s)))
        by (apply filter_In; split; [exact Hd|cbn [fst]; lia]).
      pose proof (fold_remove_due_gone _ _ _ Hn Hf e He Hk) as Hlt. cbn [fst] in Hlt. lia.
    - intros d Hd. apply filter_In in Hd. destruct Hd as [_ Hd]. lia.
  Qed.

  (* ... and only those: a waiter whose own deadline lies ahead survives every expiry run, whatever older
     deadlines of the same request are still in the list *)
  Lemma remove_due_keeps t d e : In e t -> fst d < e_deadline e -> In e (remove_due t d).
  Proof.
    induction t as [|x t IH]; cbn [remove_due]; intros Hin Hlt; [contradiction|].
    destruct (echo_eq (e_key x) (snd d)).
    - rewrite F_own. cbn [andb]. destruct (e_deadline x <=? fst d) eqn:L; cbn [negb]; [|exact Hin].
      destruct Hin as [->|Hin]; [lia|exact Hin].
    - destruct Hin as [->|Hin]; [left; reflexivity|right; apply IH; assumption].
  Qed.

  Lemma remove_due_lookup t d k e :
    lookup t k = Some e -> fst d < e_deadline e -> lookup (remove_due t d) k = Some e.
  Proof.
    induction t as [|x t IH]; cbn [remove_due lookup]; intros L Hlt; [discriminate|].
    destruct (echo_eq (e_key x) k) eqn:Ek.
    - inversion L; subst x.
      destruct (echo_eq (e_key e) (snd d)).
      + rewrite F_own. cbn [andb]. destruct (e_deadline e <=? fst d) eqn:G; [lia|].
        cbn [negb lookup]. rewrite Ek. reflexivity.
      + cbn [lookup]. rewrite Ek. reflexivity.
    - destruct (echo_eq (e_key x) (snd d)).
      + destruct (WAITER_EXPIRES_BY_ITS_OWN_DEADLINE && negb (e_deadline x <=? fst d)).
        * cbn [lookup]. rewrite Ek. exact L.
        * exact L.
      + cbn [lookup]. rewrite Ek. apply IH; assumption.
  Qed.

  Lemma fold_remove_due_keeps ds now e : forall t,
    (forall d, In d ds -> fst d <= now) -> now < e_deadline e ->
    In e t -> In e (fold_left remove_due ds t).
  Proof.
    induction ds as [|d ds IH]; intros t Hds Hlt Hin; cbn [fold_left]; [exact Hin|].
    apply IH; [intros d' Hd'; apply Hds; right; exact Hd'|exact Hlt|].
    apply remove_due_keeps; [exact Hin|]. specialize (Hds d (or_introl eq_refl)). lia.
  Qed.

  Lemma fold_remove_due_lookup ds now k e : forall t,
    (forall d, In d ds -> fst d <= now) -> now < e_deadline e ->
    lookup t k = Some e -> lookup (fold_left remove_due ds t) k = Some e.
  Proof.
    induction ds as [|d ds IH]; intros t Hds Hlt L; cbn [fold_left]; [exact L|].
    apply IH; [intros d' Hd'; apply Hds; right; exact Hd'|exact Hlt|].
    apply remove_due_lookup; [exact L|]. specialize (Hds d (or_introl eq_refl)). lia.
  Qed.

  Lemma expired_all_due (ds : list (N * echo_key)) now :
    forall d, In d (filter (fun d : N * echo_key => fst d <=? now) ds) -> fst d <= now.
  Proof. intros d H. apply filter_In in H. destruct H as [_ H]. lia. Qed.

  Lemma pending_until_its_timeout_s s now s' o e :
    wstep T cap s (WExpire now) = (s', o) ->
    In e (table s) -> now < e_deadline e -> In e (table s').
  Proof.
    cbn [wstep]. rewrite F_expire. cbn [negb]. intros H Hin Hlt. inversion H; subst. cbn [table].
    eapply fold_remove_due_keeps; [apply expired_all_due|exact Hlt|exact Hin].
  Qed.

  Lemma echo_eq_refl k : echo_eq k k = true.
  Proof.
    destruct k as [[i s] d]. unfold echo_eq. rewrite !N.eqb_refl. cbn [andb].
    assert (Hp : forall l, is_prefix l l = true)
      by (induction l; cbn; [reflexivity|rewrite N.eqb_refl; assumption]).
    destruct (lenN d <=? lenN d); apply Hp.
  Qed.

  (* a pending request with the same (identifier, sequence) is a compatible retransmission *)
  Definition compatible (t : list entry) (k : echo_key) : Prop :=
    forall e, In e t -> ids (e_key e) = ids k -> echo_eq (e_key e) k = true.

  Lemma insert_key_ids t k c dl :
    compatible t k ->
    map (fun e => ids (e_key e)) (insert_key t k c dl) =
    if existsb (fun e => echo_eq (e_key e) k) t then map (fun e => ids (e_key e)) t
    else map (fun e => ids (e_key e)) t ++ [ids k].
  Proof.
    induction t as [|x t IH]; intros Hc; cbn [insert_key existsb map]; [reflexivity|].
    destruct (echo_eq (e_key x) k) eqn:E; cbn [orb map e_key]; [reflexivity|].
    rewrite IH by (intros e He; apply Hc; right; exact He).
    destruct (existsb _ t); reflexivity.
  Qed.

  Lemma insert_key_NoDupIds t k c dl :
    NoDupIds t -> compatible t k -> NoDupIds (insert_key t k c dl).
  Proof.
    unfold NoDupIds. intros Hn Hc. rewrite insert_key_ids by exact Hc.
    destruct (existsb (fun e => echo_eq (e_key e) k) t) eqn:Ex; [exact Hn|].
    apply NoDup_app_snoc; [exact Hn|].
    intros Hin. apply in_map_iff in Hin. destruct Hin as (e & He & Hin).
    assert (echo_eq (e_key e) k = true) by (apply Hc; assumption).
    assert (existsb (fun e => echo_eq (e_key e) k) t = true)
      by (apply existsb_exists; exists e; auto).
    congruence.
  Qed.

  Lemma lookup_insert_key t k c dl :
    exists e, lookup (insert_key t k c dl) k = Some e /\ e_client e = c /\ e_deadline e = dl.
  Proof.
    induction t as [|x t IH]; cbn [insert_key lookup].
    - cbn [e_key]. rewrite echo_eq_refl. eexists. repeat split; reflexivity.
    - destruct (echo_eq (e_key x) k) eqn:E; cbn [lookup e_key]; rewrite E.
      + eexists. repeat split; reflexivity.
      + exact IH.
  Qed.

  (* the reply to a request just sent by c is queued for c (if its queue has room) *)
  Lemma reply_goes_to_sender_s s c k now s1 o1 :
    wstep T cap s (WSend c k now) = (s1, o1) ->
    queue_len (queues s1) c < cap ->
    exists s2, wstep T cap s1 (WPacket k) = (s2, Some c).
  Proof.
    cbn [wstep]. rewrite F_insert, F_lookup. intros H Hq. inversion H; subst. cbn [negb table queues] in *.
    destruct (lookup_insert_key (table s) k c (now + T)) as (e & He & Hc & _). rewrite He, Hc.
    destruct (queue_len (queues s) c <? cap) eqn:E; [|lia]. eexists. reflexivity.
  Qed.

  (* ... and it still is at any instant before the request's own timeout, whatever deadlines earlier requests of the
     same identifier and sequence number have left in the list (a client whose sequence numbers wrap, or that
     repeats a request right after its answer) *)
  Lemma reply_while_pending_s s c k t s1 o1 now s2 o2 :
    wstep T cap s (WSend c k t) = (s1, o1) ->
    now < t + T ->
    wstep T cap s1 (WExpire now) = (s2, o2) ->
    queue_len (queues s2) c < cap ->
    exists s3, wstep T cap s2 (WPacket k) = (s3, Some c).
  Proof.
    cbn [wstep]. rewrite F_insert, F_lookup, F_expire. cbn [negb]. intros H Hlt H2 Hq.
    inversion H; subst. inversion H2; subst. cbn [table deadlines queues] in *.
    destruct (lookup_insert_key (table s) k c (t + T)) as (e & He & Hc & Hd).
    rewrite (fold_remove_due_lookup _ now k e _ (expired_all_due _ now)) by (rewrite ?Hd; assumption).
    rewrite Hc. destruct (queue_len (queues s) c <? cap) eqn:E; [|lia]. eexists. reflexivity.
  Qed.

  (* ---- a request that could not be sent ---- *)

  Lemma insert_key_other t k c dl e : In e t -> echo_eq (e_key e) k = false -> In e (insert_key t k c dl).
  Proof.
    induction t as [|x t IH]; cbn [insert_key]; intros Hin He; [contradiction|].
    destruct (echo_eq (e_key x) k) eqn:E.
    - destruct Hin as [->|Hin]; [congruence|right; exact Hin].
    - destruct Hin as [->|Hin]; [left; reflexivity|right; apply IH; assumption].
  Qed.

  Lemma remove_mine_other t k dl e : In e t -> echo_eq (e_key e) k = false -> In e (remove_mine t k dl).
  Proof.
    induction t as [|x t IH]; cbn [remove_mine]; intros Hin He; [contradiction|].
    destruct (echo_eq (e_key x) k) eqn:E.
    - destruct Hin as [->|Hin]; [congruence|]. destruct (e_deadline x =? dl); [exact Hin|right; exact Hin].
    - destruct Hin as [->|Hin]; [left; reflexivity|right; apply IH; assumption].
  Qed.

  Lemma remove_mine_is_remove_key t k dl e :
    lookup t k = Some e -> e_deadline e = dl -> remove_mine t k dl = remove_key t k.
  Proof.
    induction t as [|x t IH]; cbn [lookup remove_mine remove_key]; intros L Hd; [discriminate|].
    destruct (echo_eq (e_key x) k).
    - inversion L; subst x. rewrite Hd, N.eqb_refl. reflexivity.
    - f_equal. apply IH; assumption.
  Qed.

  (* the other pending requests (of this and of every other client) are untouched, and so are the queues *)
  Lemma failed_send_spares_the_others_s s c k now s' o :
    wstep T cap s (WSendFailed c k now) = (s', o) ->
    o = None /\ queues s' = queues s
    /\ forall e, In e (table s) -> echo_eq (e_key e) k = false -> In e (table s').
  Proof.
    cbn [wstep]. rewrite F_insert. intros H. inversion H; subst. cbn [table queues].
    split; [reflexivity|]. split; [reflexivity|].
    intros e Hin He. apply remove_mine_other; [|exact He]. apply insert_key_other; assumption.
  Qed.

  (* no waiter is left for the request that was not sent: a packet that looks like its answer is not reported *)
  Lemma failed_send_leaves_no_waiter_s s c k now s' o :
    NoDupIds (table s) -> compatible (table s) k ->
    wstep T cap s (WSendFailed c k now) = (s', o) ->
    wstep T cap s' (WPacket k) = (s', None).
  Proof.
    intros Hn Hc. cbn [wstep]. rewrite F_insert, F_lookup. intros H. inversion H; subst. cbn [negb table].
    destruct (lookup_insert_key (table s) k c (now + T)) as (e & He & _ & Hd).
    rewrite (remove_mine_is_remove_key _ _ _ _ He Hd).
    rewrite lookup_remove_key by (apply insert_key_NoDupIds; assumption). reflexivity.
  Qed.

  (* ---- the hypothesis of expired_forgotten_s is an invariant ---- *)

  Lemma insert_key_In t k c dl e :
    In e (insert_key t k c dl) -> In e t \/ (e_deadline e = dl /\ echo_eq (e_key e) k = true).
  Proof.
    induction t as [|x t IH]; cbn [insert_key].
    - intros [<-|[]]. right. cbn [e_deadline e_key]. split; [reflexivity|apply echo_eq_refl].
    - destruct (echo_eq (e_key x) k) eqn:E.
      + intros [<-|H]; [right; cbn [e_deadline e_key]; split; [reflexivity|exact E]|left; right; exact H].
      + intros [<-|H]; [left; left; reflexivity|]. destruct (IH H) as [H'|H']; [left; right; exact H'|right; exact H'].
  Qed.

  Lemma remove_mine_subset t k dl e : In e (remove_mine t k dl) -> In e t.
  Proof.
    induction t as [|x t IH]; cbn [remove_mine]; [contradiction|].
    destruct (echo_eq (e_key x) k).
    - destruct (e_deadline x =? dl); intros H; [right; exact H|exact H].
    - intros [H|H]; [left; exact H|right; apply IH; exact H].
  Qed.

  Lemma if_remove_subset (b : bool) t k e : In e (if b then remove_key t k else t) -> In e t.
  Proof. destruct b; [apply remove_key_subset|exact (fun H => H)]. Qed.

  Lemma well_timed_step s o s' out :
    NoDupIds (table s) -> well_timed s -> wstep T cap s o = (s', out) -> well_timed s'.
  Proof.
    intros Hn Hw. destruct o as [c k now|c k now|k|c|now]; cbn [wstep].
    - rewrite F_insert. intros H; inversion H; subst. intros e He. cbn [table deadlines] in *.
      apply insert_key_In in He. destruct He as [He|[Hd Hk]].
      + destruct (Hw e He) as (k' & Hin & Hk'). exists k'. split; [apply in_or_app; left; exact Hin|exact Hk'].
      + exists k. split; [apply in_or_app; right; left; rewrite Hd; reflexivity|exact Hk].
    - rewrite F_insert. intros H; inversion H; subst. intros e He. cbn [table deadlines] in *.
      apply remove_mine_subset in He. apply insert_key_In in He. destruct He as [He|[Hd Hk]].
      + destruct (Hw e He) as (k' & Hin & Hk'). exists k'. split; [apply in_or_app; left; exact Hin|exact Hk'].
      + exists k. split; [apply in_or_app; right; left; rewrite Hd; reflexivity|exact Hk].
    - destruct (negb WAITER_LOOKUP_BY_REQUEST); [intros H; inversion H; subst; exact Hw|].
      destruct (lookup (table s) k) as [x|]; [|intros H; inversion H; subst; exact Hw].
      destruct (queue_len (queues s) (e_client x) <? cap); intros H; inversion H; subst;
        intros e He; cbn [table deadlines set_table] in *.
      + apply Hw. first [exact He|apply remove_key_subset in He; exact He|apply if_remove_subset in He; exact He].
      + apply Hw. first [exact He|apply remove_key_subset in He; exact He|apply if_remove_subset in He; exact He].
    - intros H; inversion H; subst. exact Hw.
    - intros H. destruct (expired_forgotten_s s now s' out Hn Hw H) as [Hlive _].
      revert H. rewrite F_expire. cbn [negb]. intros H. inversion H; subst. intros e He.
      pose proof (Hlive e He) as Hlt. cbn [table deadlines] in *.
      destruct (Hw e (fold_remove_due_subset _ _ _ He)) as (k' & Hin & Hk'). exists k'. split; [|exact Hk'].
      apply filter_In. split; [exact Hin|]. cbn [fst]. apply negb_true_iff. apply N.leb_gt. exact Hlt.
  Qed.
End Facts.
