From Coq Require Import List NArith Bool Lia ZifyBool ZifyNat ZifyN.

From TT Require Import Lib.BytesL Model.Icmp Model.IcmpWaiters Generated.IcmpWaiterFacts.
Import ListNotations.
Open Scope N_scope.

Lemma NoDup_app_snoc {A} (l : list A) (x : A) : NoDup l -> ~ In x l -> NoDup (l ++ [x]).
Proof.
  intros Hn Hx. induction l as [|a l IH]; cbn [app]; [constructor; [intros []|constructor]|].
  inversion Hn; subst. constructor.
  - intros Hin. apply in_app_or in Hin. destruct Hin as [Hin|[->|[]]]; [contradiction|]. apply Hx. left. reflexivity.
  - apply IH; [assumption|]. intros Hin. apply Hx. right. exact Hin.
Qed.

Definition ids (k : echo_key) : N * N := (fst (fst k), snd (fst k)).

Lemma echo_eq_ids a b : echo_eq a b = true -> ids a = ids b.
Proof.
  destruct a as [[i1 s1] d1], b as [[i2 s2] d2]. unfold echo_eq, ids. cbn [fst snd].
  intros H. apply andb_true_iff in H. destruct H as [H _]. apply andb_true_iff in H.
  destruct H as [H1 H2]. apply N.eqb_eq in H1, H2. subst. reflexivity.
Qed.

(* pending requests carry pairwise different (identifier, sequence number) *)
Definition NoDupIds (t : list entry) : Prop := NoDup (map (fun e => ids (e_key e)) t).

Lemma lookup_In t k e : lookup t k = Some e -> In e t /\ echo_eq (e_key e) k = true.
Proof.
  induction t as [|x t IH]; cbn [lookup]; [discriminate|].
  destruct (echo_eq (e_key x) k) eqn:E; intros H.
  - inversion H; subst. split; [left; reflexivity|exact E].
  - destruct (IH H) as [H1 H2]. split; [right; exact H1|exact H2].
Qed.

Lemma lookup_None t k : lookup t k = None -> forall e, In e t -> echo_eq (e_key e) k = false.
Proof.
  induction t as [|x t IH]; cbn [lookup]; intros H e Hin; [contradiction|].
  destruct (echo_eq (e_key x) k) eqn:E; [discriminate|].
  destruct Hin as [->|Hin]; [exact E|apply IH; assumption].
Qed.

Lemma remove_key_subset t k e : In e (remove_key t k) -> In e t.
Proof.
  induction t as [|x t IH]; cbn [remove_key]; [contradiction|].
  destruct (echo_eq (e_key x) k); intros H; [right; exact H|].
  destruct H as [H|H]; [left; exact H|right; apply IH; exact H].
Qed.

Lemma remove_key_NoDupIds t k : NoDupIds t -> NoDupIds (remove_key t k).
Proof.
  unfold NoDupIds. induction t as [|x t IH]; cbn [remove_key map]; intros H; [exact H|].
  inversion H as [|? ? Hn Hd]; subst.
  destruct (echo_eq (e_key x) k); [exact Hd|].
  cbn [map]. constructor; [|apply IH; exact Hd].
  intros Hin. apply Hn. apply in_map_iff in Hin. destruct Hin as (e & He & Hin).
  apply in_map_iff. exists e. split; [exact He|apply remove_key_subset in Hin; exact Hin].
Qed.

(* after removing k, nothing matching k is left *)
Lemma remove_key_gone t k :
  NoDupIds t -> forall e, In e (remove_key t k) -> echo_eq (e_key e) k = false.
Proof.
  unfold NoDupIds. induction t as [|x t IH]; cbn [remove_key map]; intros H e Hin; [contradiction|].
  inversion H as [|? ? Hn Hd]; subst.
  destruct (echo_eq (e_key x) k) eqn:E.
  - destruct (echo_eq (e_key e) k) eqn:E2; [|reflexivity].
    exfalso. apply Hn. apply in_map_iff. exists e. split; [|exact Hin].
    apply echo_eq_ids in E, E2. congruence.
  - destruct Hin as [<-|Hin]; [exact E|apply IH; assumption].
Qed.

Lemma lookup_remove_key t k : NoDupIds t -> lookup (remove_key t k) k = None.
Proof.
  intros H. destruct (lookup (remove_key t k) k) as [e|] eqn:E; [|reflexivity].
  apply lookup_In in E. destruct E as [Hin He].
  rewrite (remove_key_gone t k H e Hin) in He. discriminate.
Qed.

Section Facts.
  (* the structural facts the translator reads from icmp_forwarder.rs *)
  Hypothesis F_lookup : WAITER_LOOKUP_BY_REQUEST = true.
  Hypothesis F_rm : WAITER_REMOVED_ON_DELIVERY = true.
  Hypothesis F_expire : WAITERS_EXPIRED_UP_TO_NOW = true.
  Hypothesis F_insert : WAITER_INSERTED_FOR_SENDER = true.
  Variables T cap : N.

  Lemma deliver_only_to_requester_s s k s' c :
    wstep T cap s (WPacket k) = (s', Some c) ->
    exists e, In e (table s) /\ echo_eq (e_key e) k = true /\ e_client e = c.
  Proof.
    cbn [wstep]. rewrite F_lookup. cbn [negb].
    destruct (lookup (table s) k) as [e|] eqn:L; [|intros H; inversion H].
    destruct (queue_len (queues s) (e_client e) <? cap); intros H; inversion H; subst.
    apply lookup_In in L. destruct L as [L1 L2]. exists e. auto.
  Qed.

  Lemma unrelated_not_reported_s s k :
    (forall e, In e (table s) -> echo_eq (e_key e) k = false) ->
    wstep T cap s (WPacket k) = (s, None).
  Proof.
    intros H. cbn [wstep]. rewrite F_lookup. cbn [negb].
    destruct (lookup (table s) k) as [e|] eqn:L; [|reflexivity].
    apply lookup_In in L. destruct L as [L1 L2]. rewrite (H e L1) in L2. discriminate.
  Qed.

  Lemma deliver_once_s s k s' c :
    NoDupIds (table s) ->
    wstep T cap s (WPacket k) = (s', Some c) ->
    wstep T cap s' (WPacket k) = (s', None).
  Proof.
    intros Hn. cbn [wstep]. rewrite F_lookup, F_rm. cbn [negb].
    destruct (lookup (table s) k) as [e|] eqn:L; [|intros H; inversion H].
    destruct (queue_len (queues s) (e_client e) <? cap); intros H; inversion H; subst.
    cbn [table]. rewrite lookup_remove_key by exact Hn. reflexivity.
  Qed.

  Lemma fold_remove_NoDupIds ds : forall t,
    NoDupIds t -> NoDupIds (fold_left (fun t (d : N * echo_key) => remove_key t (snd d)) ds t).
  Proof.
    induction ds as [|d ds IH]; intros t H; cbn [fold_left]; [exact H|].
    apply IH. apply remove_key_NoDupIds. exact H.
  Qed.

  Lemma fold_remove_subset ds : forall t e,
    In e (fold_left (fun t (d : N * echo_key) => remove_key t (snd d)) ds t) -> In e t.
  Proof.
    induction ds as [|d ds IH]; intros t e H; cbn [fold_left] in H; [exact H|].
    apply IH in H. apply remove_key_subset in H. exact H.
  Qed.

  Lemma fold_remove_gone ds : forall t (d : N * echo_key),
    NoDupIds t -> In d ds ->
    forall e, In e (fold_left (fun t (d : N * echo_key) => remove_key t (snd d)) ds t) ->
              echo_eq (e_key e) (snd d) = false.
  Proof.
    induction ds as [|x ds IH]; intros t d Hn Hin e He; [contradiction|].
    cbn [fold_left] in He. destruct Hin as [->|Hin].
    - apply fold_remove_subset in He. eapply remove_key_gone; eassumption.
    - eapply IH; [apply remove_key_NoDupIds; exact Hn|exact Hin|exact He].
  Qed.

  (* a request whose deadline has passed is forgotten *)
  Lemma expired_forgotten_s s now d s' o :
    NoDupIds (table s) -> In d (deadlines s) -> fst d <= now ->
    wstep T cap s (WExpire now) = (s', o) ->
    (forall e, In e (table s') -> echo_eq (e_key e) (snd d) = false)
    /\ ~ In d (deadlines s').
  Proof.
    intros Hn Hin Hle. cbn [wstep]. rewrite F_expire. cbn [negb]. intros H. inversion H; subst.
    cbn [table deadlines]. split.
    - intros e He. eapply fold_remove_gone; [exact Hn| |exact He].
      apply filter_In. split; [exact Hin|lia].
    - intros Hd. apply filter_In in Hd. destruct Hd as [_ Hd]. lia.
  Qed.

  Lemma echo_eq_refl k : echo_eq k k = true.
  Proof.
    destruct k as [[i s] d]. unfold echo_eq. rewrite !N.eqb_refl. cbn [andb].
    assert (Hp : forall l, is_prefix l l = true)
      by (induction l; cbn; [reflexivity|rewrite N.eqb_refl; assumption]).
    destruct (lenN d <=? lenN d); apply Hp.
  Qed.

  (* a pending request with the same (identifier, sequence) is a compatible retransmission *)
  Definition compatible (t : list entry) (k : echo_key) : Prop :=
    forall e, In e t -> ids (e_key e) = ids k -> echo_eq (e_key e) k = true.

  Lemma insert_key_ids t k c :
    compatible t k ->
    map (fun e => ids (e_key e)) (insert_key t k c) =
    if existsb (fun e => echo_eq (e_key e) k) t then map (fun e => ids (e_key e)) t
    else map (fun e => ids (e_key e)) t ++ [ids k].
  Proof.
    induction t as [|x t IH]; intros Hc; cbn [insert_key existsb map]; [reflexivity|].
    destruct (echo_eq (e_key x) k) eqn:E; cbn [orb map e_key]; [reflexivity|].
    rewrite IH by (intros e He; apply Hc; right; exact He).
    destruct (existsb _ t); reflexivity.
  Qed.

  Lemma insert_key_NoDupIds t k c :
    NoDupIds t -> compatible t k -> NoDupIds (insert_key t k c).
  Proof.
    unfold NoDupIds. intros Hn Hc. rewrite insert_key_ids by exact Hc.
    destruct (existsb (fun e => echo_eq (e_key e) k) t) eqn:Ex; [exact Hn|].
    apply NoDup_app_snoc; [exact Hn|].
    intros Hin. apply in_map_iff in Hin. destruct Hin as (e & He & Hin).
    assert (echo_eq (e_key e) k = true) by (apply Hc; assumption).
    assert (existsb (fun e => echo_eq (e_key e) k) t = true)
      by (apply existsb_exists; exists e; auto).
    congruence.
  Qed.

  Lemma lookup_insert_key t k c :
    exists e, lookup (insert_key t k c) k = Some e /\ e_client e = c.
  Proof.
    induction t as [|x t IH]; cbn [insert_key lookup].
    - cbn [e_key]. rewrite echo_eq_refl. eexists. split; reflexivity.
    - destruct (echo_eq (e_key x) k) eqn:E; cbn [lookup e_key]; rewrite E.
      + eexists. split; reflexivity.
      + exact IH.
  Qed.

  (* the reply to a request just sent by c is queued for c (if its queue has room) *)
  Lemma reply_goes_to_sender_s s c k now s1 o1 :
    wstep T cap s (WSend c k now) = (s1, o1) ->
    queue_len (queues s1) c < cap ->
    exists s2, wstep T cap s1 (WPacket k) = (s2, Some c).
  Proof.
    cbn [wstep]. rewrite F_insert, F_lookup. intros H Hq. inversion H; subst. cbn [negb table queues] in *.
    destruct (lookup_insert_key (table s) k c) as (e & He & Hc). rewrite He, Hc.
    destruct (queue_len (queues s) c <? cap) eqn:E; [|lia]. eexists. reflexivity.
  Qed.
End Facts.
