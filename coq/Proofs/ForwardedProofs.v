From Coq Require Import List NArith Bool Arith Lia.
From TT Require Import Lib.BytesL Model.Forwarded.
Import ListNotations.
Local Open Scope nat_scope.

Section Sim.
  Variable psize : list N -> csize.
  Hypothesis empty_partial : psize [] = CPartial.
  Hypothesis complete_stable : forall b p z t, psize b = CComplete p z -> psize (b ++ t) = CComplete p z.
  Hypothesis error_stable : forall b t, psize b = CError -> psize (b ++ t) = CError.
  Hypothesis complete_min : forall b p z, psize b = CComplete p z ->
      1 <= p <= length b /\ psize (firstn p b) = CComplete p z /\ forall k, k < p -> psize (firstn k b) = CPartial.

  Notation bstep := (bstep psize).
  Notation bfold := (bfold psize).
  Notation bwrite := (bwrite psize).

  Lemma prefix_partial b t : psize (b ++ t) = CPartial -> psize b = CPartial.
  Proof.
    intros H. destruct (psize b) as [p z| |] eqn:E; [|reflexivity|].
    - rewrite (complete_stable _ _ _ t E) in H. discriminate.
    - rewrite (error_stable _ t E) in H. discriminate.
  Qed.

  Lemma bfold_app st x y :
    bfold st (x ++ y) = let '(s1, o1) := bfold st x in let '(s2, o2) := bfold s1 y in (s2, o1 ++ o2).
  Proof.
    revert st. induction x as [|b x IH]; intros st; cbn [app Forwarded.bfold].
    - destruct (bfold st y). reflexivity.
    - destruct (bstep st b) as [s1 o1]. rewrite IH.
      destruct (bfold s1 x) as [s2 o2]. destruct (bfold s2 y) as [s3 o3]. rewrite app_assoc. reflexivity.
  Qed.

  Lemma bfold_err x : bfold BErr x = (BErr, []).
  Proof. induction x as [|b x IH]; cbn [Forwarded.bfold Forwarded.bstep]; [reflexivity|rewrite IH; reflexivity]. Qed.

  Lemma bfold_done x : bfold BDone x = (BDone, []).
  Proof. induction x as [|b x IH]; cbn [Forwarded.bfold Forwarded.bstep]; [reflexivity|rewrite IH; reflexivity]. Qed.

  Lemma bfold_non_none x : forall sent, bfold (BNon None sent) x = (BNon None (sent + length x), x).
  Proof.
    induction x as [|b x IH]; intros sent; cbn [Forwarded.bfold Forwarded.bstep length].
    - rewrite Nat.add_0_r. reflexivity.
    - rewrite IH. cbn [app]. replace (S sent + length x) with (sent + S (length x)) by lia. reflexivity.
  Qed.

  Lemma bfold_non_some n x : forall sent,
    sent < n -> length x <= n - sent ->
    bfold (BNon (Some n) sent) x = (if sent + length x =? n then BDone else BNon (Some n) (sent + length x), x).
  Proof.
    induction x as [|b x IH]; intros sent L1 L2; cbn [Forwarded.bfold Forwarded.bstep length] in *.
    - rewrite Nat.add_0_r. replace (sent =? n) with false by (symmetry; apply Nat.eqb_neq; lia). reflexivity.
    - replace (n <=? sent) with false by (symmetry; apply Nat.leb_gt; lia).
      destruct (S sent =? n) eqn:E.
      + apply Nat.eqb_eq in E. assert (x = []) by (destruct x; [reflexivity|cbn in L2; lia]). subst x.
        cbn [Forwarded.bfold length]. replace (sent + 1 =? n) with true by (symmetry; apply Nat.eqb_eq; lia). reflexivity.
      + apply Nat.eqb_neq in E. rewrite IH by lia. cbn [app].
        replace (S sent + length x) with (sent + S (length x)) by lia. reflexivity.
  Qed.

  Lemma bfold_data x : forall r,
    0 < r -> length x <= r ->
    bfold (BData r) x = (if r - length x =? 0 then BSuffix [] false else BData (r - length x), x).
  Proof.
    induction x as [|b x IH]; intros r L1 L2; cbn [Forwarded.bfold Forwarded.bstep length] in *.
    - rewrite Nat.sub_0_r. replace (r =? 0) with false by (symmetry; apply Nat.eqb_neq; lia). reflexivity.
    - destruct (r - 1 =? 0) eqn:E.
      + apply Nat.eqb_eq in E. assert (x = []) by (destruct x; [reflexivity|cbn in L2; lia]). subst x.
        cbn [Forwarded.bfold length]. replace (r - 1 =? 0) with true by (symmetry; apply Nat.eqb_eq; lia). reflexivity.
      + apply Nat.eqb_neq in E. rewrite IH by lia. cbn [app].
        replace (r - 1 - length x) with (r - S (length x)) by lia. reflexivity.
  Qed.

  Lemma bfold_prefix_partial x : forall buf,
    psize (buf ++ x) = CPartial -> bfold (BPrefix buf) x = (BPrefix (buf ++ x), []).
  Proof.
    induction x as [|b x IH]; intros buf H; cbn [Forwarded.bfold Forwarded.bstep].
    - rewrite app_nil_r. reflexivity.
    - assert (P : psize (buf ++ [b]) = CPartial).
      { apply (prefix_partial _ x). rewrite <- app_assoc. exact H. }
      rewrite P. rewrite IH by (rewrite <- app_assoc; exact H). rewrite <- app_assoc. reflexivity.
  Qed.

  Definition next (size : nat) : bstate := if size =? 0 then BSuffix [] true else BData size.

  Lemma bfold_prefix_complete c : forall buf p z,
    c <> [] ->
    (forall j, j < length c -> psize (buf ++ firstn j c) = CPartial) ->
    psize (buf ++ c) = CComplete p z ->
    bfold (BPrefix buf) c = (next z, []).
  Proof.
    induction c as [|b c IH]; intros buf p z NE Hpart Hc; [contradiction|].
    cbn [Forwarded.bfold Forwarded.bstep]. destruct c as [|b2 c'].
    - rewrite Hc. cbn [Forwarded.bfold]. reflexivity.
    - assert (P : psize (buf ++ [b]) = CPartial).
      { specialize (Hpart 1). cbn [length firstn] in Hpart. apply Hpart. lia. }
      rewrite P. rewrite (IH (buf ++ [b]) p z); [reflexivity|discriminate| |].
      + intros j Hj. rewrite <- app_assoc. specialize (Hpart (S j)). cbn [firstn app] in Hpart |- *.
        apply Hpart. cbn [length] in *. lia.
      + rewrite <- app_assoc. exact Hc.
  Qed.

  Lemma bfold_prefix_error x : forall buf,
    psize (buf ++ x) = CError -> psize buf = CPartial -> bfold (BPrefix buf) x = (BErr, []).
  Proof.
    induction x as [|b x IH]; intros buf H P; cbn [Forwarded.bfold Forwarded.bstep].
    - rewrite app_nil_r in H. congruence.
    - destruct (psize (buf ++ [b])) as [p z| |] eqn:E.
      + replace (buf ++ b :: x) with ((buf ++ [b]) ++ x) in H by (rewrite <- app_assoc; reflexivity).
        rewrite (complete_stable _ _ _ x E) in H. discriminate.
      + rewrite IH; [reflexivity|rewrite <- app_assoc; exact H|exact E].
      + rewrite bfold_err. reflexivity.
  Qed.

  (* states the code can be in *)
  Definition good (st : bstate) : Prop :=
    match st with
    | BPrefix buf => psize buf = CPartial
    | BData r => 0 < r
    | BSuffix buf _ => buf = [] \/ buf = [13%N]
    | BNon (Some n) sent => True
    | _ => True
    end.

  Lemma good_next z : good (next z).
  Proof. unfold next. destruct (z =? 0) eqn:E; cbn; [left; reflexivity|apply Nat.eqb_neq in E; lia]. Qed.

  Definition used_sink (st : bstate) : bool :=
    match st with BNon _ _ | BData _ => true | _ => false end.

  Lemma bwrite_suffix_nil term d0 rest k :
    bwrite (BSuffix [] term) (d0 :: rest) k =
    match rest with
    | [] => if (d0 =? 13)%N then WOk (BSuffix [d0] term) [] [] false else WErr
    | d1 :: r2 => if (d0 =? 13)%N && (d1 =? 10)%N
                  then (if term then WOk BDone [] [] false else WOk (BPrefix []) [] r2 false) else WErr
    end.
  Proof.
    destruct rest as [|d1 r2]; unfold bwrite; cbn [length Nat.min Nat.sub firstn skipn app is_prefix CRLF].
    - destruct (d0 =? 13)%N; cbn; reflexivity.
    - rewrite ?Nat.min_0_r. destruct (d0 =? 13)%N, (d1 =? 10)%N; cbn; reflexivity.
  Qed.
  Lemma bwrite_suffix_cr term d0 rest k :
    bwrite (BSuffix [13%N] term) (d0 :: rest) k =
    if (d0 =? 10)%N then (if term then WOk BDone [] [] false else WOk (BPrefix []) [] rest false) else WErr.
  Proof.
    unfold bwrite; cbn [length Nat.min Nat.sub firstn skipn app is_prefix CRLF].
    rewrite ?Nat.min_0_r; cbn [firstn skipn app is_prefix]; change (13 =? 13)%N with true; destruct (d0 =? 10)%N; cbn; reflexivity.
  Qed.

  Lemma bstep_suffix_bad0 term d : (d =? 13)%N = false -> bstep (BSuffix [] term) d = (BErr, []).
  Proof. intros E. unfold Forwarded.bstep. cbn [app is_prefix CRLF]. rewrite E. reflexivity. Qed.
  Lemma bstep_suffix_bad1 term d : (d =? 10)%N = false -> bstep (BSuffix [13%N] term) d = (BErr, []).
  Proof. intros E. unfold Forwarded.bstep. cbn [app is_prefix CRLF]. change (13 =? 13)%N with true. rewrite E. reflexivity. Qed.

  Lemma bstep_suffix_cr term : bstep (BSuffix [] term) 13%N = (BSuffix [13%N] term, []).
  Proof. reflexivity. Qed.
  Lemma bstep_suffix_lf term : bstep (BSuffix [13%N] term) 10%N = (if term then BDone else BPrefix [], []).
  Proof. destruct term; reflexivity. Qed.

  (* one write: the byte-at-a-time reference on the whole offer equals the reference on what the
     write consumed followed by the reference on what it handed back *)
  Lemma write_sim st data k st' o unsent used :
    good st -> data <> [] -> bwrite st data k = WOk st' o unsent used ->
    bfold st data = (let '(s2, o2) := bfold st' unsent in (s2, o ++ o2))
    /\ good st' /\ used = used_sink st
    /\ length unsent <= length data
    /\ (length unsent = length data -> used = true /\ exists a, k = Some a /\ a = 0).
  Proof.
    intros G NE W. assert (Hl : 1 <= length data) by (destruct data; [contradiction|cbn; lia]).
    destruct st as [len sent|buf|r|buf term| |]; try (cbn [Forwarded.bwrite] in W; discriminate).
    - (* non-encoded *)
      cbn [Forwarded.bwrite] in W.
      destruct len as [n|].
      + destruct (n <=? sent) eqn:E1; [discriminate|]. apply Nat.leb_gt in E1.
        set (to_send := Nat.min (length data) (n - sent)) in *.
        set (a := cap k to_send) in *.
        assert (Ha : a <= to_send) by (unfold a, cap; destruct k; lia).
        assert (Hts : 1 <= to_send) by (unfold to_send; destruct data; [contradiction|cbn [length]; lia]).
        rewrite <- (firstn_skipn a data) at 1. rewrite bfold_app.
        rewrite bfold_non_some by (try rewrite firstn_length; lia).
        rewrite firstn_length. replace (Nat.min a (length data)) with a by lia.
        destruct (sent + a =? n) eqn:E2; inversion W; subst; clear W.
        * rewrite bfold_done. cbn [Forwarded.bfold]. repeat split; auto; cbn [length]; try lia.
          exfalso. destruct data; [contradiction|cbn in H; lia].
        * destruct (bfold (BNon (Some n) (sent + a)) (skipn a data)) as [s2 o2]. repeat split; auto.
          -- rewrite skipn_length. lia.
          -- rewrite skipn_length in H. unfold a, cap in *. destruct k as [k0|]; [exists k0; split; [reflexivity|lia]|lia].
      + inversion W; subst; clear W. set (a := cap k (length data)).
        assert (Ha : a <= length data) by (unfold a, cap; destruct k; lia).
        rewrite <- (firstn_skipn a data) at 1. rewrite bfold_app, bfold_non_none.
        rewrite firstn_length. replace (Nat.min a (length data)) with a by lia.
        destruct (bfold (BNon None (sent + a)) (skipn a data)) as [s2 o2]. repeat split; auto.
        * rewrite skipn_length. lia.
        * rewrite skipn_length in H. unfold a, cap in *. destruct k as [k0|]; [exists k0; split; [reflexivity|lia]|].
          destruct data; [contradiction|cbn in H; lia].
    - (* chunk prefix *)
      cbn [Forwarded.bwrite] in W. cbn [good] in G. destruct (psize (buf ++ data)) as [p z| |] eqn:E; [| |discriminate].
      + inversion W; subst; clear W.
        destruct (complete_min _ _ _ E) as (Hp & Hat & Hbefore).
        assert (Hgt : length buf < p).
        { destruct (Nat.lt_ge_cases (length buf) p) as [L|L]; [exact L|exfalso].
          assert (X : firstn p (buf ++ data) = firstn p buf).
          { rewrite firstn_app. replace (p - length buf) with 0 by lia. cbn [firstn]. apply app_nil_r. }
          rewrite X in Hat.
          assert (Y : psize (firstn p buf) = CPartial).
          { apply (prefix_partial _ (skipn p buf)). rewrite firstn_skipn. exact G. }
          congruence. }
        set (c := firstn (p - length buf) data).
        assert (Hd : data = c ++ skipn p (buf ++ data)).
        { unfold c. rewrite skipn_app. replace (skipn p buf) with (@nil N) by (symmetry; apply skipn_all2; lia).
          cbn [app]. symmetry. apply firstn_skipn. }
        assert (Hc : buf ++ c = firstn p (buf ++ data)).
        { unfold c. rewrite firstn_app. rewrite (firstn_all2 buf) by lia. reflexivity. }
        assert (Hlen : length c = p - length buf).
        { unfold c. rewrite firstn_length. rewrite app_length in Hp. lia. }
        rewrite Hd at 1. rewrite bfold_app.
        rewrite (bfold_prefix_complete c buf p z).
        * fold (next z). destruct (bfold (next z) (skipn p (buf ++ data))) as [s2 o2]. repeat split.
          -- apply good_next.
          -- rewrite skipn_length, app_length. lia.
          -- rewrite skipn_length, app_length in H. lia.
          -- rewrite skipn_length, app_length in H. lia.
        * intros C. rewrite C in Hlen. cbn in Hlen. lia.
        * intros j Hj. replace (buf ++ firstn j c) with (firstn (length buf + j) (buf ++ data)).
          -- apply Hbefore. lia.
          -- rewrite firstn_app. rewrite (firstn_all2 buf) by lia. replace (length buf + j - length buf) with j by lia.
             unfold c. rewrite firstn_firstn. replace (Nat.min j (p - length buf)) with j by lia. reflexivity.
        * rewrite Hc. exact Hat.
      + inversion W; subst; clear W. rewrite bfold_prefix_partial by exact E. cbn [Forwarded.bfold]. repeat split; auto.
        * cbn [length]. lia.
        * exfalso. cbn [length] in H. destruct data; [contradiction|cbn in H; lia].
        * exfalso. cbn [length] in H. destruct data; [contradiction|cbn in H; lia].
    - (* chunk data *)
      cbn [Forwarded.bwrite] in W. cbn [good] in G. inversion W; subst; clear W.
      set (to_send := Nat.min (length data) r) in *. set (a := cap k to_send) in *.
      assert (Ha : a <= to_send) by (unfold a, cap; destruct k; lia).
      assert (Hts : 1 <= to_send) by (unfold to_send; destruct data; [contradiction|cbn [length]; lia]).
      rewrite <- (firstn_skipn a data) at 1. rewrite bfold_app.
      rewrite bfold_data by (try rewrite firstn_length; lia).
      rewrite firstn_length. replace (Nat.min a (length data)) with a by lia.
      destruct (bfold (if r - a =? 0 then BSuffix [] false else BData (r - a)) (skipn a data)) as [s2 o2]. repeat split; auto.
      + destruct (r - a =? 0) eqn:E; cbn; [left; reflexivity|apply Nat.eqb_neq in E; lia].
      + rewrite skipn_length. lia.
      + rewrite skipn_length in H. unfold a, cap in *. destruct k as [k0|]; [exists k0; split; [reflexivity|lia]|lia].
    - (* chunk suffix *)
      cbn [good] in G. destruct data as [|d0 data']; [contradiction|].
      destruct G as [-> | ->].
      + (* nothing buffered *)
        rewrite bwrite_suffix_nil in W. destruct data' as [|d1 data''].
        * destruct (d0 =? 13)%N eqn:E0; [|discriminate].
          apply N.eqb_eq in E0. subst d0. inversion W; subst; clear W.
          cbn [Forwarded.bfold]. rewrite bstep_suffix_cr. cbn [app].
          repeat split; auto; try (right; reflexivity); try (cbn in *; lia); try discriminate.
        * destruct (d0 =? 13)%N eqn:E0; cbn [andb] in W; [|discriminate].
          destruct (d1 =? 10)%N eqn:E1; [|discriminate].
          apply N.eqb_eq in E0, E1. subst d0 d1.
          cbn [Forwarded.bfold]. rewrite bstep_suffix_cr, bstep_suffix_lf.
          destruct term; inversion W; subst; clear W.
          -- rewrite bfold_done. cbn. repeat split; auto; try lia; try discriminate.
          -- destruct (bfold (BPrefix []) unsent) as [s2 o2]. cbn. repeat split; auto; try lia; try discriminate.
      + (* CR buffered *)
        rewrite bwrite_suffix_cr in W. destruct (d0 =? 10)%N eqn:E0; [|discriminate].
        apply N.eqb_eq in E0. subst d0.
        cbn [Forwarded.bfold]. rewrite bstep_suffix_lf.
        destruct term; inversion W; subst; clear W.
        * rewrite bfold_done. cbn. repeat split; auto; try lia; try discriminate.
        * destruct (bfold (BPrefix []) unsent) as [s2 o2]. cbn. repeat split; auto; try lia; try discriminate.
  Qed.

  Lemma write_err st data k :
    good st -> data <> [] -> bwrite st data k = WErr ->
    snd (bfold st data) = [] /\ (fst (bfold st data) = BErr \/ st = BDone).
  Proof.
    intros G NE W. destruct st as [len sent|buf|r|buf term| |].
    - cbn [Forwarded.bwrite] in W. destruct len as [n|]; [|discriminate]. destruct (n <=? sent) eqn:E; [|destruct (_ =? n); discriminate].
      destruct data as [|b x]; [contradiction|]. cbn [Forwarded.bfold Forwarded.bstep]. rewrite E, bfold_err. cbn. auto.
    - cbn [Forwarded.bwrite] in W. cbn [good] in G. destruct (psize (buf ++ data)) eqn:E; try discriminate.
      rewrite bfold_prefix_error by assumption. cbn. auto.
    - cbn [Forwarded.bwrite] in W. discriminate.
    - cbn [good] in G. destruct data as [|d0 data']; [contradiction|].
      destruct G as [-> | ->].
      + rewrite bwrite_suffix_nil in W. cbn [Forwarded.bfold]. destruct data' as [|d1 data''].
        * destruct (d0 =? 13)%N eqn:E0; [discriminate|].
          rewrite (bstep_suffix_bad0 _ _ E0). cbn. auto.
        * destruct (d0 =? 13)%N eqn:E0; cbn [andb] in W.
          -- destruct (d1 =? 10)%N eqn:E1; [destruct term; discriminate|].
             apply N.eqb_eq in E0. subst d0. rewrite bstep_suffix_cr. cbn [Forwarded.bfold].
             rewrite (bstep_suffix_bad1 _ _ E1), bfold_err. cbn. auto.
          -- rewrite (bstep_suffix_bad0 _ _ E0), bfold_err. cbn. auto.
      + rewrite bwrite_suffix_cr in W. cbn [Forwarded.bfold]. destruct (d0 =? 10)%N eqn:E0; [destruct term; discriminate|].
        rewrite (bstep_suffix_bad1 _ _ E0), bfold_err. cbn. auto.
    - rewrite bfold_done. cbn. auto.
    - rewrite bfold_err. cbn. auto.
  Qed.

  Definition agrees (impl ref : bstate) : Prop := impl = ref \/ (impl = BErr /\ ref = BDone).

  Lemma drive_chunk_sim fuel : forall st data accs out,
    good st -> length data + length accs < fuel ->
    let '(st1, out1, accs1) := drive_chunk psize fuel st data accs out in
    out1 = out ++ snd (bfold st data) /\ agrees st1 (fst (bfold st data))
    /\ (st1 <> BErr -> good st1) /\ length accs1 <= length accs.
  Proof.
    induction fuel as [|f IH]; intros st data accs out G F; [lia|].
    cbn [drive_chunk]. destruct data as [|d0 data'].
    - cbn. rewrite app_nil_r. repeat split; auto. left. reflexivity.
    - set (data := d0 :: data') in *.
      set (k := match accs with a :: _ => Some a | [] => None end).
      destruct (bwrite st data k) as [|st' o unsent used] eqn:W.
      + destruct (write_err st data k G ltac:(discriminate) W) as [E1 [E2|E2]].
        * rewrite E1, E2, app_nil_r. repeat split; auto; try (left; reflexivity); try congruence; try exact I.
        * subst st. rewrite bfold_done. cbn. rewrite app_nil_r. repeat split; auto; try (right; split; reflexivity); try congruence; try exact I.
      + destruct (write_sim st data k st' o unsent used G ltac:(discriminate) W) as (S1 & G' & U & L1 & L2).
        set (accs' := if used then tl accs else accs).
        assert (M : length unsent + length accs' < f).
        { unfold accs'. destruct (Nat.eq_dec (length unsent) (length data)) as [Eq|Ne].
          - destruct (L2 Eq) as [Hu [a [Hk Ha]]]. rewrite Hu. unfold k in Hk. destruct accs as [|a0 accs0]; [discriminate|].
            cbn [tl length] in *. lia.
          - destruct used; [destruct accs; cbn [tl length] in *; lia|lia]. }
        specialize (IH st' unsent accs' (out ++ o) G' M).
        destruct (drive_chunk psize f st' unsent accs' (out ++ o)) as [[st1 out1] accs1].
        destruct IH as (I1 & I2 & I3 & I4). rewrite S1.
        destruct (bfold st' unsent) as [s2 o2]. cbn [fst snd] in *.
        repeat split; auto.
        * rewrite I1. rewrite app_assoc. reflexivity.
        * unfold accs' in I4. destruct used; [destruct accs; cbn [tl length] in *; lia|lia].
  Qed.

  (* every segmentation and every acceptance pattern: what the client-side sink receives is what
     the byte-at-a-time reference delivers for the whole stream *)
  Theorem drive_sim segs : forall st accs out,
    good st ->
    let '(st1, out1) := drive psize st segs accs out in
    out1 = out ++ snd (bfold st (concat segs)) /\ agrees st1 (fst (bfold st (concat segs))).
  Proof.
    induction segs as [|s r IH]; intros st accs out G; cbn [drive concat].
    - cbn. rewrite app_nil_r. split; [reflexivity|left; reflexivity].
    - pose proof (drive_chunk_sim (length s + length accs + 1) st s accs out G ltac:(lia)) as D.
      destruct (drive_chunk psize (length s + length accs + 1) st s accs out) as [[st1 out1] accs1].
      destruct D as (D1 & D2 & D3 & D4). rewrite bfold_app.
      destruct (bfold st s) as [sa oa] eqn:Ba. cbn [fst snd] in *.
      destruct D2 as [D2|[D2a D2b]].
      + subst sa. destruct st1; try (specialize (IH _ accs1 out1 (D3 ltac:(discriminate)));
          match goal with |- context [drive psize ?s r accs1 out1] => destruct (drive psize s r accs1 out1) as [sf of] end;
          match goal with |- context [Forwarded.bfold psize ?s (concat r)] => destruct (Forwarded.bfold psize s (concat r)) as [sb ob] end;
          cbn [fst snd] in *; destruct IH as [I1 I2]; split; [rewrite I1, D1, app_assoc; reflexivity|exact I2]).
        rewrite bfold_err. cbn [fst snd]. split; [rewrite D1, app_nil_r; reflexivity|left; reflexivity].
      + subst st1 sa. rewrite bfold_done. cbn [fst snd]. split; [rewrite D1, app_nil_r; reflexivity|right; split; reflexivity].
  Qed.
  (* ---------- removing the chunked framing gives back exactly the data ---------- *)
  (* a chunk: its size line (hex size, optional extension, CR LF: whatever the parser accepts as
     a complete line announcing [length data]) and its data *)
  Definition chunk_ok (c : list N * list N) : Prop :=
    psize (fst c) = CComplete (length (fst c)) (length (snd c)) /\ snd c <> [].
  Definition enc_chunk (c : list N * list N) : list N := fst c ++ snd c ++ CRLF.

  Lemma size_line line z :
    psize line = CComplete (length line) z -> bfold (BPrefix []) line = (next z, []).
  Proof.
    intros H. destruct (complete_min _ _ _ H) as (A & B & C).
    apply (bfold_prefix_complete line [] (length line) z).
    - intros E. subst. cbn in A. lia.
    - intros j Hj. cbn [app]. apply C. exact Hj.
    - cbn [app]. exact H.
  Qed.

  Lemma dechunk_one c :
    chunk_ok c -> bfold (BPrefix []) (enc_chunk c) = (BPrefix [], snd c).
  Proof.
    intros [H NE]. unfold enc_chunk. rewrite bfold_app, (size_line _ _ H).
    unfold next. replace (length (snd c) =? 0) with false
      by (symmetry; apply Nat.eqb_neq; destruct (snd c); [contradiction|cbn; lia]).
    rewrite bfold_app, bfold_data by (destruct (snd c); [contradiction|cbn; lia]).
    rewrite Nat.sub_diag. cbn [Nat.eqb]. unfold CRLF. cbn [Forwarded.bfold].
    rewrite bstep_suffix_cr, bstep_suffix_lf. cbn. rewrite app_nil_r. reflexivity.
  Qed.

  Theorem dechunk_all chunks last_line :
    Forall chunk_ok chunks -> psize last_line = CComplete (length last_line) 0 ->
    bfold (BPrefix []) (concat (map enc_chunk chunks) ++ last_line ++ CRLF)
    = (BDone, concat (map snd chunks)).
  Proof.
    intros F L. induction F as [|c r Hc Hr IH]; cbn [map concat app].
    - rewrite bfold_app, (size_line _ _ L). unfold next. cbn [Nat.eqb]. unfold CRLF. cbn [Forwarded.bfold].
      rewrite bstep_suffix_cr, bstep_suffix_lf. reflexivity.
    - rewrite <- app_assoc, bfold_app, (dechunk_one c Hc), IH. reflexivity.
  Qed.
End Sim.

(* ---------- a limit on the length of the chunk-size line keeps a parser within the hypotheses, and bounds the buffer ---------- *)
Section Bounded.
  Variable psize : list N -> csize.
  Variable limit : nat.
  Hypothesis limit_pos : 0 < limit.
  Hypothesis empty_partial : psize [] = CPartial.
  Hypothesis complete_stable : forall b p z t, psize b = CComplete p z -> psize (b ++ t) = CComplete p z.
  Hypothesis error_stable : forall b t, psize b = CError -> psize (b ++ t) = CError.
  Hypothesis complete_min : forall b p z, psize b = CComplete p z ->
      1 <= p <= length b /\ psize (firstn p b) = CComplete p z /\ forall k, k < p -> psize (firstn k b) = CPartial.

  Notation bp := (bounded limit psize).

  Lemma bounded_empty : bp [] = CPartial.
  Proof.
    unfold bounded. rewrite empty_partial. cbn [length].
    replace (limit <=? 0) with false by (symmetry; apply Nat.leb_gt; lia). reflexivity.
  Qed.

  Lemma bounded_complete_inv b p z : bp b = CComplete p z -> psize b = CComplete p z /\ p <= limit.
  Proof.
    unfold bounded. destruct (psize b) as [p' z'| |] eqn:E.
    - destruct (limit <? p') eqn:L; [discriminate|]. intros H. inversion H; subst. apply Nat.ltb_ge in L. auto.
    - destruct (limit <=? length b); discriminate.
    - discriminate.
  Qed.

  Lemma bounded_complete_stable b p z t : bp b = CComplete p z -> bp (b ++ t) = CComplete p z.
  Proof.
    intros H. destruct (bounded_complete_inv _ _ _ H) as [E L].
    unfold bounded. rewrite (complete_stable _ _ _ t E).
    replace (limit <? p) with false by (symmetry; apply Nat.ltb_ge; exact L). reflexivity.
  Qed.

  Lemma bounded_error_stable b t : bp b = CError -> bp (b ++ t) = CError.
  Proof.
    unfold bounded. destruct (psize b) as [p z| |] eqn:E.
    - destruct (limit <? p) eqn:L; [|discriminate]. intros _.
      rewrite (complete_stable _ _ _ t E), L. reflexivity.
    - destruct (limit <=? length b) eqn:L; [|discriminate]. intros _. apply Nat.leb_le in L.
      destruct (psize (b ++ t)) as [p z| |] eqn:E2; [| |reflexivity].
      + (* completed later: beyond the limit *)
        destruct (complete_min _ _ _ E2) as (Hp & Hat & _).
        assert (length b < p).
        { destruct (Nat.lt_ge_cases (length b) p) as [G|G]; [exact G|exfalso].
          assert (X : firstn p (b ++ t) = firstn p b).
          { rewrite firstn_app. replace (p - length b) with 0 by lia. cbn [firstn]. apply app_nil_r. }
          rewrite X in Hat.
          pose proof (complete_stable _ _ _ (skipn p b) Hat) as Y. rewrite firstn_skipn in Y. congruence. }
        replace (limit <? p) with true by (symmetry; apply Nat.ltb_lt; lia). reflexivity.
      + rewrite app_length. replace (limit <=? length b + length t) with true by (symmetry; apply Nat.leb_le; lia). reflexivity.
    - intros _. rewrite (error_stable _ t E). reflexivity.
  Qed.

  Lemma bounded_complete_min b p z :
    bp b = CComplete p z ->
    1 <= p <= length b /\ bp (firstn p b) = CComplete p z /\ forall k, k < p -> bp (firstn k b) = CPartial.
  Proof.
    intros H. destruct (bounded_complete_inv _ _ _ H) as [E L].
    destruct (complete_min _ _ _ E) as (Hp & Hat & Hbefore).
    split; [exact Hp|]. split.
    - unfold bounded. rewrite Hat. replace (limit <? p) with false by (symmetry; apply Nat.ltb_ge; exact L). reflexivity.
    - intros k Hk. unfold bounded. rewrite (Hbefore k Hk). rewrite firstn_length.
      replace (limit <=? Nat.min k (length b)) with false by (symmetry; apply Nat.leb_gt; lia). reflexivity.
  Qed.

  (* what the sink keeps of an undecided chunk-size line is shorter than the limit *)
  Lemma bounded_partial_short d : bp d = CPartial -> length d < limit.
  Proof.
    unfold bounded. destruct (psize d) as [p z| |].
    - destruct (limit <? p); discriminate.
    - destruct (limit <=? length d) eqn:L; [discriminate|]. intros _. apply Nat.leb_gt in L. exact L.
    - discriminate.
  Qed.

  (* every state the sink reaches by whole exchanges is a good one: in particular the chunk-size line buffer stays below the limit *)
  Lemma drive_keeps_good segs : forall st accs out,
    good bp st -> let '(st1, _) := drive bp st segs accs out in st1 <> BErr -> good bp st1.
  Proof.
    induction segs as [|s r IH]; intros st accs out G; cbn [drive].
    - intros _. exact G.
    - pose proof (drive_chunk_sim bp bounded_empty bounded_complete_stable bounded_error_stable bounded_complete_min
                    (length s + length accs + 1) st s accs out G ltac:(lia)) as D.
      destruct (drive_chunk bp (length s + length accs + 1) st s accs out) as [[st1 out1] accs1].
      destruct D as (_ & _ & D3 & _).
      destruct st1; try (apply IH; apply D3; discriminate).
      intros X. contradiction.
  Qed.

  Theorem chunk_size_line_buffer_below_limit segs st accs :
    good bp st ->
    match fst (drive bp st segs accs []) with BPrefix buf => length buf < limit | _ => True end.
  Proof.
    intros G. pose proof (drive_keeps_good segs st accs [] G) as H.
    destruct (drive bp st segs accs []) as [st1 o]. cbn [fst].
    destruct st1; try exact I. apply bounded_partial_short. apply (H ltac:(discriminate)).
  Qed.
End Bounded.

(* ---------- the executable model's chunk-size parser meets the hypotheses ---------- *)
Ltac break_match :=
  repeat match goal with
         | H : context [match ?x with _ => _ end] |- _ => destruct x eqn:?; try discriminate
         | |- context [match ?x with _ => _ end] => destruct x eqn:?; try discriminate
         end.

Lemma psize_go_app b : forall ph nd acc pos t r,
  psize_go b ph nd acc pos = r -> r <> CPartial -> psize_go (b ++ t) ph nd acc pos = r.
Proof.
  induction b as [|c b IH]; intros ph nd acc pos t r H NP; cbn [psize_go app] in *.
  - congruence.
  - destruct ph as [|[|ph]]; break_match; subst; try reflexivity; try congruence; try (eapply IH; eauto).
Qed.

Lemma psize_go_min b : forall ph nd acc pos p z,
  psize_go b ph nd acc pos = CComplete p z ->
  pos < p <= pos + length b
  /\ psize_go (firstn (p - pos) b) ph nd acc pos = CComplete p z
  /\ forall k, k < p - pos -> psize_go (firstn k b) ph nd acc pos = CPartial.
Proof.
  induction b as [|c b IH]; intros ph nd acc pos p z H; cbn [psize_go] in H; [discriminate|].
  assert (Step : forall ph' nd' acc',
             psize_go b ph' nd' acc' (S pos) = CComplete p z ->
             (forall x, psize_go (c :: x) ph nd acc pos = psize_go x ph' nd' acc' (S pos)) ->
             pos < p <= pos + length (c :: b)
             /\ psize_go (firstn (p - pos) (c :: b)) ph nd acc pos = CComplete p z
             /\ forall k, k < p - pos -> psize_go (firstn k (c :: b)) ph nd acc pos = CPartial).
  { intros ph' nd' acc' H1 Hx. destruct (IH _ _ _ _ _ _ H1) as (A & B & C). cbn [length].
    split; [lia|]. replace (p - pos) with (S (p - S pos)) by lia. cbn [firstn]. split.
    - rewrite Hx. exact B.
    - intros k Hk. destruct k as [|k]; [reflexivity|]. cbn [firstn]. rewrite Hx. apply C. lia. }
  destruct ph as [|[|ph]].
  - destruct (hexval c) as [v|] eqn:Hv.
    + destruct (15 <? nd) eqn:E; [discriminate|].
      apply (Step 0 (S nd) (16 * acc + v) H). intros x. cbn [psize_go]. rewrite Hv, E. reflexivity.
    + destruct (nd =? 0) eqn:E0; [discriminate|].
      destruct (c =? 13)%N eqn:E1.
      * apply (Step 2 nd acc H). intros x. cbn [psize_go]. rewrite Hv, E0, E1. reflexivity.
      * destruct ((c =? 59)%N || (c =? 32)%N || (c =? 9)%N) eqn:E2; [|discriminate].
        apply (Step 1 nd acc H). intros x. cbn [psize_go]. rewrite Hv, E0, E1, E2. reflexivity.
  - destruct (c =? 13)%N eqn:E1.
    + apply (Step 2 nd acc H). intros x. cbn [psize_go]. rewrite E1. reflexivity.
    + destruct (c =? 10)%N eqn:E2; [discriminate|].
      apply (Step 1 nd acc H). intros x. cbn [psize_go]. rewrite E1, E2. reflexivity.
  - destruct (c =? 10)%N eqn:E1; [|discriminate]. inversion H; subst. cbn [length].
    split; [lia|]. replace (S pos - pos) with 1 by lia. cbn [firstn psize_go]. rewrite E1. split; [reflexivity|].
    intros k Hk. assert (k = 0) by lia. subst. reflexivity.
Qed.

Lemma psize_c_empty : psize_c [] = CPartial.
Proof. reflexivity. Qed.

Lemma psize_c_complete_stable b p z t : psize_c b = CComplete p z -> psize_c (b ++ t) = CComplete p z.
Proof. intros H. apply psize_go_app; [exact H|discriminate]. Qed.

Lemma psize_c_error_stable b t : psize_c b = CError -> psize_c (b ++ t) = CError.
Proof. intros H. apply psize_go_app; [exact H|discriminate]. Qed.

Lemma psize_c_complete_min b p z :
  psize_c b = CComplete p z ->
  1 <= p <= length b /\ psize_c (firstn p b) = CComplete p z /\ forall k, k < p -> psize_c (firstn k b) = CPartial.
Proof.
  intros H. destruct (psize_go_min b 0 0 0 0 p z H) as (A & B & C).
  rewrite Nat.sub_0_r in B, C. repeat split; try lia; assumption.
Qed.

