From Coq Require Import List NArith Bool Lia.
From TT Require Import Model.ShutdownM.
Import ListNotations.

Lemma nth_upd_same l : forall i f p, nth_error l i = Some p -> nth_error (upd_nth i f l) i = Some (f p).
Proof.
  induction l as [|x l IH]; intros i f p H; destruct i; cbn in *; try discriminate.
  - inversion H; reflexivity.
  - apply IH. exact H.
Qed.

Lemma nth_upd_other l : forall i j f, i <> j -> nth_error (upd_nth i f l) j = nth_error l j.
Proof.
  induction l as [|x l IH]; intros i j f H; destruct i, j; cbn; try reflexivity; try contradiction.
  apply IH. congruence.
Qed.

Lemma length_upd l : forall i f, length (upd_nth i f l) = length l.
Proof. induction l as [|x l IH]; intros i f; destruct i; cbn; auto. Qed.

(* a submission reaches every participant registered before it that has not wound down: it is
   observed at once by those already waiting and stays pending for the others *)
Lemma submit_reaches s i p :
  nth_error (parts s) i = Some p -> p_finished p = false ->
  exists p', nth_error (parts (sstep s Submit)) i = Some p'
             /\ p_finished p' = false /\ p_awaited p' = p_awaited p
             /\ (p_waiting p = true -> p_observed p' = true)
             /\ (p_waiting p = false -> p_pending p' = true).
Proof.
  intros H F. cbn [sstep parts]. rewrite nth_error_map, H. cbn [option_map]. rewrite F.
  eexists. split; [reflexivity|]. unfold deliver. cbn [p_waiting p_pending p_finished p_awaited p_observed].
  destruct (p_waiting p); cbn; repeat split; auto; discriminate.
Qed.

(* a pending notification is delivered as soon as the participant waits *)
Lemma pending_delivered_on_wait s i p :
  nth_error (parts s) i = Some p -> p_pending p = true -> p_finished p = false ->
  exists p', nth_error (parts (sstep s (Wait i))) i = Some p' /\ p_observed p' = true /\ p_finished p' = false.
Proof.
  intros H P F. cbn [sstep parts]. rewrite (nth_upd_same _ _ _ _ H). rewrite F.
  eexists. split; [reflexivity|]. unfold deliver. cbn [p_waiting p_pending p_finished]. rewrite P. cbn. auto.
Qed.

(* nothing but the participant's own wait or wind-down consumes or loses its pending notification,
   and an observation is never undone *)
Lemma pending_survives s o i p :
  nth_error (parts s) i = Some p -> p_finished p = false -> o <> Wait i -> o <> Finish i ->
  exists p', nth_error (parts (sstep s o)) i = Some p' /\ p_finished p' = false
             /\ (p_pending p = true -> p_pending p' = true \/ p_observed p' = true)
             /\ (p_observed p = true -> p_observed p' = true)
             /\ p_awaited p' = p_awaited p.
Proof.
  intros H F NW NF. destruct o as [|j|  |j|]; cbn [sstep parts].
  - exists p. rewrite nth_error_app1 by (apply nth_error_Some; congruence). auto.
  - assert (j <> i) by congruence. rewrite nth_upd_other by assumption. exists p. auto.
  - rewrite nth_error_map, H. cbn [option_map]. rewrite F. eexists. split; [reflexivity|].
    unfold deliver. cbn [p_waiting p_pending p_finished p_awaited p_observed].
    destruct (p_waiting p); cbn; repeat split; auto.
  - assert (j <> i) by congruence. rewrite nth_upd_other by assumption. exists p. auto.
  - exists p. auto.
Qed.

(* completion returns exactly when it was started and every participant that holds a guard has
   wound down: never earlier, and nothing else is needed *)
Lemma completion_iff s :
  completion_done s = true <->
  completing s = true /\ forall i p, nth_error (parts s) i = Some p -> p_awaited p = true -> p_finished p = true.
Proof.
  unfold completion_done. rewrite andb_true_iff, forallb_forall. split.
  - intros [C A]. split; [exact C|]. intros i p H Aw. specialize (A p (nth_error_In _ _ H)).
    rewrite Aw in A. cbn in A. exact A.
  - intros [C A]. split; [exact C|]. intros p Hin. apply In_nth_error in Hin. destruct Hin as [i Hi].
    destruct (p_awaited p) eqn:E; [|reflexivity]. cbn. apply (A i p Hi E).
Qed.

(* who is awaited: exactly the participants registered before completion began *)
Lemma register_awaited s :
  let s' := sstep s Register in
  nth_error (parts s') (length (parts s)) =
  Some {| p_awaited := negb (completing s); p_pending := false; p_waiting := false; p_observed := false; p_finished := false |}.
Proof. cbn [sstep parts]. rewrite nth_error_app2 by lia. rewrite PeanoNat.Nat.sub_diag. reflexivity. Qed.

Lemma completing_monotone s o : completing s = true -> completing (sstep s o) = true.
Proof. intros H. destruct o; cbn [sstep completing]; auto. Qed.
