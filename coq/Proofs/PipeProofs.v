(* C02 / C14: invariants of the timed pipe model, for every script, instant and fuel. *)
From Coq Require Import List NArith Bool Lia ZifyBool ZifyNat ZifyN.
From TT Require Import Lib.BytesL Model.Pipe.
Import ListNotations.
Open Scope N_scope.

Definition pending_bytes (p : pstate) : list N := match pending p with Some bs => bs | None => [] end.

(* what one direction guarantees at every instant *)
Record Inv (p : pstate) : Prop := {
  inv_prefix : exists rest, delivered p ++ rest = read_log p;
  inv_relay : ph p <> PFailed -> delivered p ++ pending_bytes p = read_log p;
  inv_credit : consumed p = lenN (delivered p) /\ metric p = lenN (delivered p);
  inv_eof : (ph p = PFlush \/ ph p = PFinished) -> pending p = None /\ 1 <= eof_calls p;
  inv_fin : ph p = PFinished -> 1 <= flush_done p;
  inv_time : la p <= iter_start p
}.

Lemma Inv_init e : Inv (pinit e).
Proof.
  constructor; cbn.
  - exists []. reflexivity.
  - intros _. reflexivity.
  - split; reflexivity.
  - intros [H|H]; discriminate.
  - discriminate.
  - lia.
Qed.

Lemma Inv_fail p : Inv p -> Inv (fail p).
Proof.
  intros [A A' B C D E]. constructor;
    cbn [fail delivered read_log consumed metric ph pending eof_calls flush_done la iter_start]; auto;
    try (intros [H|H]; discriminate); try discriminate; try (intros H; exfalso; apply H; reflexivity).
Qed.

Lemma Inv_restart f t p : Inv p -> iter_start p <= t -> Inv (restart f t p).
Proof.
  intros [A A' B C D E] Hn. constructor;
    cbn [restart delivered read_log consumed metric ph pending eof_calls flush_done la iter_start pending_bytes]; auto.
  - intros H. apply A'. destruct (ph p); congruence.
  - intros [H|H]; destruct (ph p) eqn:Ep; try discriminate. apply C. right. reflexivity.
  - destruct (ph p) eqn:Ep; try discriminate. intros _. apply D. reflexivity.
  - destruct f; lia.
Qed.

Lemma write_chunk_inv f t p bs :
  delivered p ++ bs = read_log p -> consumed p = lenN (delivered p) -> metric p = lenN (delivered p) ->
  la p <= iter_start p ->
  Inv (write_chunk f t p bs).
Proof.
  intros Hr Hc Hm Ht. unfold write_chunk.
  destruct (match writes (env p) with a :: r => (a, r) | [] => (WAccept (lenN bs), []) end) as [ans ws].
  destruct ans as [k|].
  - set (n := N.min k (lenN bs)).
    assert (Hsplit : (delivered p ++ takeN n bs) ++ (if n <? lenN bs then dropN n bs else []) = read_log p).
    { rewrite <- Hr, <- app_assoc. f_equal.
      destruct (n <? lenN bs) eqn:E; [apply takeN_dropN|].
      rewrite app_nil_r. apply takeN_all. lia. }
    constructor; cbn [delivered read_log consumed metric ph pending eof_calls flush_done la iter_start pending_bytes].
    + eexists. exact Hsplit.
    + intros _. destruct (n <? lenN bs); exact Hsplit.
    + rewrite lenN_app, lenN_takeN. unfold n. split; lia.
    + intros [H|H]; discriminate.
    + discriminate.
    + lia.
  - constructor; cbn [fail delivered read_log consumed metric ph pending eof_calls flush_done la iter_start pending_bytes].
    + exists bs. exact Hr.
    + congruence.
    + split; assumption.
    + intros [H|H]; discriminate.
    + discriminate.
    + exact Ht.
Qed.

Ltac inv_fields :=
  constructor;
  cbn [fail delivered read_log consumed metric ph pending eof_calls flush_done la iter_start pending_bytes].

Lemma Inv_apply_complete0 f t p :
  Inv p -> iter_start p <= t -> Inv (apply_complete0 f t p).
Proof.
  intros I Ht. pose proof I as [A A' [B1 B2] C D E]. unfold apply_complete0.
  destruct (ph p) eqn:Eph; try exact I.
  - (* PRun *)
    assert (Hnf : PRun <> PFailed) by discriminate. specialize (A' Hnf). unfold pending_bytes in A'.
    destruct (pending p) as [bs|] eqn:Ep.
    + destruct (waits (env p)) as [|[a|a|] r]; try exact I.
      * apply write_chunk_inv; cbn [delivered read_log consumed metric la iter_start]; assumption.
      * apply Inv_fail. inv_fields.
        all: try assumption; try (split; assumption); try discriminate; try (intros [H|H]; discriminate).
        intros _. try rewrite Ep. exact A'.
    + rewrite app_nil_r in A'.
      destruct (reads (env p)) as [|[a bs|a|a|] r]; try exact I.
      * apply write_chunk_inv; cbn [delivered read_log consumed metric la iter_start]; try assumption.
        rewrite A'. reflexivity.
      * assert (I1 : Inv {| env := set_env_reads (env p) r; pending := None; la := la p; iter_start := t;
                            ph := PFlush; read_log := read_log p; delivered := delivered p;
                            consumed := consumed p; metric := metric p; eof_calls := eof_calls p + 1;
                            flush_done := flush_done p |}).
        { inv_fields.
          all: try assumption; try (split; assumption); try discriminate; try lia.
          - intros _. rewrite app_nil_r. exact A'.
          - intros _. split; [reflexivity|lia]. }
        destruct (eof_err (env p)); [apply Inv_fail; exact I1|exact I1].
      * apply Inv_fail. inv_fields.
        all: try assumption; try (split; assumption); try discriminate; try (intros [H|H]; discriminate).
        intros _. rewrite app_nil_r. exact A'.
  - (* PFlush *)
    destruct (C (or_introl eq_refl)) as [Cp Ce].
    assert (Hnf : PFlush <> PFailed) by discriminate. specialize (A' Hnf). unfold pending_bytes in A'.
    destruct (flushes (env p)) as [|[a|a|] r]; try exact I.
    + inv_fields.
      all: try assumption; try (split; assumption); try (intros _; split; assumption); try (intros _; lia).
      intros _. exact A'.
    + apply Inv_fail. inv_fields.
      all: try assumption; try (split; assumption); try (intros _; split; assumption); try discriminate.
      intros _. exact A'.
Qed.

Lemma next_event_time T p t k : next_event T p = Some (t, k) -> iter_start p <= t.
Proof.
  unfold next_event, avail.
  destruct (ph p); try discriminate.
  - destruct (pending p).
    + destruct (waits (env p)) as [|[a|a|] r]; intros H;
        repeat match type of H with
               | (if ?c then _ else _) = _ => destruct c eqn:?
               end; inversion H; subst; lia.
    + destruct (reads (env p)) as [|[a bs|a|a|] r]; intros H;
        repeat match type of H with
               | (if ?c then _ else _) = _ => destruct c eqn:?
               end; inversion H; subst; lia.
  - destruct (flushes (env p)) as [|[a|a|] r]; intros H; inversion H; subst; lia.
Qed.

Lemma apply_complete0_start f t p :
  iter_start p <= t -> iter_start (apply_complete0 f t p) <= t.
Proof.
  intros H. unfold apply_complete0, write_chunk, fail.
  repeat match goal with
         | |- context [match ?x with _ => _ end] => destruct x
         | |- context [if ?c then _ else _] => destruct c
         end; cbn [iter_start]; lia.
Qed.

Lemma Inv_apply_complete f t p :
  Inv p -> iter_start p <= t -> Inv (apply_complete f t p).
Proof.
  intros I Ht. pose proof (Inv_apply_complete0 f t p I Ht) as [A A' B C D E].
  pose proof (apply_complete0_start f t p Ht) as Hs.
  unfold apply_complete, with_start. constructor;
    cbn [delivered read_log consumed metric ph pending eof_calls flush_done la iter_start pending_bytes]; auto.
  lia.
Qed.

Lemma apply_complete_start f t p : iter_start (apply_complete f t p) = t.
Proof. reflexivity. Qed.

(* ---------- the duplex run ---------- *)

Definition ev_left (T : N) (s : dstate) := match mode s with OnlyRight => None | _ => next_event T (pl s) end.
Definition ev_right (T : N) (s : dstate) := match mode s with OnlyLeft => None | _ => next_event T (pr s) end.

(* global invariant: both directions keep Inv, awaits started in the past, events lie in the future *)
Record DInv (T : N) (s : dstate) : Prop := {
  d_l : Inv (pl s);
  d_r : Inv (pr s);
  d_sl : iter_start (pl s) <= now s;
  d_sr : iter_start (pr s) <= now s;
  d_el : forall t k, ev_left T s = Some (t, k) -> now s <= t;
  d_er : forall t k, ev_right T s = Some (t, k) -> now s <= t
}.

Definition out_state (o : step_out) : dstate := match o with Done _ s | Next s => s end.

Lemma masked_event T m p t k :
  match m with OnlyRight => None | _ => next_event T p end = Some (t, k) \/
  match m with OnlyLeft => None | _ => next_event T p end = Some (t, k) ->
  next_event T p = Some (t, k).
Proof. intros [H|H]; destruct m; try discriminate; exact H. Qed.

Lemma dstep_inv f T s : DInv T s -> DInv T (out_state (dstep f T s)).
Proof.
  intros [IL IR SL SR EL ER]. unfold dstep. fold (ev_left T s). fold (ev_right T s).
  destruct (if earlier (ev_left T s) (ev_right T s) then ev_left T s else ev_right T s)
    as [[t k]|] eqn:Eev; [|constructor; assumption].
  assert (Hmin : now s <= t
                 /\ (forall t' k', ev_left T s = Some (t', k') -> t <= t')
                 /\ (forall t' k', ev_right T s = Some (t', k') -> t <= t')).
  { destruct (ev_left T s) as [[tl kl]|] eqn:El; destruct (ev_right T s) as [[tr kr]|] eqn:Er;
      cbn [earlier] in Eev.
    - destruct (tl <=? tr) eqn:E; inversion Eev; subst;
        (split; [eauto|split; intros t' k' H'; inversion H'; subst; lia]).
    - inversion Eev; subst. split; [eauto|split; intros t' k' H'; inversion H'; subst; lia].
    - inversion Eev; subst. split; [eauto|split; intros t' k' H'; inversion H'; subst; lia].
    - discriminate. }
  destruct Hmin as (Hnow & Hml & Hmr).
  (* events of a pipe that was just (re)started at t lie at or after t *)
  assert (Hfresh : forall p t' k', iter_start p = t -> next_event T p = Some (t', k') -> t <= t').
  { intros p t' k' Hp H'. apply next_event_time in H'. lia. }
  destruct k.
  - (* a completed await *)
    destruct (earlier (ev_left T s) (ev_right T s)) eqn:Ee.
    + assert (Hne : next_event T (pl s) = Some (t, Complete))
        by (apply (masked_event T (mode s)); left; exact Eev).
      assert (IL' : Inv (apply_complete f t (pl s)))
        by (apply Inv_apply_complete; [assumption|eapply next_event_time; exact Hne]).
      set (p' := apply_complete f t (pl s)) in *.
      assert (Dm : forall m, (m = mode s \/ (m = OnlyRight /\ mode s = Both)) ->
                             DInv T {| now := t; pl := p'; pr := pr s; mode := m |}).
      { intros m Hm. constructor; cbn [pl pr now mode]; try assumption; try lia.
        - unfold p'. rewrite apply_complete_start. lia.
        - unfold ev_left. cbn [mode pl]. intros t' k' H'.
          apply (Hfresh p' t' k'); [reflexivity|]. destruct m; try discriminate; exact H'.
        - unfold ev_right. cbn [mode pr]. intros t' k' H'.
          destruct Hm as [->|[-> Hb]]; [apply (Hmr t' k'); exact H'|].
          apply (Hmr t' k'). unfold ev_right. rewrite Hb. exact H'. }
      destruct (ph p'); cbn [out_state]; try (apply Dm; left; reflexivity).
      destruct (mode s) eqn:Em; cbn [out_state]; [apply Dm; right; split; reflexivity| |];
        apply Dm; left; reflexivity.
    + assert (Hne : next_event T (pr s) = Some (t, Complete))
        by (apply (masked_event T (mode s)); right; exact Eev).
      assert (IR' : Inv (apply_complete f t (pr s)))
        by (apply Inv_apply_complete; [assumption|eapply next_event_time; exact Hne]).
      set (p' := apply_complete f t (pr s)) in *.
      assert (Dm : forall m, (m = mode s \/ (m = OnlyLeft /\ mode s = Both)) ->
                             DInv T {| now := t; pl := pl s; pr := p'; mode := m |}).
      { intros m Hm. constructor; cbn [pl pr now mode]; try assumption; try lia.
        - unfold p'. rewrite apply_complete_start. lia.
        - unfold ev_left. cbn [mode pl]. intros t' k' H'.
          destruct Hm as [->|[-> Hb]]; [apply (Hml t' k'); exact H'|].
          apply (Hml t' k'). unfold ev_left. rewrite Hb. exact H'.
        - unfold ev_right. cbn [mode pr]. intros t' k' H'.
          apply (Hfresh p' t' k'); [reflexivity|]. destruct m; try discriminate; exact H'. }
      destruct (ph p'); cbn [out_state]; try (apply Dm; left; reflexivity).
      destruct (mode s) eqn:Em; cbn [out_state]; [apply Dm; right; split; reflexivity| |];
        apply Dm; left; reflexivity.
  - (* a timer fired *)
    assert (Dsame : forall m, m = mode s -> DInv T {| now := t; pl := pl s; pr := pr s; mode := m |}).
    { intros m ->. constructor; cbn [pl pr now mode]; try assumption; try lia;
        intros t' k' H'; first [apply (Hml t' k'); exact H' | apply (Hmr t' k'); exact H']. }
    destruct (mode s) eqn:Em; cbn [out_state]; try (apply Dsame; reflexivity).
    destruct ((la (pl s) <? t - T) && (la (pr s) <? t - T)); cbn [out_state]; [apply Dsame; reflexivity|].
    constructor; cbn [pl pr now mode].
    + apply Inv_restart; [assumption|lia].
    + apply Inv_restart; [assumption|lia].
    + cbn. lia.
    + cbn. lia.
    + unfold ev_left. cbn [mode pl]. intros t' k' H'. apply (Hfresh (restart f t (pl s)) t' k'); [reflexivity|exact H'].
    + unfold ev_right. cbn [mode pr]. intros t' k' H'. apply (Hfresh (restart f t (pr s)) t' k'); [reflexivity|exact H'].
Qed.

Lemma drun_inv fuel f T : forall s res s',
  DInv T s -> drun fuel f T s = (res, s') -> DInv T s'.
Proof.
  induction fuel as [|n IH]; intros s res s' D H; cbn [drun] in H.
  - inversion H; subst. exact D.
  - pose proof (dstep_inv f T s D) as D'.
    destruct (dstep f T s) as [r s1|s1]; cbn [out_state] in D'.
    + inversion H; subst. exact D'.
    + eapply IH; eassumption.
Qed.

Lemma DInv_init T el er : DInv T {| now := 0; pl := pinit el; pr := pinit er; mode := Both |}.
Proof.
  constructor; cbn [pl pr now mode]; try apply Inv_init; try (cbn; lia); intros t k _; lia.
Qed.

(* ---------- consequences for a whole run ---------- *)

Lemma duplex_inv f T el er res s : duplex f T el er = (res, s) -> DInv T s.
Proof. unfold duplex. intros H. eapply drun_inv; [apply DInv_init|exact H]. Qed.

(* which pipe is still running / nobody continues after a failure *)
Definition MInv (s : dstate) : Prop :=
  (mode s = OnlyLeft -> ph (pr s) = PFinished) /\ (mode s = OnlyRight -> ph (pl s) = PFinished)
  /\ ph (pl s) <> PFailed /\ ph (pr s) <> PFailed.

Lemma restart_ph f t p : ph (restart f t p) = PFinished -> ph p = PFinished.
Proof. cbn [restart ph]. destruct (ph p); congruence. Qed.

Lemma dstep_minv f T s :
  MInv s ->
  match dstep f T s with
  | Next s' => MInv s'
  | Done DOk s' => ph (pl s') = PFinished /\ ph (pr s') = PFinished
  | Done DError s' => ph (pl s') = PFailed \/ ph (pr s') = PFailed
  | Done _ s' => ph (pl s') <> PFailed /\ ph (pr s') <> PFailed
  end.
Proof.
  intros (ML & MR & FL & FR). unfold dstep.
  set (el := match mode s with OnlyRight => None | _ => next_event T (pl s) end).
  set (er := match mode s with OnlyLeft => None | _ => next_event T (pr s) end).
  destruct (if earlier el er then el else er) as [[t k]|] eqn:Eev; [|split; assumption].
  destruct k.
  - destruct (earlier el er) eqn:Ee.
    + assert (Hm : mode s <> OnlyRight) by (unfold el in Eev; destruct (mode s); congruence).
      destruct (ph (apply_complete f t (pl s))) eqn:Ep; cbn [pl pr mode].
      * unfold MInv; cbn [pl pr mode]. rewrite Ep. repeat split; try assumption; try congruence.
      * unfold MInv; cbn [pl pr mode]. rewrite Ep. repeat split; try assumption; try congruence.
      * destruct (mode s) eqn:Em; cbn [pl pr mode]; try congruence.
        -- unfold MInv; cbn [pl pr mode]. rewrite Ep. repeat split; try assumption; try congruence.
        -- split; [exact Ep|apply ML; reflexivity].
      * left. exact Ep.
    + assert (Hm : mode s <> OnlyLeft) by (unfold er in Eev; destruct (mode s); congruence).
      destruct (ph (apply_complete f t (pr s))) eqn:Ep; cbn [pl pr mode].
      * unfold MInv; cbn [pl pr mode]. rewrite Ep. repeat split; try assumption; try congruence.
      * unfold MInv; cbn [pl pr mode]. rewrite Ep. repeat split; try assumption; try congruence.
      * destruct (mode s) eqn:Em; cbn [pl pr mode]; try congruence.
        -- unfold MInv; cbn [pl pr mode]. rewrite Ep. repeat split; try assumption; try congruence.
        -- split; [apply MR; reflexivity|exact Ep].
      * right. exact Ep.
  - destruct (mode s) eqn:Em; cbn [pl pr]; try (split; assumption).
    destruct ((la (pl s) <? t - T) && (la (pr s) <? t - T)); cbn [pl pr]; [split; assumption|].
    unfold MInv; cbn [pl pr mode restart ph]. repeat split; try discriminate.
    + destruct (ph (pl s)); congruence.
    + destruct (ph (pr s)); congruence.
Qed.

Lemma drun_result fuel f T : forall s res s',
  MInv s -> drun fuel f T s = (res, s') ->
  match res with
  | DOk => ph (pl s') = PFinished /\ ph (pr s') = PFinished
  | DError => ph (pl s') = PFailed \/ ph (pr s') = PFailed
  | _ => ph (pl s') <> PFailed /\ ph (pr s') <> PFailed
  end.
Proof.
  induction fuel as [|n IH]; intros s res s' M H; cbn [drun] in H.
  - inversion H; subst. destruct M as (_ & _ & A & B). split; assumption.
  - pose proof (dstep_minv f T s M) as D.
    destruct (dstep f T s) as [r s1|s1].
    + inversion H; subst. destruct res; exact D.
    + eapply IH; eassumption.
Qed.

Lemma MInv_init el er : MInv {| now := 0; pl := pinit el; pr := pinit er; mode := Both |}.
Proof. unfold MInv; cbn. repeat split; discriminate. Qed.

(* C02, all statements at once *)
Lemma relay_exact_proof f T el er res s :
  duplex f T el er = (res, s) ->
  (* at whatever instant the tunnel stops: what was delivered is a prefix of what was read, and
     the credit returned / bytes counted equal the bytes forwarded, in both directions *)
  (forall p, p = pl s \/ p = pr s ->
     (exists rest, delivered p ++ rest = read_log p)
     /\ consumed p = lenN (delivered p) /\ metric p = lenN (delivered p))
  (* a clean end: everything read was delivered, then end-of-stream was passed on and flushed *)
  /\ (res = DOk -> forall p, p = pl s \/ p = pr s ->
        delivered p = read_log p /\ 1 <= eof_calls p /\ 1 <= flush_done p)
  (* a failure of either direction ends the tunnel with an error, never cleanly *)
  /\ ((ph (pl s) = PFailed \/ ph (pr s) = PFailed) <-> res = DError).
Proof.
  intros H. pose proof (duplex_inv f T el er res s H) as D.
  pose proof (drun_result _ f T _ res s (MInv_init el er) H) as R.
  split; [|split].
  - intros p [-> | ->]; [destruct (d_l _ _ D) as [A _ [B1 B2] _ _ _]|destruct (d_r _ _ D) as [A _ [B1 B2] _ _ _]];
      repeat split; assumption.
  - intros -> p Hp. destruct R as [RL RR].
    assert (Hfin : ph p = PFinished) by (destruct Hp as [-> | ->]; assumption).
    assert (Ip : Inv p) by (destruct Hp as [-> | ->]; [apply (d_l _ _ D)|apply (d_r _ _ D)]).
    destruct Ip as [_ A' _ C Dd _].
    destruct (C (or_intror Hfin)) as [Cp Ce].
    assert (Hnf : ph p <> PFailed) by congruence. specialize (A' Hnf).
    unfold pending_bytes in A'. rewrite Cp, app_nil_r in A'.
    repeat split; [exact A'|exact Ce|apply Dd; exact Hfin].
  - split.
    + intros Hf. destruct res; try reflexivity; destruct R as [RL RR]; destruct Hf; congruence.
    + intros ->. exact R.
Qed.

(* ---------- C14: the idle timer ---------- *)

(* an idle-timer close only happens when neither direction transferred during the last T *)
Lemma no_early_close_proof fuel f T : forall s s',
  drun fuel f T s = (DTimedOut, s') ->
  mode s' = Both ->
  la (pl s') < now s' - T /\ la (pr s') < now s' - T.
Proof.
  induction fuel as [|n IH]; intros s s' H Hm; cbn [drun] in H; [discriminate|].
  destruct (dstep f T s) as [r s1|s1] eqn:Es; [|eapply IH; eassumption].
  inversion H; subst. clear H. unfold dstep in Es.
  set (el := match mode s with OnlyRight => None | _ => next_event T (pl s) end) in *.
  set (er := match mode s with OnlyLeft => None | _ => next_event T (pr s) end) in *.
  destruct (if earlier el er then el else er) as [[t k]|]; [|discriminate].
  destruct k.
  - destruct (earlier el er);
      repeat match type of Es with
             | context [match ph ?x with _ => _ end] => destruct (ph x)
             | context [match mode ?x with _ => _ end] => destruct (mode x)
             end; discriminate.
  - destruct (mode s) eqn:Em.
    + destruct ((la (pl s) <? t - T) && (la (pr s) <? t - T)) eqn:Ec; [|discriminate].
      inversion Es; subst. cbn [now pl pr]. apply andb_true_iff in Ec. lia.
    + inversion Es; subst. cbn [mode] in Hm. congruence.
    + inversion Es; subst. cbn [mode] in Hm. congruence.
Qed.

(* last_activity only moves to the instant of a transfer *)
Lemma la_moves_on_transfer f t p :
  la (apply_complete f t p) = la p \/ la (apply_complete f t p) = t.
Proof.
  unfold apply_complete, with_start, apply_complete0, write_chunk, fail. cbn [la].
  repeat match goal with
         | |- context [match ?x with _ => _ end] => destruct x
         | |- context [if ?c then _ else _] => destruct c
         end; cbn [la]; auto.
Qed.

Lemma restart_keeps_la t p : la (restart true t p) = la p.
Proof. reflexivity. Qed.

(* a direction that waits for input that never comes *)
Definition quiet (p : pstate) : Prop :=
  ph p = PRun /\
  match pending p with
  | None => match reads (env p) with [] | RNever :: _ => True | _ => False end
  | Some _ => match waits (env p) with [] | ANever :: _ => True | _ => False end
  end.

Lemma quiet_event T p : quiet p -> next_event T p = Some (iter_start p + T, Timeout).
Proof.
  intros [Hp Hq]. unfold next_event. rewrite Hp.
  destruct (pending p).
  - destruct (waits (env p)) as [|[a|a|] r]; try contradiction; reflexivity.
  - destruct (reads (env p)) as [|[a bs|a|a|] r]; try contradiction; reflexivity.
Qed.

Lemma quiet_restart t p : quiet p -> quiet (restart true t p).
Proof. intros [Hp Hq]. split; cbn [restart ph pending env]; [rewrite Hp; reflexivity|exact Hq]. Qed.

Definition both_restarted (t : N) (s : dstate) : dstate :=
  {| now := t; pl := restart true t (pl s); pr := restart true t (pr s); mode := Both |}.

Lemma quiet_step T s :
  quiet (pl s) -> quiet (pr s) -> mode s = Both ->
  let t := N.min (iter_start (pl s)) (iter_start (pr s)) + T in
  dstep true T s =
  if (la (pl s) <? t - T) && (la (pr s) <? t - T)
  then Done DTimedOut {| now := t; pl := pl s; pr := pr s; mode := Both |}
  else Next (both_restarted t s).
Proof.
  intros QL QR Hm. cbn zeta. unfold dstep. rewrite Hm.
  rewrite (quiet_event T _ QL), (quiet_event T _ QR). cbn [earlier].
  destruct (iter_start (pl s) + T <=? iter_start (pr s) + T) eqn:E.
  - replace (N.min (iter_start (pl s)) (iter_start (pr s))) with (iter_start (pl s)) by lia. reflexivity.
  - replace (N.min (iter_start (pl s)) (iter_start (pr s))) with (iter_start (pr s)) by lia. reflexivity.
Qed.

(* the last (re)start of either await lies within T of the last transfer *)
Definition Recent (T : N) (s : dstate) : Prop :=
  let m := N.max (la (pl s)) (la (pr s)) in
  (ph (pl s) = PRun -> iter_start (pl s) <= m + T) /\ (ph (pr s) = PRun -> iter_start (pr s) <= m + T)
  /\ la (pl s) <= iter_start (pl s) /\ la (pr s) <= iter_start (pr s).

(* Both directions idle from state s on: the tunnel is closed by the idle timer no later than
   2T after the last transfer (three timer rounds at most) *)
Lemma idle_closed_within_2T_proof T s :
  0 < T -> quiet (pl s) -> quiet (pr s) -> mode s = Both -> Recent T s -> DInv T s ->
  exists s', drun 3 true T s = (DTimedOut, s')
             /\ now s' <= N.max (la (pl s)) (la (pr s)) + 2 * T
             /\ mode s' = Both.
Proof.
  intros HT QL QR Hm (R1 & R2 & R3 & R4) DI.
  specialize (R1 (proj1 QL)). specialize (R2 (proj1 QR)).
  (* pending timers lie in the future, awaits started in the past *)
  assert (Hfut : now s <= iter_start (pl s) + T /\ now s <= iter_start (pr s) + T
                 /\ iter_start (pl s) <= now s /\ iter_start (pr s) <= now s).
  { destruct DI as [_ _ SL SR EL ER]. repeat split; try assumption.
    - apply (EL _ Timeout). unfold ev_left. rewrite Hm. apply quiet_event. exact QL.
    - apply (ER _ Timeout). unfold ev_right. rewrite Hm. apply quiet_event. exact QR. }
  destruct Hfut as (F1 & F2 & F3 & F4).
  set (m := N.max (la (pl s)) (la (pr s))) in *.
  set (t1 := N.min (iter_start (pl s)) (iter_start (pr s)) + T).
  cbn [drun]. rewrite (quiet_step T s QL QR Hm). fold t1.
  destruct ((la (pl s) <? t1 - T) && (la (pr s) <? t1 - T)) eqn:C1.
  { eexists. split; [reflexivity|]. cbn [now mode]. split; [unfold t1; lia|reflexivity]. }
  (* second round *)
  set (s1 := both_restarted t1 s).
  assert (Q1L : quiet (pl s1)) by (apply quiet_restart; exact QL).
  assert (Q1R : quiet (pr s1)) by (apply quiet_restart; exact QR).
  rewrite (quiet_step T s1 Q1L Q1R eq_refl).
  cbn [s1 both_restarted pl pr restart iter_start la].
  replace (N.min t1 t1 + T - T) with t1 by lia.
  destruct ((la (pl s) <? t1) && (la (pr s) <? t1)) eqn:C2.
  { eexists. split; [reflexivity|]. cbn [now mode]. split; [|reflexivity].
    apply andb_false_iff in C1. unfold t1 in *. lia. }
  (* third round: the last transfer happened at the very instant of the first timer *)
  set (s2 := both_restarted (N.min t1 t1 + T) s1).
  assert (Q2L : quiet (pl s2)) by (apply quiet_restart; exact Q1L).
  assert (Q2R : quiet (pr s2)) by (apply quiet_restart; exact Q1R).
  rewrite (quiet_step T s2 Q2L Q2R eq_refl).
  cbn [s2 s1 both_restarted pl pr restart iter_start la].
  replace (N.min t1 t1) with t1 by lia.
  replace (N.min (t1 + T) (t1 + T) + T - T) with (t1 + T) by lia.
  assert (Hm1 : m = t1).
  { apply andb_false_iff in C2. unfold t1, m in *. lia. }
  replace ((la (pl s) <? t1 + T) && (la (pr s) <? t1 + T)) with true by (unfold m in *; lia).
  eexists. split; [reflexivity|]. cbn [now mode]. split; [lia|reflexivity].
Qed.

(* a transfer in every period of length T keeps the tunnel open: contrapositive of no_early_close *)
Lemma never_closed_while_active_proof fuel f T s s' :
  drun fuel f T s = (DTimedOut, s') -> mode s' = Both ->
  forall a, (a = la (pl s') \/ a = la (pr s')) -> a < now s' - T.
Proof.
  intros H Hm a Ha. destruct (no_early_close_proof fuel f T s s' H Hm) as [A B].
  destruct Ha as [-> | ->]; assumption.
Qed.


(* ---------- reachable states ---------- *)

Inductive Reach (T : N) (el er : penv) : dstate -> Prop :=
| Reach_init : Reach T el er {| now := 0; pl := pinit el; pr := pinit er; mode := Both |}
| Reach_step s s' : Reach T el er s -> dstep true T s = Next s' -> Reach T el er s'.

Lemma write_chunk_la f t q bs : ph (write_chunk f t q bs) = PRun -> la (write_chunk f t q bs) = t.
Proof.
  unfold write_chunk.
  destruct (match writes (env q) with a :: r => (a, r) | [] => (WAccept (lenN bs), []) end) as [[k|] ws];
    cbn [ph la fail]; [reflexivity|discriminate].
Qed.

Lemma complete_run_la T p t :
  next_event T p = Some (t, Complete) -> ph (apply_complete true t p) = PRun ->
  la (apply_complete true t p) = t.
Proof.
  unfold next_event, apply_complete, with_start, apply_complete0. cbn [ph la].
  destruct (ph p) eqn:Eph; try discriminate.
  - destruct (pending p) as [bs|].
    + destruct (waits (env p)) as [|[a|a|] r]; intros H;
        repeat match type of H with (if ?c then _ else _) = _ => destruct c end; try discriminate;
        try apply write_chunk_la; cbn [ph fail]; try discriminate.
    + destruct (reads (env p)) as [|[a bs|a|a|] r]; intros H;
        repeat match type of H with (if ?c then _ else _) = _ => destruct c end; try discriminate;
        try apply write_chunk_la; try (destruct (eof_err (env p))); cbn [ph fail]; try discriminate.
  - destruct (flushes (env p)) as [|[a|a|] r]; intros H; try discriminate; cbn [ph fail]; discriminate.
Qed.

Lemma la_mono t p : iter_start p <= t -> la p <= iter_start p -> la p <= la (apply_complete true t p).
Proof. intros H1 H2. destruct (la_moves_on_transfer true t p) as [-> | ->]; lia. Qed.

Lemma Reach_inv T el er s : Reach T el er s -> DInv T s /\ Recent T s.
Proof.
  induction 1 as [|s s' HR [DI RI] Hs].
  - split; [apply DInv_init|]. unfold Recent; cbn. repeat split; intros; lia.
  - pose proof (dstep_inv true T s DI) as DI'. rewrite Hs in DI'. cbn [out_state] in DI'.
    split; [exact DI'|].
    destruct RI as (R1 & R2 & R3 & R4).
    destruct DI as [IL IR SL SR EL ER].
    unfold dstep in Hs. fold (ev_left T s) in Hs. fold (ev_right T s) in Hs.
    destruct (if earlier (ev_left T s) (ev_right T s) then ev_left T s else ev_right T s)
      as [[t k]|] eqn:Eev; [|discriminate].
    destruct k.
    + destruct (earlier (ev_left T s) (ev_right T s)) eqn:Ee.
      * assert (Hne : next_event T (pl s) = Some (t, Complete))
          by (apply (masked_event T (mode s)); left; exact Eev).
        pose proof (next_event_time _ _ _ _ Hne) as Ht.
        pose proof (la_mono t (pl s) Ht R3) as Hmono.
        pose proof (complete_run_la T (pl s) t Hne) as Hla.
        assert (Hrec : Recent T {| now := t; pl := apply_complete true t (pl s); pr := pr s; mode := mode s |}
                       /\ forall m, Recent T {| now := t; pl := apply_complete true t (pl s); pr := pr s; mode := m |}).
        { assert (forall m, Recent T {| now := t; pl := apply_complete true t (pl s); pr := pr s; mode := m |}).
          { intros m. unfold Recent; cbn [pl pr]. rewrite apply_complete_start.
            repeat split; try assumption.
            - intros Hp. rewrite (Hla Hp). lia.
            - intros Hp. specialize (R2 Hp). lia.
            - destruct (la_moves_on_transfer true t (pl s)) as [-> | ->]; lia. }
          split; auto. }
        destruct Hrec as [Hr1 Hr2].
        destruct (ph (apply_complete true t (pl s))); try discriminate;
          try (inversion Hs; subst; exact Hr1).
        destruct (mode s); inversion Hs; subst; apply Hr2.
      * assert (Hne : next_event T (pr s) = Some (t, Complete))
          by (apply (masked_event T (mode s)); right; exact Eev).
        pose proof (next_event_time _ _ _ _ Hne) as Ht.
        pose proof (la_mono t (pr s) Ht R4) as Hmono.
        pose proof (complete_run_la T (pr s) t Hne) as Hla.
        assert (Hr2 : forall m, Recent T {| now := t; pl := pl s; pr := apply_complete true t (pr s); mode := m |}).
        { intros m. unfold Recent; cbn [pl pr]. rewrite apply_complete_start.
          repeat split; try assumption.
          - intros Hp. specialize (R1 Hp). lia.
          - intros Hp. rewrite (Hla Hp). lia.
          - destruct (la_moves_on_transfer true t (pr s)) as [-> | ->]; lia. }
        destruct (ph (apply_complete true t (pr s))); try discriminate;
          try (inversion Hs; subst; apply Hr2).
        destruct (mode s); inversion Hs; subst; apply Hr2.
    + destruct (mode s) eqn:Em; try discriminate.
      destruct ((la (pl s) <? t - T) && (la (pr s) <? t - T)) eqn:Ec; [discriminate|].
      inversion Hs; subst. unfold Recent; cbn [pl pr restart la iter_start ph].
      apply andb_false_iff in Ec.
      assert (Hl : la (pl s) <= t /\ la (pr s) <= t).
      { assert (now s <= t); [|lia].
        destruct (ev_left T s) as [[tl kl]|] eqn:E1; destruct (ev_right T s) as [[tr kr]|] eqn:E2;
          cbn [earlier] in Eev;
          try (destruct (tl <=? tr); inversion Eev; subst; eauto); inversion Eev; subst; eauto. }
      repeat split; intros; lia.
Qed.

(* closed statement: from ANY reachable state in which both directions are waiting for input that
   never comes, the idle timer closes the tunnel within 2T of the last transfer *)
Lemma idle_closed_within_2T_reachable T el er s :
  0 < T -> Reach T el er s -> quiet (pl s) -> quiet (pr s) -> mode s = Both ->
  exists s', drun 3 true T s = (DTimedOut, s')
             /\ now s' <= N.max (la (pl s)) (la (pr s)) + 2 * T.
Proof.
  intros HT HR QL QR Hm. destruct (Reach_inv T el er s HR) as [DI RI].
  destruct (idle_closed_within_2T_proof T s HT QL QR Hm RI DI) as (s' & H1 & H2 & _).
  exists s'. split; assumption.
Qed.
