From Coq Require Import List NArith ZArith Bool Lia ZifyBool ZifyNat ZifyN.
From TT Require Import Lib.BytesL Model.Channels.
Import ListNotations.
Open Scope N_scope.

(* whatever the client-side sink accepts per write, the download ends after exactly n bytes *)
Lemma div_chunk_step n : CHUNK <= n -> N.to_nat ((n - CHUNK) / CHUNK) = (N.to_nat (n / CHUNK) - 1)%nat.
Proof.
  intros H. unfold CHUNK in *.
  assert (E : (n - 65536) / 65536 = n / 65536 - 1).
  { replace n with ((n - 65536) + 1 * 65536) at 2 by lia. rewrite N.div_add by lia. lia. }
  rewrite E. lia.
Qed.

Lemma div_chunk_pos n : CHUNK <= n -> (1 <= N.to_nat (n / CHUNK))%nat.
Proof.
  intros H. assert (1 <= n / CHUNK); [|lia].
  apply N.div_le_lower_bound; unfold CHUNK in *; lia.
Qed.

Lemma download_exact fuel : forall n accs sent,
  (n = 0 -> (1 <= fuel)%nat) ->
  (n <> 0 -> (length accs + N.to_nat (n / CHUNK) + 2 <= fuel)%nat) ->
  download fuel n accs sent = (sent + n, true).
Proof.
  induction fuel as [|f IH]; intros n accs sent H0 H1.
  - destruct (N.eq_dec n 0) as [E|E]; [specialize (H0 E); lia|].
    specialize (H1 E). set (q := N.to_nat (n / CHUNK)) in *. clearbody q. lia.
  - cbn [download]. destruct (n =? 0) eqn:E.
    + apply N.eqb_eq in E. subst. rewrite N.add_0_r. reflexivity.
    + apply N.eqb_neq in E. specialize (H1 E). clear H0.
      set (chunk := N.min CHUNK n).
      assert (Hc : 1 <= chunk <= n) by (unfold chunk, CHUNK; lia).
      destruct accs as [|k r]; cbn [tl].
      * rewrite IH; [f_equal; lia| |].
        -- intros _. cbn [length] in H1. set (q := N.to_nat (n / CHUNK)) in *. clearbody q. lia.
        -- intros NZ. cbn [length] in *.
           assert (Hge : CHUNK <= n) by (unfold chunk in NZ; lia).
           replace chunk with CHUNK by (unfold chunk; lia).
           rewrite (div_chunk_step n Hge). pose proof (div_chunk_pos n Hge).
           set (q := N.to_nat (n / CHUNK)) in *. clearbody q. lia.
      * set (a := N.min k chunk). assert (Ha : a <= chunk) by (unfold a; lia).
        rewrite IH; [f_equal; lia| |].
        -- intros _. cbn [length] in H1. set (q := N.to_nat (n / CHUNK)) in *. clearbody q. lia.
        -- intros NZ. cbn [length] in *.
           assert (D : (n - a) / CHUNK <= n / CHUNK) by (apply N.div_le_mono; [unfold CHUNK; lia|lia]).
           assert (D' : (N.to_nat ((n - a) / CHUNK) <= N.to_nat (n / CHUNK))%nat) by lia.
           set (q := N.to_nat (n / CHUNK)) in *. set (q' := N.to_nat ((n - a) / CHUNK)) in *. clearbody q q'. lia.
Qed.

Lemma starts_with_iff s p : starts_with s p = true <-> exists r, s = p ++ r.
Proof.
  revert s. induction p as [|x p IH]; intros s; cbn [starts_with app].
  - split; [intros _; exists s; reflexivity|reflexivity].
  - destruct s as [|y s]; [split; [discriminate|intros [r H]; discriminate]|].
    rewrite andb_true_iff, N.eqb_eq, IH. split.
    + intros [-> [r ->]]. exists r. reflexivity.
    + intros [r H]. inversion H; subst. split; [reflexivity|exists r; reflexivity].
Qed.

Lemma strip_prefix_iff p s r : strip_prefix p s = Some r <-> s = p ++ r.
Proof.
  revert s. induction p as [|x p IH]; intros s; cbn [strip_prefix app].
  - split; [intros H; inversion H; reflexivity|intros ->; reflexivity].
  - destruct s as [|y s]; [split; [discriminate|discriminate]|].
    destruct (x =? y) eqn:E.
    + apply N.eqb_eq in E. subst. rewrite IH. split; [intros ->; reflexivity|intros H; inversion H; reflexivity].
    + apply N.eqb_neq in E. split; [discriminate|intros H; inversion H; congruence].
Qed.

Lemma strip_suffix_iff suf s r : strip_suffix suf s = Some r <-> s = r ++ suf.
Proof.
  unfold strip_suffix. destruct (strip_prefix (rev suf) (rev s)) as [q|] eqn:E.
  - apply strip_prefix_iff in E. split.
    + intros H. inversion H; subst. rewrite <- (rev_involutive s), E, rev_app_distr, rev_involutive. reflexivity.
    + intros ->. rewrite rev_app_distr in E. apply app_inv_head in E. subst. rewrite rev_involutive. reflexivity.
  - split; [discriminate|]. intros ->. rewrite rev_app_distr in E.
    assert (X : strip_prefix (rev suf) (rev suf ++ rev r) = Some (rev r)) by (apply strip_prefix_iff; reflexivity). congruence.
Qed.

(* decimal numerals of 1..100 as a client writes them *)
Definition digit (d : N) : N := 48 + d.
Definition dec (n : N) : list N :=
  if n <? 10 then [digit n]
  else if n <? 100 then [digit (n / 10); digit (n mod 10)]
  else [digit (n / 100); digit ((n / 10) mod 10); digit (n mod 10)].

Definition range_1_100 : list N := map N.of_nat (seq 1 100).

Lemma in_range n : 1 <= n <= 100 -> In n range_1_100.
Proof.
  intros H. unfold range_1_100. apply in_map_iff. exists (N.to_nat n). split; [lia|]. apply in_seq. lia.
Qed.

(* every N in 1..100 written in decimal is a download of exactly N MiB; checked for the whole
   finite domain by computation and lifted *)
Definition download_req (num : list N) : request :=
  {| q_method := 0; q_path := SLASH ++ num ++ MB_BIN; q_ping_marker := false; q_upgrade := false; q_content_length := None |}.

Lemma sweep_1_100 :
  forallb (fun n => match prepare (download_req (dec n)) with Download b => b =? n * MIB | _ => false end) range_1_100 = true.
Proof. vm_compute. reflexivity. Qed.

Lemma download_1_100 n : 1 <= n <= 100 -> prepare (download_req (dec n)) = Download (n * MIB).
Proof.
  intros H. pose proof (proj1 (forallb_forall _ _) sweep_1_100 n (in_range n H)) as S. cbn beta in S.
  destruct (prepare (download_req (dec n))) as [b| |]; try discriminate. apply N.eqb_eq in S. subst. reflexivity.
Qed.

(* what prepare accepts at all *)
Lemma prepare_download q b :
  prepare q = Download b -> q_method q = 0 /\ exists n, 1 <= n <= 100 /\ b = n * MIB.
Proof.
  unfold prepare. destruct (q_method q =? 0) eqn:M.
  - apply N.eqb_eq in M.
    destruct (strip_prefix SLASH _) as [r|]; [|discriminate].
    destruct (strip_suffix MB_BIN r) as [num|]; [|discriminate].
    destruct (parse_u32 num) as [n|]; [|discriminate].
    destruct ((0 <? n) && (n <=? 100)) eqn:B; [|discriminate].
    intros H. inversion H; subst. split; [exact M|]. exists n. split; [lia|reflexivity].
  - destruct (q_method q =? 1); [|discriminate].
    destruct (list_eqb N.eqb _ UPLOAD); [|discriminate].
    destruct (q_content_length q) as [v|]; [|discriminate].
    destruct (parse_u32 v) as [n|]; [|discriminate]. destruct ((0 <? n) && (n <=? 120 * MIB)); discriminate.
Qed.

Lemma prepare_upload q b :
  prepare q = Upload b -> q_method q = 1 /\ 1 <= b <= 120 * MIB
                          /\ exists v, q_content_length q = Some v /\ parse_u32 v = Some b.
Proof.
  unfold prepare. destruct (q_method q =? 0) eqn:M.
  - destruct (strip_prefix SLASH _) as [r|]; [|discriminate].
    destruct (strip_suffix MB_BIN r) as [num|]; [|discriminate].
    destruct (parse_u32 num) as [n|]; [|discriminate]. destruct ((0 <? n) && (n <=? 100)); discriminate.
  - destruct (q_method q =? 1) eqn:M1; [|discriminate]. apply N.eqb_eq in M1.
    destruct (list_eqb N.eqb _ UPLOAD); [|discriminate].
    destruct (q_content_length q) as [v|]; [|discriminate].
    destruct (parse_u32 v) as [n|] eqn:P; [|discriminate].
    destruct ((0 <? n) && (n <=? 120 * MIB)) eqn:B; [|discriminate].
    intros H. inversion H; subst. split; [exact M1|]. split; [lia|]. exists v. auto.
Qed.

(* HttpDemux::select *)
Lemma select_spec p s q :
  (select p s q = ChPing <-> q_ping_marker q = true)
  /\ (select p s q = ChSpeedtest <-> q_ping_marker q = false /\ check_speedtest s q = true)
  /\ (select p s q = ChReverseProxy <-> q_ping_marker q = false /\ check_speedtest s q = false /\ check_rp p s q = true)
  /\ (select p s q = ChTunnel <-> q_ping_marker q = false /\ check_speedtest s q = false /\ check_rp p s q = false).
Proof.
  unfold select. destruct (q_ping_marker q), (check_speedtest s q), (check_rp p s q);
    repeat split; intros; try discriminate; try tauto;
    repeat match goal with H : _ /\ _ |- _ => destruct H end; try discriminate.
Qed.

Lemma check_speedtest_iff s q :
  check_speedtest s q = true <-> s_speedtest s = true /\ exists r, q_path q = SLASH ++ SPEED ++ SLASH ++ r.
Proof.
  unfold check_speedtest. rewrite andb_true_iff. split.
  - intros [E H]. split; [exact E|].
    destruct (strip_prefix SLASH (q_path q)) as [r|] eqn:A; [|discriminate].
    destruct (strip_prefix SPEED r) as [r2|] eqn:B; [|discriminate].
    destruct (strip_prefix SLASH r2) as [r3|] eqn:C; [|discriminate].
    apply strip_prefix_iff in A, B, C. subst. exists r3. exact A.
  - intros [E [r H]]. split; [exact E|]. rewrite H.
    rewrite (proj2 (strip_prefix_iff SLASH _ (SPEED ++ SLASH ++ r)) eq_refl).
    rewrite (proj2 (strip_prefix_iff SPEED _ (SLASH ++ r)) eq_refl).
    rewrite (proj2 (strip_prefix_iff SLASH _ r) eq_refl). reflexivity.
Qed.

Lemma check_rp_iff p s q :
  check_rp p s q = true <->
  (p = PH3 \/ (p = PH1 /\ q_upgrade q = true)) /\ exists m r, s_rp_mask s = Some m /\ q_path q = m ++ r.
Proof.
  unfold check_rp. rewrite andb_true_iff. split.
  - intros [A B]. split.
    + destruct p; [right; auto|discriminate|left; reflexivity].
    + destruct (s_rp_mask s) as [m|]; [|discriminate]. apply starts_with_iff in B. destruct B as [r ->]. eauto.
  - intros [A [m [r [E H]]]]. split.
    + destruct A as [->|[-> U]]; [reflexivity|exact U].
    + rewrite E. apply starts_with_iff. eauto.
Qed.

Lemma download_exact_std n accs : download (length accs + N.to_nat (n / CHUNK) + 2) n accs 0 = (n, true).
Proof.
  rewrite download_exact; [reflexivity| |].
  - intros _. set (q := N.to_nat (n / CHUNK)). clearbody q. lia.
  - intros _. apply le_n.
Qed.
