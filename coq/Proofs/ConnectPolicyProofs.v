From Coq Require Import List NArith Bool Lia Permutation.
From TT Require Import Model.IpStd Generated.GlobalIp Model.ConnectPolicy.
Import ListNotations.
Open Scope N_scope.

Definition usable (allow v6ok : bool) (a : addr) : bool :=
  negb ((afam a =? 6) && negb v6ok) && (is_global_ip a || allow).

Lemma decide_literal_sound allow a a' :
  decide_literal allow a = ConnectTo a' -> a' = a /\ (allow = true \/ is_global_ip a = true).
Proof.
  unfold decide_literal. destruct allow; cbn [negb andb].
  - intros H. inversion H. auto.
  - destruct (is_global_ip a) eqn:G; cbn [negb].
    + intros H. inversion H. auto.
    + destruct (ip_is_loopback a); discriminate.
Qed.

Lemma decide_literal_refuses a :
  is_global_ip a = false ->
  decide_literal false a = RefuseLoopback \/ decide_literal false a = RefuseNonroutable.
Proof.
  intros G. unfold decide_literal. rewrite G. cbn. destruct (ip_is_loopback a); auto.
Qed.

Lemma select_suitable allow v6ok answers : forall status a,
  (forall b, status <> Some (SelSuitable b)) ->
  select allow v6ok status answers = Some (SelSuitable a) ->
  exists pre post, answers = pre ++ a :: post /\ usable allow v6ok a = true
                   /\ forallb (fun b => negb (usable allow v6ok b)) pre = true.
Proof.
  induction answers as [|x rest IH]; intros status a Hst H; cbn [select] in H.
  - exfalso. eapply Hst. exact H.
  - destruct ((afam x =? 6) && negb v6ok) eqn:E6.
    + destruct (IH status a Hst H) as (pre & post & -> & Hu & Hp).
      exists (x :: pre), post. split; [reflexivity|]. split; [exact Hu|].
      cbn [forallb]. unfold usable at 1. rewrite E6. cbn. exact Hp.
    + destruct (is_global_ip x || allow) eqn:G.
      * inversion H; subst. exists [], rest. split; [reflexivity|]. split; [|reflexivity].
        unfold usable. rewrite E6, G. reflexivity.
      * assert (Hx : negb (usable allow v6ok x) = true) by (unfold usable; rewrite E6, G; reflexivity).
        destruct (ip_is_loopback x && only_loopback_so_far status).
        -- destruct (IH (Some SelLoopback) a) as (pre & post & -> & Hu & Hp); [intros b; discriminate|exact H|].
           exists (x :: pre), post. split; [reflexivity|]. split; [exact Hu|].
           cbn [forallb]. rewrite Hx. exact Hp.
        -- destruct (IH (Some SelNonRoutable) a) as (pre & post & -> & Hu & Hp); [intros b; discriminate|exact H|].
           exists (x :: pre), post. split; [reflexivity|]. split; [exact Hu|].
           cbn [forallb]. rewrite Hx. exact Hp.
Qed.

Lemma select_none_usable allow v6ok answers : forall status,
  (forall b, status <> Some (SelSuitable b)) ->
  (forall b, select allow v6ok status answers <> Some (SelSuitable b)) ->
  forallb (fun b => negb (usable allow v6ok b)) answers = true.
Proof.
  induction answers as [|x rest IH]; intros status Hst H; [reflexivity|].
  cbn [select] in H. cbn [forallb]. unfold usable at 1.
  destruct ((afam x =? 6) && negb v6ok) eqn:E6; cbn [negb andb].
  - apply (IH status Hst H).
  - destruct (is_global_ip x || allow) eqn:G.
    + exfalso. eapply H. reflexivity.
    + cbn [negb andb].
      destruct (ip_is_loopback x && only_loopback_so_far status).
      * apply (IH (Some SelLoopback)); [intros b; discriminate|exact H].
      * apply (IH (Some SelNonRoutable)); [intros b; discriminate|exact H].
Qed.

(* the address connected to is an address of the answer that passed the check, and the first one *)
Lemma decide_hostname_sound allow v6ok answers a :
  decide_hostname allow v6ok answers = ConnectTo a ->
  exists pre post, answers = pre ++ a :: post /\ usable allow v6ok a = true
                   /\ forallb (fun b => negb (usable allow v6ok b)) pre = true.
Proof.
  unfold decide_hostname. destruct (select allow v6ok None answers) as [[| |b]|] eqn:E; try discriminate.
  intros H. inversion H; subst. eapply select_suitable; [|exact E]. intros b0; discriminate.
Qed.

(* a refusal means no address of the answer is usable, whatever their order *)
Lemma decide_hostname_refusal allow v6ok answers :
  (forall a, decide_hostname allow v6ok answers <> ConnectTo a) ->
  forallb (fun b => negb (usable allow v6ok b)) answers = true.
Proof.
  intros H. apply (select_none_usable allow v6ok answers None); [intros b; discriminate|].
  intros b Hb. apply (H b). unfold decide_hostname. rewrite Hb. reflexivity.
Qed.

Lemma forallb_perm {A} (f : A -> bool) l l' :
  Permutation l l' -> forallb f l = forallb f l'.
Proof.
  intros HP. induction HP as [|x l l' HP IH|x y l|l l' l'' HP1 IH1 HP2 IH2]; cbn [forallb].
  - reflexivity.
  - rewrite IH. reflexivity.
  - destruct (f x), (f y); reflexivity.
  - congruence.
Qed.

(* whether the request is refused does not depend on the order of the resolver's answer *)
Lemma refusal_order_independent allow v6ok l l' :
  Permutation l l' ->
  (exists a, decide_hostname allow v6ok l = ConnectTo a) ->
  (exists a, decide_hostname allow v6ok l' = ConnectTo a).
Proof.
  intros Hp [a Ha].
  destruct (decide_hostname allow v6ok l') as [b| | |] eqn:E; [exists b; reflexivity| | |];
    exfalso.
  all: assert (Hn : forall c, decide_hostname allow v6ok l' <> ConnectTo c) by (intros c; rewrite E; discriminate).
  all: pose proof (decide_hostname_refusal allow v6ok l' Hn) as Hall.
  all: rewrite <- (forallb_perm _ l l' Hp) in Hall.
  all: destruct (decide_hostname_sound allow v6ok l a Ha) as (pre & post & -> & Hu & _).
  all: rewrite forallb_app in Hall; apply andb_true_iff in Hall; destruct Hall as [_ Hall].
  all: cbn [forallb] in Hall; rewrite Hu in Hall; discriminate.
Qed.

(* ---- which refusal: loopback (311) exactly when every address the loop looks at is a loopback one ---- *)

(* the addresses the loop looks at: IPv6 ones are passed over when IPv6 is not available *)
Definition considered (v6ok : bool) (answers : list addr) : list addr :=
  filter (fun a => negb ((afam a =? 6) && negb v6ok)) answers.

Definition refusal_class (v6ok : bool) (answers : list addr) : decision :=
  match considered v6ok answers with
  | [] => ResolveFailed
  | c => if forallb ip_is_loopback c then RefuseLoopback else RefuseNonroutable
  end.

Lemma select_refused allow v6ok answers : forall status,
  (forall b, status <> Some (SelSuitable b)) ->
  forallb (fun b => negb (usable allow v6ok b)) answers = true ->
  select allow v6ok status answers =
    match status with
    | None =>
      match considered v6ok answers with
      | [] => None
      | c => if forallb ip_is_loopback c then Some SelLoopback else Some SelNonRoutable
      end
    | Some SelLoopback =>
      if forallb ip_is_loopback (considered v6ok answers) then Some SelLoopback else Some SelNonRoutable
    | other => other
    end.
Proof.
  induction answers as [|x rest IH]; intros status Hst Hall.
  - cbn. destruct status as [[| |b]|]; reflexivity.
  - cbn [forallb] in Hall. apply andb_true_iff in Hall. destruct Hall as [Hx Hrest].
    cbn [select]. unfold considered. cbn [filter]. fold (considered v6ok rest).
    unfold usable in Hx.
    destruct ((afam x =? 6) && negb v6ok) eqn:E6; cbn [negb].
    + apply (IH status Hst Hrest).
    + cbn [negb andb] in Hx. apply negb_true_iff in Hx. rewrite Hx. cbn [forallb].
      destruct (ip_is_loopback x) eqn:L; cbn [andb].
      * destruct status as [[| |b]|]; cbn [only_loopback_so_far].
        -- rewrite (IH (Some SelLoopback)); [reflexivity|intros b; discriminate|exact Hrest].
        -- rewrite (IH (Some SelNonRoutable)); [reflexivity|intros b; discriminate|exact Hrest].
        -- exfalso. apply (Hst b). reflexivity.
        -- rewrite (IH (Some SelLoopback)); [reflexivity|intros b; discriminate|exact Hrest].
      * rewrite (IH (Some SelNonRoutable)); [|intros b; discriminate|exact Hrest].
        destruct status as [[| |b]|]; try reflexivity. exfalso. apply (Hst b). reflexivity.
Qed.

(* a name none of whose addresses may be connected to is refused as loopback when all the addresses looked at are
   loopback ones, as non-routable as soon as one of them is not (and fails to resolve when there is none) *)
Lemma decide_hostname_refusal_class allow v6ok answers :
  forallb (fun b => negb (usable allow v6ok b)) answers = true ->
  decide_hostname allow v6ok answers = refusal_class v6ok answers.
Proof.
  intros Hall. unfold decide_hostname, refusal_class.
  rewrite (select_refused allow v6ok answers None); [|intros b; discriminate|exact Hall].
  destruct (considered v6ok answers) as [|c cs]; [reflexivity|].
  destruct (forallb ip_is_loopback (c :: cs)); reflexivity.
Qed.

Lemma considered_perm v6ok l l' : Permutation l l' -> Permutation (considered v6ok l) (considered v6ok l').
Proof.
  intros HP. unfold considered.
  induction HP as [|x l l' HP IH|x y l|l l' l'' HP1 IH1 HP2 IH2]; cbn [filter].
  - constructor.
  - destruct (negb ((afam x =? 6) && negb v6ok)); [constructor|]; exact IH.
  - destruct (negb ((afam x =? 6) && negb v6ok)), (negb ((afam y =? 6) && negb v6ok)); try apply Permutation_refl.
    apply perm_swap.
  - eapply Permutation_trans; eassumption.
Qed.

(* the kind of refusal does not depend on the order of the resolver's answer either *)
Lemma refusal_class_order_independent v6ok l l' :
  Permutation l l' -> refusal_class v6ok l = refusal_class v6ok l'.
Proof.
  intros HP. unfold refusal_class. pose proof (considered_perm v6ok l l' HP) as HC.
  destruct (considered v6ok l) as [|a t], (considered v6ok l') as [|a' t'].
  - reflexivity.
  - apply Permutation_nil in HC. discriminate.
  - apply Permutation_sym, Permutation_nil in HC. discriminate.
  - rewrite (forallb_perm ip_is_loopback _ _ HC). reflexivity.
Qed.

(* the defect this replaced: with the test "no status yet" only a first address could be reported as loopback *)
Example ex_two_loopback_addresses :
  let lo1 := {| afam := 4; aip := 2130706433 |} in      (* 127.0.0.1 *)
  let lo2 := {| afam := 4; aip := 2130706434 |} in      (* 127.0.0.2 *)
  let lo6 := {| afam := 6; aip := 1 |} in               (* ::1 *)
  let priv := {| afam := 4; aip := 167838211 |} in      (* 10.1.2.3 *)
  map (decide_hostname false true) [[lo1]; [lo1; lo2]; [lo6; lo1]; [lo1; priv]; [priv; lo1]; [priv]; []]
  = [RefuseLoopback; RefuseLoopback; RefuseLoopback; RefuseNonroutable; RefuseNonroutable; RefuseNonroutable; ResolveFailed].
Proof. vm_compute. reflexivity. Qed.
