From Coq Require Import List NArith Bool Lia Permutation.
From TT Require Import Model.IpStd Generated.GlobalIp Model.ConnectPolicy.
Import ListNotations.
Open Scope N_scope.

Definition usable (allow v6ok : bool) (a : addr) : bool :=
  negb ((afam a =? 6) && negb v6ok) && (is_global_ip a || allow).

Lemma decide_literal_sound allow a a' :
  decide_literal allow a = ConnectTo a' -> a' = a /\ (allow = true \/ is_global_ip a = true).
Proof.
  unfold decide_literal. destruct allow; cbn [negb andb].
  - intros H. inversion H. auto.
  - destruct (is_global_ip a) eqn:G; cbn [negb].
    + intros H. inversion H. auto.
    + destruct (ip_is_loopback a); discriminate.
Qed.

Lemma decide_literal_refuses a :
  is_global_ip a = false ->
  decide_literal false a = RefuseLoopback \/ decide_literal false a = RefuseNonroutable.
Proof.
  intros G. unfold decide_literal. rewrite G. cbn. destruct (ip_is_loopback a); auto.
Qed.

Lemma select_suitable allow v6ok answers : forall status a,
  (forall b, status <> Some (SelSuitable b)) ->
  select allow v6ok status answers = Some (SelSuitable a) ->
  exists pre post, answers = pre ++ a :: post /\ usable allow v6ok a = true
                   /\ forallb (fun b => negb (usable allow v6ok b)) pre = true.
Proof.
  induction answers as [|x rest IH]; intros status a Hst H; cbn [select] in H.
  - exfalso. eapply Hst. exact H.
  - destruct ((afam x =? 6) && negb v6ok) eqn:E6.
    + destruct (IH status a Hst H) as (pre & post & -> & Hu & Hp).
      exists (x :: pre), post. split; [reflexivity|]. split; [exact Hu|].
      cbn [forallb]. unfold usable at 1. rewrite E6. cbn. exact Hp.
    + destruct (is_global_ip x || allow) eqn:G.
      * inversion H; subst. exists [], rest. split; [reflexivity|]. split; [|reflexivity].
        unfold usable. rewrite E6, G. reflexivity.
      * assert (Hx : negb (usable allow v6ok x) = true) by (unfold usable; rewrite E6, G; reflexivity).
        destruct ((match status with None => true | Some _ => false end) && ip_is_loopback x).
        -- destruct (IH (Some SelLoopback) a) as (pre & post & -> & Hu & Hp); [intros b; discriminate|exact H|].
           exists (x :: pre), post. split; [reflexivity|]. split; [exact Hu|].
           cbn [forallb]. rewrite Hx. exact Hp.
        -- destruct (IH (Some SelNonRoutable) a) as (pre & post & -> & Hu & Hp); [intros b; discriminate|exact H|].
           exists (x :: pre), post. split; [reflexivity|]. split; [exact Hu|].
           cbn [forallb]. rewrite Hx. exact Hp.
Qed.

Lemma select_none_usable allow v6ok answers : forall status,
  (forall b, status <> Some (SelSuitable b)) ->
  (forall b, select allow v6ok status answers <> Some (SelSuitable b)) ->
  forallb (fun b => negb (usable allow v6ok b)) answers = true.
Proof.
  induction answers as [|x rest IH]; intros status Hst H; [reflexivity|].
  cbn [select] in H. cbn [forallb]. unfold usable at 1.
  destruct ((afam x =? 6) && negb v6ok) eqn:E6; cbn [negb andb].
  - apply (IH status Hst H).
  - destruct (is_global_ip x || allow) eqn:G.
    + exfalso. eapply H. reflexivity.
    + cbn [negb andb].
      destruct ((match status with None => true | Some _ => false end) && ip_is_loopback x).
      * apply (IH (Some SelLoopback)); [intros b; discriminate|exact H].
      * apply (IH (Some SelNonRoutable)); [intros b; discriminate|exact H].
Qed.

(* the address connected to is an address of the answer that passed the check, and the first one *)
Lemma decide_hostname_sound allow v6ok answers a :
  decide_hostname allow v6ok answers = ConnectTo a ->
  exists pre post, answers = pre ++ a :: post /\ usable allow v6ok a = true
                   /\ forallb (fun b => negb (usable allow v6ok b)) pre = true.
Proof.
  unfold decide_hostname. destruct (select allow v6ok None answers) as [[| |b]|] eqn:E; try discriminate.
  intros H. inversion H; subst. eapply select_suitable; [|exact E]. intros b0; discriminate.
Qed.

(* a refusal means no address of the answer is usable, whatever their order *)
Lemma decide_hostname_refusal allow v6ok answers :
  (forall a, decide_hostname allow v6ok answers <> ConnectTo a) ->
  forallb (fun b => negb (usable allow v6ok b)) answers = true.
Proof.
  intros H. apply (select_none_usable allow v6ok answers None); [intros b; discriminate|].
  intros b Hb. apply (H b). unfold decide_hostname. rewrite Hb. reflexivity.
Qed.

Lemma forallb_perm {A} (f : A -> bool) l l' :
  Permutation l l' -> forallb f l = forallb f l'.
Proof.
  intros HP. induction HP as [|x l l' HP IH|x y l|l l' l'' HP1 IH1 HP2 IH2]; cbn [forallb].
  - reflexivity.
  - rewrite IH. reflexivity.
  - destruct (f x), (f y); reflexivity.
  - congruence.
Qed.

(* whether the request is refused does not depend on the order of the resolver's answer *)
Lemma refusal_order_independent allow v6ok l l' :
  Permutation l l' ->
  (exists a, decide_hostname allow v6ok l = ConnectTo a) ->
  (exists a, decide_hostname allow v6ok l' = ConnectTo a).
Proof.
  intros Hp [a Ha].
  destruct (decide_hostname allow v6ok l') as [b| | |] eqn:E; [exists b; reflexivity| | |];
    exfalso.
  all: assert (Hn : forall c, decide_hostname allow v6ok l' <> ConnectTo c) by (intros c; rewrite E; discriminate).
  all: pose proof (decide_hostname_refusal allow v6ok l' Hn) as Hall.
  all: rewrite <- (forallb_perm _ l l' Hp) in Hall.
  all: destruct (decide_hostname_sound allow v6ok l a Ha) as (pre & post & -> & Hu & _).
  all: rewrite forallb_app in Hall; apply andb_true_iff in Hall; destruct Hall as [_ Hall].
  all: cbn [forallb] in Hall; rewrite Hu in Hall; discriminate.
Qed.
