From Coq Require Import List NArith Bool Lia.
From TT Require Import Lib.BytesL Lib.Base64 Model.TlsDemux Model.Settings.
Import ListNotations.
Open Scope N_scope.

Definition refuse_b (s : core_settings) : bool :=
  (s_addr_unspecified s && (s_port s =? 0))
  || match s_rp s with Some r => negb (rp_valid r) | None => false end
  || (negb (s_h1 s) && negb (s_h2 s) && negb (s_h3 s))
  || (is_nil (s_clients s) && negb (s_addr_loopback s)).

Lemma validate_refuse_b s : validate s <> None <-> refuse_b s = true.
Proof.
  unfold validate, refuse_b.
  destruct (s_addr_unspecified s && (s_port s =? 0)); cbn [orb]; [split; [reflexivity|discriminate]|].
  destruct (match s_rp s with Some r => negb (rp_valid r) | None => false end); cbn [orb];
    [split; [reflexivity|discriminate]|].
  destruct (negb (s_h1 s) && negb (s_h2 s) && negb (s_h3 s)); cbn [orb]; [split; [reflexivity|discriminate]|].
  destruct (is_nil (s_clients s) && negb (s_addr_loopback s)); [split; [reflexivity|discriminate]|].
  split; [intros H; exfalso; apply H; reflexivity|discriminate].
Qed.

(* the endpoint refuses to start exactly in the four situations named by the property *)
Lemma start_refused_iff_proof s :
  validate s <> None <->
  ( (s_addr_unspecified s = true /\ s_port s = 0)
    \/ (exists r, s_rp s = Some r /\ rp_valid r = false)
    \/ (s_h1 s = false /\ s_h2 s = false /\ s_h3 s = false)
    \/ (s_clients s = [] /\ s_addr_loopback s = false) ).
Proof.
  rewrite validate_refuse_b. unfold refuse_b.
  rewrite !orb_true_iff, !andb_true_iff, !negb_true_iff, N.eqb_eq.
  split.
  - intros [[[H|H]|H]|H].
    + left. exact H.
    + right. left. destruct (s_rp s) as [r|]; [|discriminate]. exists r. split; [reflexivity|].
      apply negb_true_iff. exact H.
    + right. right. left. destruct H as [[A B] C]. auto.
    + right. right. right. destruct H as [A B]. split; [destruct (s_clients s); [reflexivity|discriminate]|exact B].
  - intros [H|[[r [A B]]|[[A [B C]]|[A B]]]].
    + left. left. left. exact H.
    + left. left. right. rewrite A. apply negb_true_iff. exact B.
    + left. right. auto.
    + right. rewrite A. split; [reflexivity|exact B].
Qed.

Lemma list_eqb_eq (a b : list N) : list_eqb N.eqb a b = true <-> a = b.
Proof.
  revert b. induction a as [|x a IH]; intros [|y b]; cbn; split; try congruence; try discriminate.
  - intros H. apply andb_true_iff in H. destruct H as [H1 H2]. apply N.eqb_eq in H1.
    apply IH in H2. congruence.
  - intros H. inversion H; subst. rewrite N.eqb_refl. apply IH. reflexivity.
Qed.

(* the accepted pairs are exactly the string values of the file, none when a field is missing,
   not a string, or empty *)
Lemma accepted_pairs_eq_file_values_proof ts clients :
  read_clients true ts = Some clients <->
  (map (fun c => (Some (fst c), Some (snd c))) clients = ts
   /\ Forall (fun c => fst c <> [] /\ snd c <> []) clients).
Proof.
  revert clients. induction ts as [|[ou op] ts IH]; intros clients; cbn [read_clients].
  - split.
    + intros H. inversion H. split; [reflexivity|constructor].
    + intros [H _]. destruct clients; [reflexivity|discriminate].
  - unfold read_client. cbn [negb].
    destruct ou as [u|]; destruct op as [p|];
      try (split; [destruct (read_clients true ts); discriminate|
                   intros [H _]; destruct clients as [|[a b] cl]; cbn in H; inversion H]).
    destruct (is_nil u || is_nil p) eqn:En.
    + split; [discriminate|].
      intros [H F]. destruct clients as [|[a b] cl]; cbn in H; [discriminate|].
      inversion H; subst. inversion F as [|? ? [F1 F2] F']; subst. cbn [fst snd] in *.
      apply orb_true_iff in En. destruct En as [En|En]; [destruct u|destruct p]; cbn in En; congruence.
    + apply orb_false_iff in En. destruct En as [Eu Ep].
      destruct (read_clients true ts) as [cs|] eqn:Er.
      * destruct (IH cs) as [I1 I2]. destruct (I1 eq_refl) as [Er1 Er2].
        split.
        -- intros H. inversion H; subst.
           cbn [map fst snd]. split; [try rewrite Er1; reflexivity|].
           constructor; [|exact Er2]. cbn [fst snd]. split; [destruct u|destruct p]; cbn in *; congruence.
        -- intros [H F]. destruct clients as [|[a b] cl]; cbn in H; [discriminate|].
           inversion H; subst. inversion F as [|? ? _ F']; subst.
           destruct (IH cl) as [_ I3].
           assert (Hcs : Some cs = Some cl).
           { apply I3. split; [|exact F'].
             first [ reflexivity | match goal with Hm : map _ cl = _ |- _ => exact Hm end
                   | match goal with Hm : _ = map _ cl |- _ => symmetry; exact Hm end ]. }
           inversion Hcs; subst. reflexivity.
      * split; [discriminate|].
        intros [H F]. destruct clients as [|[a b] cl]; cbn in H; [discriminate|].
        inversion H; subst. inversion F as [|? ? _ F']; subst.
        destruct (IH cl) as [_ I3]. specialize (I3 (conj eq_refl F')). discriminate.
Qed.

(* a Basic token is accepted iff it is the encoding of a configured user:password *)
Lemma authenticate_iff_proof clients u p :
  bytes_ok (u ++ 58 :: p) = true ->
  Forall (fun c => bytes_ok (fst c ++ 58 :: snd c) = true) clients ->
  (authenticate clients (b64_encode (u ++ 58 :: p)) = true <->
   exists c, In c clients /\ fst c ++ 58 :: snd c = u ++ 58 :: p).
Proof.
  intros Hb Hall. unfold authenticate. rewrite existsb_exists. split.
  - intros [c [Hin He]]. exists c. split; [exact Hin|].
    apply list_eqb_eq in He. unfold token_of in He.
    rewrite Forall_forall in Hall. apply b64_encode_inj; auto.
  - intros [c [Hin He]]. exists c. split; [exact Hin|]. apply list_eqb_eq. unfold token_of. rewrite He. reflexivity.
Qed.

(* ---------- host names: the boolean uniqueness test is NoDup ---------- *)
Lemma list_eqb_N_eq (a b : list N) : list_eqb N.eqb a b = true <-> a = b.
Proof.
  revert b. induction a as [|x a IH]; intros [|y b]; cbn [list_eqb]; try (split; [discriminate|discriminate]).
  - split; reflexivity.
  - rewrite andb_true_iff, N.eqb_eq, IH. split; [intros [-> ->]; reflexivity|intros H; inversion H; auto].
Qed.

Lemma existsb_name_in x l : existsb (name_eqb x) l = true <-> In x l.
Proof.
  rewrite existsb_exists. unfold name_eqb. split.
  - intros [y [Hy E]]. apply list_eqb_N_eq in E. subst. exact Hy.
  - intros H. exists x. split; [exact H|apply list_eqb_N_eq; reflexivity].
Qed.

Lemma nodupb_NoDup l : nodupb l = true <-> NoDup l.
Proof.
  induction l as [|x l IH]; cbn [nodupb].
  - split; [constructor|reflexivity].
  - rewrite andb_true_iff, negb_true_iff, IH. split.
    + intros [H1 H2]. constructor; [|exact H2]. intros Hin. apply existsb_name_in in Hin. congruence.
    + intros H. inversion H as [|a b Hn Hd]; subst. split; [|exact Hd].
      destruct (existsb (name_eqb x) l) eqn:E; [|reflexivity]. apply existsb_name_in in E. contradiction.
Qed.
