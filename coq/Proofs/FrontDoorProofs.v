From Coq Require Import List NArith Bool.
From TT Require Import Model.ConnectPolicy Model.Rules Model.TlsDemux Model.FrontDoor Proofs.TlsDemuxProofs.
Import ListNotations.

Lemma denied_never_served canon rules c peer h :
  connection_verdict canon rules peer (h_random h) = Deny ->
  forall rules_first, answered_handshake (front_tcp canon true rules_first rules c peer h) = false.
Proof.
  intros D rules_first. unfold front_tcp. destruct (h_sni h) as [s|]; [|reflexivity].
  rewrite D. destruct rules_first; cbn [andb].
  - reflexivity.
  - destruct (select_tcp c (h_alpn h) (Some s)); reflexivity.
Qed.

Lemma denied_outcome_independent_of_hosts canon rules peer h c1 c2 :
  connection_verdict canon rules peer (h_random h) = Deny ->
  front_tcp canon true true rules c1 peer h = front_tcp canon true true rules c2 peer h.
Proof.
  intros D. unfold front_tcp. destruct (h_sni h); [|reflexivity]. rewrite D. reflexivity.
Qed.

Lemma served_means_allowed_and_selected canon rules c peer h m :
  front_tcp canon true true rules c peer h = FServe m ->
  connection_verdict canon rules peer (h_random h) = Allow
  /\ select_tcp c (h_alpn h) (h_sni h) = Some m
  /\ m_proto m <> H3.
Proof.
  unfold front_tcp. destruct (h_sni h) as [s|] eqn:S; [|discriminate].
  destruct (connection_verdict canon rules peer (h_random h)) eqn:V; cbn [andb]; [|discriminate].
  destruct (select_tcp c (h_alpn h) (Some s)) as [m'|] eqn:Sel; [|discriminate].
  intros H. injection H as <-. split; [reflexivity|]. split; [reflexivity|].
  exact (never_h3_on_tcp_proof c (h_alpn h) (Some s) m' Sel).
Qed.

Lemma allowed_outcome_is_the_demultiplexers canon rules c peer h :
  connection_verdict canon rules peer (h_random h) = Allow ->
  front_tcp canon true true rules c peer h =
  match h_sni h with
  | None => FNoSni
  | Some _ => match select_tcp c (h_alpn h) (h_sni h) with Some m => FServe m | None => FNoSelection end
  end.
Proof.
  intros A. unfold front_tcp. destruct (h_sni h); [|reflexivity]. rewrite A. cbn [andb]. reflexivity.
Qed.
