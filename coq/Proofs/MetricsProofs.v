From Coq Require Import List NArith ZArith Bool Lia ZifyBool ZifyNat ZifyN.
From TT Require Import Lib.BytesL Generated.MetricsFacts Model.Metrics.
Import ListNotations.
Open Scope Z_scope.

Lemma filter_split {A} (P : A -> bool) (l : list A) :
  (length (filter P l) + length (filter (fun x => negb (P x)) l) = length l)%nat.
Proof. induction l as [|x l IH]; cbn [filter]; [reflexivity|]. destruct (P x); cbn [negb length]; lia. Qed.

Lemma proto_eqb_refl p : proto_eqb p p = true.
Proof. destruct p; reflexivity. Qed.
Lemma proto_eqb_eq a b : proto_eqb a b = true <-> a = b.
Proof. destruct a, b; cbn; split; congruence. Qed.

Lemma upd_same f p d : upd f p d p = f p + d.
Proof. unfold upd. rewrite proto_eqb_refl. reflexivity. Qed.
Lemma upd_other f p q d : p <> q -> upd f p d q = f q.
Proof. unfold upd. intros H. destruct (proto_eqb p q) eqn:E; [apply proto_eqb_eq in E; contradiction|reflexivity]. Qed.

Lemma fold_upd gone : forall g q,
  fold_left (fun g (s : N * proto) => upd g (snd s) (-1)) gone g q
  = g q - Z.of_nat (length (filter (fun s : N * proto => proto_eqb (snd s) q) gone)).
Proof.
  induction gone as [|[i p] r IH]; intros g q; cbn [fold_left filter snd]; [cbn; lia|].
  rewrite IH. unfold upd at 1. destruct (proto_eqb p q) eqn:E; cbn [length]; lia.
Qed.

(* the exported gauges equal the number of live objects *)
Record MInv (w : world) : Prop := {
  i_sess : forall p, g_sessions w p = live_sessions w p;
  i_tcp : g_tcp w = Z.of_nat (length (tunnels w));
  i_udp : g_udp w = Z.of_nat (length (udp_socks w))
}.

Lemma MInv_w0 : MInv w0.
Proof. constructor; intros; reflexivity. Qed.

Lemma filter_filter_comm {A} (P Q : A -> bool) l : filter P (filter Q l) = filter Q (filter P l).
Proof.
  induction l as [|x l IH]; [reflexivity|]. cbn [filter].
  destruct (P x) eqn:EP, (Q x) eqn:EQ; cbn [filter]; rewrite ?EP, ?EQ, IH; reflexivity.
Qed.

Lemma live_without (id : N) (q : proto) (l : list (N * proto)) :
  (length (filter (fun s : N * proto => proto_eqb (snd s) q) (without id l))
   + length (filter (fun s : N * proto => proto_eqb (snd s) q) (filter (fun s : N * proto => (fst s =? id)%N) l))
   = length (filter (fun s : N * proto => proto_eqb (snd s) q) l))%nat.
Proof.
  unfold without. induction l as [|[i p] l IH]; [reflexivity|]. cbn [filter fst snd].
  destruct (i =? id)%N; cbn [negb filter snd]; destruct (proto_eqb p q); cbn [length]; lia.
Qed.

Lemma mstep_inv w o : MInv w -> MInv (mstep w o).
Proof.
  intros [S T U]. destruct o as [id p|id|id sess|sess|id|id sess|id|sess up down]; cbn [mstep].
  - constructor; cbn [g_sessions g_tcp g_udp sessions tunnels udp_socks]; auto.
    intros q. unfold upd. rewrite S. unfold live_sessions. cbn [sessions filter snd].
    destruct (proto_eqb p q); cbn [length]; lia.
  - constructor; cbn [g_sessions g_tcp g_udp sessions tunnels udp_socks].
    + intros q. rewrite fold_upd, S. unfold live_sessions. cbn [sessions]. pose proof (live_without id q (sessions w)). lia.
    + rewrite T. unfold owned_by, not_owned_by. pose proof (filter_split (fun t : N * N => (snd t =? id)%N) (tunnels w)). lia.
    + rewrite U. unfold owned_by, not_owned_by. pose proof (filter_split (fun t : N * N => (snd t =? id)%N) (udp_socks w)). lia.
  - constructor; cbn [g_sessions g_tcp g_udp sessions tunnels udp_socks length]; auto. lia.
  - constructor; auto.
  - constructor; cbn [g_sessions g_tcp g_udp sessions tunnels udp_socks]; auto.
    rewrite T. unfold count_id, without. pose proof (filter_split (fun t : N * N => (fst t =? id)%N) (tunnels w)). lia.
  - constructor; cbn [g_sessions g_tcp g_udp sessions tunnels udp_socks length]; auto. lia.
  - constructor; cbn [g_sessions g_tcp g_udp sessions tunnels udp_socks]; auto.
    rewrite U. unfold count_id, without. pose proof (filter_split (fun t : N * N => (fst t =? id)%N) (udp_socks w)). lia.
  - destruct (proto_of w sess); constructor; auto.
Qed.

Lemma mrun_inv ops : forall w, MInv w -> MInv (fold_left mstep ops w).
Proof. induction ops as [|o r IH]; intros w I; cbn [fold_left]; [exact I|]. apply IH, mstep_inv, I. Qed.

(* traffic counters: only a transfer moves them, by exactly the relayed bytes, on the session's protocol *)
Lemma transfer_counts w sess up down p :
  METRICS_UPLOAD_IS_INBOUND = true -> proto_of w sess = Some p ->
  let w' := mstep w (Transfer sess up down) in
  c_in w' p = c_in w p + Z.of_N up /\ c_out w' p = c_out w p + Z.of_N down
  /\ (forall q, q <> p -> c_in w' q = c_in w q /\ c_out w' q = c_out w q).
Proof.
  intros F P. cbn [mstep]. rewrite P, F. cbn [c_in c_out]. rewrite !upd_same. repeat split; auto;
    rewrite upd_other by congruence; reflexivity.
Qed.

Lemma other_ops_keep_counters w o :
  (forall s u d, o <> Transfer s u d) -> forall p, c_in (mstep w o) p = c_in w p /\ c_out (mstep w o) p = c_out w p.
Proof.
  intros H p. destruct o; cbn [mstep c_in c_out]; try (split; reflexivity).
  exfalso. eapply H. reflexivity.
Qed.
