From Coq Require Import List NArith Bool Lia.
From TT Require Import Lib.BytesL Lib.Base64 Generated.GateFacts Model.Settings Model.TunnelGate Proofs.SettingsProofs.
Import ListNotations.
Open Scope N_scope.

Lemma strip_prefix_spec p v t : strip_prefix p v = Some t <-> v = p ++ t.
Proof.
  revert v. induction p as [|x p IH]; intros v; cbn [strip_prefix app].
  - split; [intros H; inversion H; reflexivity|intros ->; reflexivity].
  - destruct v as [|y v]; [split; [discriminate|intros H; discriminate]|].
    destruct (x =? y) eqn:E.
    + apply N.eqb_eq in E. subst y. rewrite IH. split; [intros ->; reflexivity|intros H; inversion H; reflexivity].
    + apply N.eqb_neq in E. split; [discriminate|intros H; inversion H; congruence].
Qed.

(* what the header must look like to be read as Basic credentials *)
Lemma auth_info_basic raw t :
  auth_info raw = HBasic t <-> exists v, raw = Some v /\ forallb visible v = true /\ v = BASIC ++ t.
Proof.
  unfold auth_info. destruct raw as [v|].
  - destruct (forallb visible v) eqn:V.
    + destruct (strip_prefix BASIC v) as [t'|] eqn:S.
      * apply strip_prefix_spec in S. split.
        -- intros H. inversion H; subst. exists (BASIC ++ t). auto.
        -- intros [v' [H1 [_ H3]]]. injection H1 as E. subst v'. rewrite H3 in S. apply app_inv_head in S. subst. reflexivity.
      * split; [discriminate|]. intros [v' [H1 [_ H3]]]. injection H1 as E. subst v'.
        assert (X : strip_prefix BASIC v = Some t) by (apply strip_prefix_spec; exact H3). congruence.
    + split; [discriminate|]. intros [v' [H1 [H2 _]]]. injection H1 as E. subst v'. congruence.
  - split; [discriminate|]. intros [v' [H1 _]]. discriminate.
Qed.

Lemma auth_info_absent raw : auth_info raw = HAbsent <-> raw = None.
Proof.
  unfold auth_info. destruct raw as [v|]; [|split; reflexivity].
  destruct (forallb visible v); [destruct (strip_prefix BASIC v)|]; split; discriminate.
Qed.

Section Gate.
  Hypothesis F_unreadable : AUTH_UNREADABLE_IS_407 = true.

  (* with an authenticator configured: allowed exactly for accepted Basic credentials, or for a
     request without the header on a connection whose SNI credentials were accepted *)
  Lemma gate_allows_iff a p h fa :
    gate (Some a) p h = Allow fa <->
    (exists t, h = HBasic t /\ a (SBasic t) = true /\ fa = Some (SBasic t))
    \/ (exists x, h = HAbsent /\ p = PAuthenticated x /\ fa = Some (SSni x)).
  Proof.
    unfold gate. destruct h as [|t|]; destruct p as [|x].
    - split; [discriminate|]. intros [[t [H _]]|[x [_ [H _]]]]; discriminate.
    - split.
      + intros H. inversion H. right. exists x. auto.
      + intros [[t [H _]]|[y [_ [H1 H2]]]]; [discriminate|]. inversion H1; subst. reflexivity.
    - destruct (a (SBasic t)) eqn:E; split.
      + intros H. inversion H. left. exists t. auto.
      + intros [[t' [H1 [_ H3]]]|[y [H _]]]; [inversion H1; subst; reflexivity|discriminate].
      + discriminate.
      + intros [[t' [H1 [H2 _]]]|[y [H _]]]; [inversion H1; subst; congruence|discriminate].
    - destruct (a (SBasic t)) eqn:E; split.
      + intros H. inversion H. left. exists t. auto.
      + intros [[t' [H1 [_ H3]]]|[y [H _]]]; [inversion H1; subst; reflexivity|discriminate].
      + discriminate.
      + intros [[t' [H1 [H2 _]]]|[y [H _]]]; [inversion H1; subst; congruence|discriminate].
    - rewrite F_unreadable. split; [discriminate|]. intros [[t [H _]]|[y [H _]]]; discriminate.
    - rewrite F_unreadable. split; [discriminate|]. intros [[t [H _]]|[y [H _]]]; discriminate.
  Qed.

  (* with an authenticator configured every refusal is a 407 *)
  Lemma gate_never_502 a p h : gate (Some a) p h <> Deny502.
  Proof.
    unfold gate. destruct h as [|t|]; destruct p as [|x]; try discriminate;
      try (destruct (a (SBasic t)); discriminate); rewrite F_unreadable; discriminate.
  Qed.

  Lemma handle_egress_needs_allow auth p raw c au hp o :
    a_egress (handle auth p raw c au hp o) = true -> exists fa, gate auth p (auth_info raw) = Allow fa.
  Proof.
    unfold handle. destruct (gate auth p (auth_info raw)) as [fa| |]; cbn; [eauto|discriminate|discriminate].
  Qed.

  Lemma handle_200_needs_allow auth p raw c au hp o :
    a_status (handle auth p raw c au hp o) = 200 -> exists fa, gate auth p (auth_info raw) = Allow fa.
  Proof.
    unfold handle. destruct (gate auth p (auth_info raw)) as [fa| |]; cbn; [eauto|discriminate|discriminate].
  Qed.

  Lemma handle_denied auth p raw c au hp o :
    gate auth p (auth_info raw) = Deny407 ->
    handle auth p raw c au hp o =
    {| a_status := 407; a_challenge := true; a_warning := 0; a_names_host := false; a_egress := false |}.
  Proof. unfold handle. intros ->. reflexivity. Qed.
End Gate.

(* the registry authenticator as a function *)
Definition registry (clients : list (list N * list N)) : authenticator :=
  fun s => match s with SBasic t => authenticate clients t | SSni _ => false end.

(* every request of a session is judged on its own *)
Lemma serve_pointwise auth sni pre r post answers :
  serve auth sni (pre ++ r :: post) = Some answers ->
  exists one, serve auth sni [r] = Some [one] /\ nth_error answers (length pre) = Some one.
Proof.
  unfold serve. destruct (connection_policy auth sni) as [p|]; [|discriminate].
  intros H. inversion H; subst. eexists. split; [reflexivity|].
  rewrite map_app. cbn [map]. rewrite nth_error_app2 by (rewrite map_length; lia).
  rewrite map_length, PeanoNat.Nat.sub_diag. reflexivity.
Qed.
