From Coq Require Import List NArith Bool Lia.
From TT Require Import Model.QuicTimers.
Import ListNotations.
Open Scope N_scope.

(* [closest] is set and not later than any armed deadline *)
Definition LB (s : qt) : Prop := forall c t, In (c, t) (dl s) -> exists d, closest s = Some d /\ d <= t.

Lemma minl_le l : forall c t, In (c, t) l -> exists m, minl l = Some m /\ m <= t.
Proof.
  induction l as [|p r IH]; intros c t H; [destruct H|].
  cbn [minl]. destruct H as [H|H].
  - subst p. cbn [snd]. destruct (minl r) as [m|]; eexists; split; try reflexivity; lia.
  - destruct (IH c t H) as (m & E & L). rewrite E. eexists; split; [reflexivity|]. lia.
Qed.

Lemma in_drop c l : forall c' t, In (c', t) (drop_conn c l) -> In (c', t) l.
Proof. intros c' t H. unfold drop_conn in H. apply filter_In in H. tauto. Qed.

Lemma qstep_LB next s o : LB s -> LB (qstep true next s o).
Proof.
  intros I. destruct o as [c t|now|c]; unfold LB; cbn [qstep dl closest]; intros c' t' H.
  - destruct H as [H|H].
    + inversion H; subst c' t'. destruct (closest s) as [d|].
      * destruct (N.ltb_spec t d); eexists; split; try reflexivity; lia.
      * eexists; split; [reflexivity|lia].
    + apply in_drop in H. destruct (I c' t' H) as (d & E & L). rewrite E.
      destruct (N.ltb_spec t d); eexists; split; try reflexivity; lia.
  - exact (minl_le _ c' t' H).
  - apply in_drop in H. exact (I c' t' H).
Qed.

Lemma qrun_LB next ops : LB (qrun true next ops).
Proof.
  unfold qrun. assert (G : forall s, LB s -> LB (fold_left (qstep true next) ops s)).
  { induction ops as [|o r IH]; intros s I; cbn [fold_left]; [exact I|]. apply IH, qstep_LB, I. }
  apply G. intros c t H. destruct H.
Qed.

(* every armed deadline is served: left alone, the loop comes round no later than the deadline (or at once if it is past) *)
Lemma armed_deadline_is_served_proof next ops now c t :
  In (c, t) (dl (qrun true next ops)) ->
  exists d, will_wake true (qrun true next ops) now = Some d /\ d <= N.max t now.
Proof.
  intros H. destruct (qrun_LB next ops c t H) as (d & E & L).
  unfold will_wake. rewrite E. eexists; split; [reflexivity|]. lia.
Qed.

(* an expired connection whose library reports a further timer is armed again with it; the others keep their deadlines *)
Lemma expired_is_rearmed_proof next s now c t d :
  In (c, t) (dl s) -> t <= now -> next c now = Some d -> In (c, now + d) (dl (qstep true next s (Wake now))).
Proof.
  intros H L E. cbn [qstep dl]. apply in_or_app. left. apply in_flat_map.
  exists (c, t). split.
  - apply filter_In. split; [exact H|]. cbn [snd]. apply N.leb_le. exact L.
  - cbn [fst]. rewrite E. left. reflexivity.
Qed.

Lemma unexpired_is_kept_proof rearm next s now c t :
  In (c, t) (dl s) -> now < t -> In (c, t) (dl (qstep rearm next s (Wake now))).
Proof.
  intros H L.
  assert (K : In (c, t) (filter (fun p => negb (snd p <=? now)) (dl s))).
  { apply filter_In. split; [exact H|]. cbn [snd]. destruct (N.leb_spec t now); [lia|reflexivity]. }
  cbn [qstep]. destruct rearm; cbn [dl]; [apply in_or_app; right|]; exact K.
Qed.
