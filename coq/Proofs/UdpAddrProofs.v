(* The 16-byte address field of the UDP multiplexer records (net_utils::{put,get}_fixed_size_ip):
   what is written is read back, and exactly which addresses the field cannot tell apart. *)
From Coq Require Import List Arith NArith Bool Lia ZifyBool ZifyNat ZifyN.
From TT Require Import Lib.BytesL Generated.Consts Model.UdpCodec Proofs.SettingsProofs.
Import ListNotations.
Open Scope N_scope.

Lemma to_be_split m : forall n v, to_be (n + m) v = to_be n (v / 256 ^ N.of_nat m) ++ to_be m v.
Proof.
  induction m as [|m IH]; intros n v.
  - rewrite Nat.add_0_r. cbn [to_be N.of_nat]. rewrite N.pow_0_r, N.div_1_r, app_nil_r. reflexivity.
  - rewrite Nat.add_succ_r. cbn [to_be]. rewrite IH, <- app_assoc. f_equal.
    rewrite N.div_div by (try apply N.pow_nonzero; lia).
    replace (256 * 256 ^ N.of_nat m) with (256 ^ N.of_nat (S m)); [reflexivity|].
    rewrite Nat2N.inj_succ, N.pow_succ_r'. reflexivity.
Qed.

Lemma all_zero_app a b : all_zero (a ++ b) = all_zero a && all_zero b.
Proof. unfold all_zero. apply forallb_app. Qed.

Lemma all_zero_be l : all_zero l = true -> be l = 0.
Proof.
  induction l as [|b l IH] using rev_ind; intros H; [reflexivity|].
  rewrite all_zero_app in H. apply andb_true_iff in H. destruct H as [Hl Hb].
  cbn in Hb. rewrite be_snoc, (IH Hl). lia.
Qed.

Lemma all_zero_repeat n : all_zero (repeat 0 n) = true.
Proof. induction n as [|n IH]; [reflexivity|]. cbn. exact IH. Qed.

Lemma to_be_zero n : to_be n 0 = repeat 0 n.
Proof.
  induction n as [|n IH]; [reflexivity|]. cbn [to_be]. rewrite N.div_0_l, N.mod_0_l, IH by lia.
  cbn [repeat]. symmetry. apply repeat_cons.
Qed.

(* the field of a value below 2^32 with twelve leading zero bytes: IPv4, except the bytes of ::1 *)
Lemma get_padded v : v < 2 ^ 32 ->
  get_fixed_size_ip (repeat 0 12 ++ to_be 4 v)
  = if v =? 1 then {| fam := 6; ipv := 1 |} else {| fam := 4; ipv := v |}.
Proof.
  intros Hv. unfold get_fixed_size_ip, IPV4_PADDING_WIRE_LENGTH, FIXED_IP_EXCLUDES_V6_LOOPBACK.
  change 12 with (lenN (repeat 0 12)) at 1 2. rewrite takeN_exact, dropN_exact, all_zero_repeat.
  cbn [andb]. destruct (v =? 1) eqn:E.
  - apply N.eqb_eq in E. subst v. vm_compute. reflexivity.
  - destruct (list_eqb N.eqb (repeat 0 12 ++ to_be 4 v) v6_loopback_bytes) eqn:L.
    + exfalso. apply list_eqb_N_eq in L. apply (f_equal (dropN 12)) in L.
      change 12 with (lenN (repeat 0 12)) in L at 1. rewrite dropN_exact in L.
      apply (f_equal be) in L. rewrite be_to_be_small in L by (cbn; lia).
      vm_compute in L. apply N.eqb_neq in E. congruence.
    + cbn [negb]. rewrite be_to_be_small by (cbn; lia). reflexivity.
Qed.

Lemma put_v6_small v : v < 2 ^ 32 -> to_be 16 v = repeat 0 12 ++ to_be 4 v.
Proof.
  intros Hv. change 16%nat with (12 + 4)%nat. rewrite to_be_split.
  replace (v / 256 ^ N.of_nat 4) with 0; [rewrite to_be_zero; reflexivity|].
  symmetry. apply N.div_small. exact Hv.
Qed.

Lemma get_put_v4 v : v < 2 ^ 32 ->
  get_fixed_size_ip (put_fixed_size_ip {| fam := 4; ipv := v |})
  = if v =? 1 then {| fam := 6; ipv := 1 |} else {| fam := 4; ipv := v |}.
Proof. intros Hv. unfold put_fixed_size_ip. cbn [fam ipv N.eqb Pos.eqb]. apply get_padded. exact Hv. Qed.

Lemma get_put_v6_small v : v < 2 ^ 32 ->
  get_fixed_size_ip (put_fixed_size_ip {| fam := 6; ipv := v |})
  = if v =? 1 then {| fam := 6; ipv := 1 |} else {| fam := 4; ipv := v |}.
Proof.
  intros Hv. unfold put_fixed_size_ip. cbn [fam ipv N.eqb Pos.eqb]. rewrite put_v6_small by exact Hv.
  apply get_padded. exact Hv.
Qed.

Lemma get_put_v6_large v : 2 ^ 32 <= v -> v < 2 ^ 128 ->
  get_fixed_size_ip (put_fixed_size_ip {| fam := 6; ipv := v |}) = {| fam := 6; ipv := v |}.
Proof.
  intros Hlo Hhi. unfold put_fixed_size_ip. cbn [fam ipv]. change (6 =? 4) with false. cbv iota.
  unfold get_fixed_size_ip, IPV4_PADDING_WIRE_LENGTH.
  assert (Z : all_zero (takeN 12 (to_be 16 v)) = false).
  { destruct (all_zero (takeN 12 (to_be 16 v))) eqn:A; [exfalso|reflexivity].
    apply all_zero_be in A. change 16%nat with (12 + 4)%nat in A. rewrite to_be_split in A.
    replace 12 with (lenN (to_be 12 (v / 256 ^ N.of_nat 4))) in A by (rewrite lenN_to_be; reflexivity).
    rewrite takeN_exact, be_to_be in A.
    assert (Q : 1 <= v / 256 ^ N.of_nat 4).
    { apply N.div_le_lower_bound; [cbn; lia|]. cbn. cbn in Hlo. lia. }
    assert (Q2 : v / 256 ^ N.of_nat 4 < 256 ^ N.of_nat 12).
    { apply N.div_lt_upper_bound; [cbn; lia|]. cbn. cbn in Hhi. lia. }
    rewrite N.mod_small in A by exact Q2. lia. }
  rewrite Z. cbn [andb]. rewrite be_to_be_small; [reflexivity|]. cbn. cbn in Hhi. lia.
Qed.
