From Coq Require Import List NArith Bool Lia ZifyBool ZifyNat ZifyN.
From TT Require Import Lib.BytesL Model.ClientRandom.
Import ListNotations.
Open Scope N_scope.

Definition wfN (arrivals : list (list N)) : Prop := Forall (fun a => a <> []) arrivals.

Lemma lenN_pos {A} (l : list A) : l <> [] -> 0 < lenN l.
Proof. destruct l; [contradiction|]. intros _. rewrite lenN_cons. lia. Qed.

Lemma lenN_zero_nil {A} (l : list A) : lenN l = 0 <-> l = [].
Proof. split; [apply lenN_0|intros ->; reflexivity]. Qed.

Definition measure (arrivals : list (list N)) : N := lenN (concat arrivals) + lenN arrivals.

Lemma take_readN_spec limit arrivals r arr :
  wfN arrivals -> 0 < limit -> take_readN limit arrivals = (r, arr) ->
  r ++ concat arr = concat arrivals /\ lenN r <= limit /\ wfN arr
  /\ (r = [] <-> arrivals = []) /\ (r <> [] -> measure arr < measure arrivals).
Proof.
  intros W L H. unfold measure. destruct arrivals as [|a rest]; cbn [take_readN] in H.
  - inversion H; subst. cbn. repeat split; auto; try lia. intros C; contradiction.
  - inversion W as [|x l Ha Wr]; subst. pose proof (lenN_pos a Ha) as Pa.
    destruct (lenN a <=? limit) eqn:E.
    + inversion H; subst. cbn [concat]. repeat split; auto; try lia.
      * intros ->. contradiction.
      * discriminate.
      * intros _. rewrite lenN_app, lenN_cons. lia.
    + inversion H; subst. cbn [concat]. rewrite app_assoc, takeN_dropN. repeat split; auto.
      * rewrite lenN_takeN. lia.
      * constructor; [|exact Wr]. intros C. apply lenN_zero_nil in C. rewrite lenN_dropN in C. lia.
      * intros C. apply lenN_zero_nil in C. rewrite lenN_takeN in C. lia.
      * discriminate.
      * intros _. rewrite !lenN_app, !lenN_cons, lenN_dropN. lia.
Qed.

Section PeekProofs.
  Variable extract : list N -> extraction.
  Variables MAXP CHUNK : N.
  Hypothesis chunk_pos : 0 < CHUNK.

  (* nothing is lost, duplicated or reordered by peeking, whatever the parser says *)
  Lemma peek_transparent pf fuel : forall pre arrivals,
    wfN arrivals ->
    let '(cr, pre', arr') := peek extract MAXP CHUNK pf fuel pre arrivals in
    pre' ++ concat arr' = pre ++ concat arrivals /\ wfN arr'
    /\ (lenN pre <= MAXP -> lenN pre' <= MAXP).
  Proof.
    induction fuel as [|f IH]; intros pre arrivals W; cbn [peek]; [auto|].
    destruct (negb pf && (MAXP <=? lenN pre)); [auto|].
    destruct (extract pre); try (repeat split; auto; fail).
    destruct (pf && (MAXP <=? lenN pre)) eqn:Cap; [auto|].
    destruct (take_readN (N.min CHUNK (MAXP - lenN pre)) arrivals) as [r arr] eqn:T.
    destruct (N.eq_dec (N.min CHUNK (MAXP - lenN pre)) 0) as [Z|NZ].
    - (* no room: the read returns nothing *)
      rewrite Z in T. destruct arrivals as [|a rest]; cbn [take_readN] in T.
      + inversion T; subst. auto.
      + inversion W as [|x l Ha Wr]; subst.
        replace (lenN a <=? 0) with false in T by (pose proof (lenN_pos a Ha); lia).
        inversion T; subst. rewrite takeN_0. rewrite dropN_0. repeat split; auto.
    - destruct (take_readN_spec (N.min CHUNK (MAXP - lenN pre)) arrivals r arr W ltac:(lia) T) as (E & L & W1 & Z & M).
      destruct r as [|x r'].
      + rewrite <- E. cbn [app]. auto.
      + specialize (IH (pre ++ x :: r') arr W1).
        destruct (peek extract MAXP CHUNK pf f (pre ++ x :: r') arr) as [[cr pre'] arr'].
        destruct IH as (I1 & I2 & I3). rewrite I1, <- E, app_assoc. repeat split; auto.
        intros Hp. apply I3. rewrite lenN_app. lia.
  Qed.

  Hypothesis stable : forall b t e, extract b = e -> e <> XNeedMore -> extract (b ++ t) = e.

  (* the repaired loop: if some prefix of the stream within the limit yields the client random,
     that value is what peeking returns, for every segmentation *)
  Lemma peek_found fuel : forall pre arrivals k0 r,
    wfN arrivals -> lenN pre <= MAXP ->
    let s := pre ++ concat arrivals in
    k0 <= MAXP -> k0 <= lenN s -> extract (takeN k0 s) = XFound r ->
    (measure arrivals < N.of_nat fuel) ->
    fst (fst (peek extract MAXP CHUNK true fuel pre arrivals)) = Some r.
  Proof.
    induction fuel as [|f IH]; intros pre arrivals k0 r W Lp s K1 K2 X F; [lia|].
    cbn [peek negb andb].
    (* what the parser says on the prebuffer is consistent with what it says at k0 *)
    assert (Cons : forall e, extract pre = e -> e <> XNeedMore -> e = XFound r).
    { intros e He Ne. destruct (N.le_gt_cases k0 (lenN pre)) as [Le|Gt].
      - assert (P : pre = takeN k0 s ++ dropN k0 pre).
        { unfold s. rewrite takeN_app_le by exact Le. symmetry. apply takeN_dropN. }
        rewrite P in He. rewrite (stable _ (dropN k0 pre) _ X ltac:(discriminate)) in He. congruence.
      - assert (P : takeN k0 s = pre ++ takeN (k0 - lenN pre) (concat arrivals)).
        { unfold s. apply takeN_app_ge. lia. }
        rewrite P in X. rewrite (stable _ _ _ He Ne) in X. exact X. }
    destruct (extract pre) as [r'| | |] eqn:E.
    - specialize (Cons _ eq_refl ltac:(discriminate)). inversion Cons. reflexivity.
    - (* more data needed: the prebuffer is shorter than k0 *)
      assert (Lt : lenN pre < k0).
      { destruct (N.le_gt_cases k0 (lenN pre)) as [Le|Gt]; [|exact Gt]. exfalso.
        assert (P : pre = takeN k0 s ++ dropN k0 pre).
        { unfold s. rewrite takeN_app_le by exact Le. symmetry. apply takeN_dropN. }
        rewrite P in E. rewrite (stable _ (dropN k0 pre) _ X ltac:(discriminate)) in E. discriminate. }
      replace (MAXP <=? lenN pre) with false by lia.
      destruct (take_readN (N.min CHUNK (MAXP - lenN pre)) arrivals) as [rd arr] eqn:T.
      destruct (take_readN_spec (N.min CHUNK (MAXP - lenN pre)) arrivals rd arr W ltac:(lia) T) as (E1 & L & W1 & Z & M).
      assert (NE : rd <> []).
      { intros C. apply Z in C. subst arrivals. unfold s in K2. cbn in K2. rewrite app_nil_r in K2. lia. }
      destruct rd as [|x rd']; [contradiction|].
      apply (IH (pre ++ x :: rd') arr k0 r); auto.
      + rewrite lenN_app. lia.
      + rewrite <- app_assoc, E1. exact K2.
      + rewrite <- app_assoc, E1. exact X.
      + specialize (M ltac:(discriminate)). lia.
    - specialize (Cons _ eq_refl ltac:(discriminate)). discriminate.
    - specialize (Cons _ eq_refl ltac:(discriminate)). discriminate.
  Qed.
End PeekProofs.

(* ---------- the modelled record / ClientHello layout ---------- *)
Lemma nthN_app_l (a b : list N) i : i < lenN a -> nthN (a ++ b) i = nthN a i.
Proof. intros H. unfold nthN. apply app_nth1. unfold lenN in H. lia. Qed.

Lemma nth_skipn_N (l : list N) : forall k i, nth i (skipn k l) 0 = nth (k + i) l 0.
Proof.
  induction l as [|x l IH]; intros k i.
  - rewrite skipn_nil. destruct i, k; reflexivity.
  - destruct k as [|k]; [reflexivity|]. cbn [skipn Nat.add nth]. apply IH.
Qed.

Lemma nth_firstn_N (l : list N) : forall n i, (i < n)%nat -> nth i (firstn n l) 0 = nth i l 0.
Proof.
  induction l as [|x l IH]; intros n i H.
  - rewrite firstn_nil. reflexivity.
  - destruct n as [|n]; [lia|]. destruct i as [|i]; [reflexivity|]. cbn [firstn nth]. apply IH. lia.
Qed.

Lemma nthN_take_drop (l : list N) k n i : i < n -> nthN (takeN n (dropN k l)) i = nthN l (k + i).
Proof.
  intros H. unfold nthN, takeN, dropN. rewrite nth_firstn_N by lia. rewrite nth_skipn_N. f_equal. lia.
Qed.

Lemma decide_found frag r :
  decide_fragment frag = XFound r ->
  nthN frag 0 = 1 /\ 38 <= lenN frag /\ r = takeN 32 (dropN 6 frag).
Proof.
  unfold decide_fragment. destruct (lenN frag <? 4) eqn:E1; [discriminate|].
  set (mlen := be (takeN 3 (dropN 1 frag))).
  destruct (lenN frag <? 4 + mlen) eqn:E2; [discriminate|].
  destruct (nthN frag 0 =? 1) eqn:E3; [|discriminate].
  set (body := takeN mlen (dropN 4 frag)).
  destruct (hello_ok body) eqn:H; [|discriminate]. intros X. inversion X; subst r; clear X.
  unfold hello_ok in H. apply andb_true_iff in H. destruct H as [H34 _].
  assert (Lb : lenN body = mlen) by (unfold body; rewrite lenN_takeN, lenN_dropN; lia).
  split; [lia|]. split; [lia|].
  unfold body. rewrite dropN_takeN, takeN_takeN, dropN_dropN.
  replace (N.min 32 (mlen - 2)) with 32 by lia. reflexivity.
Qed.

(* exactness: a value is reported only for a handshake record starting with a ClientHello, and it
   is bytes 11..43 of the record: the random field *)
Lemma extract_c_found data r :
  extract_c data = XFound r ->
  nthN data 0 = 22 /\ nthN data 5 = 1 /\ 43 <= lenN data /\ r = takeN 32 (dropN 11 data).
Proof.
  unfold extract_c. destruct (lenN data <? 5) eqn:E1; [discriminate|].
  set (rlen := be (takeN 2 (dropN 3 data))).
  destruct (MAX_RECORD_LEN <? rlen); [discriminate|].
  destruct (lenN data <? 5 + rlen) eqn:E2; [discriminate|].
  destruct (nthN data 0 =? 22) eqn:E3.
  - intros X. apply decide_found in X. destruct X as (A & B & C).
    rewrite lenN_takeN, lenN_dropN in B.
    split; [lia|]. split.
    + rewrite nthN_take_drop in A by lia. exact A.
    + split; [lia|]. rewrite C. rewrite dropN_takeN, takeN_takeN, dropN_dropN.
      replace (N.min 32 (rlen - 6)) with 32 by lia. reflexivity.
  - destruct ((nthN data 0 =? 20) || (nthN data 0 =? 21) || (nthN data 0 =? 23)); [discriminate|].
    destruct (nthN data 0 =? 24); discriminate.
Qed.

Lemma extract_c_stable b t e : extract_c b = e -> e <> XNeedMore -> extract_c (b ++ t) = e.
Proof.
  unfold extract_c. intros H NE.
  destruct (lenN b <? 5) eqn:E1; [congruence|].
  assert (L5 : 5 <= lenN b) by lia.
  replace (lenN (b ++ t) <? 5) with false by (rewrite lenN_app; lia).
  rewrite (nthN_app_l b t 0) by lia.
  replace (takeN 2 (dropN 3 (b ++ t))) with (takeN 2 (dropN 3 b)).
  2:{ rewrite dropN_app_le by lia. rewrite takeN_app_le; [reflexivity|rewrite lenN_dropN; lia]. }
  set (rlen := be (takeN 2 (dropN 3 b))) in *.
  destruct (MAX_RECORD_LEN <? rlen); [exact H|].
  destruct (lenN b <? 5 + rlen) eqn:E2; [congruence|].
  replace (lenN (b ++ t) <? 5 + rlen) with false by (rewrite lenN_app; lia).
  replace (takeN rlen (dropN 5 (b ++ t))) with (takeN rlen (dropN 5 b)); [exact H|].
  rewrite dropN_app_le by lia. rewrite takeN_app_le; [reflexivity|rewrite lenN_dropN; lia].
Qed.

(* ---------- the wrapped stream yields the prebuffer, then the socket: nothing lost or reordered ---------- *)
Lemma replay_all_spec fuel : forall rooms pre pos arrivals,
  wfN arrivals -> Forall (fun r => 0 < r) rooms -> pos <= lenN pre ->
  (lenN pre - pos) + measure arrivals < N.of_nat fuel ->
  replay_all fuel rooms pre pos arrivals = dropN pos pre ++ concat arrivals.
Proof.
  induction fuel as [|f IH]; intros rooms pre pos arrivals W R P F; [lia|].
  cbn [replay_all]. set (room := match rooms with r :: _ => r | [] => 4096 end).
  assert (Hroom : 0 < room) by (unfold room; destruct rooms as [|r0 rs]; [lia|inversion R; assumption]).
  assert (Rt : Forall (fun r => 0 < r) (tl rooms)) by (destruct rooms; [constructor|inversion R; assumption]).
  unfold replay_read. destruct (pos <? lenN pre) eqn:E.
  - set (n := N.min (lenN pre - pos) room).
    assert (Hn : 0 < n) by (unfold n; lia).
    assert (NE : takeN n (dropN pos pre) <> []).
    { intros C. apply lenN_zero_nil in C. rewrite lenN_takeN, lenN_dropN in C. lia. }
    destruct (takeN n (dropN pos pre)) as [|x xs] eqn:T; [contradiction|].
    rewrite (IH (tl rooms) pre (pos + n) arrivals W Rt) by (unfold n; lia).
    rewrite <- T. rewrite app_assoc. f_equal.
    rewrite <- (dropN_dropN n pos pre). apply takeN_dropN.
  - destruct (take_readN room arrivals) as [r arr] eqn:T.
    destruct (take_readN_spec room arrivals r arr W Hroom T) as (E1 & L & W1 & Z & M).
    rewrite (dropN_all pos pre) by lia. cbn [app].
    destruct r as [|x r'].
    + assert (arrivals = []) by (apply Z; reflexivity). subst. reflexivity.
    + specialize (M ltac:(discriminate)).
      rewrite (IH (tl rooms) pre pos arr W1 Rt P) by lia.
      rewrite (dropN_all pos pre) by lia. cbn [app]. rewrite <- E1. reflexivity.
Qed.

(* ---------- the peek loop ends on its own: fuel beyond the amount of input is never used ---------- *)
Lemma peek_fuel_irrelevant extract MAXP CHUNK pf : 0 < CHUNK ->
  forall fuel1 fuel2 pre arrivals,
    wfN arrivals -> measure arrivals < N.of_nat fuel1 -> measure arrivals < N.of_nat fuel2 ->
    peek extract MAXP CHUNK pf fuel1 pre arrivals = peek extract MAXP CHUNK pf fuel2 pre arrivals.
Proof.
  intros C. induction fuel1 as [|f1 IH]; intros fuel2 pre arrivals W F1 F2; [lia|].
  destruct fuel2 as [|f2]; [lia|]. cbn [peek].
  destruct (negb pf && (MAXP <=? lenN pre)) eqn:G0; [reflexivity|].
  destruct (extract pre); try reflexivity.
  destruct (pf && (MAXP <=? lenN pre)) eqn:G1; [reflexivity|].
  assert (Room : lenN pre < MAXP).
  { destruct pf; cbn [negb andb] in G0, G1; lia. }
  destruct (take_readN (N.min CHUNK (MAXP - lenN pre)) arrivals) as [r arr] eqn:T.
  destruct (take_readN_spec (N.min CHUNK (MAXP - lenN pre)) arrivals r arr W ltac:(lia) T) as (E & L & W1 & Z & M).
  destruct r as [|x r']; [reflexivity|]. specialize (M ltac:(discriminate)).
  apply IH; [exact W1|lia|lia].
Qed.
