From Coq Require Import List NArith Bool Lia ZifyBool ZifyNat ZifyN.
From TT Require Import Lib.BytesL Model.ClientRandom Spec.TlsRecords.
Import ListNotations.
Open Scope N_scope.

Definition wfN (arrivals : list (list N)) : Prop := Forall (fun a => a <> []) arrivals.

Lemma lenN_pos {A} (l : list A) : l <> [] -> 0 < lenN l.
Proof. destruct l; [contradiction|]. intros _. rewrite lenN_cons. lia. Qed.

Lemma lenN_zero_nil {A} (l : list A) : lenN l = 0 <-> l = [].
Proof. split; [apply lenN_0|intros ->; reflexivity]. Qed.

Definition measure (arrivals : list (list N)) : N := lenN (concat arrivals) + lenN arrivals.

Lemma take_readN_spec limit arrivals r arr :
  wfN arrivals -> 0 < limit -> take_readN limit arrivals = (r, arr) ->
  r ++ concat arr = concat arrivals /\ lenN r <= limit /\ wfN arr
  /\ (r = [] <-> arrivals = []) /\ (r <> [] -> measure arr < measure arrivals).
Proof.
  intros W L H. unfold measure. destruct arrivals as [|a rest]; cbn [take_readN] in H.
  - inversion H; subst. cbn. repeat split; auto; try lia. intros C; contradiction.
  - inversion W as [|x l Ha Wr]; subst. pose proof (lenN_pos a Ha) as Pa.
    destruct (lenN a <=? limit) eqn:E.
    + inversion H; subst. cbn [concat]. repeat split; auto; try lia.
      * intros ->. contradiction.
      * discriminate.
      * intros _. rewrite lenN_app, lenN_cons. lia.
    + inversion H; subst. cbn [concat]. rewrite app_assoc, takeN_dropN. repeat split; auto.
      * rewrite lenN_takeN. lia.
      * constructor; [|exact Wr]. intros C. apply lenN_zero_nil in C. rewrite lenN_dropN in C. lia.
      * intros C. apply lenN_zero_nil in C. rewrite lenN_takeN in C. lia.
      * discriminate.
      * intros _. rewrite !lenN_app, !lenN_cons, lenN_dropN. lia.
Qed.

Section PeekProofs.
  Variable extract : list N -> extraction.
  Variables MAXP CHUNK : N.
  Hypothesis chunk_pos : 0 < CHUNK.

  (* nothing is lost, duplicated or reordered by peeking, whatever the parser says *)
  Lemma peek_transparent pf fuel : forall pre arrivals,
    wfN arrivals ->
    let '(cr, pre', arr') := peek extract MAXP CHUNK pf fuel pre arrivals in
    pre' ++ concat arr' = pre ++ concat arrivals /\ wfN arr'
    /\ (lenN pre <= MAXP -> lenN pre' <= MAXP).
  Proof.
    induction fuel as [|f IH]; intros pre arrivals W; cbn [peek]; [auto|].
    destruct (negb pf && (MAXP <=? lenN pre)); [auto|].
    destruct (extract pre); try (repeat split; auto; fail).
    destruct (pf && (MAXP <=? lenN pre)) eqn:Cap; [auto|].
    destruct (take_readN (N.min CHUNK (MAXP - lenN pre)) arrivals) as [r arr] eqn:T.
    destruct (N.eq_dec (N.min CHUNK (MAXP - lenN pre)) 0) as [Z|NZ].
    - (* no room: the read returns nothing *)
      rewrite Z in T. destruct arrivals as [|a rest]; cbn [take_readN] in T.
      + inversion T; subst. auto.
      + inversion W as [|x l Ha Wr]; subst.
        replace (lenN a <=? 0) with false in T by (pose proof (lenN_pos a Ha); lia).
        inversion T; subst. rewrite takeN_0. rewrite dropN_0. repeat split; auto.
    - destruct (take_readN_spec (N.min CHUNK (MAXP - lenN pre)) arrivals r arr W ltac:(lia) T) as (E & L & W1 & Z & M).
      destruct r as [|x r'].
      + rewrite <- E. cbn [app]. auto.
      + specialize (IH (pre ++ x :: r') arr W1).
        destruct (peek extract MAXP CHUNK pf f (pre ++ x :: r') arr) as [[cr pre'] arr'].
        destruct IH as (I1 & I2 & I3). rewrite I1, <- E, app_assoc. repeat split; auto.
        intros Hp. apply I3. rewrite lenN_app. lia.
  Qed.

  Hypothesis stable : forall b t e, extract b = e -> e <> XNeedMore -> extract (b ++ t) = e.

  (* the repaired loop: if some prefix of the stream within the limit yields the client random,
     that value is what peeking returns, for every segmentation *)
  Lemma peek_found fuel : forall pre arrivals k0 r,
    wfN arrivals -> lenN pre <= MAXP ->
    let s := pre ++ concat arrivals in
    k0 <= MAXP -> k0 <= lenN s -> extract (takeN k0 s) = XFound r ->
    (measure arrivals < N.of_nat fuel) ->
    fst (fst (peek extract MAXP CHUNK true fuel pre arrivals)) = Some r.
  Proof.
    induction fuel as [|f IH]; intros pre arrivals k0 r W Lp s K1 K2 X F; [lia|].
    cbn [peek negb andb].
    (* what the parser says on the prebuffer is consistent with what it says at k0 *)
    assert (Cons : forall e, extract pre = e -> e <> XNeedMore -> e = XFound r).
    { intros e He Ne. destruct (N.le_gt_cases k0 (lenN pre)) as [Le|Gt].
      - assert (P : pre = takeN k0 s ++ dropN k0 pre).
        { unfold s. rewrite takeN_app_le by exact Le. symmetry. apply takeN_dropN. }
        rewrite P in He. rewrite (stable _ (dropN k0 pre) _ X ltac:(discriminate)) in He. congruence.
      - assert (P : takeN k0 s = pre ++ takeN (k0 - lenN pre) (concat arrivals)).
        { unfold s. apply takeN_app_ge. lia. }
        rewrite P in X. rewrite (stable _ _ _ He Ne) in X. exact X. }
    destruct (extract pre) as [r'| | |] eqn:E.
    - specialize (Cons _ eq_refl ltac:(discriminate)). inversion Cons. reflexivity.
    - (* more data needed: the prebuffer is shorter than k0 *)
      assert (Lt : lenN pre < k0).
      { destruct (N.le_gt_cases k0 (lenN pre)) as [Le|Gt]; [|exact Gt]. exfalso.
        assert (P : pre = takeN k0 s ++ dropN k0 pre).
        { unfold s. rewrite takeN_app_le by exact Le. symmetry. apply takeN_dropN. }
        rewrite P in E. rewrite (stable _ (dropN k0 pre) _ X ltac:(discriminate)) in E. discriminate. }
      replace (MAXP <=? lenN pre) with false by lia.
      destruct (take_readN (N.min CHUNK (MAXP - lenN pre)) arrivals) as [rd arr] eqn:T.
      destruct (take_readN_spec (N.min CHUNK (MAXP - lenN pre)) arrivals rd arr W ltac:(lia) T) as (E1 & L & W1 & Z & M).
      assert (NE : rd <> []).
      { intros C. apply Z in C. subst arrivals. unfold s in K2. cbn in K2. rewrite app_nil_r in K2. lia. }
      destruct rd as [|x rd']; [contradiction|].
      apply (IH (pre ++ x :: rd') arr k0 r); auto.
      + rewrite lenN_app. lia.
      + rewrite <- app_assoc, E1. exact K2.
      + rewrite <- app_assoc, E1. exact X.
      + specialize (M ltac:(discriminate)). lia.
    - specialize (Cons _ eq_refl ltac:(discriminate)). discriminate.
    - specialize (Cons _ eq_refl ltac:(discriminate)). discriminate.
  Qed.
End PeekProofs.

(* ---------- the modelled record / ClientHello layout ---------- *)
Lemma nthN_app_l (a b : list N) i : i < lenN a -> nthN (a ++ b) i = nthN a i.
Proof. intros H. unfold nthN. apply app_nth1. unfold lenN in H. lia. Qed.

Lemma nth_skipn_N (l : list N) : forall k i, nth i (skipn k l) 0 = nth (k + i) l 0.
Proof.
  induction l as [|x l IH]; intros k i.
  - rewrite skipn_nil. destruct i, k; reflexivity.
  - destruct k as [|k]; [reflexivity|]. cbn [skipn Nat.add nth]. apply IH.
Qed.

Lemma nth_firstn_N (l : list N) : forall n i, (i < n)%nat -> nth i (firstn n l) 0 = nth i l 0.
Proof.
  induction l as [|x l IH]; intros n i H.
  - rewrite firstn_nil. reflexivity.
  - destruct n as [|n]; [lia|]. destruct i as [|i]; [reflexivity|]. cbn [firstn nth]. apply IH. lia.
Qed.

Lemma nthN_take_drop (l : list N) k n i : i < n -> nthN (takeN n (dropN k l)) i = nthN l (k + i).
Proof.
  intros H. unfold nthN, takeN, dropN. rewrite nth_firstn_N by lia. rewrite nth_skipn_N. f_equal. lia.
Qed.

(* ---- one round of the record loop ---- *)
Lemma takeN_app_keep {A} k (a b : list A) : k <= lenN a -> takeN k (a ++ b) = takeN k a.
Proof. apply takeN_app_le. Qed.

Lemma frag_ext rlen (b t : list N) :
  5 <= lenN b ->
  exists x, takeN rlen (dropN 5 (b ++ t)) = takeN rlen (dropN 5 b) ++ x
            /\ (rlen <= lenN (dropN 5 b) -> x = []).
Proof.
  intros L5. rewrite dropN_app_le by lia.
  destruct (N.le_gt_cases rlen (lenN (dropN 5 b))) as [H|H].
  - exists []. rewrite takeN_app_le by exact H. rewrite app_nil_r. split; [reflexivity|intros _; reflexivity].
  - exists (takeN (rlen - lenN (dropN 5 b)) t). split; [|intros H2; lia].
    rewrite takeN_app_ge by lia. rewrite (takeN_all rlen (dropN 5 b)) by lia. reflexivity.
Qed.

Lemma header_same (b t : list N) :
  5 <= lenN b ->
  nthN (b ++ t) 0 = nthN b 0 /\ be (takeN 2 (dropN 3 (b ++ t))) = be (takeN 2 (dropN 3 b)).
Proof.
  intros L5. split; [apply nthN_app_l; lia|].
  rewrite dropN_app_le by lia. rewrite takeN_app_le; [reflexivity|rewrite lenN_dropN; lia].
Qed.

Lemma nthN_takeN_0 k (l : list N) : 0 < k -> nthN (takeN k l) 0 = nthN l 0.
Proof. intros H. unfold nthN, takeN. apply nth_firstn_N. lia. Qed.

Lemma record_step_done b t acc e :
  record_step b acc = RDone e -> e <> XNeedMore -> record_step (b ++ t) acc = RDone e.
Proof.
  unfold record_step. intros H NE.
  destruct (lenN b <? 5) eqn:E1; [inversion H; congruence|].
  assert (L5 : 5 <= lenN b) by lia.
  replace (lenN (b ++ t) <? 5) with false by (rewrite lenN_app; lia).
  destruct (header_same b t L5) as [H0 HL]. rewrite H0, HL.
  set (rlen := be (takeN 2 (dropN 3 b))) in *.
  destruct (negb (nthN b 0 =? 22) || (rlen =? 0) || (MAX_RECORD_LEN <? rlen)) eqn:E2; [exact H|].
  destruct (frag_ext rlen b t L5) as (x & FX & Xnil). rewrite FX.
  set (frag := takeN rlen (dropN 5 b)) in *.
  set (acc1 := takeN NEEDED (acc ++ frag)) in *.
  assert (Pre : forall k, k <= lenN acc1 -> k <= 38 -> takeN k (takeN NEEDED (acc ++ frag ++ x)) = takeN k acc1).
  { intros k Hk Hk2. unfold acc1 in *. rewrite !takeN_takeN. unfold NEEDED in *.
    replace (N.min k 38) with k by lia. rewrite app_assoc. apply takeN_app_le.
    rewrite lenN_takeN in Hk. lia. }
  destruct ((0 <? lenN acc1) && negb (nthN acc1 0 =? 1)) eqn:E3.
  - (* the first gathered byte is not a ClientHello type: it stays what it is *)
    apply andb_prop in E3. destruct E3 as [Epos Ene].
    assert (N1 : nthN (takeN NEEDED (acc ++ frag ++ x)) 0 = nthN acc1 0).
    { rewrite <- (nthN_takeN_0 1 (takeN NEEDED (acc ++ frag ++ x))) by lia.
      rewrite (Pre 1) by (unfold NEEDED; lia). apply nthN_takeN_0. lia. }
    assert (P1 : 0 < lenN (takeN NEEDED (acc ++ frag ++ x))).
    { unfold acc1 in Epos. rewrite lenN_takeN, !lenN_app in *. unfold NEEDED in *. lia. }
    rewrite N1, Ene. replace (0 <? lenN (takeN NEEDED (acc ++ frag ++ x))) with true by lia. exact H.
  - destruct (NEEDED <=? lenN acc1) eqn:E4.
    + (* enough bytes: they are the same 38 bytes *)
      assert (Full : takeN NEEDED (acc ++ frag ++ x) = acc1).
      { assert (L38 : lenN acc1 = 38) by (unfold acc1 in *; rewrite lenN_takeN in *; unfold NEEDED in *; lia).
        rewrite <- (takeN_all NEEDED (takeN NEEDED (acc ++ frag ++ x))).
        2:{ rewrite lenN_takeN. unfold NEEDED. lia. }
        rewrite (Pre NEEDED) by (unfold NEEDED; lia). apply takeN_all. unfold NEEDED. lia. }
      rewrite Full, E3, E4. exact H.
    + destruct (lenN frag <? rlen) eqn:E5; [inversion H; congruence|discriminate H].
Qed.

Lemma record_step_next b t acc rest acc' :
  record_step b acc = RNext rest acc' -> record_step (b ++ t) acc = RNext (rest ++ t) acc'.
Proof.
  unfold record_step. intros H.
  destruct (lenN b <? 5) eqn:E1; [discriminate|].
  assert (L5 : 5 <= lenN b) by lia.
  replace (lenN (b ++ t) <? 5) with false by (rewrite lenN_app; lia).
  destruct (header_same b t L5) as [H0 HL]. rewrite H0, HL.
  set (rlen := be (takeN 2 (dropN 3 b))) in *.
  destruct (negb (nthN b 0 =? 22) || (rlen =? 0) || (MAX_RECORD_LEN <? rlen)) eqn:E2; [discriminate|].
  destruct (frag_ext rlen b t L5) as (x & FX & Xnil).
  set (frag := takeN rlen (dropN 5 b)) in *.
  destruct ((0 <? lenN (takeN NEEDED (acc ++ frag))) && negb (nthN (takeN NEEDED (acc ++ frag)) 0 =? 1)) eqn:E3; [discriminate|].
  destruct (NEEDED <=? lenN (takeN NEEDED (acc ++ frag))) eqn:E4; [discriminate|].
  destruct (lenN frag <? rlen) eqn:E5; [discriminate|].
  assert (Complete : rlen <= lenN (dropN 5 b)).
  { unfold frag in E5. rewrite lenN_takeN in E5. lia. }
  rewrite FX, (Xnil Complete), app_nil_r. fold frag. rewrite E3, E4, E5.
  inversion H; subst. f_equal. rewrite dropN_app_le; [reflexivity|]. rewrite lenN_dropN in Complete. lia.
Qed.

Lemma reassemble_more_fuel f : forall d a e,
  reassemble f d a = e -> e <> XNeedMore -> reassemble (S f) d a = e.
Proof.
  induction f as [|f IH]; intros d a e H NE; [cbn in H; congruence|].
  cbn [reassemble] in H |- *. destruct (record_step d a) as [e0|rest acc']; [exact H|].
  apply IH; assumption.
Qed.

Lemma reassemble_fuel_le f f' d a e :
  (f <= f')%nat -> reassemble f d a = e -> e <> XNeedMore -> reassemble f' d a = e.
Proof.
  intros L. induction L as [|m L IH]; intros H NE; [exact H|]. apply reassemble_more_fuel; auto.
Qed.

Lemma reassemble_stable f : forall b t acc e,
  reassemble f b acc = e -> e <> XNeedMore -> reassemble f (b ++ t) acc = e.
Proof.
  induction f as [|f IH]; intros b t acc e H NE; [cbn in H; congruence|].
  cbn [reassemble] in H |- *. destruct (record_step b acc) as [e0|rest acc'] eqn:S.
  - subst e0. rewrite (record_step_done b t acc e S NE). reflexivity.
  - rewrite (record_step_next b t acc rest acc' S). apply IH; assumption.
Qed.

Lemma extract_c_stable b t e : extract_c b = e -> e <> XNeedMore -> extract_c (b ++ t) = e.
Proof.
  unfold extract_c. intros H NE.
  apply (reassemble_fuel_le (S (length b))); [rewrite app_length; lia| |exact NE].
  apply reassemble_stable; assumption.
Qed.

(* a further round always finds the data at least six bytes shorter: the fuel of extract_c is never exhausted *)
Lemma record_step_shrinks d a rest a' : record_step d a = RNext rest a' -> (length rest + 6 <= length d)%nat.
Proof.
  unfold record_step. destruct (lenN d <? 5) eqn:E1; [discriminate|].
  set (rlen := be (takeN 2 (dropN 3 d))).
  destruct (negb (nthN d 0 =? 22) || (rlen =? 0) || (MAX_RECORD_LEN <? rlen)) eqn:E2; [discriminate|].
  set (frag := takeN rlen (dropN 5 d)).
  destruct ((0 <? lenN (takeN NEEDED (a ++ frag))) && negb (nthN (takeN NEEDED (a ++ frag)) 0 =? 1)); [discriminate|].
  destruct (NEEDED <=? lenN (takeN NEEDED (a ++ frag))); [discriminate|].
  destruct (lenN frag <? rlen) eqn:E5; [discriminate|]. intros H. inversion H; subst.
  apply orb_false_elim in E2. destruct E2 as [E2 _]. apply orb_false_elim in E2. destruct E2 as [_ E0].
  unfold frag in E5. rewrite lenN_takeN, lenN_dropN in E5.
  assert (L : lenN (dropN (5 + rlen) d) + 6 <= lenN d) by (rewrite lenN_dropN; lia).
  unfold lenN in L. lia.
Qed.

Lemma reassemble_fuel f : forall f' d a,
  (length d < f)%nat -> (length d < f')%nat -> reassemble f d a = reassemble f' d a.
Proof.
  induction f as [|f IH]; intros f' d a L L'; [lia|]. destruct f' as [|f']; [lia|].
  cbn [reassemble]. destruct (record_step d a) as [e|rest a'] eqn:S; [reflexivity|].
  pose proof (record_step_shrinks d a rest a' S). apply IH; lia.
Qed.

(* exactness: a value is reported only when the handshake byte stream of the leading records starts with a ClientHello
   and has its first 38 bytes, and it is the random field of that message *)
Lemma hs_same_nth (l : list N) i : nthN l i = TlsRecords.byte_at l i.
Proof. reflexivity. Qed.

Lemma reassemble_found f : forall d a r,
  lenN a < 38 ->
  reassemble f d a = XFound r ->
  let h := a ++ TlsRecords.hs_stream f d in
  nthN h 0 = 1 /\ 38 <= lenN h /\ r = takeN 32 (dropN 6 h).
Proof.
  induction f as [|f IH]; intros d a r La H; [cbn in H; discriminate|].
  cbn [reassemble] in H. cbn [TlsRecords.hs_stream]. unfold record_step in H.
  destruct (lenN d <? 5) eqn:E1; [discriminate|].
  change (TlsRecords.byte_at d 0) with (nthN d 0).
  set (rlen := be (takeN 2 (dropN 3 d))) in *.
  destruct (nthN d 0 =? 22) eqn:E22; cbn [negb orb] in H |- *; [|discriminate].
  destruct (rlen =? 0) eqn:E0; cbn [orb] in H; [discriminate|].
  destruct (MAX_RECORD_LEN <? rlen) eqn:EM; [discriminate|].
  change (TlsRecords.MAX_FRAGMENT <? rlen) with (MAX_RECORD_LEN <? rlen). rewrite EM. cbn [orb].
  set (frag := takeN rlen (dropN 5 d)) in *.
  set (acc1 := takeN NEEDED (a ++ frag)) in *.
  destruct ((0 <? lenN acc1) && negb (nthN acc1 0 =? 1)) eqn:E3; [discriminate|].
  destruct (NEEDED <=? lenN acc1) eqn:E4.
  - inversion H; subst r; clear H. cbv zeta.
    set (tl := if lenN frag <? rlen then [] else TlsRecords.hs_stream f (dropN (5 + rlen) d)).
    assert (L38 : 38 <= lenN (a ++ frag)).
    { unfold acc1 in E4. rewrite lenN_takeN in E4. unfold NEEDED in *. lia. }
    assert (A1 : acc1 = takeN 38 (a ++ frag ++ tl)).
    { unfold acc1, NEEDED. rewrite app_assoc. symmetry. apply takeN_app_le. exact L38. }
    assert (P : 0 < lenN acc1) by (unfold acc1; rewrite lenN_takeN; unfold NEEDED; lia).
    replace (0 <? lenN acc1) with true in E3 by lia. cbn [andb] in E3. apply negb_false_iff in E3.
    split; [|split].
    + rewrite <- (nthN_takeN_0 38) by lia. rewrite <- A1. apply N.eqb_eq. exact E3.
    + rewrite !lenN_app in *. lia.
    + rewrite A1. rewrite dropN_takeN, takeN_takeN. replace (N.min 32 (38 - 6)) with 32 by lia. reflexivity.
  - destruct (lenN frag <? rlen) eqn:E5; [discriminate|].
    assert (Short : lenN (a ++ frag) < 38).
    { unfold acc1 in E4. rewrite lenN_takeN in E4. unfold NEEDED in *. lia. }
    assert (A1 : acc1 = a ++ frag) by (unfold acc1, NEEDED; apply takeN_all; lia).
    rewrite A1 in H. specialize (IH _ _ _ Short H). cbv zeta in IH |- *.
    rewrite <- app_assoc in IH. exact IH.
Qed.

Lemma reassemble_complete f : forall d a,
  lenN a < 38 ->
  let h := a ++ TlsRecords.hs_stream f d in
  38 <= lenN h -> nthN h 0 = 1 ->
  reassemble f d a = XFound (takeN 32 (dropN 6 h)).
Proof.
  induction f as [|f IH]; intros d a La h L38 H1.
  { unfold h in L38. cbn [TlsRecords.hs_stream] in L38. rewrite app_nil_r in L38. lia. }
  unfold h in *. clear h. cbn [TlsRecords.hs_stream] in L38, H1 |- *. cbn [reassemble]. unfold record_step.
  destruct (lenN d <? 5) eqn:E1; [rewrite app_nil_r in L38; lia|].
  change (TlsRecords.byte_at d 0) with (nthN d 0) in *.
  set (rlen := be (takeN 2 (dropN 3 d))) in *.
  destruct (nthN d 0 =? 22) eqn:E22; cbn [negb orb] in *; [|rewrite app_nil_r in L38; lia].
  change (TlsRecords.MAX_FRAGMENT <? rlen) with (MAX_RECORD_LEN <? rlen) in *.
  destruct ((rlen =? 0) || (MAX_RECORD_LEN <? rlen)) eqn:E0; [rewrite app_nil_r in L38; lia|].
  set (frag := takeN rlen (dropN 5 d)) in *.
  set (tl := if lenN frag <? rlen then [] else TlsRecords.hs_stream f (dropN (5 + rlen) d)) in *.
  set (acc1 := takeN NEEDED (a ++ frag)).
  assert (Pre : acc1 = takeN (lenN acc1) (a ++ frag ++ tl)).
  { unfold acc1, NEEDED. rewrite lenN_takeN, app_assoc.
    destruct (N.le_gt_cases 38 (lenN (a ++ frag))) as [G|G].
    - replace (N.min 38 (lenN (a ++ frag))) with 38 by lia. symmetry. apply takeN_app_le. exact G.
    - replace (N.min 38 (lenN (a ++ frag))) with (lenN (a ++ frag)) by lia.
      rewrite takeN_exact. apply takeN_all. lia. }
  assert (First : 0 < lenN acc1 -> nthN acc1 0 = 1).
  { intros P. rewrite Pre. rewrite nthN_takeN_0 by exact P. exact H1. }
  destruct (0 <? lenN acc1) eqn:EP.
  2:{ cbn [andb]. destruct (NEEDED <=? lenN acc1) eqn:E4; [unfold NEEDED in E4; lia|].
      (* nothing gathered yet although the fragment is not empty: impossible *)
      exfalso. apply orb_false_elim in E0. destruct E0 as [E0 _].
      unfold acc1, NEEDED in EP. rewrite lenN_takeN, lenN_app in EP.
      assert (lenN frag = 0) by lia. assert (lenN a = 0) by lia.
      unfold frag in H. rewrite lenN_takeN, lenN_dropN in H.
      destruct (lenN frag <? rlen) eqn:E5.
      - unfold tl in L38. rewrite !lenN_app, lenN_nil in L38. lia.
      - unfold frag in E5. rewrite lenN_takeN, lenN_dropN in E5. lia. }
  rewrite (First ltac:(lia)). cbn [N.eqb negb andb]. change (1 =? 1) with true. cbn [negb andb].
  destruct (NEEDED <=? lenN acc1) eqn:E4.
  - f_equal. assert (L : lenN acc1 = 38) by (unfold acc1 in *; rewrite lenN_takeN in *; unfold NEEDED in *; lia).
    rewrite Pre, L. rewrite dropN_takeN, takeN_takeN. replace (N.min 32 (38 - 6)) with 32 by lia. reflexivity.
  - assert (Short : lenN (a ++ frag) < 38).
    { unfold acc1 in E4. rewrite lenN_takeN in E4. unfold NEEDED in *. lia. }
    assert (A1 : acc1 = a ++ frag) by (unfold acc1, NEEDED; apply takeN_all; lia).
    destruct (lenN frag <? rlen) eqn:E5.
    + unfold tl in L38. rewrite app_nil_r in L38. lia.
    + rewrite A1. unfold tl in *. rewrite app_assoc in L38, H1 |- *. apply IH; assumption.
Qed.

Lemma extract_c_complete data r :
  TlsRecords.client_hello_random (TlsRecords.handshake_bytes data) = Some r -> extract_c data = XFound r.
Proof.
  unfold extract_c, TlsRecords.handshake_bytes, TlsRecords.client_hello_random. intros H.
  destruct ((38 <=? lenN (hs_stream (S (length data)) data)) && (TlsRecords.byte_at (hs_stream (S (length data)) data) 0 =? 1)) eqn:E; [|discriminate].
  apply andb_prop in E. destruct E as [E1 E2]. inversion H; subst r.
  assert (L0 : lenN (@nil N) < 38) by (rewrite lenN_nil; lia).
  apply (reassemble_complete (S (length data)) data [] L0); cbn [app].
  - lia.
  - apply N.eqb_eq. exact E2.
Qed.

Lemma extract_c_found data r :
  extract_c data = XFound r ->
  TlsRecords.client_hello_random (TlsRecords.handshake_bytes data) = Some r.
Proof.
  unfold extract_c, TlsRecords.handshake_bytes, TlsRecords.client_hello_random. intros H.
  assert (L0 : lenN (@nil N) < 38) by (rewrite lenN_nil; lia).
  destruct (reassemble_found _ _ _ _ L0 H) as (A & B & C). cbn [app] in A, B, C.
  change (TlsRecords.byte_at (hs_stream (S (length data)) data) 0) with (nthN (hs_stream (S (length data)) data) 0).
  rewrite A. replace (38 <=? _) with true by lia. cbn [andb N.eqb]. rewrite C. reflexivity.
Qed.

(* ---------- the wrapped stream yields the prebuffer, then the socket: nothing lost or reordered ---------- *)
Lemma replay_all_spec fuel : forall rooms pre pos arrivals,
  wfN arrivals -> Forall (fun r => 0 < r) rooms -> pos <= lenN pre ->
  (lenN pre - pos) + measure arrivals < N.of_nat fuel ->
  replay_all fuel rooms pre pos arrivals = dropN pos pre ++ concat arrivals.
Proof.
  induction fuel as [|f IH]; intros rooms pre pos arrivals W R P F; [lia|].
  cbn [replay_all]. set (room := match rooms with r :: _ => r | [] => 4096 end).
  assert (Hroom : 0 < room) by (unfold room; destruct rooms as [|r0 rs]; [lia|inversion R; assumption]).
  assert (Rt : Forall (fun r => 0 < r) (tl rooms)) by (destruct rooms; [constructor|inversion R; assumption]).
  unfold replay_read. destruct (pos <? lenN pre) eqn:E.
  - set (n := N.min (lenN pre - pos) room).
    assert (Hn : 0 < n) by (unfold n; lia).
    assert (NE : takeN n (dropN pos pre) <> []).
    { intros C. apply lenN_zero_nil in C. rewrite lenN_takeN, lenN_dropN in C. lia. }
    destruct (takeN n (dropN pos pre)) as [|x xs] eqn:T; [contradiction|].
    rewrite (IH (tl rooms) pre (pos + n) arrivals W Rt) by (unfold n; lia).
    rewrite <- T. rewrite app_assoc. f_equal.
    rewrite <- (dropN_dropN n pos pre). apply takeN_dropN.
  - destruct (take_readN room arrivals) as [r arr] eqn:T.
    destruct (take_readN_spec room arrivals r arr W Hroom T) as (E1 & L & W1 & Z & M).
    rewrite (dropN_all pos pre) by lia. cbn [app].
    destruct r as [|x r'].
    + assert (arrivals = []) by (apply Z; reflexivity). subst. reflexivity.
    + specialize (M ltac:(discriminate)).
      rewrite (IH (tl rooms) pre pos arr W1 Rt P) by lia.
      rewrite (dropN_all pos pre) by lia. cbn [app]. rewrite <- E1. reflexivity.
Qed.

(* ---------- the peek loop ends on its own: fuel beyond the amount of input is never used ---------- *)
Lemma peek_fuel_irrelevant extract MAXP CHUNK pf : 0 < CHUNK ->
  forall fuel1 fuel2 pre arrivals,
    wfN arrivals -> measure arrivals < N.of_nat fuel1 -> measure arrivals < N.of_nat fuel2 ->
    peek extract MAXP CHUNK pf fuel1 pre arrivals = peek extract MAXP CHUNK pf fuel2 pre arrivals.
Proof.
  intros C. induction fuel1 as [|f1 IH]; intros fuel2 pre arrivals W F1 F2; [lia|].
  destruct fuel2 as [|f2]; [lia|]. cbn [peek].
  destruct (negb pf && (MAXP <=? lenN pre)) eqn:G0; [reflexivity|].
  destruct (extract pre); try reflexivity.
  destruct (pf && (MAXP <=? lenN pre)) eqn:G1; [reflexivity|].
  assert (Room : lenN pre < MAXP).
  { destruct pf; cbn [negb andb] in G0, G1; lia. }
  destruct (take_readN (N.min CHUNK (MAXP - lenN pre)) arrivals) as [r arr] eqn:T.
  destruct (take_readN_spec (N.min CHUNK (MAXP - lenN pre)) arrivals r arr W ltac:(lia) T) as (E & L & W1 & Z & M).
  destruct r as [|x r']; [reflexivity|]. specialize (M ltac:(discriminate)).
  apply IH; [exact W1|lia|lia].
Qed.
