From Coq Require Import List NArith Bool.
From TT Require Import Lib.BytesL Model.ConnectPolicy Model.Rules Model.RulesLoader Proofs.RulesProofs.
Import ListNotations.
Open Scope N_scope.

Lemma somes_map_Some {A} (l : list A) : somes (map Some l) = l.
Proof. induction l as [|x l IH]; cbn; [reflexivity|]. f_equal. exact IH. Qed.

Lemma somes_app {A} (a b : list (option A)) : somes (a ++ b) = somes a ++ somes b.
Proof. unfold somes. apply flat_map_app. Qed.

(* the two spellings of one list of rules load to the same rules *)
Lemma spelling_does_not_matter_proof l : load true (RArray (map Some l)) = load true (RTables l).
Proof. unfold load, tables. rewrite somes_map_Some. reflexivity. Qed.

(* file order is kept and nothing is invented: the loaded list of a file is the loaded list of its first part followed by
   that of the rest, and a single table loads to at most one rule *)
Lemma load_in_file_order_proof a b : load true (RTables (a ++ b)) = load true (RTables a) ++ load true (RTables b).
Proof. unfold load, tables. rewrite map_app, somes_app. reflexivity. Qed.

(* a condition of the wrong TOML type makes a rule that matches nothing, whatever else it says *)
Lemma wrong_type_never_matches_proof pc pp t x ip cr :
  pc QUESTION = CBad -> pp QUESTION = PBad ->
  load_table t = Some x -> t_cidr t = Some TOther \/ t_prefix t = Some TOther ->
  rule_matches (to_rule pc pp x) ip cr = false.
Proof.
  intros Hc Hp L W. apply bad_fields_never_match.
  unfold load_table in L. destruct (t_action t) as [[a|]|]; try discriminate.
  destruct (list_eqb N.eqb a ALLOW_S); [|destruct (list_eqb N.eqb a DENY_S); [|discriminate]];
    inversion L; subst x; unfold to_rule; cbn [l_cidr l_prefix r_cidr r_pat];
    (destruct W as [W|W]; rewrite W; cbn [condition]; [left; exact Hc|right; exact Hp]).
Qed.

(* as found: the inline spelling of "deny everyone" loaded to no rules at all *)
Lemma inline_spelling_was_ignored :
  let deny_all := {| t_cidr := None; t_prefix := None; t_action := Some (TStr DENY_S) |} in
  load false (RArray [Some deny_all]) = [] /\ load true (RArray [Some deny_all]) = load true (RTables [deny_all])
  /\ length (load true (RTables [deny_all])) = 1%nat.
Proof. vm_compute. repeat split; reflexivity. Qed.
