(* Proofs about Model/UdpCodec.v: field-level characterisation of decode_chunk_once, chunk-split
   compositionality, totality (no Panic, enough fuel), equality with the whole-stream spec. *)
From Coq Require Import List NArith ZArith Bool Lia ZifyBool ZifyNat ZifyN.
From TT Require Import Lib.Res Lib.BytesL Lib.Utf8 Generated.Consts Model.UdpCodec Spec.UdpWire.
Import ListNotations.
Open Scope N_scope.

Ltac consts := unfold HDR, UDPPKT_IN_FIXED_HEADER_NO_LENGTH_SIZE, UDPPKT_LENGTH_SIZE,
  MAX_UDP_IN_RECORD_SIZE, UDPPKT_OUT_FIXED_HEADER_NO_LENGTH_SIZE, IPV4_PADDING_WIRE_LENGTH in *.

(* ---------- well-formed decoder states (the asserts of the Rust code hold) ---------- *)

Definition WF (d : dec) : Prop :=
  match st d with
  | SLength => lenN (buf d) < 4
  | SFixed => lenN (buf d) < 37 /\ 37 <= total d
  | SAppName n =>
    (lenN (buf d) < n \/ (n = 0 /\ buf d = [])) /\ 37 + n <= total d
    /\ src d <> None /\ dst d <> None
  | SPayload n => (lenN (buf d) < n \/ (n = 0 /\ buf d = [])) /\ src d <> None /\ dst d <> None
  | SDropping n => buf d = []
  end.

(* bytes still needed to complete the current field *)
Definition rem (d : dec) : N :=
  match st d with
  | SLength => 4 - lenN (buf d)
  | SFixed => 37 - lenN (buf d)
  | SAppName n => n - lenN (buf d)
  | SPayload n => n - lenN (buf d)
  | SDropping n => n
  end.

(* consuming x, strictly fewer bytes than needed *)
Definition absorb (d : dec) (x : list N) : dec :=
  match st d with
  | SDropping n => set_st d (SDropping (n - lenN x))
  | _ => set_buf d (buf d ++ x)
  end.

Definition after_header (d : dec) (header : list N) : dec :=
  let s := parse_sockaddr (takeN 18 header) in
  let t := parse_sockaddr (takeN 18 (dropN 18 header)) in
  let app_len := be (takeN 1 (dropN 36 header)) in
  let d2 := set_addrs (set_buf d []) s t in
  if MAX_UDP_IN_RECORD_SIZE + app_len <? total d2 then set_st d2 (SDropping (total d2 - 37))
  else if 37 + app_len <=? total d2 then set_st d2 (SAppName app_len)
  else set_st d2 (SDropping (total d2 - 37)).

(* the field is complete: f = all bytes of the field *)
Definition complete (d : dec) (f : list N) : dec * option dgram :=
  match st d with
  | SLength =>
    let t := be f in
    (set_st (set_total (set_buf d []) t) (if 37 <=? t then SFixed else SDropping t), None)
  | SFixed => (after_header d f, None)
  | SAppName n =>
    let d1 := set_buf d [] in
    let pl := total d - 37 - n in
    (if utf8_valid f then set_st (set_app d1 (Some f)) (SPayload pl) else set_st d1 (SDropping pl),
     None)
  | SPayload n =>
    (set_st (set_app (set_buf d []) None) SLength,
     match src d, dst d with
     | Some s, Some t => Some {| d_src := s; d_dst := t; d_app := app d; d_payload := f |}
     | _, _ => None
     end)
  | SDropping n => (set_st d SLength, None)
  end.

Definition finish (d : dec) (x : list N) : dec * option dgram :=
  match st d with
  | SDropping _ => complete d []
  | _ => complete d (buf d ++ x)
  end.

Lemma dec_eta d : {| st := st d; total := total d; buf := buf d; src := src d; dst := dst d;
                     app := app d |} = d.
Proof. destruct d; reflexivity. Qed.

Lemma is_nil_spec {A} (l : list A) : is_nil l = true <-> l = [].
Proof. destruct l; cbn; split; congruence. Qed.

Lemma is_nil_lenN {A} (l : list A) : is_nil l = (lenN l =? 0).
Proof. destruct l; [reflexivity|]. rewrite lenN_cons. cbn [is_nil]. lia. Qed.

Lemma buffered_read_short d x cap :
  (lenN (buf d) < cap) -> lenN (buf d) + lenN x < cap ->
  buffered_read d x cap = Ok (set_buf d (buf d ++ x), None).
Proof.
  intros Hb Hs. unfold buffered_read.
  destruct (negb _) eqn:E1; [lia|].
  destruct (cap <? lenN (buf d)) eqn:E2; [lia|].
  replace (N.min (lenN x) (cap - lenN (buf d))) with (lenN x) by lia.
  rewrite takeN_all, dropN_all by lia.
  destruct (lenN (buf d ++ x) <? cap) eqn:E3.
  - reflexivity.
  - rewrite lenN_app in E3. lia.
Qed.

Lemma buffered_read_enough d x cap :
  (lenN (buf d) < cap \/ (cap = 0 /\ buf d = [])) -> cap <= lenN (buf d) + lenN x ->
  buffered_read d x cap =
  Ok (set_buf d [], Some (buf d ++ takeN (cap - lenN (buf d)) x, dropN (cap - lenN (buf d)) x)).
Proof.
  intros Hb Hs. unfold buffered_read.
  destruct (negb _) eqn:E1.
  { destruct Hb as [Hb|[Hb Hb']]; [lia|]. subst cap. cbn in E1. lia. }
  destruct (cap <? lenN (buf d)) eqn:E2.
  { destruct Hb as [Hb|[Hb Hb']]; [lia|]. rewrite Hb' in E2. subst cap. cbn in E2. lia. }
  assert (Hle : lenN (buf d) <= cap) by lia.
  replace (N.min (lenN x) (cap - lenN (buf d))) with (cap - lenN (buf d)) by lia.
  destruct (lenN (buf d ++ takeN (cap - lenN (buf d)) x) <? cap) eqn:E3.
  - rewrite lenN_app, lenN_takeN in E3. lia.
  - reflexivity.
Qed.

Lemma once_short d x :
  WF d -> lenN x < rem d -> once d x = Ok (absorb d x, None, []).
Proof.
  intros W Hs. unfold once, WF, rem, absorb in *. destruct (st d) eqn:Est.
  - unfold process_client_length. consts.
    rewrite buffered_read_short by lia. reflexivity.
  - unfold process_client_fixed_header. consts.
    rewrite buffered_read_short by lia. reflexivity.
  - unfold process_client_app_name.
    rewrite buffered_read_short by lia. reflexivity.
  - unfold process_client_payload.
    destruct W as [W [W1 W2]].
    destruct (is_nil (buf d) && (n <=? lenN x)) eqn:E1.
    { apply andb_true_iff in E1. lia. }
    destruct (n <? lenN (buf d)) eqn:E2; [lia|].
    replace (N.min (lenN x) (n - lenN (buf d))) with (lenN x) by lia.
    rewrite takeN_all, dropN_all by lia.
    destruct (lenN (buf d ++ x) <? n) eqn:E3; [reflexivity|].
    rewrite lenN_app in E3. lia.
  - replace (N.min n (lenN x)) with (lenN x) by lia.
    rewrite dropN_all by lia.
    destruct (n <=? lenN x) eqn:E; [lia|]. reflexivity.
Qed.

Lemma once_enough d x :
  WF d -> rem d <= lenN x ->
  once d x = Ok (fst (finish d (takeN (rem d) x)), snd (finish d (takeN (rem d) x)),
                 dropN (rem d) x).
Proof.
  intros W Hs. unfold once, WF, rem, finish, complete in *. destruct (st d) eqn:Est.
  - unfold process_client_length. consts.
    rewrite buffered_read_enough by (solve [assumption | lia | left; lia]). cbn [bind fst snd]. reflexivity.
  - unfold process_client_fixed_header. consts.
    rewrite buffered_read_enough by (solve [assumption | lia | left; lia]). cbn [bind fst snd].
    destruct (lenN (buf d ++ takeN (37 - lenN (buf d)) x) <? 37) eqn:E1.
    { rewrite lenN_app, lenN_takeN in E1. lia. }
    unfold after_header. consts.
    set (hd := buf d ++ takeN (37 - lenN (buf d)) x).
    cbn [total set_addrs set_buf set_st].
    destruct (65544 + be (takeN 1 (dropN 36 hd)) <? total d) eqn:E2.
    { destruct (total d <? 37) eqn:E3; [lia|]. reflexivity. }
    destruct (37 + be (takeN 1 (dropN 36 hd)) <=? total d) eqn:E4; [reflexivity|].
    destruct (total d <? 37) eqn:E3; [lia|]. reflexivity.
  - unfold process_client_app_name.
    destruct W as [W [W1 [W2 W3]]].
    rewrite buffered_read_enough by (solve [assumption | lia | left; lia]). cbn [bind fst snd].
    cbn [total set_buf]. consts.
    destruct (total d <? 37 + n) eqn:E1; [lia|].
    destruct (utf8_valid _); reflexivity.
  - unfold process_client_payload.
    destruct W as [W [W1 W2]].
    destruct (src d) as [s|] eqn:Es; [|congruence].
    destruct (dst d) as [t|] eqn:Et; [|congruence].
    destruct (is_nil (buf d) && (n <=? lenN x)) eqn:E1.
    { apply andb_true_iff in E1. destruct E1 as [E1 E1']. apply is_nil_spec in E1.
      rewrite E1. cbn [app]. replace (n - lenN (@nil N)) with n by (rewrite lenN_nil; lia).
      cbn [fst snd].
      assert (set_buf d [] = d) as ->; [|reflexivity].
      unfold set_buf. rewrite <- E1. apply dec_eta. }
    destruct (n <? lenN (buf d)) eqn:E2.
    { destruct W as [W|[W W']]; [lia|]. rewrite W' in E2. cbn in E2. lia. }
    replace (N.min (lenN x) (n - lenN (buf d))) with (n - lenN (buf d)) by lia.
    destruct (lenN (buf d ++ takeN (n - lenN (buf d)) x) <? n) eqn:E3.
    { rewrite lenN_app, lenN_takeN in E3. lia. }
    cbn [src dst set_buf app]. rewrite Es, Et. reflexivity.
  - replace (N.min n (lenN x)) with n by lia.
    destruct (n <=? n) eqn:E; [|lia]. reflexivity.
Qed.

(* ---------- laws of absorb / finish ---------- *)

Lemma pending_rem d : WF d -> (zero_step_pending d = true <-> rem d = 0).
Proof.
  unfold WF, zero_step_pending, rem. destruct (st d) as [| |n|n|n]; intros W.
  - split; [discriminate|lia].
  - split; [discriminate|lia].
  - destruct W as [W _]. destruct n; (split; intros H; [try discriminate; try lia|try reflexivity]).
    destruct W as [W|[W _]]; [lia|discriminate].
  - destruct W as [W _]. destruct n; (split; intros H; [try discriminate; try lia|try reflexivity]).
    destruct W as [W|[W _]]; [lia|discriminate].
  - destruct n; (split; intros H; [try discriminate; try lia|try reflexivity]). lia.
Qed.

Lemma WF_absorb d x : WF d -> lenN x < rem d -> WF (absorb d x).
Proof.
  unfold WF, absorb, rem. destruct (st d) eqn:E; cbn [st set_st set_buf buf total src dst];
    rewrite ?E; rewrite ?lenN_app; intros W H.
  - lia.
  - lia.
  - destruct W as [W W']. split; [left; lia|exact W'].
  - destruct W as [W W']. split; [left; lia|exact W'].
  - exact W.
Qed.

Lemma rem_absorb d x : rem (absorb d x) = rem d - lenN x.
Proof.
  unfold absorb, rem. destruct (st d) eqn:E; cbn [st set_st set_buf buf]; rewrite ?E;
    rewrite ?lenN_app; lia.
Qed.

Lemma st_absorb_rank d x :
  match st (absorb d x), st d with
  | SLength, SLength | SFixed, SFixed | SAppName _, SAppName _
  | SPayload _, SPayload _ | SDropping _, SDropping _ => True
  | _, _ => False
  end.
Proof. unfold absorb. destruct (st d) eqn:E; cbn [st set_st set_buf]; rewrite ?E; exact I. Qed.

Lemma absorb_absorb d x y : absorb (absorb d x) y = absorb d (x ++ y).
Proof.
  unfold absorb. destruct (st d) eqn:E; cbn [st set_st set_buf buf]; rewrite ?E;
    unfold set_buf, set_st; cbn [st total buf src dst app]; rewrite <- ?app_assoc;
    try reflexivity.
  rewrite lenN_app. f_equal. f_equal. lia.
Qed.

Lemma absorb_nil d : WF d -> absorb d [] = d.
Proof.
  unfold absorb, WF. destruct (st d) eqn:E; intros W; unfold set_buf, set_st;
    rewrite ?app_nil_r, ?lenN_nil, ?N.sub_0_r, <- ?E; apply dec_eta.
Qed.

Lemma finish_absorb d x y : finish (absorb d x) y = finish d (x ++ y).
Proof.
  unfold finish, absorb, complete. destruct (st d) eqn:E; cbn [st set_st set_buf buf total src dst app];
    rewrite ?E; rewrite <- ?app_assoc; try reflexivity.
Qed.

Definition rank (d : dec) : N :=
  match st d with
  | SAppName _ => 2
  | SPayload _ | SDropping _ => 1
  | _ => 0
  end.

Lemma rank_absorb d x : rank (absorb d x) = rank d.
Proof.
  unfold rank. pose proof (st_absorb_rank d x) as H.
  destruct (st (absorb d x)), (st d); try contradiction; reflexivity.
Qed.

Lemma WF_finish d x :
  WF d -> lenN x = rem d ->
  WF (fst (finish d x)) /\ (rem d = 0 -> rank (fst (finish d x)) < rank d).
Proof.
  unfold WF, finish, complete, rem, rank. destruct (st d) eqn:E; intros W H.
  - cbn [fst]. destruct (37 <=? be (buf d ++ x)) eqn:E1; cbn [st set_st set_total set_buf buf total];
      rewrite ?lenN_nil; split; try lia; try reflexivity.
  - cbn [fst]. unfold after_header. consts.
    cbn [st set_st set_total set_buf buf total set_addrs].
    destruct (65544 + _ <? total d) eqn:E1; [|destruct (37 + _ <=? total d) eqn:E2];
      cbn [st set_st set_total set_buf buf total set_addrs src dst];
      rewrite ?lenN_nil; split; try lia; try reflexivity.
    repeat split; try congruence; try lia.
    match goal with |- context [be ?t] => destruct (be t) eqn:Eb end.
    + right. split; reflexivity.
    + left. lia.
  - cbn [fst]. destruct W as [W [W1 [W2 W3]]].
    destruct (utf8_valid (buf d ++ x));
      cbn [st set_st set_total set_buf buf total set_addrs src dst set_app];
      rewrite ?lenN_nil; split; try lia; try reflexivity.
    repeat split; try assumption.
    destruct (total d - 37 - n) eqn:Ep; [right; split; reflexivity|left; lia].
  - destruct W as [W [W1 W2]].
    cbn [fst st set_st set_total set_buf buf total set_addrs src dst set_app].
    rewrite lenN_nil. split; lia.
  - cbn [fst st set_st set_total set_buf buf total set_addrs src dst set_app]. split; [|lia].
    rewrite W. rewrite lenN_nil. lia.
Qed.

(* ---------- one loop iteration: progress ---------- *)

Definition measure (d : dec) (x : list N) : N := 3 * lenN x + rank d.

Lemma rank_le d : rank d <= 2.
Proof. unfold rank. destruct (st d); lia. Qed.

Lemma once_progress d x :
  WF d -> (x <> [] \/ zero_step_pending d = true) ->
  exists d1 o tail, once d x = Ok (d1, o, tail) /\ WF d1 /\ measure d1 tail < measure d x.
Proof.
  intros W Hx. destruct (lenN x <? rem d) eqn:E.
  - rewrite once_short by (assumption || lia).
    eexists _, _, _. split; [reflexivity|]. split; [apply WF_absorb; [assumption|lia]|].
    unfold measure. rewrite rank_absorb, (@lenN_nil N).
    assert (lenN x <> 0).
    { destruct Hx as [Hx|Hx]; [intros H0; apply Hx, lenN_0, H0|].
      apply pending_rem in Hx; [lia|assumption]. }
    lia.
  - rewrite once_enough by (assumption || lia).
    eexists _, _, _. split; [reflexivity|].
    assert (E' : rem d <= lenN x) by lia.
    assert (Hl : lenN (takeN (rem d) x) = rem d) by (rewrite lenN_takeN; apply N.min_l; exact E').
    destruct (WF_finish d (takeN (rem d) x) W Hl) as [W1 Hr].
    split; [exact W1|]. unfold measure. rewrite lenN_dropN.
    pose proof (rank_le (fst (finish d (takeN (rem d) x)))).
    destruct (N.eq_dec (rem d) 0) as [H0|H0].
    + specialize (Hr H0). lia.
    + assert (lenN x <> 0) by lia. lia.
Qed.

(* ---------- big-step relation for the decoding loop ---------- *)

Inductive Dec : dec -> list N -> dec -> list dgram -> Prop :=
| Dec_stop d : zero_step_pending d = false -> Dec d [] d []
| Dec_step d x d1 o tail d2 out :
    (x <> [] \/ zero_step_pending d = true) ->
    once d x = Ok (d1, o, tail) -> Dec d1 tail d2 out -> Dec d x d2 (olist o ++ out).

Lemma guard_spec d (x : list N) :
  is_nil x && negb (zero_step_pending d) = false <-> (x <> [] \/ zero_step_pending d = true).
Proof.
  destruct x; cbn [is_nil andb]; destruct (zero_step_pending d); cbn; split; intros H;
    try reflexivity; try discriminate; try (left; discriminate); try (right; reflexivity).
  destruct H as [H|H]; [contradiction|discriminate].
Qed.

Lemma decode_all_total fuel : forall d x,
  WF d -> measure d x < N.of_nat fuel ->
  exists d' out, decode_all fuel d x = Ok (d', out) /\ Dec d x d' out /\ WF d'
                 /\ zero_step_pending d' = false.
Proof.
  induction fuel as [|f IH]; intros d x W Hm; [lia|].
  cbn [decode_all].
  destruct (is_nil x && negb (zero_step_pending d)) eqn:G.
  - apply andb_true_iff in G. destruct G as [G1 G2]. apply is_nil_spec in G1. subst x.
    apply negb_true_iff in G2.
    exists d, []. repeat split; try assumption. constructor. assumption.
  - apply guard_spec in G.
    destruct (once_progress d x W G) as (d1 & o & tail & Ho & W1 & Hlt).
    rewrite Ho. cbn [bind].
    destruct (IH d1 tail W1) as (d' & out & Hd & HD & W' & P'); [lia|].
    rewrite Hd. cbn [bind].
    exists d', (olist o ++ out). repeat split; try assumption.
    + destruct o; reflexivity.
    + econstructor; eassumption.
Qed.

Lemma Dec_det d x d1 o1 : Dec d x d1 o1 -> forall d2 o2, Dec d x d2 o2 -> d1 = d2 /\ o1 = o2.
Proof.
  induction 1 as [d P|d x dm o tail d1 out G Ho HD IH]; intros d2 o2 H2.
  - inversion H2; subst.
    + split; reflexivity.
    + match goal with H : _ \/ _ |- _ => destruct H as [H|H]; [contradiction|congruence] end.
  - inversion H2; subst.
    + destruct G as [G|G]; [contradiction|congruence].
    + match goal with H : once d x = Ok _ |- _ => rewrite Ho in H; inversion H; subst end.
      match goal with H : Dec _ _ d2 _ |- _ => destruct (IH _ _ H) as [-> ->] end.
      split; reflexivity.
Qed.

Lemma fuel_for_enough d x : measure d x < N.of_nat (fuel_for x).
Proof.
  unfold measure, fuel_for, lenN. pose proof (rank_le d). lia.
Qed.

Lemma decode_chunk_all_Dec d x :
  WF d ->
  exists d' out, decode_chunk_all d x = Ok (d', out) /\ Dec d x d' out /\ WF d'
                 /\ zero_step_pending d' = false.
Proof. intros W. apply decode_all_total; [assumption|apply fuel_for_enough]. Qed.

(* ---------- chunk-split compositionality ---------- *)

Lemma Dec_nil_inv d d' out :
  WF d -> zero_step_pending d = false -> Dec d [] d' out -> d' = d /\ out = [].
Proof.
  intros W P H. inversion H; subst.
  - split; reflexivity.
  - match goal with H : _ \/ _ |- _ => destruct H as [H|H]; [contradiction|congruence] end.
Qed.

Lemma Dec_WF d x d' out : Dec d x d' out -> WF d -> WF d'.
Proof.
  induction 1 as [d P|d x dm o tail d1 out G Ho HD IH]; intros W; [assumption|].
  destruct (once_progress d x W G) as (d1' & o' & tail' & Ho' & W1 & _).
  rewrite Ho in Ho'. inversion Ho'; subst. apply IH. assumption.
Qed.

Lemma Dec_app d a d1 o1 :
  Dec d a d1 o1 -> WF d ->
  forall b d2 o2, Dec d1 b d2 o2 -> Dec d (a ++ b) d2 (o1 ++ o2).
Proof.
  induction 1 as [d P|d a dm o tail d1 out G Ho HD IH]; intros W b d2 o2 H2.
  - exact H2.
  - destruct (lenN a <? rem d) eqn:E.
    + (* the chunk ends inside the current field *)
      assert (Hs : lenN a < rem d) by lia.
      rewrite (once_short d a W Hs) in Ho. inversion Ho; subst dm o tail. clear Ho.
      assert (Wm : WF (absorb d a)) by (apply WF_absorb; assumption).
      assert (Pm : zero_step_pending (absorb d a) = false).
      { destruct (zero_step_pending (absorb d a)) eqn:Pz; [|reflexivity].
        apply pending_rem in Pz; [|assumption]. rewrite rem_absorb in Pz. lia. }
      destruct (Dec_nil_inv _ _ _ Wm Pm HD) as [-> ->]. cbn [olist app].
      destruct b as [|b0 b].
      * rewrite app_nil_r.
        destruct (Dec_nil_inv _ _ _ Wm Pm H2) as [-> ->].
        replace (@nil dgram) with (olist (@None dgram) ++ []) by reflexivity.
        econstructor; [exact G|apply once_short; assumption|constructor; assumption].
      * inversion H2; subst.
        match goal with H : once (absorb d a) _ = Ok _ |- _ => rename H into Hb end.
        match goal with H : Dec _ _ d2 _ |- _ => rename H into Hrest end.
        econstructor; [left; destruct a; discriminate| |exact Hrest].
        (* once d (a ++ b) = once (absorb d a) b *)
        destruct (lenN (b0 :: b) <? rem (absorb d a)) eqn:E2.
        -- rewrite once_short in Hb by (assumption || lia).
           rewrite once_short by (try assumption; rewrite lenN_app; rewrite rem_absorb in E2; lia).
           rewrite absorb_absorb in Hb. exact Hb.
        -- rewrite once_enough in Hb by (assumption || lia).
           rewrite once_enough by (try assumption; rewrite lenN_app; rewrite rem_absorb in E2; lia).
           rewrite rem_absorb, finish_absorb in Hb.
           rewrite takeN_app_ge, dropN_app_ge by lia. exact Hb.
    + (* the current field is completed inside a *)
      assert (He : rem d <= lenN a) by lia.
      rewrite (once_enough d a W He) in Ho. inversion Ho; subst dm o tail. clear Ho.
      rewrite <- app_assoc.
      econstructor.
      * destruct G as [G|G]; [left; destruct a; [contradiction|discriminate]|right; exact G].
      * rewrite once_enough by (try assumption; rewrite lenN_app; lia).
        rewrite takeN_app_le, dropN_app_le by lia. reflexivity.
      * apply IH; [|exact H2].
        apply WF_finish; [assumption|rewrite lenN_takeN; lia].
Qed.

(* ---------- walking one record through the decoder ---------- *)

Lemma guard_auto d (x : list N) : WF d -> rem d <= lenN x -> x <> [] \/ zero_step_pending d = true.
Proof.
  intros W H. destruct (N.eq_dec (rem d) 0) as [H0|H0].
  - right. apply pending_rem; assumption.
  - left. intros ->. rewrite lenN_nil in H. lia.
Qed.

Lemma not_pending d : WF d -> 0 < rem d -> zero_step_pending d = false.
Proof.
  intros W H. destruct (zero_step_pending d) eqn:P; [|reflexivity].
  apply pending_rem in P; [lia|assumption].
Qed.

Lemma Dec_short_any d x : WF d -> lenN x < rem d -> Dec d x (absorb d x) [].
Proof.
  intros W H. destruct x as [|x0 x].
  - rewrite absorb_nil by assumption. constructor. apply not_pending; [assumption|lia].
  - replace (@nil dgram) with (olist (@None dgram) ++ []) by reflexivity.
    econstructor; [left; discriminate|apply once_short; assumption|].
    constructor. apply not_pending; [apply WF_absorb; assumption|]. rewrite rem_absorb. lia.
Qed.

Lemma Dec_enough_step d x d2 out :
  WF d -> rem d <= lenN x ->
  Dec (fst (finish d (takeN (rem d) x))) (dropN (rem d) x) d2 out ->
  Dec d x d2 (olist (snd (finish d (takeN (rem d) x))) ++ out).
Proof.
  intros W H HD. econstructor; [apply guard_auto; assumption|apply once_enough; assumption|exact HD].
Qed.

Lemma walk_drop d n x :
  st d = SDropping n -> buf d = [] -> lenN x <= n ->
  exists d1, Dec d x d1 [] /\ WF d1 /\ (lenN x = n -> st d1 = SLength /\ buf d1 = []).
Proof.
  intros Hst Hb Hx.
  assert (W : WF d) by (unfold WF; rewrite Hst; exact Hb).
  assert (Hr : rem d = n) by (unfold rem; rewrite Hst; reflexivity).
  destruct (lenN x <? n) eqn:E.
  - exists (absorb d x). split; [apply Dec_short_any; [assumption|lia]|].
    split; [apply WF_absorb; [assumption|lia]|lia].
  - assert (lenN x = n) by lia.
    exists (set_st d SLength).
    split; [|split].
    + replace (@nil dgram) with (olist (snd (finish d (takeN (rem d) x))) ++ []).
      2:{ unfold finish, complete. rewrite Hst. reflexivity. }
      apply Dec_enough_step; [assumption|lia|].
      rewrite dropN_all by lia. unfold finish, complete. rewrite Hst. cbn [fst].
      constructor. reflexivity.
    + unfold WF. cbn [st set_st buf]. rewrite Hb, lenN_nil. lia.
    + intros _. cbn [st set_st buf]. split; [reflexivity|exact Hb].
Qed.

Lemma walk_payload d n x s t :
  st d = SPayload n -> buf d = [] -> src d = Some s -> dst d = Some t -> lenN x <= n ->
  exists d1,
    Dec d x d1 (if lenN x =? n
                then [{| d_src := s; d_dst := t; d_app := app d; d_payload := x |}] else [])
    /\ WF d1 /\ (lenN x = n -> st d1 = SLength /\ buf d1 = []).
Proof.
  intros Hst Hb Hs Ht Hx.
  assert (W : WF d).
  { unfold WF. rewrite Hst, Hb, Hs, Ht, lenN_nil.
    split; [destruct n; [right; split; reflexivity|left; lia]|split; discriminate]. }
  assert (Hr : rem d = n) by (unfold rem; rewrite Hst, Hb, lenN_nil; lia).
  destruct (lenN x =? n) eqn:E.
  - assert (Hn : lenN x = n) by lia.
    exists (set_st (set_app (set_buf d []) None) SLength).
    split; [|split].
    + match goal with |- Dec _ _ _ ?o =>
        replace o with (olist (snd (finish d (takeN (rem d) x))) ++ []) end.
      2:{ unfold finish, complete. rewrite Hst, Hs, Ht, Hb. cbn [snd olist app].
          rewrite takeN_all by lia. reflexivity. }
      apply Dec_enough_step; [assumption|lia|].
      rewrite dropN_all by lia. unfold finish, complete. rewrite Hst. cbn [fst].
      constructor. reflexivity.
    + unfold WF. cbn [st set_st buf set_app set_buf]. rewrite lenN_nil. lia.
    + intros _. cbn [st set_st buf set_app set_buf]. split; reflexivity.
  - exists (absorb d x). split; [apply Dec_short_any; [assumption|lia]|].
    split; [apply WF_absorb; [assumption|lia]|lia].
Qed.

Lemma walk_appname d n x s t L :
  st d = SAppName n -> buf d = [] -> total d = L -> 37 + n <= L ->
  src d = Some s -> dst d = Some t -> lenN x <= L - 37 ->
  exists d1,
    Dec d x d1 (if lenN x =? L - 37
                then (if utf8_valid (takeN n x)
                      then [{| d_src := s; d_dst := t; d_app := Some (takeN n x);
                               d_payload := dropN n x |}]
                      else [])
                else [])
    /\ WF d1 /\ (lenN x = L - 37 -> st d1 = SLength /\ buf d1 = []).
Proof.
  intros Hst Hb Htot HL Hs Ht Hx.
  assert (W : WF d).
  { unfold WF. rewrite Hst, Hb, Hs, Ht, Htot, lenN_nil.
    split; [destruct n; [right; split; reflexivity|left; lia]|].
    split; [exact HL|split; discriminate]. }
  assert (Hr : rem d = n) by (unfold rem; rewrite Hst, Hb, lenN_nil; lia).
  destruct (lenN x <? n) eqn:E.
  - exists (absorb d x).
    destruct (lenN x =? L - 37) eqn:E2; [lia|].
    split; [apply Dec_short_any; [assumption|lia]|].
    split; [apply WF_absorb; [assumption|lia]|lia].
  - assert (Hfin : finish d (takeN (rem d) x) =
      (if utf8_valid (takeN n x)
       then set_st (set_app (set_buf d []) (Some (takeN n x))) (SPayload (L - 37 - n))
       else set_st (set_buf d []) (SDropping (L - 37 - n)), None)).
    { unfold finish, complete. rewrite Hst, Hb, Hr, Htot. reflexivity. }
    assert (Hlen : lenN (dropN n x) <= L - 37 - n) by (rewrite lenN_dropN; lia).
    assert (Heq : (lenN (dropN n x) =? L - 37 - n) = (lenN x =? L - 37))
      by (rewrite lenN_dropN; lia).
    destruct (utf8_valid (takeN n x)) eqn:U.
    + destruct (walk_payload
                  (set_st (set_app (set_buf d []) (Some (takeN n x))) (SPayload (L - 37 - n)))
                  (L - 37 - n) (dropN n x) s t) as (d1 & HD & W1 & Hend);
        try reflexivity; try assumption.
      exists d1. split; [|split; [exact W1|]].
      * cbn [app set_st set_app] in HD. rewrite Heq in HD.
        match goal with |- Dec _ _ _ ?o =>
          replace o with (olist (snd (finish d (takeN (rem d) x))) ++ o)
            by (rewrite Hfin; reflexivity) end.
        apply Dec_enough_step; [assumption|lia|]. rewrite Hfin, Hr. cbn [fst]. exact HD.
      * intros H. apply Hend. rewrite lenN_dropN. lia.
    + destruct (walk_drop (set_st (set_buf d []) (SDropping (L - 37 - n)))
                  (L - 37 - n) (dropN n x)) as (d1 & HD & W1 & Hend);
        try reflexivity; try assumption.
      exists d1. split; [|split; [exact W1|]].
      * replace (if lenN x =? L - 37 then [] else []) with (@nil dgram) by (destruct (lenN x =? L - 37); reflexivity).
        replace (@nil dgram) with (olist (snd (finish d (takeN (rem d) x))) ++ [])
            by (rewrite Hfin; reflexivity).
        apply Dec_enough_step; [assumption|lia|]. rewrite Hfin, Hr. cbn [fst]. exact HD.
      * intros H. apply Hend. rewrite lenN_dropN. lia.
Qed.

Lemma get_fixed_wire_ip b : get_fixed_size_ip b = wire_ip b.
Proof. reflexivity. Qed.

Lemma parse_wire_sockaddr b : lenN b = 18 -> parse_sockaddr b = wire_sockaddr b.
Proof.
  intros H. unfold parse_sockaddr, wire_sockaddr. rewrite get_fixed_wire_ip.
  f_equal. f_equal. apply takeN_all. rewrite lenN_dropN. lia.
Qed.

Lemma walk_fixed d x L :
  st d = SFixed -> buf d = [] -> total d = L -> 37 <= L -> lenN x <= L ->
  exists d1,
    Dec d x d1 (if lenN x =? L then olist (classify x) else [])
    /\ WF d1 /\ (lenN x = L -> st d1 = SLength /\ buf d1 = []).
Proof.
  intros Hst Hb Htot HL Hx.
  assert (W : WF d) by (unfold WF; rewrite Hst, Hb, Htot, lenN_nil; lia).
  assert (Hr : rem d = 37) by (unfold rem; rewrite Hst, Hb, lenN_nil; lia).
  destruct (lenN x <? 37) eqn:E.
  - exists (absorb d x).
    destruct (lenN x =? L) eqn:E2; [lia|].
    split; [apply Dec_short_any; [assumption|lia]|].
    split; [apply WF_absorb; [assumption|lia]|lia].
  - set (al := be (takeN 1 (dropN 36 x))).
    assert (Hal : be (takeN 1 (dropN 36 (takeN 37 x))) = al).
    { rewrite dropN_takeN, takeN_takeN. reflexivity. }
    assert (Hfin : finish d (takeN (rem d) x) = (after_header d (takeN 37 x), None)).
    { unfold finish, complete. rewrite Hst, Hb, Hr. reflexivity. }
    assert (Hlen : lenN (dropN 37 x) <= L - 37) by (rewrite lenN_dropN; lia).
    assert (Heq : (lenN (dropN 37 x) =? L - 37) = (lenN x =? L)) by (rewrite lenN_dropN; lia).
    assert (Hsrc : parse_sockaddr (takeN 18 (takeN 37 x)) = wire_sockaddr (takeN 18 x)).
    { rewrite takeN_takeN. apply parse_wire_sockaddr. rewrite lenN_takeN. lia. }
    assert (Hdst : parse_sockaddr (takeN 18 (dropN 18 (takeN 37 x)))
                   = wire_sockaddr (takeN 18 (dropN 18 x))).
    { rewrite dropN_takeN, takeN_takeN. apply parse_wire_sockaddr.
      rewrite lenN_takeN, lenN_dropN. lia. }
    unfold after_header in Hfin. consts. rewrite Hal, Hsrc, Hdst in Hfin.
    cbn [total set_addrs set_buf] in Hfin. rewrite Htot in Hfin.
    (* what the spec says about a complete record *)
    assert (Hcl : lenN x = L -> classify x =
      if 65544 + al <? L then None
      else if 37 + al <=? L then
        (if utf8_valid (takeN al (dropN 37 x))
         then Some {| d_src := wire_sockaddr (takeN 18 x);
                      d_dst := wire_sockaddr (takeN 18 (dropN 18 x));
                      d_app := Some (takeN al (dropN 37 x));
                      d_payload := dropN al (dropN 37 x) |}
         else None)
      else None).
    { intros HxL. unfold classify, max_record. fold al. rewrite HxL.
      destruct (L <? 37) eqn:E1; [lia|].
      replace (65507 + 37 + al) with (65544 + al) by lia.
      destruct (65544 + al <? L) eqn:E2; [reflexivity|].
      destruct (L <? 37 + al) eqn:E3; destruct (37 + al <=? L) eqn:E4; try lia; [reflexivity|].
      rewrite dropN_dropN. reflexivity. }
    destruct (65544 + al <? L) eqn:E2; [|destruct (37 + al <=? L) eqn:E4].
    + destruct (walk_drop (set_st (set_addrs (set_buf d []) (wire_sockaddr (takeN 18 x))
                                     (wire_sockaddr (takeN 18 (dropN 18 x)))) (SDropping (L - 37)))
                  (L - 37) (dropN 37 x)) as (d1 & HD & W1 & Hend);
        try reflexivity; try assumption.
      exists d1. split; [|split; [exact W1|]].
      * replace (if lenN x =? L then olist (classify x) else []) with (@nil dgram).
        2:{ destruct (lenN x =? L) eqn:E5; [|reflexivity]. rewrite Hcl by lia. reflexivity. }
        replace (@nil dgram) with (olist (snd (finish d (takeN (rem d) x))) ++ [])
            by (rewrite Hfin; reflexivity).
        apply Dec_enough_step; [assumption|lia|]. rewrite Hfin, Hr. cbn [fst]. exact HD.
      * intros H. apply Hend. rewrite lenN_dropN. lia.
    + destruct (walk_appname
                  (set_st (set_addrs (set_buf d []) (wire_sockaddr (takeN 18 x))
                                     (wire_sockaddr (takeN 18 (dropN 18 x)))) (SAppName al))
                  al (dropN 37 x) (wire_sockaddr (takeN 18 x))
                  (wire_sockaddr (takeN 18 (dropN 18 x))) L) as (d1 & HD & W1 & Hend);
        try reflexivity; try assumption; try lia.
      exists d1. split; [|split; [exact W1|]].
      * rewrite Heq in HD.
        match goal with |- Dec _ _ _ ?o =>
          replace o with (olist (snd (finish d (takeN (rem d) x))) ++ o)
            by (rewrite Hfin; reflexivity) end.
        apply Dec_enough_step; [assumption|lia|]. rewrite Hfin, Hr. cbn [fst].
        destruct (lenN x =? L) eqn:E5; [|exact HD].
        rewrite Hcl by lia.
        destruct (utf8_valid (takeN al (dropN 37 x))); exact HD.
      * intros H. apply Hend. rewrite lenN_dropN. lia.
    + destruct (walk_drop (set_st (set_addrs (set_buf d []) (wire_sockaddr (takeN 18 x))
                                     (wire_sockaddr (takeN 18 (dropN 18 x)))) (SDropping (L - 37)))
                  (L - 37) (dropN 37 x)) as (d1 & HD & W1 & Hend);
        try reflexivity; try assumption.
      exists d1. split; [|split; [exact W1|]].
      * replace (if lenN x =? L then olist (classify x) else []) with (@nil dgram).
        2:{ destruct (lenN x =? L) eqn:E5; [|reflexivity]. rewrite Hcl by lia. reflexivity. }
        replace (@nil dgram) with (olist (snd (finish d (takeN (rem d) x))) ++ [])
            by (rewrite Hfin; reflexivity).
        apply Dec_enough_step; [assumption|lia|]. rewrite Hfin, Hr. cbn [fst]. exact HD.
      * intros H. apply Hend. rewrite lenN_dropN. lia.
Qed.

(* one record: a 4-byte length field p followed by at most (be p) bytes *)
Lemma walk_record d p x :
  st d = SLength -> buf d = [] -> lenN p = 4 -> lenN x <= be p ->
  exists d1,
    Dec d (p ++ x) d1 (if lenN x =? be p then olist (classify x) else [])
    /\ WF d1 /\ (lenN x = be p -> st d1 = SLength /\ buf d1 = []).
Proof.
  intros Hst Hb Hp Hx. set (L := be p) in *.
  assert (W : WF d) by (unfold WF; rewrite Hst, Hb, lenN_nil; lia).
  assert (Hr : rem d = 4) by (unfold rem; rewrite Hst, Hb, lenN_nil; lia).
  assert (Hfin : finish d (takeN (rem d) (p ++ x)) =
    (set_st (set_total (set_buf d []) L) (if 37 <=? L then SFixed else SDropping L), None)).
  { unfold finish, complete. rewrite Hst, Hb, Hr. rewrite <- Hp, takeN_exact. reflexivity. }
  assert (Hdrop : dropN (rem d) (p ++ x) = x) by (rewrite Hr, <- Hp; apply dropN_exact).
  destruct (37 <=? L) eqn:E.
  - destruct (walk_fixed (set_st (set_total (set_buf d []) L) SFixed) x L) as (d1 & HD & W1 & Hend);
      try reflexivity; try assumption; try lia.
    exists d1. split; [|split; assumption].
    match goal with |- Dec _ _ _ ?o =>
      replace o with (olist (snd (finish d (takeN (rem d) (p ++ x)))) ++ o)
        by (rewrite Hfin; reflexivity) end.
    apply Dec_enough_step; [assumption|rewrite lenN_app; lia|].
    rewrite Hfin, Hdrop. cbn [fst]. exact HD.
  - destruct (walk_drop (set_st (set_total (set_buf d []) L) (SDropping L)) L x)
      as (d1 & HD & W1 & Hend); try reflexivity; try assumption.
    exists d1. split; [|split; assumption].
    replace (if lenN x =? L then olist (classify x) else []) with (@nil dgram).
    2:{ destruct (lenN x =? L) eqn:E5; [|reflexivity].
        unfold classify. destruct (lenN x <? 37) eqn:E6; [reflexivity|lia]. }
    replace (@nil dgram) with (olist (snd (finish d (takeN (rem d) (p ++ x)))) ++ [])
      by (rewrite Hfin; reflexivity).
    apply Dec_enough_step; [assumption|rewrite lenN_app; lia|].
    rewrite Hfin, Hdrop. cbn [fst]. exact HD.
Qed.

Definition body_ok (body : list N) : Prop := lenN body < 2 ^ 32.

Lemma Dec_frame d body :
  st d = SLength -> buf d = [] -> body_ok body ->
  exists d1, Dec d (frame body) d1 (olist (classify body)) /\ st d1 = SLength /\ buf d1 = [].
Proof.
  intros Hst Hb Hok. unfold frame.
  assert (Hbe : be (to_be 4 (lenN body)) = lenN body) by (apply be_to_be_small; exact Hok).
  destruct (walk_record d (to_be 4 (lenN body)) body Hst Hb) as (d1 & HD & W1 & Hend).
  - apply lenN_to_be.
  - rewrite Hbe. lia.
  - rewrite Hbe, N.eqb_refl in HD. exists d1. split; [exact HD|]. apply Hend. rewrite Hbe. reflexivity.
Qed.

Lemma Dec_frames bodies : forall d,
  st d = SLength -> buf d = [] -> Forall body_ok bodies ->
  exists d1, Dec d (concat (map frame bodies)) d1 (flat_map (fun b => olist (classify b)) bodies)
             /\ st d1 = SLength /\ buf d1 = [].
Proof.
  induction bodies as [|b bs IH]; intros d Hst Hb Hok.
  - exists d. split; [|split; assumption]. constructor. unfold zero_step_pending. rewrite Hst. reflexivity.
  - inversion Hok; subst.
    destruct (Dec_frame d b Hst Hb) as (d1 & HD1 & Hst1 & Hb1); [assumption|].
    destruct (IH d1 Hst1 Hb1) as (d2 & HD2 & Hst2 & Hb2); [assumption|].
    exists d2. split; [|split; assumption]. cbn [map concat flat_map].
    eapply Dec_app; [exact HD1| |exact HD2].
    unfold WF. rewrite Hst, Hb, lenN_nil. lia.
Qed.

Lemma Dec_incomplete d t :
  st d = SLength -> buf d = [] -> incomplete t -> exists d1, Dec d t d1 [].
Proof.
  intros Hst Hb Hi.
  assert (W : WF d) by (unfold WF; rewrite Hst, Hb, lenN_nil; lia).
  assert (Hr : rem d = 4) by (unfold rem; rewrite Hst, Hb, lenN_nil; lia).
  destruct (lenN t <? 4) eqn:E.
  - exists (absorb d t). apply Dec_short_any; [assumption|lia].
  - destruct Hi as [Hi|Hi]; [lia|].
    destruct (walk_record d (takeN 4 t) (dropN 4 t) Hst Hb) as (d1 & HD & _).
    + rewrite lenN_takeN. lia.
    + rewrite lenN_dropN. lia.
    + rewrite takeN_dropN in HD. exists d1.
      destruct (lenN (dropN 4 t) =? be (takeN 4 t)) eqn:E2; [|exact HD].
      rewrite lenN_dropN in E2. lia.
Qed.

(* ---------- all chunks of a stream ---------- *)

Lemma run_Dec chunks : forall d,
  WF d -> zero_step_pending d = false ->
  exists d' outs, run d chunks = Ok (d', outs) /\ Dec d (concat chunks) d' (concat outs)
                  /\ WF d' /\ zero_step_pending d' = false.
Proof.
  induction chunks as [|c cs IH]; intros d W P.
  - exists d, []. cbn [run concat]. repeat split; try assumption. constructor. assumption.
  - cbn [run concat].
    destruct (decode_chunk_all_Dec d c W) as (d1 & o1 & Hc & HD1 & W1 & P1).
    rewrite Hc. cbn [bind].
    destruct (IH d1 W1 P1) as (d2 & outs & Hr & HD2 & W2 & P2).
    rewrite Hr. cbn [bind].
    exists d2, (o1 :: outs). repeat split; try assumption.
    cbn [concat]. eapply Dec_app; eassumption.
Qed.

Lemma WF_init : WF dec_init /\ zero_step_pending dec_init = false.
Proof. split; [unfold WF; cbn; lia|reflexivity]. Qed.

(* ---------- the encoder ---------- *)

Lemma encode_packet_spec s t payload : encode_packet s t payload = spec_encode s t payload.
Proof. reflexivity. Qed.

(* ---------- the main statements ---------- *)

Definition classify_all (bodies : list (list N)) : list dgram :=
  flat_map (fun b => olist (classify b)) bodies.

Lemma decode_segmentation_invariant_proof bodies t chunks :
  Forall body_ok bodies -> incomplete t ->
  concat chunks = concat (map frame bodies) ++ t ->
  exists d' outs, run dec_init chunks = Ok (d', outs) /\ concat outs = classify_all bodies.
Proof.
  intros Hok Hi Hc.
  destruct WF_init as [W0 P0].
  destruct (run_Dec chunks dec_init W0 P0) as (d' & outs & Hr & HD & _ & _).
  exists d', outs. split; [exact Hr|].
  destruct (Dec_frames bodies dec_init eq_refl eq_refl Hok) as (d1 & HD1 & Hst1 & Hb1).
  destruct (Dec_incomplete d1 t Hst1 Hb1 Hi) as (d2 & HD2).
  pose proof (Dec_app _ _ _ _ HD1 W0 _ _ _ HD2) as HD3.
  rewrite <- Hc, app_nil_r in HD3.
  destruct (Dec_det _ _ _ _ HD _ _ HD3) as [_ Ho]. exact Ho.
Qed.

Lemma two_segmentations_agree_proof c1 c2 :
  concat c1 = concat c2 ->
  exists d o1 o2, run dec_init c1 = Ok (d, o1) /\ run dec_init c2 = Ok (d, o2)
                  /\ concat o1 = concat o2.
Proof.
  intros Hc. destruct WF_init as [W0 P0].
  destruct (run_Dec c1 dec_init W0 P0) as (d1 & o1 & Hr1 & HD1 & _ & _).
  destruct (run_Dec c2 dec_init W0 P0) as (d2 & o2 & Hr2 & HD2 & _ & _).
  rewrite Hc in HD1. destruct (Dec_det _ _ _ _ HD1 _ _ HD2) as [-> Ho].
  exists d2, o1, o2. repeat split; assumption.
Qed.

Lemma decoder_total_proof chunks : exists r, run dec_init chunks = Ok r.
Proof.
  destruct WF_init as [W0 P0].
  destruct (run_Dec chunks dec_init W0 P0) as (d1 & o1 & Hr1 & _). eexists. exact Hr1.
Qed.

(* every byte string is a sequence of records followed by an incomplete one *)

Ltac Zify.zify_post_hook ::= Z.div_mod_to_equations.

Lemma to_be_be l : bytes_ok l = true -> to_be (length l) (be l) = l.
Proof.
  induction l as [|b l IH] using rev_ind; intros Hok; [reflexivity|].
  unfold bytes_ok in Hok. rewrite forallb_app in Hok. apply andb_true_iff in Hok.
  destruct Hok as [Hl Hb]. cbn [forallb] in Hb. unfold is_byte in Hb.
  rewrite app_length. cbn [length]. replace (length l + 1)%nat with (S (length l)) by lia.
  cbn [to_be]. rewrite be_snoc.
  replace ((be l * 256 + b) / 256) with (be l) by lia.
  replace ((be l * 256 + b) mod 256) with b by lia.
  rewrite IH by exact Hl. reflexivity.
Qed.

Lemma be_bound l : bytes_ok l = true -> be l < 256 ^ lenN l.
Proof.
  induction l as [|b l IH] using rev_ind; intros Hok; [cbn; lia|].
  unfold bytes_ok in Hok. rewrite forallb_app in Hok. apply andb_true_iff in Hok.
  destruct Hok as [Hl Hb]. cbn [forallb] in Hb. unfold is_byte in Hb.
  rewrite be_snoc, lenN_app. change (lenN [b]) with 1.
  rewrite N.pow_add_r, N.pow_1_r. specialize (IH Hl). lia.
Qed.

Lemma bytes_ok_take_drop k l :
  bytes_ok l = true -> bytes_ok (takeN k l) = true /\ bytes_ok (dropN k l) = true.
Proof.
  intros H. rewrite <- (takeN_dropN k l) in H. unfold bytes_ok in *.
  rewrite forallb_app in H. apply andb_true_iff in H. exact H.
Qed.

Lemma bytes_ok_takeN k l : bytes_ok l = true -> bytes_ok (takeN k l) = true.
Proof. intros H. apply (bytes_ok_take_drop k l H). Qed.

Lemma bytes_ok_dropN k l : bytes_ok l = true -> bytes_ok (dropN k l) = true.
Proof. intros H. apply (bytes_ok_take_drop k l H). Qed.

Lemma stream_decomposes_proof s :
  bytes_ok s = true ->
  exists bodies t, s = concat (map frame bodies) ++ t /\ Forall body_ok bodies /\ incomplete t.
Proof.
  remember (length s) as n eqn:Hn. revert s Hn.
  induction n as [n IH] using lt_wf_ind. intros s Hn Hok.
  destruct (lenN s <? 4) eqn:E.
  { exists [], s. split; [reflexivity|]. split; [constructor|left; lia]. }
  destruct (lenN s - 4 <? be (takeN 4 s)) eqn:E2.
  { exists [], s. split; [reflexivity|]. split; [constructor|right; lia]. }
  set (L := be (takeN 4 s)) in *.
  set (body := takeN L (dropN 4 s)).
  set (rest := dropN L (dropN 4 s)).
  assert (Hlb : lenN body = L) by (unfold body; rewrite lenN_takeN, lenN_dropN; lia).
  assert (H4 : length (takeN 4 s) = 4%nat).
  { assert (lenN (takeN 4 s) = 4) by (rewrite lenN_takeN; lia). unfold lenN in *. lia. }
  assert (HL : L < 2 ^ 32).
  { pose proof (be_bound (takeN 4 s) (bytes_ok_takeN 4 s Hok)) as Hb.
    replace (lenN (takeN 4 s)) with 4 in Hb by (unfold lenN; rewrite H4; reflexivity).
    exact Hb. }
  assert (Hs : s = frame body ++ rest).
  { unfold frame. rewrite Hlb. unfold L.
    replace 4%nat with (length (takeN 4 s)) at 1 by exact H4.
    rewrite to_be_be by (apply bytes_ok_takeN; exact Hok).
    unfold body, rest. rewrite <- app_assoc, takeN_dropN, takeN_dropN. reflexivity. }
  destruct (IH (length rest)) with (s := rest) as (bodies & t & Hr & Hbo & Hi).
  - subst n. unfold rest. assert (lenN (dropN L (dropN 4 s)) < lenN s)
      by (rewrite !lenN_dropN; lia). unfold lenN in *. lia.
  - reflexivity.
  - unfold rest. apply bytes_ok_dropN, bytes_ok_dropN. exact Hok.
  - exists (body :: bodies), t. split; [|split].
    + cbn [map concat]. rewrite <- app_assoc, <- Hr. exact Hs.
    + constructor; [unfold body_ok; rewrite Hlb; exact HL|exact Hbo].
    + exact Hi.
Qed.

(* the executable whole-stream oracle computes the relational spec *)
Lemma spec_decode_frames bodies : forall t fuel,
  Forall body_ok bodies -> incomplete t -> (length bodies < fuel)%nat ->
  spec_decode fuel (concat (map frame bodies) ++ t) = classify_all bodies.
Proof.
  induction bodies as [|b bs IH]; intros t fuel Hok Hi Hf.
  - destruct fuel as [|f]; [lia|]. change (concat (map frame []) ++ t) with t. cbn [spec_decode].
    destruct (lenN t <? 4) eqn:E; [reflexivity|].
    destruct (lenN t - 4 <? be (takeN 4 t)) eqn:E2; [reflexivity|].
    destruct Hi; lia.
  - destruct fuel as [|f]; [cbn in Hf; lia|]. inversion Hok; subst.
    cbn [map concat]. rewrite <- app_assoc. cbn [spec_decode].
    set (rest := concat (map frame bs) ++ t).
    assert (Hbe : be (to_be 4 (lenN b)) = lenN b) by (apply be_to_be_small; assumption).
    assert (H4 : lenN (to_be 4 (lenN b)) = 4) by apply lenN_to_be.
    unfold frame. rewrite <- !app_assoc.
    assert (Ht : takeN 4 (to_be 4 (lenN b) ++ b ++ rest) = to_be 4 (lenN b))
      by (rewrite <- H4 at 1; apply takeN_exact).
    assert (Hd : dropN 4 (to_be 4 (lenN b) ++ b ++ rest) = b ++ rest)
      by (rewrite <- H4 at 1; apply dropN_exact).
    rewrite Ht, Hbe, Hd.
    destruct (lenN (to_be 4 (lenN b) ++ b ++ rest) <? 4) eqn:E.
    { rewrite lenN_app in E. lia. }
    destruct (lenN (to_be 4 (lenN b) ++ b ++ rest) - 4 <? lenN b) eqn:E2.
    { rewrite !lenN_app in E2. lia. }
    rewrite takeN_exact.
    replace (dropN (4 + lenN b) (to_be 4 (lenN b) ++ b ++ rest)) with rest.
    2:{ rewrite <- dropN_dropN, Hd, dropN_exact. reflexivity. }
    unfold classify_all. cbn [flat_map]. f_equal. apply IH; try assumption. cbn in Hf. lia.
Qed.

Lemma spec_decode_stream_frames bodies t :
  Forall body_ok bodies -> incomplete t ->
  spec_decode_stream (concat (map frame bodies) ++ t) = classify_all bodies.
Proof.
  intros Hok Hi. unfold spec_decode_stream. apply spec_decode_frames; try assumption.
  rewrite app_length.
  assert (length bodies <= length (concat (map frame bodies)))%nat; [|lia].
  clear. induction bodies as [|b bs IH]; [cbn; lia|].
  cbn [map concat length]. rewrite app_length. unfold frame at 1. rewrite app_length, length_to_be. lia.
Qed.
