From Coq Require Import List NArith Bool Lia.
From TT Require Import Lib.BytesL Model.Http1Wire Spec.Rfc9112 Proofs.Http1WireProofs Model.FwdRequest.
Import ListNotations.
Open Scope N_scope.

Definition kept_fields (authority : list N) (hs : list header) : list header :=
  flat_map (fun h => if seqb (fst h) n_pauth || seqb (fst h) n_pconn then []
                     else if seqb (fst h) n_host then [(n_host, authority)] else [h]) hs.

Lemma kept_fields_cons authority h r :
  kept_fields authority (h :: r) =
  (if seqb (fst h) n_pauth || seqb (fst h) n_pconn then []
   else if seqb (fst h) n_host then [(n_host, authority)] else [h]) ++ kept_fields authority r.
Proof. reflexivity. Qed.

Lemma fwd_fields_unfold authority hs :
  fwd_fields authority hs =
  if existsb (fun h => seqb (fst h) n_host) hs then kept_fields authority hs else kept_fields authority hs ++ [(n_host, authority)].
Proof. reflexivity. Qed.

Definition enc_fields (hs : list header) : list N := flat_map (fun h => fst h ++ [58; 32] ++ snd h ++ crlf) hs.

Lemma ser_fields_bytes authority hs : forall seen fr b s f,
  ser_fields authority hs seen fr = Some (b, s, f) ->
  b = enc_fields (kept_fields authority hs) /\ s = seen || existsb (fun h => seqb (fst h) n_host) hs.
Proof.
  induction hs as [|h r IH]; intros seen fr b s f H; cbn [ser_fields] in H.
  - inversion H; subst. cbn. rewrite orb_false_r. split; reflexivity.
  - rewrite kept_fields_cons. cbn [existsb].
    destruct (seqb (fst h) n_pauth || seqb (fst h) n_pconn) eqn:EP.
    + (* dropped; such a name is not "host" *)
      destruct (IH _ _ _ _ _ H) as [Hb Hs]. cbn [app]. split; [exact Hb|].
      assert (NH : seqb (fst h) n_host = false).
      { apply orb_prop in EP. destruct EP as [E|E]; unfold seqb in *;
          destruct (fst h) as [|c0 t]; try discriminate E; cbn [list_eqb] in E |- *;
          apply andb_prop in E; destruct E as [E _]; apply N.eqb_eq in E; subst c0; reflexivity. }
      rewrite NH. cbn [orb]. exact Hs.
    + destruct (seqb (fst h) n_host) eqn:EH.
      * destruct seen; [discriminate H|].
        destruct (ser_fields authority r true fr) as [[[b' s'] f']|] eqn:ER; [|discriminate H].
        inversion H; subst. destruct (IH _ _ _ _ _ ER) as [Hb Hs]. subst b'.
        cbn [app]. unfold enc_fields. cbn [flat_map fst snd]. fold (enc_fields (kept_fields authority r)).
        split; [unfold crlf; norm_app; reflexivity|]. cbn [orb] in *. rewrite Hs. reflexivity.
      * cbn [orb].
        assert (G : forall fr', (match ser_fields authority r seen fr' with
                                 | Some (b0, s0, f0) => Some (fst h ++ [58; 32] ++ snd h ++ crlf ++ b0, s0, f0)
                                 | None => None end) = Some (b, s, f) ->
                    b = enc_fields ([h] ++ kept_fields authority r) /\ s = seen || existsb (fun h0 => seqb (fst h0) n_host) r).
        { intros fr' H'. destruct (ser_fields authority r seen fr') as [[[b' s'] f']|] eqn:ER; [|discriminate H'].
          inversion H'; subst. destruct (IH _ _ _ _ _ ER) as [Hb Hs]. subst b'.
          cbn [app]. unfold enc_fields. cbn [flat_map]. split; [unfold crlf; norm_app; reflexivity|exact Hs]. }
        destruct (seqb (fst h) n_clen).
        { destruct fr as [[n|]|].
          - discriminate H.
          - exact (G _ H).
          - destruct (parse_u64 (snd h)); [exact (G _ H)|discriminate H]. }
        destruct (seqb (fst h) n_tenc && is_chunked (snd h)); exact (G _ H).
Qed.

Lemma enc_headers_fields hs : enc_headers hs = enc_fields hs ++ crlf.
Proof. reflexivity. Qed.

Lemma enc_fields_app a b : enc_fields (a ++ b) = enc_fields a ++ enc_fields b.
Proof. unfold enc_fields. apply flat_map_app. Qed.

(* the bytes written are the plain head of the filtered field list *)
Lemma ser_request_is_enc method target minor mx authority hs bytes fr :
  ser_request method target minor mx authority hs = Some (bytes, fr) ->
  bytes = enc_request method target minor None (fwd_fields authority hs).
Proof.
  unfold ser_request. intros H.
  destruct (ser_fields authority hs false None) as [[[b s] f]|] eqn:E; [|discriminate H].
  inversion H; subst. clear H. destruct (ser_fields_bytes _ _ _ _ _ _ _ E) as [Hb Hs]. subst b. cbn [orb] in Hs. subst s.
  rewrite fwd_fields_unfold. unfold enc_request. rewrite !enc_headers_fields.
  destruct (existsb (fun h => seqb (fst h) n_host) hs).
  - unfold crlf. norm_app. reflexivity.
  - rewrite enc_fields_app. unfold enc_fields at 3. cbn [flat_map fst snd]. rewrite app_nil_r.
    unfold crlf. norm_app. reflexivity.
Qed.

Lemma fwd_fields_ok authority hs :
  no_cr authority = true -> forallb hdr_ok hs = true -> forallb hdr_ok (fwd_fields authority hs) = true.
Proof.
  intros HA H.
  assert (HH : hdr_ok (n_host, authority) = true).
  { unfold hdr_ok. cbn [fst snd]. rewrite HA. reflexivity. }
  assert (K : forallb hdr_ok (kept_fields authority hs) = true).
  { induction hs as [|h r IH]; [reflexivity|]. cbn [forallb] in H. apply andb_prop in H. destruct H as [Hh Hr].
    rewrite kept_fields_cons, forallb_app. apply andb_true_intro. split; [|exact (IH Hr)].
    destruct (seqb (fst h) n_pauth || seqb (fst h) n_pconn); [reflexivity|].
    destruct (seqb (fst h) n_host); cbn [forallb]; rewrite ?HH, ?Hh; reflexivity. }
  rewrite fwd_fields_unfold.
  destruct (existsb (fun h => seqb (fst h) n_host) hs); [exact K|]. rewrite forallb_app, K. cbn [forallb]. rewrite HH. reflexivity.
Qed.

Lemma forwarded_request_round_trip_proof method target minor mx authority hs bytes fr rest :
  ser_request method target minor mx authority hs = Some (bytes, fr) ->
  minor < 10 -> no_byte 32 method = true -> no_cr method = true -> no_byte 32 target = true -> no_cr target = true ->
  no_cr authority = true -> forallb hdr_ok hs = true ->
  read_request (S (length (fwd_fields authority hs))) (bytes ++ rest) =
  Some ({| rq_method := method; rq_target := target; rq_minor := minor;
           rq_headers := as_read (fwd_fields authority hs) |}, rest).
Proof.
  intros H Hm Hms Hmc Hts Htc Ha Hh. rewrite (ser_request_is_enc _ _ _ _ _ _ _ _ H).
  apply request_round_trip_proof; try assumption.
  - apply fwd_fields_ok; assumption.
Qed.

(* for every path that is empty or starts with "/" and every query, what goes on the wire is the origin-form of RFC 9112 *)
Lemma wire_target_is_origin_form_proof path query :
  (path = [] \/ exists p, path = 47 :: p) ->
  wire_target true (crate_as_str path query) = origin_form path query.
Proof.
  intros [->|[p ->]]; unfold crate_as_str, origin_form, wire_target.
  - destruct query as [q|]; reflexivity.
  - reflexivity.
Qed.

(* as found: an empty path in front of a query was written as no path at all *)
Lemma empty_path_before_query_was_lost :
  wire_target false (crate_as_str [] (Some [120; 61; 49])) = [63; 120; 61; 49]
  /\ origin_form [] (Some [120; 61; 49]) = [47; 63; 120; 61; 49].
Proof. vm_compute. split; reflexivity. Qed.
