From Coq Require Import List NArith Bool Lia.
From TT Require Import Model.SocksFlows.
Import ListNotations.
Open Scope N_scope.

(* every live pair has its destination among the peers of its source's association *)
Definition KInv (s : kstate) : Prop :=
  k_dead s = false
  /\ forall src dst, In (src, dst) (k_flows s) -> exists ps, klookup src (k_assocs s) = Some ps /\ In dst ps.

Lemma klookup_kset_same src ps t : klookup src (kset src ps t) = Some ps.
Proof. unfold kset. cbn. rewrite N.eqb_refl. reflexivity. Qed.

Lemma klookup_kremove_other src src' t : src <> src' -> klookup src' (kremove src t) = klookup src' t.
Proof.
  intros H. induction t as [|[s ps] r IH]; cbn; [reflexivity|].
  destruct (s =? src) eqn:E.
  - apply N.eqb_eq in E. subst s. rewrite IH. destruct (src =? src') eqn:E2; [apply N.eqb_eq in E2; contradiction|reflexivity].
  - cbn. rewrite IH. reflexivity.
Qed.

Lemma klookup_kremove_same src t : klookup src (kremove src t) = None.
Proof.
  induction t as [|[s ps] r IH]; cbn; [reflexivity|].
  destruct (s =? src) eqn:E; [exact IH|]. cbn. rewrite E. exact IH.
Qed.

Lemma klookup_kset_other src src' ps t : src <> src' -> klookup src' (kset src ps t) = klookup src' t.
Proof.
  intros H. unfold kset. cbn. destruct (src =? src') eqn:E; [apply N.eqb_eq in E; contradiction|].
  apply klookup_kremove_other. exact H.
Qed.

Lemma mem_flow_In f l : mem_flow f l = true <-> In f l.
Proof.
  unfold mem_flow. rewrite existsb_exists. split.
  - intros [g [I E]]. unfold flow_eqb in E. apply andb_true_iff in E. destruct E as [A B].
    apply N.eqb_eq in A, B. destruct f, g; cbn in *; subst. exact I.
  - intros I. exists f. split; [exact I|]. unfold flow_eqb. rewrite !N.eqb_refl. reflexivity.
Qed.

Lemma In_del_flow f g l : In g (del_flow f l) <-> In g l /\ g <> f.
Proof.
  unfold del_flow. rewrite filter_In. split.
  - intros [I E]. split; [exact I|]. intros ->. unfold flow_eqb in E. rewrite !N.eqb_refl in E. discriminate.
  - intros [I N]. split; [exact I|]. apply negb_true_iff. destruct (flow_eqb f g) eqn:E; [|reflexivity].
    exfalso. apply N. unfold flow_eqb in E. apply andb_true_iff in E. destruct E as [A B].
    apply N.eqb_eq in A, B. destruct f, g; cbn in *; subst. reflexivity.
Qed.

Lemma In_del_peer d p ps : In p (del_peer d ps) <-> In p ps /\ p <> d.
Proof.
  unfold del_peer. rewrite filter_In. split.
  - intros [I E]. split; [exact I|]. intros ->. rewrite N.eqb_refl in E. discriminate.
  - intros [I N]. split; [exact I|]. apply negb_true_iff. apply N.eqb_neq. exact N.
Qed.

Definition kfixed : kflags := {| f_records := true; f_keyed := true; f_drops := true; f_beside := true |}.

(* recording a pair keeps the invariant and leaves the source with an association *)
Lemma kopen_inv s src dst :
  KInv s -> KInv (kopen true s src dst) /\ exists ps, klookup src (k_assocs (kopen true s src dst)) = Some ps.
Proof.
  intros [D I]. unfold kopen.
  destruct (mem_flow (src, dst) (k_flows s)) eqn:M.
  - apply mem_flow_In in M. destruct (I src dst M) as [ps [L _]]. split; [split; assumption|exists ps; exact L].
  - cbn [k_assocs k_flows k_dead].
    destruct (klookup src (k_assocs s)) as [ps|] eqn:L.
    + split; [|exists (dst :: ps); apply klookup_kset_same].
      split; [reflexivity|]. cbn [k_flows k_assocs].
      intros s' d' [E|H].
      * injection E as <- <-. exists (dst :: ps). split; [apply klookup_kset_same|left; reflexivity].
      * destruct (I s' d' H) as [ps' [L' I']]. destruct (N.eq_dec src s') as [->|Ne].
        -- rewrite L in L'. injection L' as <-. exists (dst :: ps). split; [apply klookup_kset_same|right; exact I'].
        -- exists ps'. split; [rewrite klookup_kset_other by exact Ne; exact L'|exact I'].
    + split; [|exists [dst]; apply klookup_kset_same].
      split; [reflexivity|]. cbn [k_flows k_assocs].
      intros s' d' [E|H].
      * injection E as <- <-. exists [dst]. split; [apply klookup_kset_same|left; reflexivity].
      * destruct (I s' d' H) as [ps' [L' I']]. destruct (N.eq_dec src s') as [->|Ne].
        -- rewrite L in L'. discriminate.
        -- exists ps'. split; [rewrite klookup_kset_other by exact Ne; exact L'|exact I'].
Qed.

(* a datagram, sent or refused, on a recorded pair: the sink finds the association and a failed send costs the datagram only *)
Lemma kwrite_inv sent s src dst : KInv s -> KInv (kwrite true sent (kopen true s src dst) src).
Proof.
  intros H. destruct (kopen_inv s src dst H) as [K [ps L]]. unfold kwrite. rewrite L.
  rewrite orb_true_r. exact K.
Qed.

Lemma kstep_inv s o : KInv s -> KInv (kstep kfixed s o).
Proof.
  intros H. pose proof H as [D I]. unfold kstep. rewrite D. cbn [kfixed f_records f_keyed f_drops f_beside].
  destruct o as [[src dst]|[src dst]|[src dst]|src|[src dst]].
  - (* datagram *) apply kwrite_inv. exact H.
  - (* close *)
    destruct (mem_flow (src, dst) (k_flows s)) eqn:M; [|split; assumption].
    split; [reflexivity|]. cbn [k_flows k_assocs].
    intros s' d' H'. apply In_del_flow in H'. destruct H' as [H' Ne].
    destruct (I s' d' H') as [ps' [L' I']].
    destruct (N.eq_dec src s') as [->|Ns].
    + (* the same source: d' differs from dst and stays among the peers *)
      assert (Nd : d' <> dst) by (intros ->; apply Ne; reflexivity).
      rewrite L'.
      assert (Ip : In d' (del_peer dst ps')) by (apply In_del_peer; split; assumption).
      destruct (del_peer dst ps') as [|p r] eqn:E; [destruct Ip|].
      exists (p :: r). split; [apply klookup_kset_same|exact Ip].
    + exists ps'. split; [|exact I'].
      destruct (klookup src (k_assocs s)) as [ps|]; [|exact L'].
      destruct (del_peer dst ps); [rewrite klookup_kremove_other by exact Ns|rewrite klookup_kset_other by exact Ns]; exact L'.
  - (* refused send *) apply kwrite_inv. exact H.
  - (* read error: the association goes, and with it every pair of that source *)
    destruct (klookup src (k_assocs s)) as [ps|] eqn:L; [|exact H].
    split; [reflexivity|]. cbn [k_flows k_assocs].
    intros s' d' H'. apply filter_In in H'. destruct H' as [H' F]. cbn [fst snd] in F.
    destruct (I s' d' H') as [ps' [L' I']].
    destruct (N.eq_dec src s') as [->|Ns].
    + exfalso. rewrite L in L'. injection L' as <-. rewrite N.eqb_refl in F. cbn [andb] in F.
      apply negb_true_iff in F.
      assert (E : existsb (N.eqb d') ps = true) by (apply existsb_exists; exists d'; split; [exact I'|apply N.eqb_refl]).
      rewrite E in F. discriminate.
    + exists ps'. split; [rewrite klookup_kremove_other by exact Ns; exact L'|exact I'].
  - (* the timer fires during the set-up: the set-up goes on *) apply kwrite_inv. exact H.
Qed.

Lemma krun_inv ops : KInv (krun kfixed ops).
Proof.
  unfold krun.
  assert (G : forall s, KInv s -> KInv (fold_left (kstep kfixed) ops s)).
  { induction ops as [|o r IH]; intros s H; cbn [fold_left]; [exact H|]. apply IH. apply kstep_inv. exact H. }
  apply G. split; [reflexivity|]. intros src dst [].
Qed.
