From Coq Require Import List NArith ZArith Bool Lia ZifyBool ZifyNat ZifyN.
From TT Require Import Lib.BytesL Model.ConnectPolicy Model.Rules Spec.RulesDoc.
Import ListNotations.
Open Scope N_scope.

(* ---------- first match ---------- *)

Lemma first_match_spec rules ip cr :
  (exists pre r post, rules = pre ++ r :: post /\ rule_matches r ip cr = true
                      /\ forallb (fun x => negb (rule_matches x ip cr)) pre = true
                      /\ first_match rules ip cr = r_action r)
  \/ (forallb (fun x => negb (rule_matches x ip cr)) rules = true /\ first_match rules ip cr = Allow).
Proof.
  induction rules as [|x rest IH]; cbn [first_match forallb].
  - right. split; reflexivity.
  - destruct (rule_matches x ip cr) eqn:E.
    + left. exists [], x, rest. repeat split; auto.
    + destruct IH as [(pre & r & post & -> & Hm & Hp & Ha)|[Hall Ha]].
      * left. exists (x :: pre), r, post. cbn [forallb app]. rewrite E. repeat split; auto.
      * right. cbn [negb andb]. split; assumption.
Qed.

Lemma no_pattern_no_random_needed r ip :
  has_pat r = false -> forall cr cr', rule_matches r ip cr = rule_matches r ip cr'.
Proof.
  unfold has_pat, rule_matches. destruct (r_pat r); try discriminate. intros _ cr cr'.
  destruct (r_cidr r); reflexivity.
Qed.

Lemma fail_closed rules ip :
  existsb has_pat rules = true -> evaluate rules ip None = Deny.
Proof. intros H. unfold evaluate. rewrite H. reflexivity. Qed.

Lemma default_allow ip cr : evaluate [] ip cr = Allow.
Proof. destruct cr; reflexivity. Qed.

Lemma bad_fields_never_match r ip cr :
  r_cidr r = CBad \/ (r_pat r = PBad) -> rule_matches r ip cr = false.
Proof.
  unfold rule_matches. intros [H|H]; rewrite H; [reflexivity|].
  destruct (r_cidr r); try reflexivity; destruct cr; reflexivity.
Qed.

(* ---------- pattern matching ---------- *)

Lemma starts_with_iff cr p : starts_with cr p = true <-> doc_prefix_matches cr p.
Proof.
  unfold doc_prefix_matches. revert cr. induction p as [|x p IH]; intros cr; cbn [starts_with].
  - split; [intros _; exists cr; reflexivity|reflexivity].
  - destruct cr as [|y cr].
    + split; [discriminate|intros [rest H]; discriminate].
    + split.
      * intros H. apply andb_true_iff in H. destruct H as [H1 H2]. apply N.eqb_eq in H1. subst.
        apply IH in H2. destruct H2 as [rest ->]. exists rest. reflexivity.
      * intros [rest H]. inversion H; subst. rewrite N.eqb_refl. apply IH. exists rest. reflexivity.
Qed.

Lemma masked_eq_iff cr p m :
  length p = length m -> (length m <= length cr)%nat ->
  (masked_eq cr p m = true <-> doc_masked_matches cr p m).
Proof.
  unfold doc_masked_matches. revert cr p. induction m as [|k m IH]; intros cr p Hp Hc.
  - destruct p; [|discriminate]. split; [intros _ i Hi; cbn in Hi; lia|intros _; destruct cr; reflexivity].
  - destruct p as [|x p]; [discriminate|]. destruct cr as [|c cr]; [cbn in Hc; lia|].
    cbn [masked_eq]. cbn [length] in *.
    assert (Hp' : length p = length m) by lia.
    assert (Hc' : (length m <= length cr)%nat) by lia.
    destruct (IH cr p Hp' Hc') as [I1 I2].
    split.
    + intros H. apply andb_true_iff in H. destruct H as [H1 H2]. apply N.eqb_eq in H1.
      intros i Hi. destruct i as [|i]; cbn [nth]; [exact H1|].
      apply (I1 H2). lia.
    + intros H. apply andb_true_iff. split.
      * apply N.eqb_eq. apply (H 0%nat). lia.
      * apply I2. intros i Hi. apply (H (S i)). lia.
Qed.

(* ---------- CIDR ---------- *)

Lemma net_contains_iff fam a plen ip :
  net_contains fam a plen ip = true <-> doc_cidr_matches fam a plen ip.
Proof.
  unfold net_contains, doc_cidr_matches, net_hi, net_lo.
  rewrite !andb_true_iff, !N.eqb_eq, N.leb_le, !N.shiftr_div_pow2.
  set (d := 2 ^ (bits fam - plen)).
  assert (Hd : d <> 0) by (unfold d; apply N.pow_nonzero; lia).
  set (q := a / d). set (x := aip ip).
  pose proof (N.div_mod x d Hd) as Hdm. pose proof (N.mod_lt x d Hd) as Hm.
  split.
  - intros [[H1 H2] H3]. fold q in H3. repeat split; try assumption.
    + rewrite H3. lia.
    + rewrite H3. lia.
  - intros [H1 [H2 [H3 H4]]]. repeat split; try assumption. fold q.
    apply (N.div_unique x d q (x - q * d)); lia.
Qed.

(* ---------- doc semantics of a well-formed rule ---------- *)

Lemma mask_len_pos cr p m :
  length p = length m -> (0 < length m <= length cr)%nat -> (0 <? mask_len cr p m) = true.
Proof. intros H1 H2. unfold mask_len, lenN. apply N.ltb_lt. lia. Qed.

Lemma matches_iff_doc r ip cr :
  wf_pat r cr -> (rule_matches r ip (Some cr) = true <-> doc_matches r ip cr).
Proof.
  unfold wf_pat, rule_matches, doc_matches.
  destruct (r_cidr r) as [| |f a l] eqn:Ec; destruct (r_pat r) as [| |p|p m] eqn:Ep; intros W.
  - split; [intros _; split; exact I|reflexivity].
  - split; [discriminate|intros [_ H]; contradiction].
  - cbn [andb]. rewrite starts_with_iff. split; [intros H; split; [exact I|exact H]|intros [_ H]; exact H].
  - destruct W as [W1 W2]. cbn [andb]. rewrite (mask_len_pos cr p m W1 W2). cbn [andb].
    rewrite masked_eq_iff by lia. split; [intros H; split; [exact I|exact H]|intros [_ H]; exact H].
  - split; [discriminate|intros [H _]; contradiction].
  - split; [discriminate|intros [H _]; contradiction].
  - split; [discriminate|intros [H _]; contradiction].
  - split; [discriminate|intros [H _]; contradiction].
  - rewrite net_contains_iff. split; [intros H; split; [exact H|exact I]|intros [H _]; exact H].
  - split; [discriminate|intros [_ H]; contradiction].
  - rewrite andb_true_iff, net_contains_iff, starts_with_iff. reflexivity.
  - destruct W as [W1 W2]. rewrite (mask_len_pos cr p m W1 W2). cbn [andb].
    rewrite andb_true_iff, net_contains_iff, masked_eq_iff by lia. reflexivity.
Qed.

(* ---------- the peer's actual address ---------- *)

Definition mapped (v4ip : N) : addr := {| afam := 6; aip := 65535 * 4294967296 + v4ip |}.
Definition plain (v4ip : N) : addr := {| afam := 4; aip := v4ip |}.

Ltac Zify.zify_post_hook ::= Z.div_mod_to_equations.

Lemma to_canonical_mapped v : v < 4294967296 -> to_canonical (mapped v) = plain v.
Proof.
  intros H. unfold to_canonical, mapped, plain. cbn [afam aip].
  assert (E1 : (65535 * 4294967296 + v) / 4294967296 = 65535) by lia.
  assert (E2 : (65535 * 4294967296 + v) mod 4294967296 = v) by lia.
  rewrite E1, E2. reflexivity.
Qed.

Lemma to_canonical_plain v : to_canonical (plain v) = plain v.
Proof. reflexivity. Qed.

Lemma v4_peer_same_verdict rules v cr :
  v < 4294967296 ->
  connection_verdict true rules (mapped v) cr = connection_verdict true rules (plain v) cr.
Proof.
  intros H. unfold connection_verdict. rewrite to_canonical_mapped by exact H. reflexivity.
Qed.
