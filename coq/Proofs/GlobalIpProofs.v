(* C03: the regenerated definitions of net_utils::is_global_* against the IANA-range spec. *)
From Coq Require Import List NArith ZArith Bool Lia ZifyBool ZifyNat ZifyN.
From TT Require Import Model.IpStd Generated.GlobalIp Spec.IanaSpecial.
Import ListNotations.
Open Scope N_scope.

Ltac Zify.zify_post_hook ::= Z.div_mod_to_equations.

(* ---------- finite sweeps over one byte / one hextet, lifted to all values ---------- *)

Fixpoint upfrom (n : nat) (start : N) : list N :=
  match n with O => [] | S k => start :: upfrom k (N.succ start) end.

Lemma upfrom_In n : forall start x, start <= x -> x < start + N.of_nat n -> In x (upfrom n start).
Proof.
  induction n as [|k IH]; intros start x H1 H2; [lia|].
  cbn [upfrom]. destruct (N.eq_dec x start) as [->|Hne]; [left; reflexivity|].
  right. apply IH; lia.
Qed.

Lemma sweep_eq (f g : N -> bool) (bound : N) :
  forallb (fun x => Bool.eqb (f x) (g x)) (upfrom (N.to_nat bound) 0) = true ->
  forall x, x < bound -> f x = g x.
Proof.
  intros H x Hx. eapply forallb_forall in H.
  - apply Bool.eqb_prop. exact H.
  - apply upfrom_In; lia.
Qed.

Lemma mask_192 x : x < 256 -> (N.land x 192 =? 64) = ((64 <=? x) && (x <? 128)).
Proof. apply (sweep_eq (fun x => N.land x 192 =? 64) (fun x => (64 <=? x) && (x <? 128)) 256). vm_compute. reflexivity. Qed.

Lemma mask_240 x : x < 256 -> (N.land x 240 =? 240) = (240 <=? x).
Proof. apply (sweep_eq (fun x => N.land x 240 =? 240) (fun x => 240 <=? x) 256). vm_compute. reflexivity. Qed.

Lemma mask_254 x : x < 256 -> (N.land x 254 =? 18) = ((18 <=? x) && (x <=? 19)).
Proof. apply (sweep_eq (fun x => N.land x 254 =? 18) (fun x => (18 <=? x) && (x <=? 19)) 256). vm_compute. reflexivity. Qed.

Lemma mask_ll x : x < 65536 -> (N.land x 65472 =? 65152) = ((65152 <=? x) && (x <=? 65215)).
Proof. apply (sweep_eq (fun x => N.land x 65472 =? 65152) (fun x => (65152 <=? x) && (x <=? 65215)) 65536). vm_compute. reflexivity. Qed.

Lemma mask_ula x : x < 65536 -> (N.land x 65024 =? 64512) = ((64512 <=? x) && (x <=? 65023)).
Proof. apply (sweep_eq (fun x => N.land x 65024 =? 64512) (fun x => (64512 <=? x) && (x <=? 65023)) 65536). vm_compute. reflexivity. Qed.

Lemma mask_doc2 x : x < 65536 -> (N.land x 61440 =? 0) = (x <? 4096).
Proof. apply (sweep_eq (fun x => N.land x 61440 =? 0) (fun x => x <? 4096) 65536). vm_compute. reflexivity. Qed.

Lemma mask_mc x : x < 65536 -> (N.land x 65280 =? 65280) = (65280 <=? x).
Proof. apply (sweep_eq (fun x => N.land x 65280 =? 65280) (fun x => 65280 <=? x) 65536). vm_compute. reflexivity. Qed.

(* ---------- IPv4 ---------- *)

Lemma octets_of ip :
  ip < 4294967296 ->
  exists o0 o1 o2 o3,
    o0 < 256 /\ o1 < 256 /\ o2 < 256 /\ o3 < 256 /\ ip = v4 o0 o1 o2 o3
    /\ octet 0 ip = o0 /\ octet 1 ip = o1 /\ octet 2 ip = o2 /\ octet 3 ip = o3.
Proof.
  intros H. unfold octet.
  change (2 ^ (8 * (3 - 0))) with (256 * 256 * 256). change (2 ^ (8 * (3 - 1))) with (256 * 256).
  change (2 ^ (8 * (3 - 2))) with 256. change (2 ^ (8 * (3 - 3))) with 1.
  rewrite <- !N.div_div by lia. rewrite N.div_1_r.
  set (q1 := ip / 256). set (q2 := q1 / 256). set (q3 := q2 / 256).
  assert (A1 : ip = 256 * q1 + ip mod 256) by (unfold q1; lia).
  assert (A2 : q1 = 256 * q2 + q1 mod 256) by (unfold q2; lia).
  assert (A3 : q2 = 256 * q3 + q2 mod 256) by (unfold q3; lia).
  assert (B1 : ip mod 256 < 256) by lia.
  assert (B2 : q1 mod 256 < 256) by lia.
  assert (B3 : q2 mod 256 < 256) by lia.
  clearbody q1 q2 q3.
  assert (B4 : q3 < 256) by lia.
  exists q3, (q2 mod 256), (q1 mod 256), (ip mod 256).
  rewrite (N.mod_small q3 256) by exact B4.
  unfold v4. repeat split; try assumption; try reflexivity.
  generalize dependent (ip mod 256). generalize dependent (q1 mod 256). generalize dependent (q2 mod 256).
  intros. lia.
Qed.

(* the spec ranges in octet form; each line is a small arithmetic fact *)
Section Oct.
  Variables o0 o1 o2 o3 : N.
  Hypothesis H0 : o0 < 256.
  Hypothesis H1 : o1 < 256.
  Hypothesis H2 : o2 < 256.
  Hypothesis H3 : o3 < 256.
  Let ip := v4 o0 o1 o2 o3.

  Ltac rng :=
    unfold in_range, ip;
    try match goal with
        | |- context [cidr4 ?a ?b ?c ?d ?l] =>
          let v := eval vm_compute in (cidr4 a b c d l) in change (cidr4 a b c d l) with v
        end;
    unfold v4; cbn [fst snd]; lia.

  Lemma r_0 : in_range ip (cidr4 0 0 0 0 8) = (o0 =? 0). Proof. rng. Qed.
  Lemma r_10 : in_range ip (cidr4 10 0 0 0 8) = (o0 =? 10). Proof. rng. Qed.
  Lemma r_100 : in_range ip (cidr4 100 64 0 0 10) = ((o0 =? 100) && ((64 <=? o1) && (o1 <? 128))). Proof. rng. Qed.
  Lemma r_127 : in_range ip (cidr4 127 0 0 0 8) = (o0 =? 127). Proof. rng. Qed.
  Lemma r_169 : in_range ip (cidr4 169 254 0 0 16) = ((o0 =? 169) && (o1 =? 254)). Proof. rng. Qed.
  Lemma r_172 : in_range ip (cidr4 172 16 0 0 12) = ((o0 =? 172) && ((16 <=? o1) && (o1 <=? 31))). Proof. rng. Qed.
  Lemma r_192a : in_range ip (v4 192 0 0 0, v4 192 0 0 8)
                 = ((o0 =? 192) && (o1 =? 0) && (o2 =? 0) && (o3 <=? 8)). Proof. rng. Qed.
  Lemma r_192b : in_range ip (v4 192 0 0 11, v4 192 0 0 255)
                 = ((o0 =? 192) && (o1 =? 0) && (o2 =? 0) && (11 <=? o3)). Proof. rng. Qed.
  Lemma r_192_2 : in_range ip (cidr4 192 0 2 0 24) = ((o0 =? 192) && (o1 =? 0) && (o2 =? 2)). Proof. rng. Qed.
  Lemma r_192_168 : in_range ip (cidr4 192 168 0 0 16) = ((o0 =? 192) && (o1 =? 168)). Proof. rng. Qed.
  Lemma r_198_18 : in_range ip (cidr4 198 18 0 0 15) = ((o0 =? 198) && ((18 <=? o1) && (o1 <=? 19))). Proof. rng. Qed.
  Lemma r_198_51 : in_range ip (cidr4 198 51 100 0 24) = ((o0 =? 198) && (o1 =? 51) && (o2 =? 100)). Proof. rng. Qed.
  Lemma r_203 : in_range ip (cidr4 203 0 113 0 24) = ((o0 =? 203) && (o1 =? 0) && (o2 =? 113)). Proof. rng. Qed.
  Lemma r_240 : in_range ip (cidr4 240 0 0 0 4) = (240 <=? o0). Proof. rng. Qed.
  Lemma e_9 : (ip =? 3221225481) = ((o0 =? 192) && (o1 =? 0) && (o2 =? 0) && (o3 =? 9)). Proof. unfold ip, v4. lia. Qed.
  Lemma e_10 : (ip =? 3221225482) = ((o0 =? 192) && (o1 =? 0) && (o2 =? 0) && (o3 =? 10)). Proof. unfold ip, v4. lia. Qed.
  Lemma e_bc : (ip =? 4294967295) = ((o0 =? 255) && (o1 =? 255) && (o2 =? 255) && (o3 =? 255)). Proof. unfold ip, v4. lia. Qed.
End Oct.

(* decide a boolean identity over comparison atoms by case analysis, closing each leaf with lia *)
Ltac bool_cases :=
  repeat match goal with
         | |- context [?a =? ?b] => destruct (a =? b) eqn:?; cbn [andb orb negb]
         | |- context [?a <=? ?b] => destruct (a <=? b) eqn:?; cbn [andb orb negb]
         | |- context [?a <? ?b] => destruct (a <? b) eqn:?; cbn [andb orb negb]
         end;
  try reflexivity; try lia.

(* evaluate comparisons between literals *)
Ltac lits :=
  repeat match goal with
         | |- context [?a =? ?b] =>
           tryif is_var a then fail else (tryif is_var b then fail else
             (let v := eval vm_compute in (a =? b) in change (a =? b) with v))
         | |- context [?a <=? ?b] =>
           tryif is_var a then fail else (tryif is_var b then fail else
             (let v := eval vm_compute in (a <=? b) in change (a <=? b) with v))
         end.

(* decide every comparison of the first octet with a literal from the hypotheses *)
Ltac o0_atoms o :=
  repeat match goal with
         | |- context [o =? ?c] =>
           first [ replace (o =? c) with false by lia | replace (o =? c) with true by lia ]
         | |- context [?c <=? o] =>
           first [ replace (c <=? o) with false by lia | replace (c <=? o) with true by lia ]
         end.

Lemma v4_exact ip : ip < 4294967296 -> is_global_ipv4 ip = negb (in_ranges ip non_global_v4).
Proof.
  intros H.
  destruct (octets_of ip H) as (o0 & o1 & o2 & o3 & H0 & H1 & H2 & H3 & Hip & E0 & E1 & E2 & E3).
  unfold is_global_ipv4, is_private, is_loopback, is_link_local, is_broadcast, is_documentation.
  rewrite E0, E1, E2.
  rewrite (mask_192 o1 H1), (mask_240 o0 H0), (mask_254 o1 H1).
  unfold in_ranges, non_global_v4. cbn [existsb].
  clear E0 E1 E2 E3 H. subst ip.
  rewrite (e_9 o0 o1 o2 o3 H0 H1 H2 H3), (e_10 o0 o1 o2 o3 H0 H1 H2 H3), (e_bc o0 o1 o2 o3 H0 H1 H2 H3).
  rewrite (r_0 o0 o1 o2 o3), (r_10 o0 o1 o2 o3), (r_100 o0 o1 o2 o3 H0 H1 H2 H3), (r_127 o0 o1 o2 o3),
    (r_169 o0 o1 o2 o3), (r_172 o0 o1 o2 o3 H0 H1 H2 H3), (r_192a o0 o1 o2 o3), (r_192b o0 o1 o2 o3 H0 H1 H2 H3),
    (r_192_2 o0 o1 o2 o3), (r_192_168 o0 o1 o2 o3), (r_198_18 o0 o1 o2 o3 H0 H1 H2 H3), (r_198_51 o0 o1 o2 o3),
    (r_203 o0 o1 o2 o3), (r_240 o0 o1 o2 o3 H0 H1 H2 H3) by assumption.
  assert (Hc : o0 = 0 \/ o0 = 10 \/ o0 = 100 \/ o0 = 127 \/ o0 = 169 \/ o0 = 172 \/ o0 = 192
               \/ o0 = 198 \/ o0 = 203 \/ o0 = 255 \/ (240 <= o0 /\ o0 <> 255)
               \/ (o0 <> 0 /\ o0 <> 10 /\ o0 <> 100 /\ o0 <> 127 /\ o0 <> 169 /\ o0 <> 172
                   /\ o0 <> 192 /\ o0 <> 198 /\ o0 <> 203 /\ o0 < 240)) by lia.
  destruct Hc as [Hc|[Hc|[Hc|[Hc|[Hc|[Hc|[Hc|[Hc|[Hc|[Hc|[Hc|Hc]]]]]]]]]]].
  all: try (subst o0; lits; cbn [andb orb negb]; bool_cases).
  - (* 240..254 *)
    o0_atoms o0; cbn [andb orb negb]; bool_cases.
  - o0_atoms o0; cbn [andb orb negb]; bool_cases.
Qed.

(* ---------- IPv6 ---------- *)

Definition TWO128 : N := 2 ^ 128.

Lemma segs_of ip :
  ip < TWO128 ->
  segment 0 ip = hextet0 ip /\ segment 1 ip = hextet1 ip /\ hextet0 ip < 65536 /\ hextet1 ip < 65536.
Proof.
  intros H. unfold segment, hextet0, hextet1, TWO128 in *.
  change (2 ^ (16 * (7 - 0))) with P112. change (2 ^ (16 * (7 - 1))) with P96.
  assert (A : ip / P112 < 65536).
  { apply N.div_lt_upper_bound; [unfold P112; lia|]. unfold P112.
    change (2 ^ 112 * 65536) with (2 ^ 128). exact H. }
  split; [apply N.mod_small; exact A|]. split; [reflexivity|]. split; [exact A|].
  apply N.mod_lt. lia.
Qed.

Lemma hextet0_small ip : ip < 2 ^ 112 -> hextet0 ip = 0.
Proof. intros H. unfold hextet0, P112. apply N.div_small. exact H. Qed.

Lemma hextet0_big ip s : s * 2 ^ 112 <= ip -> s <= hextet0 ip.
Proof. intros H. unfold hextet0, P112. apply N.div_le_lower_bound; [lia|]. lia. Qed.

Lemma mapped_bounds ip a :
  mapped_v4 ip = Some a -> a < 4294967296 /\ ip < 2 ^ 112 /\ 2 <= ip.
Proof.
  unfold mapped_v4. destruct (ip / 4294967296 =? 65535) eqn:E; [|discriminate].
  intros H. inversion H; subst. apply N.eqb_eq in E.
  split; [apply N.mod_lt; lia|].
  assert (ip = 4294967296 * 65535 + ip mod 4294967296).
  { rewrite <- E. apply N.div_mod. lia. }
  assert (ip mod 4294967296 < 4294967296) by (apply N.mod_lt; lia).
  split; [|lia].
  eapply N.lt_le_trans with (m := 2 ^ 48); [change (2 ^ 48) with 281474976710656; lia|].
  apply N.pow_le_mono_r; lia.
Qed.

Lemma unmapped_big ip : 2 ^ 112 <= ip -> mapped_v4 ip = None.
Proof.
  intros H. destruct (mapped_v4 ip) as [a|] eqn:E; [|reflexivity].
  apply mapped_bounds in E. lia.
Qed.

Lemma to_mapped_same ip : to_ipv4_mapped ip = mapped_v4 ip.
Proof. reflexivity. Qed.

Lemma special_never_global_v6_proof ip :
  ip < TWO128 -> special_v6 ip = true -> is_global_ipv6 ip = false.
Proof.
  intros H Hs. destruct (segs_of ip H) as (S0 & S1 & B0 & B1).
  unfold is_global_ipv6. cbn [V6_MAPPED_CLASSIFIED_AS_V4 V6_SCOPE_ONLY_FOR_MULTICAST andb].
  rewrite to_mapped_same. unfold special_v6 in Hs.
  destruct (mapped_v4 ip) as [a|] eqn:Em.
  - destruct (mapped_bounds ip a Em) as (Ba & Bi & Bi2).
    rewrite v4_exact by exact Ba.
    pose proof (hextet0_small ip Bi) as Hz. rewrite Hz in Hs.
    replace (ip =? 0) with false in Hs by lia. replace (ip =? 1) with false in Hs by lia.
    change (65152 <=? 0) with false in Hs. change (64512 <=? 0) with false in Hs.
    change (0 =? 8193) with false in Hs. change (0 =? 16383) with false in Hs. change (0 =? 24320) with false in Hs.
    cbn [andb orb] in Hs.
    rewrite Hs. reflexivity.
  - unfold is_multicast6, is_unicast_global_ipv6, is_multicast6, is_loopback6, is_unspecified6.
    rewrite S0, S1. rewrite (mask_mc _ B0), (mask_ll _ B0), (mask_ula _ B0), (mask_doc2 _ B1).
    set (s0 := hextet0 ip) in *. set (s1 := hextet1 ip) in *.
    destruct (65280 <=? s0) eqn:Emc.
    + (* multicast: none of the named classes *)
      exfalso.
      assert (Hbig : 2 <= ip).
      { assert (65280 * 2 ^ 112 <= ip); [|lia].
        unfold s0, hextet0, P112 in Emc. apply N.leb_le in Emc.
        pose proof (N.mul_div_le ip (2 ^ 112)). lia. }
      replace (ip =? 0) with false in Hs by lia. replace (ip =? 1) with false in Hs by lia.
      cbn [orb] in Hs.
      replace (s0 <=? 65215) with false in Hs by lia.
      replace (s0 <=? 65023) with false in Hs by lia.
      replace (s0 =? 8193) with false in Hs by lia.
      replace (s0 =? 16383) with false in Hs by lia.
      replace (s0 =? 24320) with false in Hs by lia.
      rewrite !andb_false_r in Hs. cbn in Hs. discriminate.
    + cbn [negb andb orb]. apply negb_false_iff.
      rewrite !orb_false_r in Hs. cbn [orb].
      destruct (ip =? 0), (ip =? 1), ((65152 <=? s0) && (s0 <=? 65215)),
        ((64512 <=? s0) && (s0 <=? 65023)), ((s0 =? 8193) && (s1 =? 3512)),
        ((s0 =? 16383) && (s1 <? 4096)), (s0 =? 24320);
        cbn [orb] in *; try reflexivity; discriminate.
Qed.

Lemma global_unicast_never_refused_v6_proof ip :
  ip < TWO128 -> global_unicast_v6 ip = true -> is_global_ipv6 ip = true.
Proof.
  intros H Hg. destruct (segs_of ip H) as (S0 & S1 & B0 & B1).
  unfold global_unicast_v6 in Hg.
  apply andb_true_iff in Hg. destruct Hg as [Hg Hdoc2].
  apply andb_true_iff in Hg. destruct Hg as [Hg Hdoc].
  apply andb_true_iff in Hg. destruct Hg as [Hg Hprot].
  apply andb_true_iff in Hg. destruct Hg as [Hlo Hhi].
  apply N.leb_le in Hlo, Hhi.
  assert (Hbig : 2 ^ 112 <= ip).
  { unfold hextet0, P112 in Hlo. pose proof (N.mul_div_le ip (2 ^ 112)). lia. }
  unfold is_global_ipv6. cbn [V6_MAPPED_CLASSIFIED_AS_V4 V6_SCOPE_ONLY_FOR_MULTICAST andb].
  rewrite to_mapped_same, (unmapped_big ip Hbig).
  unfold is_multicast6, is_unicast_global_ipv6, is_multicast6, is_loopback6, is_unspecified6.
  rewrite S0, S1. rewrite (mask_mc _ B0), (mask_ll _ B0), (mask_ula _ B0), (mask_doc2 _ B1).
  set (s0 := hextet0 ip) in *. set (s1 := hextet1 ip) in *.
  replace (65280 <=? s0) with false by lia. cbn [negb andb orb].
  replace (ip =? 1) with false by lia. replace (ip =? 0) with false by lia.
  replace (65152 <=? s0) with false by lia. replace (64512 <=? s0) with false by lia.
  cbn [andb orb]. apply negb_true_iff. apply negb_true_iff in Hdoc. apply negb_true_iff in Hdoc2.
  rewrite Hdoc, Hdoc2. cbn [orb]. apply N.eqb_neq. lia.
Qed.
