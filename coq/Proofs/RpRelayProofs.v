From Coq Require Import List NArith Bool.
From TT Require Import Model.RpRelay.
Import ListNotations.

(* the part of the state the client's view depends on: what has been relayed and whether the origin's side is still open *)
Definition proj (s : state) : list N * bool :=
  match s with Relaying r _ _ => (r, true) | OriginDone r => (r, false) | Ended r _ => (r, false) end.

Definition astep (p : list N * bool) (e : ev) : list N * bool :=
  let (r, o) := p in
  if o then match e with
            | EOrigin b => (r ++ b, true)
            | EOriginEof | EOriginErr | EClientFailed => (r, false)
            | _ => (r, true)
            end
  else (r, false).

Lemma step_proj s e : proj (step true s e) = astep (proj s) e.
Proof.
  destruct s as [r f d|r|r c]; destruct e; cbn; try reflexivity.
  - destruct d; reflexivity.
  - destruct f; reflexivity.
Qed.

Lemma run_proj evs : forall s, proj (run_from true s evs) = fold_left astep evs (proj s).
Proof.
  induction evs as [|e r IH]; intros s; [reflexivity|].
  cbn [run_from fold_left]. change (fold_left (step true) r (step true s e)) with (run_from true (step true s e) r).
  rewrite IH, step_proj. reflexivity.
Qed.

Lemma astep_upload p e : is_upload e = true -> astep p e = p.
Proof. destruct p as [r o]; destruct e; cbn; try discriminate; destruct o; reflexivity. Qed.

Lemma afold_filter evs : forall p,
  fold_left astep (filter (fun e => negb (is_upload e)) evs) p = fold_left astep evs p.
Proof.
  induction evs as [|e r IH]; intros p; [reflexivity|].
  cbn [filter]. destruct (is_upload e) eqn:U; cbn [negb fold_left].
  - rewrite (astep_upload p e U). apply IH.
  - apply IH.
Qed.

Lemma relayed_proj s : relayed_of s = fst (proj s).
Proof. destruct s; reflexivity. Qed.

(* what becomes of the upload - progress, failure, end - has no say in what the client receives of the origin's answer *)
Lemma upload_events_do_not_matter_proof evs :
  relayed_of (run true evs) = relayed_of (run true (filter (fun e => negb (is_upload e)) evs)).
Proof. unfold run. rewrite !relayed_proj, !run_proj, afold_filter. reflexivity. Qed.

Lemma afold_open evs : forall r,
  forallb (fun e => negb (is_end e)) evs = true ->
  fold_left astep evs (r, true) = (r ++ origin_bytes evs, true).
Proof.
  induction evs as [|e t IH]; intros r H; cbn [fold_left origin_bytes]; [rewrite app_nil_r; reflexivity|].
  cbn [forallb] in H. apply andb_true_iff in H. destruct H as [He Ht].
  destruct e; cbn in He; try discriminate; cbn [astep]; rewrite (IH _ Ht); try reflexivity.
  rewrite app_assoc. reflexivity.
Qed.

(* as long as neither the origin's side has ended nor the client's side failed, the client has been sent every byte the origin
   has sent, wherever the failure of the upload falls; and the end of the origin's side changes nothing of it *)
Lemma whole_answer_is_relayed_proof evs post :
  forallb (fun e => negb (is_end e)) evs = true ->
  relayed_of (run true evs) = origin_bytes evs
  /\ relayed_of (run true (evs ++ EOriginEof :: post)) = origin_bytes evs.
Proof.
  intros H. unfold run. rewrite !relayed_proj, !run_proj. cbn [proj]. split.
  - rewrite (afold_open evs [] H). reflexivity.
  - rewrite fold_left_app, (afold_open evs [] H). cbn [fold_left astep].
    assert (S : forall l p, fold_left astep l (p, false) = (p, false)).
    { induction l as [|e t IH]; intros p; [reflexivity|]. cbn [fold_left astep]. apply IH. }
    rewrite S. reflexivity.
Qed.

(* as found: the origin answers in two reads and the write of the body fails between them: the second read was never passed on *)
Lemma failed_upload_cut_the_answer :
  relayed_of (run false [EOrigin [1; 2]%N; EUpFailed; EOrigin [3; 4]%N; EOriginEof]) = [1; 2]%N
  /\ relayed_of (run true [EOrigin [1; 2]%N; EUpFailed; EOrigin [3; 4]%N; EOriginEof]) = [1; 2; 3; 4]%N
  /\ run true [EOrigin [1; 2]%N; EUpFailed; EOrigin [3; 4]%N; EOriginEof; EUpEnd] = Ended [1; 2; 3; 4]%N true.
Proof. vm_compute. repeat split; reflexivity. Qed.
