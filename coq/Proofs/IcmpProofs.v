(* Proofs about Model/Icmp.v: the Internet checksum of every serialised echo request verifies
   (RFC 1071), request-stream decoding is segmentation invariant, parsers are total. *)
From Coq Require Import List NArith ZArith Bool Lia ZifyBool ZifyNat ZifyN.
From TT Require Import Lib.Res Lib.BytesL Generated.Consts Model.UdpCodec Model.Icmp Spec.Rfc1071.
Import ListNotations.
Open Scope N_scope.

Ltac Zify.zify_post_hook ::= Z.div_mod_to_equations.

(* ---------- checksum ---------- *)

Lemma list_pair_ind (P : list N -> Prop) :
  P [] -> (forall a, P [a]) -> (forall a b r, P r -> P (a :: b :: r)) -> forall l, P l.
Proof.
  intros H0 H1 H2.
  assert (H : forall l, P l /\ forall a, P (a :: l)).
  { induction l as [|x l [IH1 IH2]]; split; auto. }
  intros l. apply H.
Qed.

Definition list_sumN (l : list N) : N := fold_right N.add 0 l.

Lemma sum16_words bs : sum16 bs = list_sumN (words16 bs).
Proof.
  induction bs as [|a|a b r IH] using list_pair_ind; cbn [sum16 words16 list_sumN fold_right];
    try lia. fold (list_sumN (words16 r)). lia.
Qed.

Definition words_ok (ws : list N) : Prop := Forall (fun w => w < 65536) ws.

Lemma words16_ok bs : bytes_ok bs = true -> words_ok (words16 bs).
Proof.
  induction bs as [|a|a b r IH] using list_pair_ind; intros H; cbn [words16].
  - constructor.
  - unfold bytes_ok in H. cbn in H. unfold is_byte in H. constructor; [lia|constructor].
  - unfold bytes_ok in H. cbn [forallb] in H. unfold is_byte in H.
    apply andb_true_iff in H. destruct H as [Ha H]. apply andb_true_iff in H. destruct H as [Hb H].
    constructor; [lia|]. apply IH. exact H.
Qed.

Lemma sum16_bound bs : bytes_ok bs = true -> 2 * sum16 bs <= 65535 * (lenN bs + 1).
Proof.
  induction bs as [|a|a b r IH] using list_pair_ind; intros H; cbn [sum16].
  - rewrite (@lenN_nil N). lia.
  - unfold bytes_ok in H. cbn in H. unfold is_byte in H. rewrite lenN_cons, (@lenN_nil N). lia.
  - unfold bytes_ok in H. cbn [forallb] in H. unfold is_byte in H.
    apply andb_true_iff in H. destruct H as [Ha H]. apply andb_true_iff in H. destruct H as [Hb H].
    specialize (IH H). rewrite !lenN_cons. lia.
Qed.

(* one's-complement sum: congruent to the plain sum modulo 65535, zero only for all-zero input *)
Lemma oc_fold_inv ws : forall acc S,
  words_ok ws -> acc <= 65535 -> acc mod 65535 = S mod 65535 -> (acc = 0 -> S = 0) ->
  let r := fold_left oc_add ws acc in
  r <= 65535 /\ r mod 65535 = (S + list_sumN ws) mod 65535 /\ (r = 0 -> S + list_sumN ws = 0).
Proof.
  induction ws as [|w ws IH]; intros acc S Hok Hacc Hmod Hz; cbn [fold_left list_sumN fold_right].
  - cbn zeta. rewrite N.add_0_r. auto.
  - inversion Hok as [|? ? Hw Hok']; subst.
    fold (list_sumN ws).
    replace (S + (w + list_sumN ws)) with ((S + w) + list_sumN ws) by lia.
    apply IH; try assumption; unfold oc_add.
    + destruct (65536 <=? acc + w) eqn:E; lia.
    + destruct (65536 <=? acc + w) eqn:E; lia.
    + destruct (65536 <=? acc + w) eqn:E; intros H0; [lia|].
      assert (acc = 0) by lia. specialize (Hz H). lia.
Qed.

Lemma oc_sum_props ws :
  words_ok ws ->
  oc_sum ws <= 65535 /\ oc_sum ws mod 65535 = list_sumN ws mod 65535
  /\ (oc_sum ws = 0 -> list_sumN ws = 0).
Proof.
  intros H. unfold oc_sum.
  destruct (oc_fold_inv ws 0 0 H) as (A & B & C); try lia; try reflexivity.
  all: cbn zeta in *; rewrite ?N.add_0_l in *; auto.
Qed.

Lemma checksum_fold S :
  S < U32 ->
  let sum1 := S / U16 + S mod U16 in
  let sum2 := (sum1 / U16 + sum1) mod U16 in
  sum2 <= 65535 /\ sum2 mod 65535 = S mod 65535 /\ (sum2 = 0 -> S = 0) /\ (S = 0 -> sum2 = 0).
Proof.
  unfold U32, U16. cbn zeta. intros H.
  set (a := S / 65536). set (b := S mod 65536).
  assert (HS : S = 65536 * a + b) by (unfold a, b; lia).
  assert (Ha : a < 65536) by (unfold a; lia).
  assert (Hb : b < 65536) by (unfold b; lia).
  clearbody a b. subst S.
  destruct (a + b <? 65536) eqn:E.
  - assert (H1 : (a + b) / 65536 = 0) by (apply N.div_small; lia).
    rewrite H1, N.add_0_l. rewrite (N.mod_small (a + b) 65536) by lia.
    split; [lia|]. split; [lia|split; lia].
  - assert (H1 : (a + b) / 65536 = 1) by lia.
    rewrite H1.
    assert (H2 : (1 + (a + b)) mod 65536 = a + b - 65535) by lia.
    rewrite H2. split; [lia|]. split; [lia|split; lia].
Qed.

Lemma word_of_be2 c : c < 65536 ->
  words16 (to_be 2 c) = [c].
Proof.
  intros H. change (to_be 2 c) with [(c / 256) mod 256; c mod 256]. cbn [words16]. f_equal.
  assert (H1 : c / 256 < 256) by lia.
  rewrite (N.mod_small (c / 256) 256) by exact H1. lia.
Qed.

Lemma to_be2_bytes v : exists a b, to_be 2 v = [a; b] /\ a < 256 /\ b < 256.
Proof.
  change (to_be 2 v) with [(v / 256) mod 256; v mod 256].
  eexists _, _. split; [reflexivity|]. split; lia.
Qed.

Lemma echo_checksum_valid_proof ty id seq data :
  ty < 256 -> bytes_ok data = true -> lenN data <= 65535 ->
  exists c,
    c < 65536 /\
    echo_serialize ty id seq data
    = Ok ([ty; 0] ++ to_be 2 c ++ to_be 2 id ++ to_be 2 seq ++ data)
    /\ verifies ([ty; 0] ++ to_be 2 c ++ to_be 2 id ++ to_be 2 seq ++ data) = true.
Proof.
  intros Hty Hd Hlen.
  destruct (to_be2_bytes id) as (i1 & i2 & Hid & Hi1 & Hi2).
  destruct (to_be2_bytes seq) as (s1 & s2 & Hseq & Hs1 & Hs2).
  unfold echo_serialize. rewrite Hid, Hseq.
  set (packet0 := [ty; 0; 0; 0] ++ [i1; i2] ++ [s1; s2] ++ data).
  assert (Hok0 : bytes_ok packet0 = true).
  { unfold packet0, bytes_ok. cbn [Datatypes.app forallb]. unfold is_byte.
    repeat (apply andb_true_iff; split; [lia|]). exact Hd. }
  assert (HS : sum16 packet0 < U32).
  { pose proof (sum16_bound packet0 Hok0) as Hb.
    assert (Hl : lenN packet0 = 8 + lenN data).
    { unfold packet0. rewrite !lenN_app. change (lenN [ty; 0; 0; 0]) with 4.
      change (lenN [i1; i2]) with 2. change (lenN [s1; s2]) with 2. lia. }
    rewrite Hl in Hb. unfold U32. lia. }
  unfold rfc1071_checksum.
  destruct (U32 <=? sum16 packet0) eqn:E; [lia|]. cbn [bind].
  set (S := sum16 packet0) in *.
  destruct (checksum_fold S HS) as (A & B & C & D). cbn zeta in A, B, C, D.
  set (sum2 := ((S / U16 + S mod U16) / U16 + (S / U16 + S mod U16)) mod U16) in *.
  assert (Hwords : S = (ty * 256 + 0) + (i1 * 256 + i2) + (s1 * 256 + s2) + list_sumN (words16 data)).
  { unfold S. rewrite sum16_words. unfold packet0.
    cbn [Datatypes.app words16 list_sumN fold_right]. fold (list_sumN (words16 data)). lia. }
  exists (65536 - 1 - sum2). split; [lia|]. split; [reflexivity|].
  clearbody sum2. clearbody S. clear packet0 Hok0.
  replace (65536 - 1 - sum2) with (65535 - sum2) by lia.
  remember (65535 - sum2) as c eqn:Hcdef.
  (* verification *)
  unfold verifies.
  assert (Hc : c < 65536) by lia.
  destruct (to_be2_bytes c) as (c1 & c2 & Hcb & Hc1 & Hc2).
  assert (Hcw : c1 * 256 + c2 = c).
  { pose proof (word_of_be2 c Hc) as Hw. rewrite Hcb in Hw. cbn [words16] in Hw. congruence. }
  rewrite Hcb. cbn [Datatypes.app words16].
  set (ws := (ty * 256 + 0) :: (c1 * 256 + c2) :: (i1 * 256 + i2) :: (s1 * 256 + s2) :: words16 data).
  assert (Hws : words_ok ws).
  { unfold ws. repeat (constructor; [lia|]). apply words16_ok. exact Hd. }
  assert (Hsum : list_sumN ws = S + c).
  { unfold ws. cbn [list_sumN fold_right]. fold (list_sumN (words16 data)). lia. }
  destruct (oc_sum_props ws Hws) as (P1 & P2 & P3).
  rewrite Hsum in P2, P3. clearbody ws.
  assert (Hm : (S + c) mod 65535 = 0) by lia.
  assert (Hnz : oc_sum ws <> 0).
  { intros H0. specialize (P3 H0). assert (HS0 : S = 0) by lia.
    specialize (D HS0). lia. }
  apply N.eqb_eq. generalize dependent (oc_sum ws). intros r. intros. lia.
Qed.

(* ---------- request stream decoding ---------- *)
From TT Require Import Spec.UdpWire Spec.IcmpWire.

Ltac iconsts := unfold ICMPPKT_REQ_SIZE in *.

Lemma records23_short acc l :
  lenN acc + lenN l < 23 -> records23 acc l = ([], acc ++ l).
Proof.
  revert acc. induction l as [|x l IH]; intros acc H; cbn [records23].
  - rewrite app_nil_r. reflexivity.
  - rewrite lenN_cons in H.
    destruct (lenN (acc ++ [x]) =? 23) eqn:E.
    { rewrite lenN_app in E. change (lenN [x]) with 1 in E. lia. }
    rewrite IH by (rewrite lenN_app; change (lenN [x]) with 1; lia).
    rewrite <- app_assoc. reflexivity.
Qed.

Lemma records23_fill acc l :
  lenN acc < 23 -> 23 <= lenN acc + lenN l ->
  records23 acc l =
  (let '(gs, r) := records23 [] (dropN (23 - lenN acc) l) in
   ((acc ++ takeN (23 - lenN acc) l) :: gs, r)).
Proof.
  revert acc. induction l as [|x l IH]; intros acc Ha H.
  - rewrite lenN_nil in H. lia.
  - cbn [records23]. rewrite lenN_cons in H.
    assert (Hl : lenN (acc ++ [x]) = lenN acc + 1) by (rewrite lenN_app; reflexivity).
    destruct (lenN (acc ++ [x]) =? 23) eqn:E.
    + assert (H1 : 23 - lenN acc = 1) by lia. rewrite H1.
      change (takeN 1 (x :: l)) with [x]. change (dropN 1 (x :: l)) with l. reflexivity.
    + rewrite IH by lia. rewrite Hl.
      assert (Hk : 23 - lenN acc = N.succ (23 - (lenN acc + 1))) by lia.
      rewrite Hk. unfold takeN, dropN. rewrite N2Nat.inj_succ. cbn [firstn skipn].
      rewrite <- app_assoc. reflexivity.
Qed.

Lemma parse_request_ok raw :
  lenN raw = 23 ->
  parse_request raw =
  Ok {| rq_peer := q_dest (request_of raw); rq_id := q_id (request_of raw);
        rq_seq := q_seq (request_of raw); rq_ttl := q_ttl (request_of raw);
        rq_size := q_size (request_of raw) |}.
Proof.
  intros H. unfold parse_request, get_be, get_u8.
  destruct (lenN raw <? 2) eqn:E1; [lia|]. cbn [bind].
  destruct (lenN (dropN 2 raw) <? 16) eqn:E2; [rewrite lenN_dropN in E2; lia|].
  destruct (lenN (dropN 16 (dropN 2 raw)) <? 2) eqn:E3; [rewrite !lenN_dropN in E3; lia|].
  cbn [bind].
  rewrite !dropN_dropN.
  change (2 + (16 + 2)) with 20. change (2 + 16) with 18.
  destruct (dropN 20 raw) as [|t rest] eqn:E4.
  { assert (lenN (dropN 20 raw) = 3) by (rewrite lenN_dropN; lia). rewrite E4, lenN_nil in H0. lia. }
  cbn [bind].
  assert (Hr : rest = dropN 21 raw).
  { change 21 with (20 + 1). rewrite <- dropN_dropN, E4. reflexivity. }
  destruct (lenN rest <? 2) eqn:E5.
  { rewrite Hr, lenN_dropN in E5. lia. }
  cbn [bind]. unfold request_of. cbn [q_dest q_id q_seq q_ttl q_size].
  rewrite E4. change (takeN 1 (t :: rest)) with [t]. rewrite Hr.
  replace (be [t]) with t by (unfold be; cbn; lia).
  reflexivity.
Qed.

Definition to_rq (raw : list N) : icmp_request :=
  {| rq_peer := q_dest (request_of raw); rq_id := q_id (request_of raw);
     rq_seq := q_seq (request_of raw); rq_ttl := q_ttl (request_of raw);
     rq_size := q_size (request_of raw) |}.

Lemma records23_lengths l : forall acc,
  lenN acc < 23 ->
  Forall (fun g => lenN g = 23) (fst (records23 acc l)) /\ lenN (snd (records23 acc l)) < 23.
Proof.
  induction l as [|x l IH]; intros acc Ha; cbn [records23].
  - split; [constructor|exact Ha].
  - destruct (lenN (acc ++ [x]) =? 23) eqn:E.
    + destruct (records23 [] l) as [gs r] eqn:Er. cbn [fst snd].
      destruct (IH []) as [I1 I2]; [rewrite lenN_nil; lia|]. rewrite Er in I1, I2. cbn [fst snd] in *.
      split; [constructor; [lia|exact I1]|exact I2].
    + apply IH. rewrite lenN_app in *. change (lenN [x]) with 1 in *. lia.
Qed.

Lemma is_nil_lenN_true {A} (l : list A) : is_nil l = true -> l = [].
Proof. destruct l; [reflexivity|discriminate]. Qed.

Lemma icmp_decode_all_spec fuel : forall buffer data,
  lenN buffer < 23 -> (length data < fuel)%nat ->
  icmp_decode_all fuel buffer data =
  Ok (snd (records23 buffer data), map to_rq (fst (records23 buffer data))).
Proof.
  induction fuel as [|f IH]; intros buffer data Hb Hf; [lia|].
  cbn [icmp_decode_all].
  destruct data as [|x data'] eqn:Ed; [reflexivity|]. rewrite <- Ed in *.
  cbn [is_nil]. replace (is_nil data) with false by (rewrite Ed; reflexivity).
  assert (Hd : 1 <= lenN data) by (rewrite Ed, lenN_cons; lia).
  unfold on_message_chunk. iconsts.
  destruct (negb (is_nil buffer) || (lenN buffer + lenN data <? 23)) eqn:G.
  - destruct (23 <? lenN buffer) eqn:E0; [lia|].
    destruct (lenN buffer + lenN data <? 23) eqn:E1.
    + (* not enough for a record *)
      replace (N.min (lenN data) (23 - lenN buffer)) with (lenN data) by lia.
      rewrite takeN_all, dropN_all by lia.
      destruct (23 <? lenN (buffer ++ data)) eqn:E2; [rewrite lenN_app in E2; lia|].
      destruct (lenN (buffer ++ data) <? 23) eqn:E3; [|rewrite lenN_app in E3; lia].
      cbn [is_nil bind]. rewrite records23_short by lia. reflexivity.
    + replace (N.min (lenN data) (23 - lenN buffer)) with (23 - lenN buffer) by lia.
      destruct (23 <? lenN (buffer ++ takeN (23 - lenN buffer) data)) eqn:E2.
      { rewrite lenN_app, lenN_takeN in E2. lia. }
      destruct (lenN (buffer ++ takeN (23 - lenN buffer) data) <? 23) eqn:E3.
      { rewrite lenN_app, lenN_takeN in E3. lia. }
      cbn [bind].
      rewrite parse_request_ok by (rewrite lenN_app, lenN_takeN; lia). cbn [bind].
      assert (Hnb : buffer <> []).
      { apply orb_true_iff in G. destruct G as [G|G]; [|lia].
        destruct buffer; [discriminate|discriminate]. }
      rewrite IH.
      2:{ rewrite lenN_nil. lia. }
      2:{ assert (lenN (dropN (23 - lenN buffer) data) < lenN data).
          { rewrite lenN_dropN. destruct buffer; [contradiction|]. rewrite lenN_cons in *. lia. }
          unfold lenN in *. lia. }
      cbn [bind]. rewrite (records23_fill buffer data) by lia.
      destruct (records23 [] (dropN (23 - lenN buffer) data)) as [gs r]. reflexivity.
  - apply orb_false_iff in G. destruct G as [G1 G2].
    apply negb_false_iff in G1. apply is_nil_lenN_true in G1. subst buffer.
    rewrite lenN_nil in *. cbn [bind].
    rewrite parse_request_ok by (rewrite lenN_takeN; lia). cbn [bind].
    rewrite IH.
    2:{ rewrite lenN_nil. lia. }
    2:{ assert (lenN (dropN 23 data) < lenN data) by (rewrite lenN_dropN; lia).
        unfold lenN in *. lia. }
    cbn [bind]. rewrite (records23_fill [] data) by (rewrite ?lenN_nil; lia).
    rewrite lenN_nil. change (23 - 0) with 23. cbn [Datatypes.app].
    destruct (records23 [] (dropN 23 data)) as [gs r]. reflexivity.
Qed.

Lemma records23_app a : forall acc b,
  records23 acc (a ++ b) =
  (let '(g1, r1) := records23 acc a in
   let '(g2, r2) := records23 r1 b in (g1 ++ g2, r2)).
Proof.
  induction a as [|x a IH]; intros acc b.
  - cbn [Datatypes.app records23]. destruct (records23 acc b). reflexivity.
  - cbn [Datatypes.app records23].
    destruct (lenN (acc ++ [x]) =? 23).
    + rewrite IH. destruct (records23 [] a) as [g1 r1]. destruct (records23 r1 b) as [g2 r2]. reflexivity.
    + apply IH.
Qed.

Lemma icmp_run_spec chunks : forall buffer,
  lenN buffer < 23 ->
  exists outs,
    icmp_run buffer chunks = Ok (snd (records23 buffer (concat chunks)), outs)
    /\ concat outs = map to_rq (fst (records23 buffer (concat chunks))).
Proof.
  induction chunks as [|c cs IH]; intros buffer Hb.
  - exists []. cbn [icmp_run concat records23 fst snd map]. split; reflexivity.
  - cbn [icmp_run concat].
    rewrite icmp_decode_all_spec by (assumption || lia). cbn [bind].
    destruct (records23_lengths c buffer Hb) as [_ Hr].
    destruct (IH (snd (records23 buffer c)) Hr) as (outs & Hrun & Hout).
    rewrite Hrun. cbn [bind].
    exists (map to_rq (fst (records23 buffer c)) :: outs).
    rewrite records23_app.
    destruct (records23 buffer c) as [g1 r1]. cbn [fst snd] in *.
    destruct (records23 r1 (concat cs)) as [g2 r2]. cbn [fst snd] in *.
    split; [reflexivity|]. cbn [concat]. rewrite Hout, map_app. reflexivity.
Qed.

Lemma icmp_segmentation_invariant_proof chunks :
  exists r outs,
    icmp_run [] chunks = Ok (r, outs)
    /\ concat outs = map to_rq (fst (records23 [] (concat chunks)))
    /\ r = snd (records23 [] (concat chunks)).
Proof.
  destruct (icmp_run_spec chunks []) as (outs & H1 & H2); [rewrite lenN_nil; lia|].
  eexists _, outs. split; [exact H1|]. split; [exact H2|reflexivity].
Qed.

(* ---------- totality of the packet parsers (no Panic, no fuel exhaustion) ---------- *)

Definition safe {A} (r : res A) : Prop := r <> Panic /\ r <> Fuel.

Lemma safe_ok {A} (a : A) : safe (Ok a).
Proof. split; discriminate. Qed.
Lemma safe_reject {A} : safe (@Reject A).
Proof. split; discriminate. Qed.

Lemma safe_bind {A B} (r : res A) (f : A -> res B) :
  safe r -> (forall a, r = Ok a -> safe (f a)) -> safe (bind r f).
Proof.
  intros [H1 H2] Hf. destruct r; cbn [bind]; try (split; congruence).
  apply Hf. reflexivity.
Qed.

Lemma skip_ipv4_header_safe p : safe (skip_ipv4_header p).
Proof.
  unfold skip_ipv4_header, MIN_IPV4_HEADER_SIZE.
  destruct (lenN p <? 20) eqn:E; [apply safe_ok|].
  destruct p as [|x p1]; [rewrite lenN_nil in E; lia|].
  rewrite lenN_cons in E. cbn [get_u8 bind].
  set (hl := (N.land x 15 * 4) mod 256).
  destruct ((hl <? 20) || (lenN p1 + 1 <? hl)) eqn:G; [apply safe_ok|].
  apply orb_false_iff in G. destruct G as [G1 G2].
  unfold advance.
  destruct (lenN p1 <? 8) eqn:E1; [lia|]. cbn [bind].
  destruct (dropN 8 p1) as [|y p3] eqn:E2.
  { assert (lenN (dropN 8 p1) = lenN p1 - 8) by apply lenN_dropN. rewrite E2, lenN_nil in H. lia. }
  cbn [get_u8 bind].
  assert (Hl3 : lenN p3 = lenN p1 - 9).
  { assert (lenN (dropN 8 p1) = lenN p1 - 8) by apply lenN_dropN. rewrite E2, lenN_cons in H. lia. }
  destruct (lenN p3 <? 10 + (hl - 20)) eqn:E3; [lia|]. cbn [bind]. apply safe_ok.
Qed.

Lemma skip_v6_ext_safe fuel : forall next p,
  V6_EXT_LENGTH_CHECKED = true -> (length p < fuel)%nat -> safe (skip_v6_ext fuel next p).
Proof.
  induction fuel as [|f IH]; intros next p Hflag Hf; [lia|].
  cbn [skip_v6_ext]. rewrite Hflag.
  destruct ((next =? IPPROTO_HOPOPTS) || (next =? IPPROTO_ROUTING) || (next =? IPPROTO_DSTOPTS)).
  - destruct (lenN p <? 2) eqn:E; [apply safe_ok|].
    destruct p as [|n1 [|l p2]]; try (rewrite ?lenN_cons, ?lenN_nil in E; lia).
    cbn [get_u8 bind andb].
    destruct (lenN p2 <? l) eqn:E2; [apply safe_ok|].
    unfold advance. rewrite E2. cbn [bind]. apply IH; [exact Hflag|].
    assert (lenN (dropN l p2) <= lenN p2) by (rewrite lenN_dropN; lia).
    cbn [length] in Hf. unfold lenN in *. lia.
  - destruct (next =? IPPROTO_FRAGMENT); [|apply safe_ok].
    unfold IPV6_FRAGMENT_EXT_LENGTH.
    destruct (lenN p <? 8) eqn:E; [apply safe_ok|].
    destruct p as [|n1 p1]; [rewrite lenN_nil in E; lia|].
    rewrite lenN_cons in E. cbn [get_u8 bind]. unfold advance.
    destruct (lenN p1 <? 8 - 1) eqn:E2; [lia|]. cbn [bind]. apply IH; [exact Hflag|].
    assert (lenN (dropN (8 - 1) p1) <= lenN p1) by (rewrite lenN_dropN; lia).
    cbn [length] in Hf. unfold lenN in *. lia.
Qed.

Lemma skip_ipv6_header_safe p : V6_EXT_LENGTH_CHECKED = true -> safe (skip_ipv6_header p).
Proof.
  intros Hflag. unfold skip_ipv6_header, MIN_IPV6_HEADER_SIZE.
  destruct (lenN p <? 40) eqn:E; [apply safe_ok|].
  unfold advance.
  destruct (lenN p <? 6) eqn:E1; [lia|]. cbn [bind].
  destruct (dropN 6 p) as [|nx p2] eqn:E2.
  { assert (lenN (dropN 6 p) = lenN p - 6) by apply lenN_dropN. rewrite E2, lenN_nil in H. lia. }
  cbn [get_u8 bind].
  assert (Hl2 : lenN p2 = lenN p - 7).
  { assert (lenN (dropN 6 p) = lenN p - 6) by apply lenN_dropN. rewrite E2, lenN_cons in H. lia. }
  destruct (lenN p2 <? 33) eqn:E3; [lia|]. cbn [bind].
  apply skip_v6_ext_safe; [exact Hflag|lia].
Qed.

Definition min_len (lc : length_check) : N := match lc with Exact n => n | LowerBound n => n end.

Lemma deserialize_packet_safe {A} lc packet (parse : N -> list N -> res A) k :
  k + 4 <= min_len lc ->
  (forall code p2, k <= lenN p2 -> safe (parse code p2)) ->
  safe (deserialize_packet lc packet parse).
Proof.
  intros Hk Hp. unfold deserialize_packet, CHECKSUM_SIZE.
  destruct (match lc with Exact n => negb (n =? 1 + lenN packet) | LowerBound n => 1 + lenN packet <? n end) eqn:Bad;
    [apply safe_reject|].
  assert (Hlen : k + 3 <= lenN packet) by (destruct lc; cbn [min_len] in Hk; lia).
  destruct packet as [|code p1]; [rewrite lenN_nil in Hlen; lia|].
  rewrite lenN_cons in Hlen. cbn [get_u8 bind]. unfold split_off, advance.
  destruct (lenN p1 <? 2) eqn:E; [lia|]. cbn [bind]. apply Hp. rewrite lenN_dropN. lia.
Qed.

Lemma parse_echo_safe code p : 4 <= lenN p -> safe (parse_echo code p).
Proof.
  intros H. unfold parse_echo, get_be.
  destruct (lenN p <? 2) eqn:E; [lia|]. cbn [bind].
  destruct (lenN (dropN 2 p) <? 2) eqn:E2; [rewrite lenN_dropN in E2; lia|]. cbn [bind]. apply safe_ok.
Qed.

Lemma parse_data_after_safe ok code p : 4 <= lenN p -> safe (parse_data_after 4 ok code p).
Proof.
  intros H. unfold parse_data_after, split_off, advance. destruct (ok code); [|apply safe_reject].
  destruct (lenN p <? 4) eqn:E; [lia|]. cbn [bind]. apply safe_ok.
Qed.

Lemma parse_fixed_safe need extra code p : need <= lenN p -> safe (parse_fixed need extra code p).
Proof. intros H. unfold parse_fixed. destruct (lenN p <? need) eqn:E; [lia|apply safe_ok]. Qed.

Lemma v4_deserialize_safe p : safe (v4_deserialize p).
Proof.
  unfold v4_deserialize. destruct p as [|ty p]; [apply safe_reject|].
  apply safe_bind; [|intros; apply safe_ok].
  unfold V4_ERR_LEN, ICMP_MIN_COMMON_HEADER_SIZE, ICMP_V4_MIN_MATCHING_DATA_SIZE, ECHO_HEADER_SIZE.
  repeat match goal with |- safe (if ?c then _ else _) => destruct c end;
    try apply safe_reject;
    first [ apply (deserialize_packet_safe _ _ _ 4); [cbn [min_len]; lia|intros; apply parse_echo_safe; assumption]
          | apply (deserialize_packet_safe _ _ _ 4); [cbn [min_len]; lia|intros; apply parse_data_after_safe; assumption]
          | apply (deserialize_packet_safe _ _ _ 16); [cbn [min_len]; lia|intros; apply parse_fixed_safe; assumption]
          | apply (deserialize_packet_safe _ _ _ 4); [cbn [min_len]; lia|intros; apply parse_fixed_safe; assumption] ].
Qed.

Lemma v6_deserialize_safe p : safe (v6_deserialize p).
Proof.
  unfold v6_deserialize. destruct p as [|ty p]; [apply safe_reject|].
  apply safe_bind; [|intros; apply safe_ok].
  unfold V6_ERR_LEN, ICMP_MIN_COMMON_HEADER_SIZE, MIN_IPV6_HEADER_SIZE.
  repeat match goal with |- safe (if ?c then _ else _) => destruct c end;
    try apply safe_reject;
    first [ apply (deserialize_packet_safe _ _ _ 4); [cbn [min_len]; lia|intros; apply parse_echo_safe; assumption]
          | apply (deserialize_packet_safe _ _ _ 4); [cbn [min_len]; lia|intros; apply parse_data_after_safe; assumption] ].
Qed.

Lemma quoted_echo_safe v6 data : V6_EXT_LENGTH_CHECKED = true -> safe (quoted_echo v6 data).
Proof.
  intros Hflag. unfold quoted_echo. apply safe_bind.
  - destruct v6; [apply skip_ipv6_header_safe; exact Hflag|apply skip_ipv4_header_safe].
  - intros [[proto payload]|] _; [|apply safe_ok].
    destruct (negb _); [apply safe_ok|].
    destruct payload as [|ty p]; [apply safe_ok|].
    destruct (negb _); [apply safe_ok|].
    pose proof (deserialize_packet_safe
                  (LowerBound (if v6 then ICMP_MIN_COMMON_HEADER_SIZE else ECHO_HEADER_SIZE))
                  p parse_echo 4) as Hs.
    destruct Hs as [Hs1 Hs2].
    + destruct v6; cbn [min_len]; unfold ICMP_MIN_COMMON_HEADER_SIZE, ECHO_HEADER_SIZE; lia.
    + intros; apply parse_echo_safe; assumption.
    + destruct (deserialize_packet _ p parse_echo) as [[c [i s d|d|e]]| | |];
        try apply safe_ok; try congruence.
Qed.

Lemma responded_echo_request_safe m :
  V6_EXT_LENGTH_CHECKED = true -> safe (responded_echo_request m).
Proof.
  intros Hflag. unfold responded_echo_request. destruct (m_body m).
  - destruct (_ =? _); apply safe_ok.
  - apply quoted_echo_safe. exact Hflag.
  - apply safe_ok.
Qed.

Lemma reply_layout_proof peer m id seq d :
  responded_echo_request m = Ok (Some (id, seq, d)) ->
  icmp_encode peer m = Ok (Some (reply_record id peer (m_type m) (m_code m) seq)).
Proof.
  intros H. unfold icmp_encode. rewrite H. cbn [bind]. reflexivity.
Qed.

(* an echo reply carrying the request's identifier, sequence number and data is matched *)
Lemma echo_reply_matches_proof v6 id seq data code :
  responded_echo_request
    {| m_v6 := v6; m_type := (if v6 then V6_ECHO_REPLY else V4_ECHO_REPLY); m_code := code;
       m_body := BEcho id seq data |} = Ok (Some (id, seq, data)).
Proof.
  unfold responded_echo_request. cbn [m_body m_type m_v6]. rewrite N.eqb_refl. reflexivity.
Qed.

(* Destination Unreachable is parsed whatever its code is: the message keeps its type and code, its body is the
   quoted datagram (what follows the 8-octet ICMP header), from which the answered request is then read *)
Lemma v4_unreachable_any_code_proof :
  V4_UNREACHABLE_ANY_CODE = true ->
  forall code c1 c2 u1 u2 u3 u4 quoted,
    ICMP_V4_MIN_MATCHING_DATA_SIZE <= lenN quoted ->
    v4_deserialize (V4_DESTINATION_UNREACHABLE :: code :: c1 :: c2 :: u1 :: u2 :: u3 :: u4 :: quoted)
    = Ok {| m_v6 := false; m_type := V4_DESTINATION_UNREACHABLE; m_code := code; m_body := BData quoted |}.
Proof.
  intros Hflag code c1 c2 u1 u2 u3 u4 quoted Hlen. unfold v4_deserialize.
  replace ((V4_DESTINATION_UNREACHABLE =? V4_ECHO_REPLY) || (V4_DESTINATION_UNREACHABLE =? V4_ECHO)) with false
    by reflexivity.
  rewrite N.eqb_refl. unfold deserialize_packet.
  unfold V4_ERR_LEN, ICMP_MIN_COMMON_HEADER_SIZE, ICMP_V4_MIN_MATCHING_DATA_SIZE, CHECKSUM_SIZE in *.
  destruct (1 + lenN (code :: c1 :: c2 :: u1 :: u2 :: u3 :: u4 :: quoted) <? 8 + 28) eqn:B;
    [rewrite !lenN_cons in B; lia|].
  cbn [get_u8 bind]. unfold split_off, advance.
  destruct (lenN (c1 :: c2 :: u1 :: u2 :: u3 :: u4 :: quoted) <? 2) eqn:B2; [rewrite !lenN_cons in B2; lia|].
  cbn [bind]. change (dropN 2 (c1 :: c2 :: u1 :: u2 :: u3 :: u4 :: quoted)) with (u1 :: u2 :: u3 :: u4 :: quoted).
  unfold parse_data_after, v4_unreachable_code_ok. rewrite Hflag. cbn [any_code]. unfold split_off, advance.
  destruct (lenN (u1 :: u2 :: u3 :: u4 :: quoted) <? 4) eqn:B3; [rewrite !lenN_cons in B3; lia|].
  cbn [bind fst snd]. reflexivity.
Qed.

Lemma v6_unreachable_any_code_proof :
  V6_UNREACHABLE_ANY_CODE = true ->
  forall code c1 c2 u1 u2 u3 u4 quoted,
    MIN_IPV6_HEADER_SIZE <= lenN quoted ->
    v6_deserialize (V6_DESTINATION_UNREACHABLE :: code :: c1 :: c2 :: u1 :: u2 :: u3 :: u4 :: quoted)
    = Ok {| m_v6 := true; m_type := V6_DESTINATION_UNREACHABLE; m_code := code; m_body := BData quoted |}.
Proof.
  intros Hflag code c1 c2 u1 u2 u3 u4 quoted Hlen. unfold v6_deserialize.
  rewrite N.eqb_refl. unfold deserialize_packet.
  unfold V6_ERR_LEN, ICMP_MIN_COMMON_HEADER_SIZE, MIN_IPV6_HEADER_SIZE, CHECKSUM_SIZE in *.
  destruct (1 + lenN (code :: c1 :: c2 :: u1 :: u2 :: u3 :: u4 :: quoted) <? 8 + 40) eqn:B;
    [rewrite !lenN_cons in B; lia|].
  cbn [get_u8 bind]. unfold split_off, advance.
  destruct (lenN (c1 :: c2 :: u1 :: u2 :: u3 :: u4 :: quoted) <? 2) eqn:B2; [rewrite !lenN_cons in B2; lia|].
  cbn [bind]. change (dropN 2 (c1 :: c2 :: u1 :: u2 :: u3 :: u4 :: quoted)) with (u1 :: u2 :: u3 :: u4 :: quoted).
  unfold parse_data_after, v6_unreachable_code_ok. rewrite Hflag. cbn [any_code]. unfold split_off, advance.
  destruct (lenN (u1 :: u2 :: u3 :: u4 :: quoted) <? 4) eqn:B3; [rewrite !lenN_cons in B3; lia|].
  cbn [bind fst snd]. reflexivity.
Qed.

(* what a router quotes (RFC 792: the IP header, here without options, and at least the first 8 octets of the
   datagram) is read back as the request: identifier, sequence number and as much of the data as was quoted *)
Lemma quoted_echo_v4_proof a b k1 k2 id seq data :
  lenN a = 8 -> lenN b = 10 -> id < 65536 -> seq < 65536 ->
  quoted_echo false (69 :: a ++ [IPPROTO_ICMP] ++ b ++ V4_ECHO :: 0 :: k1 :: k2 :: to_be 2 id ++ to_be 2 seq ++ data)
  = Ok (Some (id, seq, data)).
Proof.
  intros Ha Hb Hid Hseq. unfold quoted_echo, skip_ipv4_header, MIN_IPV4_HEADER_SIZE.
  set (rest := V4_ECHO :: 0 :: k1 :: k2 :: to_be 2 id ++ to_be 2 seq ++ data).
  assert (Hrest : 8 <= lenN rest) by (unfold rest; rewrite !lenN_cons, !lenN_app, !lenN_to_be; lia).
  destruct (lenN (69 :: a ++ [IPPROTO_ICMP] ++ b ++ rest) <? 20) eqn:B;
    [rewrite lenN_cons, !lenN_app, lenN_cons, lenN_nil in B; lia|].
  cbn [get_u8 bind].
  replace ((N.land 69 15 * 4) mod 256) with 20 by reflexivity.
  replace (20 <? 20) with false by reflexivity. cbn [orb].
  destruct (lenN (a ++ [IPPROTO_ICMP] ++ b ++ rest) + 1 <? 20) eqn:B2;
    [rewrite !lenN_app, lenN_cons, lenN_nil in B2; lia|].
  unfold advance.
  destruct (lenN (a ++ [IPPROTO_ICMP] ++ b ++ rest) <? 8) eqn:B3; [rewrite !lenN_app in B3; lia|].
  cbn [bind]. assert (Hda : forall X : list N, dropN 8 (a ++ X) = X) by (intros; rewrite <- Ha; apply dropN_exact).
  rewrite Hda. change ([IPPROTO_ICMP] ++ b ++ rest) with (IPPROTO_ICMP :: b ++ rest). cbn [get_u8 bind].
  replace (10 + (20 - 20)) with 10 by reflexivity.
  destruct (lenN (b ++ rest) <? 10) eqn:B4; [rewrite lenN_app in B4; lia|].
  cbn [bind]. assert (Hdb : forall X : list N, dropN 10 (b ++ X) = X) by (intros; rewrite <- Hb; apply dropN_exact).
  rewrite Hdb.
  replace (negb (IPPROTO_ICMP =? IPPROTO_ICMP)) with false by reflexivity.
  unfold rest. replace (negb (V4_ECHO =? V4_ECHO)) with false by reflexivity.
  unfold deserialize_packet, ECHO_HEADER_SIZE, CHECKSUM_SIZE.
  destruct (1 + lenN (0 :: k1 :: k2 :: to_be 2 id ++ to_be 2 seq ++ data) <? 8) eqn:B5;
    [rewrite !lenN_cons, !lenN_app, !lenN_to_be in B5; lia|].
  cbn [get_u8 bind]. unfold split_off, advance.
  destruct (lenN (k1 :: k2 :: to_be 2 id ++ to_be 2 seq ++ data) <? 2) eqn:B6; [rewrite !lenN_cons in B6; lia|].
  cbn [bind]. change (dropN 2 (k1 :: k2 :: to_be 2 id ++ to_be 2 seq ++ data)) with (to_be 2 id ++ to_be 2 seq ++ data).
  assert (Ht : forall v (X : list N), takeN 2 (to_be 2 v ++ X) = to_be 2 v)
    by (intros v X; pose proof (takeN_exact (to_be 2 v) X) as E; rewrite lenN_to_be in E; exact E).
  assert (Hd : forall v (X : list N), dropN 2 (to_be 2 v ++ X) = X)
    by (intros v X; pose proof (dropN_exact (to_be 2 v) X) as E; rewrite lenN_to_be in E; exact E).
  unfold parse_echo, get_be.
  destruct (lenN (to_be 2 id ++ to_be 2 seq ++ data) <? 2) eqn:B7; [rewrite lenN_app, lenN_to_be in B7; lia|].
  cbn [bind]. rewrite Ht, Hd.
  destruct (lenN (to_be 2 seq ++ data) <? 2) eqn:B8; [rewrite lenN_app, lenN_to_be in B8; lia|].
  cbn [bind]. rewrite Ht, Hd.
  rewrite !be_to_be_small by (cbn; lia). reflexivity.
Qed.

Lemma v4_unreachable_reported_proof :
  V4_UNREACHABLE_ANY_CODE = true ->
  forall code c1 c2 u1 u2 u3 u4 a b k1 k2 id seq data peer,
    lenN a = 8 -> lenN b = 10 -> id < 65536 -> seq < 65536 ->
    exists m,
      v4_deserialize (V4_DESTINATION_UNREACHABLE :: code :: c1 :: c2 :: u1 :: u2 :: u3 :: u4 ::
                      69 :: a ++ [IPPROTO_ICMP] ++ b ++ V4_ECHO :: 0 :: k1 :: k2 :: to_be 2 id ++ to_be 2 seq ++ data)
      = Ok m
      /\ responded_echo_request m = Ok (Some (id, seq, data))
      /\ icmp_encode peer m = Ok (Some (reply_record id peer V4_DESTINATION_UNREACHABLE code seq)).
Proof.
  intros Hflag code c1 c2 u1 u2 u3 u4 a b k1 k2 id seq data peer Ha Hb Hid Hseq.
  eexists. split; [|split].
  - apply v4_unreachable_any_code_proof; [exact Hflag|].
    unfold ICMP_V4_MIN_MATCHING_DATA_SIZE. rewrite lenN_cons, !lenN_app, !lenN_cons, !lenN_app, !lenN_to_be, lenN_nil. lia.
  - unfold responded_echo_request. cbn [m_body m_v6]. apply quoted_echo_v4_proof; assumption.
  - apply reply_layout_proof with (d := data).
    unfold responded_echo_request. cbn [m_body m_v6]. apply quoted_echo_v4_proof; assumption.
Qed.
