From Coq Require Import List NArith Bool Lia ZifyBool ZifyNat ZifyN.
From TT Require Import Lib.BytesL Generated.UdpFacts Model.UdpFlows.
Import ListNotations.
Open Scope N_scope.

Lemma meta_eqb_refl m : meta_eqb m m = true.
Proof. unfold meta_eqb. rewrite !N.eqb_refl. reflexivity. Qed.

Lemma meta_eqb_eq a b : meta_eqb a b = true <-> a = b.
Proof.
  unfold meta_eqb. destruct a as [a1 a2], b as [b1 b2]. cbn [fst snd].
  rewrite andb_true_iff, !N.eqb_eq. split; [intros [-> ->]; reflexivity|intros H; inversion H; auto].
Qed.

Lemma meta_eqb_neq a b : meta_eqb a b = false <-> a <> b.
Proof. rewrite <- meta_eqb_eq. destruct (meta_eqb a b); split; congruence. Qed.

Lemma reversed_involutive m : reversed (reversed m) = m.
Proof. destruct m; reflexivity. Qed.

Section Tables.
  Context {A : Type}.
  Implicit Types t : list (meta * A).

  Lemma lookup_remove_same m t : lookup m (remove m t) = None.
  Proof.
    induction t as [|[k v] t IH]; cbn [remove lookup]; [reflexivity|].
    destruct (meta_eqb k m) eqn:E; [exact IH|]. cbn [lookup]. rewrite E. exact IH.
  Qed.

  Lemma lookup_remove_other m m' t : m <> m' -> lookup m' (remove m t) = lookup m' t.
  Proof.
    intros Hne. induction t as [|[k v] t IH]; cbn [remove lookup]; [reflexivity|].
    destruct (meta_eqb k m) eqn:E.
    - apply meta_eqb_eq in E. subst k.
      destruct (meta_eqb m m') eqn:E2; [apply meta_eqb_eq in E2; contradiction|exact IH].
    - cbn [lookup]. destruct (meta_eqb k m'); [reflexivity|exact IH].
  Qed.

  Lemma lookup_insert_same m v t : lookup m (insert m v t) = Some v.
  Proof. unfold insert. cbn [lookup]. rewrite meta_eqb_refl. reflexivity. Qed.

  Lemma lookup_insert_other m m' v t : m <> m' -> lookup m' (insert m v t) = lookup m' t.
  Proof.
    intros Hne. unfold insert. cbn [lookup].
    destruct (meta_eqb m m') eqn:E; [apply meta_eqb_eq in E; contradiction|].
    apply lookup_remove_other. exact Hne.
  Qed.
End Tables.

Definition has {A} (m : meta) (t : list (meta * A)) : bool :=
  match lookup m t with Some _ => true | None => false end.

(* every flow the pipe knows has its outbound socket and vice versa; the multiplexer is alive;
   socket identifiers are below the allocation counter *)
Record UInv (s : ustate) : Prop := {
  ui_alive : terminated s = false;
  ui_agree : forall m, has m (pipe s) = has m (fwd s);
  ui_socks : forall m k, lookup m (fwd s) = Some k -> k < next_sock s;
  ui_inj : forall m m' k, lookup m (fwd s) = Some k -> lookup m' (fwd s) = Some k -> m = m'
}.

Lemma UInv_init : UInv uinit.
Proof. constructor; cbn; try reflexivity; intros; discriminate. Qed.

Lemma has_remove_same {A} m (t : list (meta * A)) : has m (remove m t) = false.
Proof. unfold has. rewrite lookup_remove_same. reflexivity. Qed.
Lemma has_remove_other {A} m m' (t : list (meta * A)) : m <> m' -> has m' (remove m t) = has m' t.
Proof. intros H. unfold has. rewrite lookup_remove_other by exact H. reflexivity. Qed.
Lemma has_insert_same {A} m (v : A) t : has m (insert m v t) = true.
Proof. unfold has. rewrite lookup_insert_same. reflexivity. Qed.
Lemma has_insert_other {A} m m' (v : A) t : m <> m' -> has m' (insert m v t) = has m' t.
Proof. intros H. unfold has. rewrite lookup_insert_other by exact H. reflexivity. Qed.

(* removing the same flow on both sides keeps the invariant *)
Lemma UInv_remove_both s m :
  UInv s -> UInv {| pipe := remove m (pipe s); fwd := remove m (fwd s);
                    next_sock := next_sock s; terminated := false |}.
Proof.
  intros [A B C D]. constructor; cbn [pipe fwd next_sock terminated].
  - reflexivity.
  - intros m'. destruct (meta_eqb m m') eqn:E.
    + apply meta_eqb_eq in E. subst. rewrite !has_remove_same. reflexivity.
    + apply meta_eqb_neq in E. rewrite !has_remove_other by exact E. apply B.
  - intros m' k H. destruct (meta_eqb m m') eqn:E.
    + apply meta_eqb_eq in E. subst. rewrite lookup_remove_same in H. discriminate.
    + apply meta_eqb_neq in E. rewrite lookup_remove_other in H by exact E. eapply C; exact H.
  - intros m1 m2 k H1 H2.
    destruct (meta_eqb m m1) eqn:E1; [apply meta_eqb_eq in E1; subst; rewrite lookup_remove_same in H1; discriminate|].
    destruct (meta_eqb m m2) eqn:E2; [apply meta_eqb_eq in E2; subst; rewrite lookup_remove_same in H2; discriminate|].
    apply meta_eqb_neq in E1, E2. rewrite lookup_remove_other in H1, H2 by assumption. eapply D; eassumption.
Qed.

(* updating the bookkeeping of a flow the pipe already knows *)
Lemma UInv_update s m c :
  UInv s -> has m (pipe s) = true -> UInv (set_pipe s (insert m c (pipe s))).
Proof.
  intros [A B C D] H. constructor; cbn [set_pipe pipe fwd next_sock terminated]; try assumption.
  intros m'. destruct (meta_eqb m m') eqn:E.
  - apply meta_eqb_eq in E. subst. rewrite has_insert_same, <- B. symmetry. exact H.
  - apply meta_eqb_neq in E. rewrite has_insert_other by exact E. apply B.
Qed.

Section Facts.
  Hypothesis F_tick : UDP_TICK_CLOSES_REVERSED_KEY = true.
  Hypothesis F_open : UDP_FAILED_OPEN_FORGETS_FLOW = true.
  Hypothesis F_send : UDP_SEND_ERROR_DROPS_DATAGRAM = true.
  Hypothesis F_err : UDP_READ_ERRORS_REMOVE_THE_FLOW = true.

  Lemma tick_fold_inv expired : forall s,
    UInv s ->
    UInv (fold_left (fun st (kv : meta * uconn) =>
                       fwd_closed (set_pipe st (remove (fst kv) (pipe st)))
                                  (if UDP_TICK_CLOSES_REVERSED_KEY then reversed (fst kv) else fst kv))
                    expired s).
  Proof.
    induction expired as [|[k c] r IH]; intros s I; cbn [fold_left]; [exact I|].
    apply IH. rewrite F_tick. unfold fwd_closed, set_fwd, set_pipe. cbn [fst pipe fwd next_sock terminated].
    rewrite reversed_involutive.
    pose proof (UInv_remove_both s k I) as H. destruct I as [A _ _ _].
    cbn [pipe fwd next_sock terminated] in *. rewrite A. exact H.
  Qed.

  (* one operation, whatever the environment answers *)
  Lemma ustep_inv T s o : UInv s -> UInv (fst (ustep T s o)).
  Proof.
    intros I. pose proof I as [A B C D]. unfold ustep. rewrite A.
    destruct o as [m now is_dns can_open send_ok|m now|m|now].
    - (* client datagram *)
      destruct (lookup m (pipe s)) as [c|] eqn:Lp.
      + (* known flow *)
        assert (Hp : has m (pipe s) = true) by (unfold has; rewrite Lp; reflexivity).
        pose proof (UInv_update s m (register_outgoing now c) I Hp) as I1.
        assert (Hf : has m (fwd s) = true) by (rewrite <- B; exact Hp).
        unfold has in Hf. cbn [set_pipe fwd]. destruct (lookup m (fwd s)) as [k|] eqn:Lf; [|discriminate].
        destruct send_ok; cbn [fst]; [exact I1|]. rewrite F_send. cbn [fst]. exact I1.
      + (* new flow *)
        assert (Hp : has m (pipe s) = false) by (unfold has; rewrite Lp; reflexivity).
        assert (Hf : lookup m (fwd s) = None).
        { rewrite B in Hp. unfold has in Hp. destruct (lookup m (fwd s)); [discriminate|reflexivity]. }
        cbn [set_pipe fwd pipe]. rewrite Hf.
        (* the pipe entry inserted and removed again gives back an equivalent table *)
        assert (Iback : UInv (set_pipe (set_pipe s (insert m {| u_la := now; u_dns := if is_dns then Some 0 else None |} (pipe s)))
                                       (remove m (insert m {| u_la := now; u_dns := if is_dns then Some 0 else None |} (pipe s))))).
        { constructor; cbn [set_pipe pipe fwd next_sock terminated]; try assumption.
          intros m'. destruct (meta_eqb m m') eqn:E.
          - apply meta_eqb_eq in E. subst. rewrite has_remove_same. unfold has. rewrite Hf. reflexivity.
          - apply meta_eqb_neq in E. rewrite has_remove_other, has_insert_other by exact E. apply B. }
        destruct can_open.
        * (* socket opened *)
          cbn [pipe fwd next_sock terminated].
          rewrite lookup_insert_same.
          assert (Inew : UInv {| pipe := insert m (register_outgoing now {| u_la := now; u_dns := if is_dns then Some 0 else None |})
                                              (insert m {| u_la := now; u_dns := if is_dns then Some 0 else None |} (pipe s));
                                 fwd := insert m (next_sock s) (fwd s);
                                 next_sock := next_sock s + 1; terminated := false |}).
          { constructor; cbn [pipe fwd next_sock terminated].
            - reflexivity.
            - intros m'. destruct (meta_eqb m m') eqn:E.
              + apply meta_eqb_eq in E. subst. rewrite !has_insert_same. reflexivity.
              + apply meta_eqb_neq in E. rewrite !has_insert_other by exact E. apply B.
            - intros m' k H. destruct (meta_eqb m m') eqn:E.
              + apply meta_eqb_eq in E. subst. rewrite lookup_insert_same in H. inversion H. lia.
              + apply meta_eqb_neq in E. rewrite lookup_insert_other in H by exact E.
                specialize (C m' k H). lia.
            - intros m1 m2 k H1 H2.
              destruct (meta_eqb m m1) eqn:E1; destruct (meta_eqb m m2) eqn:E2;
                [apply meta_eqb_eq in E1; apply meta_eqb_eq in E2
                |apply meta_eqb_eq in E1; apply meta_eqb_neq in E2
                |apply meta_eqb_neq in E1; apply meta_eqb_eq in E2
                |apply meta_eqb_neq in E1; apply meta_eqb_neq in E2]; subst.
              + reflexivity.
              + rewrite lookup_insert_same in H1. rewrite lookup_insert_other in H2 by exact E2.
                inversion H1; subst. specialize (C m2 _ H2). lia.
              + rewrite lookup_insert_same in H2. rewrite lookup_insert_other in H1 by exact E1.
                inversion H2; subst. specialize (C m1 _ H1). lia.
              + rewrite lookup_insert_other in H1, H2 by assumption. eapply D; eassumption. }
          destruct send_ok; cbn [fst]; [exact Inew|]. rewrite F_send. cbn [fst]. exact Inew.
        * rewrite F_open. cbn [fst]. exact Iback.
    - (* datagram from a peer *)
      destruct (lookup (reversed m) (pipe s)) as [c|] eqn:Lp; [|exact I].
      assert (Hp : has (reversed m) (pipe s) = true) by (unfold has; rewrite Lp; reflexivity).
      destruct (u_dns c) as [n|].
      + destruct (n - 1 =? 0).
        * cbn [fst]. unfold fwd_closed, set_fwd, set_pipe. cbn [pipe fwd next_sock terminated].
          pose proof (UInv_remove_both s (reversed m) I) as H. rewrite A. exact H.
        * cbn [fst]. apply UInv_update; assumption.
      + cbn [fst]. apply UInv_update; assumption.
    - (* socket error *)
      destruct (lookup m (fwd s)); cbn [fst]; [rewrite F_err; apply UInv_remove_both; exact I|exact I].
    - (* timer tick *)
      cbn [fst]. apply tick_fold_inv. exact I.
  Qed.

  Lemma urun_inv T ops : forall s, UInv s -> UInv (fst (urun T s ops)).
  Proof.
    induction ops as [|o r IH]; intros s I; cbn [urun]; [exact I|].
    pose proof (ustep_inv T s o I) as I1. destruct (ustep T s o) as [s1 out]. cbn [fst] in I1.
    specialize (IH s1 I1). destruct (urun T s1 r) as [s2 outs]. exact IH.
  Qed.

  (* a client datagram that is forwarded goes through the socket of exactly its own flow *)
  Lemma routing_s T s m now d c k sock :
    UInv s -> In (ToPeer m sock) (snd (ustep T s (ClientDgram m now d c k))) ->
    lookup m (fwd (fst (ustep T s (ClientDgram m now d c k)))) = Some sock.
  Proof.
    intros I. pose proof I as [A B C D]. unfold ustep. rewrite A.
    destruct (lookup m (pipe s)) as [cc|] eqn:Lp.
    - cbn [set_pipe fwd]. destruct (lookup m (fwd s)) as [kk|] eqn:Lf; [|intros []].
      destruct k; cbn [fst snd].
      + intros [H|[]]. inversion H; subst. exact Lf.
      + rewrite F_send. cbn [snd]. intros [H|[]]. discriminate.
    - cbn [set_pipe fwd pipe].
      destruct (lookup m (fwd s)) as [kk|] eqn:Lf.
      + rewrite F_open. cbn [snd]. intros [H|[]]. discriminate.
      + destruct c.
        * cbn [fwd]. rewrite lookup_insert_same. destruct k; cbn [fst snd fwd].
          -- intros [H|[]]. inversion H; subst. apply lookup_insert_same.
          -- rewrite F_send. cbn [snd]. intros [H|[]]. discriminate.
        * rewrite F_open. cbn [snd]. intros [H|[]]. discriminate.
  Qed.

  (* after a tick no flow idle for longer than the timeout remains, on either side *)
  Lemma remove_subset {A} m (t : list (meta * A)) kv : In kv (remove m t) -> In kv t.
  Proof.
    induction t as [|[k v] t IH]; cbn [remove]; [intros []|].
    destruct (meta_eqb k m); [intros H; right; apply IH; exact H|].
    intros [H|H]; [left; exact H|right; apply IH; exact H].
  Qed.

  Lemma remove_not_key {A} m (t : list (meta * A)) kv : In kv (remove m t) -> fst kv <> m.
  Proof.
    induction t as [|[k v] t IH]; cbn [remove]; [intros []|].
    destruct (meta_eqb k m) eqn:E; [exact IH|].
    intros [H|H]; [subst kv; cbn [fst]; apply meta_eqb_neq; exact E|apply IH; exact H].
  Qed.

  Lemma tick_fold_pipe expired : forall s kv,
    In kv (pipe (fold_left (fun st (kv : meta * uconn) =>
                       fwd_closed (set_pipe st (remove (fst kv) (pipe st)))
                                  (if UDP_TICK_CLOSES_REVERSED_KEY then reversed (fst kv) else fst kv))
                    expired s)) ->
    In kv (pipe s) /\ forall e, In e expired -> fst kv <> fst e.
  Proof.
    induction expired as [|[k c] r IH]; intros s kv H; cbn [fold_left] in H.
    - split; [exact H|intros e []].
    - apply IH in H. cbn [fwd_closed set_fwd set_pipe pipe fst] in H. destruct H as [H1 H2].
      split; [eapply remove_subset; exact H1|].
      intros e [<-|He]; [cbn [fst]; eapply remove_not_key; exact H1|apply H2; exact He].
  Qed.

  Lemma expiry_s T s now kv :
    terminated s = false ->
    In kv (pipe (fst (ustep T s (Tick now)))) -> now - T <= u_la (snd kv).
  Proof.
    intros A. unfold ustep. rewrite A. cbn [fst]. intros H.
    apply tick_fold_pipe in H. destruct H as [H1 H2].
    destruct (u_la (snd kv) <? now - T) eqn:E; [|lia].
    exfalso. apply (H2 kv); [|reflexivity]. apply filter_In. split; [exact H1|exact E].
  Qed.
End Facts.

(* ---------- keys are unique, so table sizes count flows ---------- *)
Definition keys {A} (t : list (meta * A)) : list meta := map fst t.

Lemma in_keys_remove {A} m k (t : list (meta * A)) : In k (keys (remove m t)) -> In k (keys t) /\ k <> m.
Proof.
  unfold keys. induction t as [|[a v] t IH]; cbn [remove map]; [intros []|].
  destruct (meta_eqb a m) eqn:E.
  - intros H. destruct (IH H) as [H1 H2]. split; [right; exact H1|exact H2].
  - cbn [map fst]. intros [H|H].
    + subst. split; [left; reflexivity|apply meta_eqb_neq; exact E].
    + destruct (IH H) as [H1 H2]. split; [right; exact H1|exact H2].
Qed.

Lemma nodup_remove {A} m (t : list (meta * A)) : NoDup (keys t) -> NoDup (keys (remove m t)).
Proof.
  unfold keys. induction t as [|[a v] t IH]; cbn [remove map]; intros H; [constructor|].
  inversion H as [|x l Hn Hd]; subst. destruct (meta_eqb a m); [apply IH; exact Hd|].
  cbn [map fst]. constructor; [|apply IH; exact Hd].
  intros Hin. apply in_keys_remove in Hin. destruct Hin as [Hin _]. exact (Hn Hin).
Qed.

Lemma nodup_insert {A} m (v : A) t : NoDup (keys t) -> NoDup (keys (insert m v t)).
Proof.
  intros H. unfold insert, keys. cbn [map fst]. constructor; [|apply nodup_remove; exact H].
  intros Hin. apply in_keys_remove in Hin. destruct Hin as [_ Hne]. exact (Hne eq_refl).
Qed.

Lemma has_in_keys {A} m (t : list (meta * A)) : has m t = true <-> In m (keys t).
Proof.
  unfold has, keys. induction t as [|[a v] t IH]; cbn [lookup map fst].
  - split; [discriminate|intros []].
  - destruct (meta_eqb a m) eqn:E.
    + apply meta_eqb_eq in E. subst. split; [intros _; left; reflexivity|reflexivity].
    + apply meta_eqb_neq in E. rewrite IH. split; [intros H; right; exact H|intros [H|H]; [contradiction|exact H]].
Qed.

Lemma lookup_in {A} m (v : A) t : lookup m t = Some v -> In (m, v) t.
Proof.
  induction t as [|[a w] t IH]; cbn [lookup]; [discriminate|].
  destruct (meta_eqb a m) eqn:E.
  - apply meta_eqb_eq in E. subst. intros H. inversion H. left. reflexivity.
  - intros H. right. apply IH. exact H.
Qed.

Record KInv (s : ustate) : Prop := { k_pipe : NoDup (keys (pipe s)); k_fwd : NoDup (keys (fwd s)) }.

Lemma KInv_init : KInv uinit.
Proof. constructor; cbn; constructor. Qed.

Lemma tick_fold_kinv f expired : forall s,
  KInv s ->
  KInv (fold_left (fun st (kv : meta * uconn) =>
                     fwd_closed (set_pipe st (remove (fst kv) (pipe st))) (f kv)) expired s).
Proof.
  induction expired as [|kv r IH]; intros s [P F]; cbn [fold_left]; [constructor; assumption|].
  apply IH. constructor; cbn [fwd_closed set_fwd set_pipe pipe fwd]; apply nodup_remove; assumption.
Qed.

Lemma ustep_kinv T s o : KInv s -> KInv (fst (ustep T s o)).
Proof.
  intros K. pose proof K as [P F]. unfold ustep. destruct (terminated s); [exact K|].
  destruct o as [m now is_dns can_open send_ok|m now|m|now].
  - assert (G : forall (r : ustate + ustate),
               (forall s', r = inl s' \/ r = inr s' -> KInv s') ->
               KInv (fst match r with
                         | inr s' => (s', [Dropped m])
                         | inl s' =>
                           match lookup m (fwd s') with
                           | None => ({| pipe := pipe s'; fwd := fwd s'; next_sock := next_sock s'; terminated := true |}, [])
                           | Some sock =>
                             if send_ok then (s', [ToPeer m sock])
                             else if UDP_SEND_ERROR_DROPS_DATAGRAM then (s', [Dropped m])
                             else ({| pipe := pipe s'; fwd := fwd s'; next_sock := next_sock s'; terminated := true |}, [])
                           end
                         end)).
    { intros r H. destruct r as [s'|s'].
      - assert (K' : KInv s') by (apply H; left; reflexivity). destruct K' as [P' F'].
        destruct (lookup m (fwd s')); [|constructor; assumption].
        destruct send_ok; [constructor; assumption|].
        destruct UDP_SEND_ERROR_DROPS_DATAGRAM; constructor; assumption.
      - apply H. right. reflexivity. }
    apply G. intros s' Hs'.
    destruct (lookup m (pipe s)) as [c|].
    + destruct Hs' as [Hs'|Hs']; inversion Hs'; subst.
      constructor; cbn [set_pipe pipe fwd]; [apply nodup_insert|]; assumption.
    + cbn [set_pipe fwd pipe next_sock] in Hs'.
      destruct (lookup m (fwd s)).
      * destruct Hs' as [Hs'|Hs']; inversion Hs'; subst.
        destruct UDP_FAILED_OPEN_FORGETS_FLOW; constructor; cbn [set_pipe pipe fwd];
          rewrite ?meta_eqb_refl; repeat (apply nodup_remove || apply nodup_insert); assumption.
      * destruct can_open; destruct Hs' as [Hs'|Hs']; inversion Hs'; subst.
        -- constructor; cbn [pipe fwd]; rewrite ?meta_eqb_refl; repeat (apply nodup_remove || apply nodup_insert); assumption.
        -- destruct UDP_FAILED_OPEN_FORGETS_FLOW; constructor; cbn [set_pipe pipe fwd];
             rewrite ?meta_eqb_refl; repeat (apply nodup_remove || apply nodup_insert); assumption.
  - destruct (lookup (reversed m) (pipe s)) as [c|]; [|exact K].
    destruct (u_dns c) as [n|].
    + destruct (n - 1 =? 0); cbn [fst]; constructor; cbn [fwd_closed set_fwd set_pipe pipe fwd];
        try apply nodup_remove; try apply nodup_insert; assumption.
    + cbn [fst]. constructor; cbn [set_pipe pipe fwd]; [apply nodup_insert|]; assumption.
  - destruct (lookup m (fwd s)); cbn [fst]; [|exact K].
    constructor; cbn [pipe fwd]; [apply nodup_remove; assumption|].
    destruct UDP_READ_ERRORS_REMOVE_THE_FLOW; [apply nodup_remove|]; assumption.
  - cbn [fst]. apply tick_fold_kinv. exact K.
Qed.

Lemma urun_kinv T ops : forall s, KInv s -> KInv (fst (urun T s ops)).
Proof.
  induction ops as [|o r IH]; intros s K; cbn [urun]; [exact K|].
  pose proof (ustep_kinv T s o K) as K1. destruct (ustep T s o) as [s1 out]. cbn [fst] in K1.
  specialize (IH s1 K1). destruct (urun T s1 r) as [s2 outs]. exact IH.
Qed.

(* with unique keys and the same key sets, both tables have the same size *)
Lemma sizes_agree s : UInv s -> KInv s -> length (fwd s) = length (pipe s).
Proof.
  intros [_ B _ _] [P F].
  assert (L : forall {A} (t : list (meta * A)), length t = length (keys t)) by (intros; unfold keys; rewrite map_length; reflexivity).
  rewrite (L _ (fwd s)), (L _ (pipe s)). apply PeanoNat.Nat.le_antisymm; apply NoDup_incl_length; try assumption.
  - intros m H. apply has_in_keys. rewrite B. apply has_in_keys. exact H.
  - intros m H. apply has_in_keys. rewrite <- B. apply has_in_keys. exact H.
Qed.

(* ---------- faults stay inside their flow ---------- *)
Definition op_flow (o : uop) : option meta :=
  match o with
  | ClientDgram m _ _ _ _ => Some m
  | PeerDgram m _ => Some (reversed m)
  | SocketErr m => Some m
  | Tick _ => None
  end.

Section Confined.
  Hypothesis F_tick : UDP_TICK_CLOSES_REVERSED_KEY = true.
  Hypothesis F_open : UDP_FAILED_OPEN_FORGETS_FLOW = true.
  Hypothesis F_send : UDP_SEND_ERROR_DROPS_DATAGRAM = true.
  Hypothesis F_err : UDP_READ_ERRORS_REMOVE_THE_FLOW = true.

  Lemma other_flows_untouched T s o m m' :
    UInv s -> op_flow o = Some m -> m <> m' ->
    lookup m' (pipe (fst (ustep T s o))) = lookup m' (pipe s)
    /\ lookup m' (fwd (fst (ustep T s o))) = lookup m' (fwd s).
  Proof.
    intros I Ho Hne. pose proof I as [A B C D]. unfold ustep. rewrite A.
    destruct o as [m0 now is_dns can_open send_ok|m0 now|m0|now]; cbn [op_flow] in Ho; inversion Ho; subst; clear Ho.
    - destruct (lookup m (pipe s)) as [c|] eqn:Lp.
      + assert (Hp : has m (pipe s) = true) by (unfold has; rewrite Lp; reflexivity).
        rewrite B in Hp. unfold has in Hp. cbn [set_pipe fwd].
        destruct (lookup m (fwd s)) as [k|] eqn:Lf; [|discriminate].
        destruct send_ok; cbn [fst]; [|rewrite F_send; cbn [fst]];
          cbn [set_pipe pipe fwd]; rewrite lookup_insert_other by exact Hne; split; reflexivity.
      + assert (Hp : has m (pipe s) = false) by (unfold has; rewrite Lp; reflexivity).
        rewrite B in Hp. unfold has in Hp. cbn [set_pipe fwd pipe].
        destruct (lookup m (fwd s)) as [k|] eqn:Lf; [discriminate|].
        destruct can_open.
        * cbn [fwd]. rewrite lookup_insert_same.
          destruct send_ok; cbn [fst]; [|rewrite F_send; cbn [fst]]; cbn [pipe fwd];
            rewrite !lookup_insert_other by exact Hne; split; reflexivity.
        * rewrite F_open. cbn [fst set_pipe pipe fwd].
          rewrite lookup_remove_other, lookup_insert_other by exact Hne. split; reflexivity.
    - destruct (lookup (reversed m0) (pipe s)) as [c|]; [|split; reflexivity].
      destruct (u_dns c) as [n|].
      + destruct (n - 1 =? 0); cbn [fst fwd_closed set_fwd set_pipe pipe fwd].
        * rewrite !lookup_remove_other by exact Hne. split; reflexivity.
        * rewrite lookup_insert_other by exact Hne. split; reflexivity.
      + cbn [fst set_pipe pipe fwd]. rewrite lookup_insert_other by exact Hne. split; reflexivity.
    - destruct (lookup m (fwd s)); cbn [fst pipe fwd]; [|split; reflexivity].
      rewrite F_err. rewrite !lookup_remove_other by exact Hne. split; reflexivity.
  Qed.

  (* what a single operation does to its own flow *)
  Lemma reply_labelled T s m now :
    terminated s = false -> snd (ustep T s (PeerDgram m now)) = [ToClient m].
  Proof.
    intros A. unfold ustep. rewrite A.
    destruct (lookup (reversed m) (pipe s)) as [c|]; [|reflexivity].
    destruct (u_dns c) as [n|]; [destruct (n - 1 =? 0)|]; reflexivity.
  Qed.

  Lemma answered_dns_flow_released T s m now c :
    UInv s -> lookup (reversed m) (pipe s) = Some c -> u_dns c = Some 1 ->
    let s' := fst (ustep T s (PeerDgram m now)) in
    has (reversed m) (pipe s') = false /\ has (reversed m) (fwd s') = false.
  Proof.
    intros [A _ _ _] L Hd. unfold ustep. rewrite A, L, Hd. cbn [fst fwd_closed set_fwd set_pipe pipe fwd].
    change (1 - 1 =? 0) with true. cbn [fst fwd_closed set_fwd set_pipe pipe fwd].
    rewrite ?reversed_involutive. split; apply has_remove_same.
  Qed.

  Lemma fresh_flow_fresh_socket T s m now d :
    UInv s -> has m (pipe s) = false ->
    ustep T s (ClientDgram m now d true true) =
      ({| pipe := insert m (register_outgoing now {| u_la := now; u_dns := if d then Some 0 else None |})
                         (insert m {| u_la := now; u_dns := if d then Some 0 else None |} (pipe s));
          fwd := insert m (next_sock s) (fwd s); next_sock := next_sock s + 1; terminated := false |},
       [ToPeer m (next_sock s)]).
  Proof.
    intros [A B _ _] H. unfold ustep. rewrite A.
    assert (Lp : lookup m (pipe s) = None) by (unfold has in H; destruct (lookup m (pipe s)); [discriminate|reflexivity]).
    rewrite B in H. assert (Lf : lookup m (fwd s) = None) by (unfold has in H; destruct (lookup m (fwd s)); [discriminate|reflexivity]).
    rewrite Lp. cbn [set_pipe fwd pipe next_sock]. rewrite Lf. cbn [fwd]. rewrite lookup_insert_same. reflexivity.
  Qed.

  (* a tick leaves, in the forwarder too, only flows that were active within the timeout *)
  Lemma expiry_both T s now m :
    UInv s -> has m (fwd (fst (ustep T s (Tick now)))) = true ->
    exists c, lookup m (pipe (fst (ustep T s (Tick now)))) = Some c /\ now - T <= u_la c.
  Proof.
    intros I H. pose proof (ustep_inv F_tick F_open F_send F_err T s (Tick now) I) as [A' B' _ _].
    rewrite <- B' in H. unfold has in H.
    destruct (lookup m (pipe (fst (ustep T s (Tick now))))) as [c|] eqn:L; [|discriminate].
    exists c. split; [reflexivity|].
    apply lookup_in in L. destruct I as [A _ _ _].
    first [apply (expiry_s F_tick T s now (m, c)); assumption | apply (expiry_s F_tick F_open F_send F_err T s now (m, c)); assumption | apply (expiry_s F_tick F_open F_send T s now (m, c)); assumption | apply (expiry_s F_tick F_open T s now (m, c)); assumption].
  Qed.
End Confined.
