(* Independent reading of RFC 8446 section 5.1 for what the client sends first: TLSPlaintext records
   (type, legacy version, 16-bit length, fragment); handshake messages are carried in records of type 22 and
   "may be fragmented across several records". *)
From Coq Require Import List NArith Bool.
From TT Require Import Lib.BytesL.
Import ListNotations.
Open Scope N_scope.

(* the largest length any TLS version lets a record carry on the wire: 2^14 plus the 256 bytes of expansion TLS 1.3 allows *)
Definition MAX_FRAGMENT : N := 16640.

Definition byte_at (l : list N) (i : N) : N := nth (N.to_nat i) l 0.

(* the handshake bytes carried by the leading handshake records of [data]; a last record that has not arrived completely
   contributes what has arrived; an empty or over-long fragment, or a record of another type, ends the stream *)
Fixpoint hs_stream (fuel : nat) (data : list N) : list N :=
  match fuel with
  | O => []
  | S f =>
    if lenN data <? 5 then []
    else if negb (byte_at data 0 =? 22) then []
    else
      let rlen := be (takeN 2 (dropN 3 data)) in
      let frag := takeN rlen (dropN 5 data) in
      if (rlen =? 0) || (MAX_FRAGMENT <? rlen) then []
      else frag ++ (if lenN frag <? rlen then [] else hs_stream f (dropN (5 + rlen) data))
  end.

Definition handshake_bytes (data : list N) : list N := hs_stream (S (length data)) data.

(* ClientHello: msg_type 1, uint24 length, legacy_version (2 bytes), random (32 bytes), ... *)
Definition client_hello_random (h : list N) : option (list N) :=
  if (38 <=? lenN h) && (byte_at h 0 =? 1) then Some (takeN 32 (dropN 6 h)) else None.
