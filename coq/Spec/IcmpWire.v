(* PROTOCOL.md 7.3 / 7.4, independent of the incremental decoder: the request stream is a
   sequence of 23-byte records; the reply record is 22 bytes. *)
From Coq Require Import List NArith Bool.
From TT Require Import Lib.BytesL Model.UdpCodec Spec.UdpWire.
Import ListNotations.
Open Scope N_scope.

(* byte-at-a-time grouping into 23-byte records: (complete records, incomplete remainder) *)
Fixpoint records23 (acc : list N) (l : list N) : list (list N) * list N :=
  match l with
  | [] => ([], acc)
  | x :: l' =>
    let acc' := acc ++ [x] in
    if lenN acc' =? 23 then
      let '(gs, r) := records23 [] l' in (acc' :: gs, r)
    else records23 acc' l'
  end.

Record request := { q_id : N; q_dest : ipaddr; q_seq : N; q_ttl : N; q_size : N }.

(* 7.3: ID(2) destination(16) sequence(2) ttl(1) data size(2) *)
Definition request_of (raw : list N) : request :=
  {| q_id := be (takeN 2 raw);
     q_dest := wire_ip (takeN 16 (dropN 2 raw));
     q_seq := be (takeN 2 (dropN 18 raw));
     q_ttl := be (takeN 1 (dropN 20 raw));
     q_size := be (takeN 2 (dropN 21 raw)) |}.

(* 7.4: ID(2) source(16) type(1) code(1) sequence(2) *)
Definition reply_record (id : N) (peer : ipaddr) (ty code seq : N) : list N :=
  to_be 2 id
  ++ (if fam peer =? 4 then [0;0;0;0;0;0;0;0;0;0;0;0] ++ to_be 4 (ipv peer) else to_be 16 (ipv peer))
  ++ [ty; code] ++ to_be 2 seq.
