(* RFC 1071 Internet checksum, written independently of the implementation: 16-bit big-endian
   words (an odd trailing byte is padded with a zero byte), one's-complement addition with
   end-around carry; a packet verifies iff the one's-complement sum of all its words, checksum
   field included, is 0xFFFF. *)
From Coq Require Import List NArith Bool.
From TT Require Import Lib.BytesL.
Import ListNotations.
Open Scope N_scope.

Fixpoint words16 (bs : list N) : list N :=
  match bs with
  | [] => []
  | [a] => [a * 256]
  | a :: b :: r => (a * 256 + b) :: words16 r
  end.

(* one's-complement addition of two 16-bit values *)
Definition oc_add (a b : N) : N :=
  let s := a + b in if 65536 <=? s then s - 65535 else s.

Definition oc_sum (ws : list N) : N := fold_left oc_add ws 0.

Definition verifies (packet : list N) : bool := oc_sum (words16 packet) =? 65535.

(* PROTOCOL.md 7.3 request record and 7.4 reply record *)
Definition spec_request_fields (raw : list N) : list N * list N :=
  ([be (takeN 2 raw); be (takeN 2 (dropN 18 raw)); be (takeN 1 (dropN 20 raw));
    be (takeN 2 (dropN 21 raw))], takeN 16 (dropN 2 raw)).
