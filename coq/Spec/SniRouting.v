(* Independent reading of C05: which host entry an SNI designates and which protocol is chosen. *)
From Coq Require Import List NArith Bool.
From TT Require Import Lib.BytesL Model.TlsDemux.
Import ListNotations.
Open Scope N_scope.

(* all host entries in certificate-identity order *)
Definition all_hosts (c : config) : list (list N) :=
  main_names c ++ rp_hosts c ++ c_ping c ++ c_speed c.

Definition class_of (c : config) (i : N) : channel :=
  if i <? n_main c then ChTunnel
  else if i <? n_main c + n_rp c then ChRevProxy
  else if i <? n_main c + n_rp c + n_ping c then ChPing
  else ChSpeed.

(* exact host name of any class; else a configured alternative SNI; else <credentials>.<main host> (the order of the statement:
   a name the operator configured is not taken for credentials) *)
Definition designated (c : config) (sni : list N) : option (channel * N * option (list N)) :=
  match index_of sni (all_hosts c) 0 with
  | Some i => Some (class_of c i, i, None)
  | None =>
    match alt_lookup sni (c_main c) 0 with
    | Some i => Some (ChTunnel, i, None)
    | None =>
      match match split_dot sni with
            | Some (a, b) => match index_of b (main_names c) 0 with
                             | Some i => Some (i, a) | None => None end
            | None => None
            end with
      | Some (i, a) => Some (ChTunnel, i, Some a)
      | None => None
      end
    end
  end.

Definition permitted (ch : channel) (p : proto) : bool :=
  match ch, p with ChRevProxy, H2 => false | _, _ => true end.

(* most preferred protocol among offered /\ permitted (/\ enabled when [respect_enabled]);
   HTTP/1.1 only when the client offered no ALPN at all *)
Definition spec_proto (respect_enabled : bool) (c : config) (ch : channel)
           (parsed : list proto) (alpn : list (list N)) : option proto :=
  let ok p := permitted ch p && (if respect_enabled then enabled c p else true) in
  match max_proto (filter ok parsed) with
  | Some p => Some p
  | None => if is_nil alpn && ok H1 then Some H1 else None
  end.

(* what the code does today: only the tunnel channel respects the enabled listen protocols
   (known finding for ping / speedtest / reverse proxy) *)
Definition respects_enabled (ch : channel) : bool :=
  match ch with ChTunnel => true | _ => false end.

Definition spec_select (c : config) (alpn : list (list N)) (sni : list N) : option meta :=
  let parsed := parse_alpn alpn in
  if is_nil parsed && negb (is_nil alpn) then None
  else match designated c sni with
       | None => None
       | Some (ch, i, creds) =>
         match spec_proto (respects_enabled ch) c ch parsed alpn with
         | Some p => Some {| m_channel := ch; m_proto := p; m_host := i; m_creds := creds |}
         | None => None
         end
       end.

(* Independent reading of "duplicate TLS hosts" (C13) / "the host entry its SNI designates" (C05): host settings are
   well-formed when no name - host name or alternative SNI - is claimed by two different entries, so that an SNI that
   designates an entry designates exactly one. A name repeated within one entry designates that entry either way. *)
Definition one_entry_per_name (entries : list (list (list N))) : Prop :=
  forall i j e1 e2 x,
    nth_error entries i = Some e1 -> nth_error entries j = Some e2 -> In x e1 -> In x e2 -> i = j.
