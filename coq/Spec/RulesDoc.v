(* CONFIGURATION.md "Rules Reference", read independently of the code. *)
From Coq Require Import List NArith Bool.
From TT Require Import Lib.BytesL Model.ConnectPolicy Model.Rules.
Import ListNotations.
Open Scope N_scope.

(* the address range a.b.c.d/len denotes *)
Definition net_lo (fam a plen : N) : N := (a / 2 ^ (bits fam - plen)) * 2 ^ (bits fam - plen).
Definition net_hi (fam a plen : N) : N := net_lo fam a plen + 2 ^ (bits fam - plen) - 1.

Definition doc_cidr_matches (fam a plen : N) (ip : addr) : Prop :=
  afam ip = fam /\ plen <= bits fam /\ net_lo fam a plen <= aip ip <= net_hi fam a plen.

(* "Matches if TLS client random starts with 0xaabbcc" *)
Definition doc_prefix_matches (cr p : list N) : Prop := exists rest, cr = p ++ rest.

(* "(client_random & mask) == (prefix & mask)", prefix and mask of the same length k <= |cr| *)
Definition doc_masked_matches (cr p m : list N) : Prop :=
  forall i, (i < length m)%nat -> N.land (nth i cr 0) (nth i m 0) = N.land (nth i p 0) (nth i m 0).

(* a well-formed rule matches iff every condition it gives holds *)
Definition doc_matches (r : rule) (ip : addr) (cr : list N) : Prop :=
  match r_cidr r with
  | CNone => True | CBad => False | CNet f a l => doc_cidr_matches f a l ip
  end /\
  match r_pat r with
  | PNone => True | PBad => False
  | PPrefix p => doc_prefix_matches cr p
  | PMasked p m => doc_masked_matches cr p m
  end.

Definition wf_pat (r : rule) (cr : list N) : Prop :=
  match r_pat r with
  | PMasked p m => length p = length m /\ (0 < length m <= length cr)%nat
  | _ => True
  end.
