(* Independent specification for C03: the address blocks named in the property (IANA
   special-purpose registries), as inclusive numeric ranges. *)
From Coq Require Import List NArith Bool.
Import ListNotations.
Open Scope N_scope.

Definition v4 (a b c d : N) : N := a * 16777216 + b * 65536 + c * 256 + d.
(* a.b.c.d/len as (lowest, highest) *)
Definition cidr4 (a b c d len : N) : N * N :=
  let lo := v4 a b c d in (lo, lo + 2 ^ (32 - len) - 1).

Definition in_range (ip : N) (r : N * N) : bool := (fst r <=? ip) && (ip <=? snd r).
Definition in_ranges (ip : N) (rs : list (N * N)) : bool := existsb (in_range ip) rs.

(* never the target of a tunnelled TCP connection when private networks are disallowed *)
Definition non_global_v4 : list (N * N) :=
  [ cidr4 0 0 0 0 8;            (* "this network", unspecified *)
    cidr4 10 0 0 0 8;           (* private *)
    cidr4 100 64 0 0 10;        (* shared address space (CGNAT) *)
    cidr4 127 0 0 0 8;          (* loopback *)
    cidr4 169 254 0 0 16;       (* link-local *)
    cidr4 172 16 0 0 12;        (* private *)
    (v4 192 0 0 0, v4 192 0 0 8);     (* IETF protocol assignments 192.0.0.0/24 ... *)
    (v4 192 0 0 11, v4 192 0 0 255);  (* ... except 192.0.0.9 and 192.0.0.10 *)
    cidr4 192 0 2 0 24;         (* documentation *)
    cidr4 192 168 0 0 16;       (* private *)
    cidr4 198 18 0 0 15;        (* benchmarking *)
    cidr4 198 51 100 0 24;      (* documentation *)
    cidr4 203 0 113 0 24;       (* documentation *)
    cidr4 240 0 0 0 4 ].        (* reserved, incl. limited broadcast *)

(* IPv6: 2^112 * hextet0 + 2^96 * hextet1 + ... *)
Definition P112 : N := 2 ^ 112.
Definition P96 : N := 2 ^ 96.
Definition hextet0 (ip : N) : N := ip / P112.
Definition hextet1 (ip : N) : N := (ip / P96) mod 65536.

Definition mapped_v4 (ip : N) : option N :=
  if (ip / 4294967296) =? 65535 then Some (ip mod 4294967296) else None.

(* the IPv6 classes named in the property *)
Definition special_v6 (ip : N) : bool :=
  (ip =? 0) || (ip =? 1)                                   (* unspecified, loopback *)
  || ((65152 <=? hextet0 ip) && (hextet0 ip <=? 65215))    (* fe80::/10 link-local *)
  || ((64512 <=? hextet0 ip) && (hextet0 ip <=? 65023))    (* fc00::/7 unique local *)
  || ((hextet0 ip =? 8193) && (hextet1 ip =? 3512))        (* 2001:db8::/32 documentation *)
  || ((hextet0 ip =? 16383) && (hextet1 ip <? 4096))       (* 3fff::/20 documentation (RFC 9637): 3fff:0000:: .. 3fff:0fff:ffff:... *)
  || (hextet0 ip =? 24320)                                 (* 5f00::/16 segment routing identifiers (RFC 9602), not globally reachable *)
  || match mapped_v4 ip with Some a => in_ranges a non_global_v4 | None => false end.

(* globally routable unicast: 2000::/3 minus the two documentation blocks (2001::/23, the IETF protocol
   block, holds both global and non-global assignments and is left unconstrained) *)
Definition global_unicast_v6 (ip : N) : bool :=
  (8192 <=? hextet0 ip) && (hextet0 ip <=? 16383)
  && negb ((hextet0 ip =? 8193) && (hextet1 ip <? 512))
  && negb ((hextet0 ip =? 8193) && (hextet1 ip =? 3512))
  && negb ((hextet0 ip =? 16383) && (hextet1 ip <? 4096)).
