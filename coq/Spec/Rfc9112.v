(* Independent reading of the HTTP/1.1 message head (RFC 9112 sections 2-5): lines end in CRLF, the start line is
   method SP target SP version or version SP status SP reason, every further line is name ":" OWS value up to the empty line. *)
From Coq Require Import List NArith Bool.
Import ListNotations.
Open Scope N_scope.

(* the bytes before the first CRLF, and what follows it *)
Fixpoint take_line (s : list N) : option (list N * list N) :=
  match s with
  | [] => None
  | x :: t =>
    match t with
    | y :: r => if (x =? 13) && (y =? 10) then Some ([], r)
                else match take_line t with Some (l, rest) => Some (x :: l, rest) | None => None end
    | [] => None
    end
  end.

(* split at the first occurrence of [c] (which is dropped) *)
Fixpoint split_at (c : N) (s : list N) : option (list N * list N) :=
  match s with
  | [] => None
  | x :: r => if x =? c then Some ([], r)
              else match split_at c r with Some (a, b) => Some (x :: a, b) | None => None end
  end.

Fixpoint trim_ows (s : list N) : list N :=
  match s with
  | x :: r => if (x =? 32) || (x =? 9) then trim_ows r else s
  | [] => []
  end.

Fixpoint strip_prefix (p s : list N) : option (list N) :=
  match p, s with
  | [], _ => Some s
  | a :: p', b :: s' => if a =? b then strip_prefix p' s' else None
  | _ :: _, [] => None
  end.

(* header lines up to the empty line; [fuel] bounds the number of lines *)
Fixpoint read_headers (fuel : nat) (s : list N) : option (list (list N * list N) * list N) :=
  match fuel with
  | O => None
  | S f =>
    match take_line s with
    | None => None
    | Some ([], rest) => Some ([], rest)
    | Some (line, rest) =>
      match split_at 58 line with
      | None => None
      | Some (name, v) =>
        match read_headers f rest with
        | Some (hs, tail) => Some ((name, trim_ows v) :: hs, tail)
        | None => None
        end
      end
    end
  end.

Definition is_digit (b : N) : bool := (48 <=? b) && (b <=? 57).

(* "HTTP/1." DIGIT *)
Definition read_version (s : list N) : option (N * list N) :=
  match strip_prefix [72; 84; 84; 80; 47; 49; 46] s with
  | Some (d :: r) => if is_digit d then Some (d - 48, r) else None
  | _ => None
  end.

Record response_head := { rs_minor : N; rs_status : list N; rs_reason : list N; rs_headers : list (list N * list N) }.

(* status-line = HTTP-version SP 3DIGIT SP reason-phrase *)
Definition read_response (fuel : nat) (s : list N) : option (response_head * list N) :=
  match take_line s with
  | None => None
  | Some (line, rest) =>
    match read_version line with
    | Some (minor, 32 :: a :: b :: c :: 32 :: reason) =>
      if is_digit a && is_digit b && is_digit c then
        match read_headers fuel rest with
        | Some (hs, tail) => Some ({| rs_minor := minor; rs_status := [a; b; c]; rs_reason := reason; rs_headers := hs |}, tail)
        | None => None
        end
      else None
    | _ => None
    end
  end.

Record request_head := { rq_method : list N; rq_target : list N; rq_minor : N; rq_headers : list (list N * list N) }.

(* request-line = method SP request-target SP HTTP-version *)
Definition read_request (fuel : nat) (s : list N) : option (request_head * list N) :=
  match take_line s with
  | None => None
  | Some (line, rest) =>
    match split_at 32 line with
    | None => None
    | Some (method, r1) =>
      match split_at 32 r1 with
      | None => None
      | Some (target, r2) =>
        match read_version r2 with
        | Some (minor, []) =>
          match read_headers fuel rest with
          | Some (hs, tail) => Some ({| rq_method := method; rq_target := target; rq_minor := minor; rq_headers := hs |}, tail)
          | None => None
          end
        | _ => None
        end
      end
    end
  end.
