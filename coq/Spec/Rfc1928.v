(* RFC 1928 / RFC 1929 / the documented extended authentication (lib/README.md) as grammar-level
   recognisers, independent of the writers. Each returns the fields of a well-formed message. *)
From Coq Require Import List NArith Bool.
From TT Require Import Lib.BytesL.
Import ListNotations.
Open Scope N_scope.

(* VER=5 NMETHODS METHODS[NMETHODS], 1 <= NMETHODS <= 255 *)
Definition spec_selection (m : list N) : option (list N) :=
  match m with
  | 5 :: n :: methods =>
    if (1 <=? n) && (n <=? 255) && (lenN methods =? n) && bytes_ok methods then Some methods else None
  | _ => None
  end.

(* RFC 1929 section 2: VER=1 ULEN UNAME PLEN PASSWD, nothing else; "UNAME ... 1 to 255", "PASSWD ... 1 to 255":
   a zero-length user name or password is not a well-formed message *)
Definition spec_userpass (m : list N) : option (list N * list N) :=
  match m with
  | 1 :: ulen :: rest =>
    if (1 <=? ulen) && (ulen <=? 255) && (ulen <? lenN rest) then
      let u := takeN ulen rest in
      match dropN ulen rest with
      | plen :: p =>
        if (1 <=? plen) && (plen <=? 255) && (lenN p =? plen) then Some (u, p) else None
      | [] => None
      end
    else None
  | _ => None
  end.

(* VER=5 CMD RSV=0 ATYP ADDR PORT: (cmd, atyp, address bytes, port) *)
Definition spec_request (m : list N) : option (N * N * list N * N) :=
  match m with
  | 5 :: cmd :: 0 :: atyp :: rest =>
    if atyp =? 1 then
      (if lenN rest =? 6 then Some (cmd, atyp, takeN 4 rest, be (dropN 4 rest)) else None)
    else if atyp =? 4 then
      (if lenN rest =? 18 then Some (cmd, atyp, takeN 16 rest, be (dropN 16 rest)) else None)
    else if atyp =? 3 then
      match rest with
      | l :: r => if (l <=? 255) && (lenN r =? l + 2)
                  then Some (cmd, atyp, takeN l r, be (dropN l r)) else None
      | [] => None
      end
    else None
  | _ => None
  end.

(* extended authentication: VER=1 then TYPE(1) LENGTH(2) VALUE ... ending with TERM (0, length 0).
   lib/README.md, "Available extensions": DOMAIN (1), USER_AGENT (3), PROXY_AUTH (4): length (0..MAX];
   CLIENT_ADDRESS (2): length [4|16]; SNI_AUTH (5): length 0; MAX is what LENGTH(2) can say *)
Definition spec_ext_length_ok (t l : N) : bool :=
  if (t =? 1) || (t =? 3) || (t =? 4) then (1 <=? l) && (l <=? 65535)
  else if t =? 2 then (l =? 4) || (l =? 16)
  else if t =? 5 then l =? 0
  else false.

Fixpoint spec_ext_values (fuel : nat) (m : list N) : option (list (N * list N)) :=
  match fuel with
  | O => None
  | S f =>
    match m with
    | t :: l1 :: l2 :: rest =>
      let l := l1 * 256 + l2 in
      if t =? 0 then (if (l =? 0) && is_nil rest then Some [] else None)
      else if negb (spec_ext_length_ok t l) then None
      else if lenN rest <? l then None
      else match spec_ext_values f (dropN l rest) with
           | None => None
           | Some vs => Some ((t, takeN l rest) :: vs)
           end
    | _ => None
    end
  end.

Definition spec_ext (m : list N) : option (list (N * list N)) :=
  match m with
  | 1 :: rest => spec_ext_values (S (length rest)) rest
  | _ => None
  end.

(* RFC 1928 section 7: RSV(2)=0 FRAG=0 ATYP ADDR PORT DATA *)
Definition spec_udp (pkt : list N) : option (list N * N * list N) :=
  match pkt with
  | 0 :: 0 :: 0 :: atyp :: rest =>
    let n := if atyp =? 1 then 4 else if atyp =? 4 then 16 else 0 in
    if (n =? 0) || (lenN rest <? n + 2) then None
    else Some (takeN n rest, be (takeN 2 (dropN n rest)), dropN (n + 2) rest)
  | _ => None
  end.
