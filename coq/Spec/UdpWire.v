(* Independent specification of the client -> endpoint UDP multiplexer stream, written from
   PROTOCOL.md 6.3 / 11.1 / 11.2 (whole-stream, no incremental state). *)
From Coq Require Import List NArith Bool.
From TT Require Import Lib.BytesL Lib.Utf8 Model.UdpCodec.
Import ListNotations.
Open Scope N_scope.

(* 11.2: an address is IPv4 iff its first 12 bytes are zero and it is not ::1 *)
Definition wire_ip (b16 : list N) : ipaddr :=
  if all_zero (takeN 12 b16) && negb (list_eqb N.eqb b16 [0;0;0;0;0;0;0;0;0;0;0;0;0;0;0;1])
  then {| fam := 4; ipv := be (dropN 12 b16) |}
  else {| fam := 6; ipv := be b16 |}.

Definition wire_sockaddr (b18 : list N) : sockaddr :=
  {| sip := wire_ip (takeN 16 b18); sport := be (dropN 16 b18) |}.

(* a record on the wire: 4-byte big-endian length (excluding itself) and that many bytes *)
Definition frame (body : list N) : list N := to_be 4 (lenN body) ++ body.

(* largest record that is a datagram: a UDP payload has at most 65507 bytes (RFC 768 over IPv4: 65535 - 20 - 8); the record also
   carries its (length-less) 37-byte header and the application name *)
Definition max_record (app_len : N) : N := 65507 + 37 + app_len.

(* the datagram a record body denotes, or None when the endpoint must skip the record *)
Definition classify (body : list N) : option dgram :=
  let L := lenN body in
  if L <? 37 then None
  else
    let app_len := be (takeN 1 (dropN 36 body)) in
    if max_record app_len <? L then None
    else if L <? 37 + app_len then None
    else
      let name := takeN app_len (dropN 37 body) in
      if utf8_valid name then
        Some {| d_src := wire_sockaddr (takeN 18 body);
                d_dst := wire_sockaddr (takeN 18 (dropN 18 body));
                d_app := Some name;
                d_payload := dropN (37 + app_len) body |}
      else None.

Definition olist {A} (o : option A) : list A := match o with Some a => [a] | None => [] end.

(* a strict prefix of a record: not even the length field, or fewer bytes than it declares *)
Definition incomplete (t : list N) : Prop :=
  lenN t < 4 \/ lenN t - 4 < be (takeN 4 t).

(* executable whole-stream decoder (oracle for the correspondence run) *)
Fixpoint spec_decode (fuel : nat) (s : list N) : list dgram :=
  match fuel with
  | O => []
  | S f =>
    if lenN s <? 4 then []
    else
      let L := be (takeN 4 s) in
      if lenN s - 4 <? L then []
      else olist (classify (takeN L (dropN 4 s))) ++ spec_decode f (dropN (4 + L) s)
  end.

Definition spec_decode_stream (s : list N) : list dgram := spec_decode (S (length s)) s.

(* 6.4 endpoint -> client record *)
Definition spec_encode (s t : sockaddr) (payload : list N) : list N :=
  let put (a : ipaddr) :=
    if fam a =? 4 then [0;0;0;0;0;0;0;0;0;0;0;0] ++ to_be 4 (ipv a) else to_be 16 (ipv a) in
  to_be 4 (36 + lenN payload)
  ++ put (sip s) ++ to_be 2 (sport s) ++ put (sip t) ++ to_be 2 (sport t) ++ payload.
