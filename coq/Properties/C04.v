(* C04 — Connection filtering rules: first match wins, fail closed, enforced early. *)
From Coq Require Import List NArith Bool.
From TT Require Import Lib.BytesL Model.ConnectPolicy Model.Rules Spec.RulesDoc Generated.RulesFacts
  Proofs.RulesProofs Model.RulesLoader Proofs.RulesLoaderProofs Model.TlsDemux Model.FrontDoor Proofs.FrontDoorProofs.
Import ListNotations.
Open Scope N_scope.

(* the verdict is the action of the first rule, in file order, that matches; Allow if none *)
Theorem evaluate_first_match :
  forall rules ip cr,
    (exists pre r post, rules = pre ++ r :: post /\ rule_matches r ip cr = true
                        /\ forallb (fun x => negb (rule_matches x ip cr)) pre = true
                        /\ first_match rules ip cr = r_action r)
    \/ (forallb (fun x => negb (rule_matches x ip cr)) rules = true
        /\ first_match rules ip cr = Allow).
Proof. exact first_match_spec. Qed.
Print Assumptions evaluate_first_match.

(* a rule that needs the client random + no random available => the connection is denied *)
Theorem fail_closed_without_random :
  forall rules ip, existsb has_pat rules = true -> evaluate rules ip None = Deny.
Proof. exact fail_closed. Qed.
Print Assumptions fail_closed_without_random.

Theorem no_rules_allow : forall ip cr, evaluate [] ip cr = Allow.
Proof. exact default_allow. Qed.
Print Assumptions no_rules_allow.

(* a well-formed rule matches exactly when CONFIGURATION.md says: the CIDR range contains the
   address, the random starts with the prefix, or (random & mask) = (prefix & mask) bitwise *)
Theorem matches_iff_documented :
  forall r ip cr, wf_pat r cr -> (rule_matches r ip (Some cr) = true <-> doc_matches r ip cr).
Proof. exact matches_iff_doc. Qed.
Print Assumptions matches_iff_documented.

Theorem malformed_fields_never_match :
  forall r ip cr, r_cidr r = CBad \/ r_pat r = PBad -> rule_matches r ip cr = false.
Proof. exact bad_fields_never_match. Qed.
Print Assumptions malformed_fields_never_match.

(* the rules file (Model/RulesLoader.v, settings.rs deserialize_rules): the list of rules may be spelled as [[rule]] tables or as
   an array of inline tables, both load to the same rules; file order is kept; a condition of the wrong TOML type makes a rule that
   matches nothing (given that rules.rs parses "?" neither as a network nor as hex, which the process-level cases exercise) *)
Theorem rules_file_is_read_as_written :
  (forall l, load RULES_INLINE_TABLES_READ (RArray (map Some l)) = load RULES_INLINE_TABLES_READ (RTables l))
  /\ (forall a b, load RULES_INLINE_TABLES_READ (RTables (a ++ b))
                 = load RULES_INLINE_TABLES_READ (RTables a) ++ load RULES_INLINE_TABLES_READ (RTables b))
  /\ (forall pc pp t x ip cr,
        pc QUESTION = CBad -> pp QUESTION = PBad -> load_table t = Some x ->
        t_cidr t = Some TOther \/ t_prefix t = Some TOther -> rule_matches (to_rule pc pp x) ip cr = false)
  /\ RULES_LOADER_AS_MODELLED = true.
Proof.
  split; [exact spelling_does_not_matter_proof|]. split; [exact load_in_file_order_proof|].
  split; [exact wrong_type_never_matches_proof|exact eq_refl].
Qed.
Print Assumptions rules_file_is_read_as_written.

(* Full: an IPv4 client gets the same verdict whether its peer address is seen as a.b.c.d or,
   on a dual-stack listener, as ::ffff:a.b.c.d -- for every rule list and client random.
   RULES_ON_CANONICAL_PEER is read from core.rs on every run. *)
Theorem v4_peer_matched_by_v4_cidr :
  forall rules v cr, v < 4294967296 ->
    connection_verdict RULES_ON_CANONICAL_PEER rules (mapped v) cr
    = connection_verdict RULES_ON_CANONICAL_PEER rules (plain v) cr.
Proof. exact v4_peer_same_verdict. Qed.
Print Assumptions v4_peer_matched_by_v4_cidr.

(* enforced early: the code still evaluates the rules on the socket's peer and the ClientHello
   random before the TLS handshake is answered (TCP) / before any request is read (QUIC) *)
Theorem rules_enforced_early :
  RULES_DENY_DROPS = true /\ RULES_BEFORE_TLS_ACCEPT = true /\ RULES_BEFORE_QUIC_REQUESTS = true
  /\ RULES_GET_SOCKET_PEER = true.
Proof. repeat split; exact eq_refl. Qed.
Print Assumptions rules_enforced_early.

(* ... and in the composition with the demultiplexer and the handshake (Model/FrontDoor.v, the order taken
   from the regenerated facts): a connection the rules deny never gets its handshake answered, whatever
   hosts are configured, and what happens to it does not depend on the hosts configuration at all *)
Theorem denied_connection_is_never_answered :
  forall rules c peer h,
    connection_verdict RULES_ON_CANONICAL_PEER rules peer (h_random h) = Deny ->
    answered_handshake (front_tcp RULES_ON_CANONICAL_PEER RULES_DENY_DROPS RULES_BEFORE_TLS_ACCEPT rules c peer h) = false
    /\ forall c2, front_tcp RULES_ON_CANONICAL_PEER RULES_DENY_DROPS RULES_BEFORE_TLS_ACCEPT rules c peer h
                  = front_tcp RULES_ON_CANONICAL_PEER RULES_DENY_DROPS RULES_BEFORE_TLS_ACCEPT rules c2 peer h.
Proof.
  intros rules c peer h D. split.
  - exact (denied_never_served RULES_ON_CANONICAL_PEER rules c peer h D RULES_BEFORE_TLS_ACCEPT).
  - intros c2. exact (denied_outcome_independent_of_hosts RULES_ON_CANONICAL_PEER rules peer h c c2 D).
Qed.
Print Assumptions denied_connection_is_never_answered.

(* without canonicalisation the property fails (the repaired defect) *)
Example mapped_peer_escaped_v4_cidr :
  let rules := [{| r_cidr := CNet 4 167772160 8; r_pat := PNone; r_action := Deny |}] in
  connection_verdict false rules (mapped 167838211) None = Allow
  /\ connection_verdict true rules (mapped 167838211) None = Deny.
Proof. vm_compute. split; reflexivity. Qed.

Example ex_rules :
  let rules := [ {| r_cidr := CNet 4 3232235776 24; r_pat := PNone; r_action := Deny |};
                 {| r_cidr := CNone; r_pat := PMasked [160; 176] [240; 240]; r_action := Allow |};
                 {| r_cidr := CNone; r_pat := PNone; r_action := Deny |} ] in
  evaluate rules (plain 3232235777) (Some [0;0]) = Deny
  /\ evaluate rules (plain 16843009) (Some [171; 188; 1]) = Allow
  /\ evaluate rules (plain 16843009) (Some [171; 12; 1]) = Deny
  /\ evaluate rules (plain 16843009) None = Deny.
Proof. vm_compute. repeat split; reflexivity. Qed.
