(* C05 — SNI/ALPN demultiplexing selects the right host, channel and protocol. *)
From Coq Require Import List NArith Bool.
From TT Require Import Model.ConnectPolicy Model.Rules Generated.RulesFacts.
From TT Require Import Lib.BytesL Model.TlsDemux Spec.SniRouting Generated.DemuxFacts Proofs.TlsDemuxProofs
  Model.FrontDoor Proofs.FrontDoorProofs.
Import ListNotations.
Open Scope N_scope.

(* For every configuration, ALPN list and SNI: the selection is exactly "the host entry the SNI
   designates (exact name of any class, else <credentials>.<main host>, else an alternative SNI)"
   combined with "the most preferred protocol offered and permitted by the channel, HTTP/1.1 only
   when no ALPN was offered", the tunnel channel also requiring the protocol to be enabled. *)
Theorem select_designated_host_and_protocol :
  forall c alpn sni, select c alpn sni = spec_select c alpn sni.
Proof. exact select_spec_proof. Qed.
Print Assumptions select_designated_host_and_protocol.

(* with unique host names (what TlsHostsSettings::validate enforces) the j-th entry is found by
   its exact name *)
Theorem exact_name_designates_its_host :
  forall l j base x, nodupb l = true -> nth_error l j = Some x ->
    index_of x l base = Some (base + N.of_nat j).
Proof. exact exact_name_designates. Qed.
Print Assumptions exact_name_designates_its_host.

(* with host settings that validation accepts, an alternative SNI is claimed by the one main host that lists it - no other
   entry answers to it - and the lookup of alternative SNIs finds that host *)
Theorem alternative_sni_designates_its_host :
  forall c j h sni,
    valid_hosts c = true -> nth_error (c_main c) j = Some h -> In sni (mh_alts h) ->
    alt_lookup sni (c_main c) 0 = Some (N.of_nat j)
    /\ (forall i e, nth_error (claims c) i = Some e -> In sni e -> i = j).
Proof. exact alternative_sni_designates_proof. Qed.
Print Assumptions alternative_sni_designates_its_host.

Theorem unknown_sni_refused :
  forall c alpn sni, designated c sni = None -> select c alpn sni = None.
Proof. exact unknown_sni_refused_proof. Qed.
Print Assumptions unknown_sni_refused.

Theorem tcp_refuses_no_sni_and_h3 :
  (forall c alpn, select_tcp c alpn None = None)
  /\ (forall c alpn sni m, select_tcp c alpn sni = Some m -> m_proto m <> H3)
  /\ TCP_NO_SNI_REFUSED = true /\ TCP_H3_REFUSED = true /\ TCP_SELECT_ERROR_DROPS = true.
Proof.
  split; [exact no_sni_refused_proof|]. split; [exact never_h3_on_tcp_proof|].
  repeat split; exact eq_refl.
Qed.
Print Assumptions tcp_refuses_no_sni_and_h3.

(* "the most preferred one that the client offered, the listener enables and the channel permits ... and HTTP/3 is never selected
   on a TCP connection": on TCP an offer of h3 does not count - the outcome is the one of the rest of the offer - and a client that
   offers nothing but h3 is refused *)
Theorem tcp_offer_of_h3_is_ignored :
  (forall c alpn sni, filter not_h3 alpn <> [] ->
     select_tcp_with TCP_H3_OFFER_IGNORED c alpn sni = select_tcp_with TCP_H3_OFFER_IGNORED c (filter not_h3 alpn) sni)
  /\ (forall c alpn sni, alpn <> [] -> filter not_h3 alpn = [] -> select_tcp_with TCP_H3_OFFER_IGNORED c alpn sni = None).
Proof. split; [exact tcp_h3_offer_is_ignored_proof|exact tcp_only_h3_refused_proof]. Qed.
Print Assumptions tcp_offer_of_h3_is_ignored.

(* in the composition with the rules and the handshake (Model/FrontDoor.v): a TCP connection is served only as
   the demultiplexer's selection for its SNI and ALPN offer, never with HTTP/3, and only if the rules allow it;
   when they allow it the outcome is the demultiplexer's alone *)
Theorem served_connection_is_the_selection :
  (forall rules c peer h m,
     front_tcp RULES_ON_CANONICAL_PEER RULES_DENY_DROPS RULES_BEFORE_TLS_ACCEPT rules c peer h = FServe m ->
     connection_verdict RULES_ON_CANONICAL_PEER rules peer (h_random h) = Allow
     /\ select_tcp c (h_alpn h) (h_sni h) = Some m /\ m_proto m <> H3)
  /\ (forall rules c peer h,
        connection_verdict RULES_ON_CANONICAL_PEER rules peer (h_random h) = Allow ->
        front_tcp RULES_ON_CANONICAL_PEER RULES_DENY_DROPS RULES_BEFORE_TLS_ACCEPT rules c peer h =
        match h_sni h with
        | None => FNoSni
        | Some _ => match select_tcp c (h_alpn h) (h_sni h) with Some m => FServe m | None => FNoSelection end
        end).
Proof.
  split.
  - intros rules c peer h m. exact (served_means_allowed_and_selected RULES_ON_CANONICAL_PEER rules c peer h m).
  - intros rules c peer h. exact (allowed_outcome_is_the_demultiplexers RULES_ON_CANONICAL_PEER rules c peer h).
Qed.
Print Assumptions served_connection_is_the_selection.

(* hot reload: a successful reload switches everything at once, a failed one changes nothing *)
(* the QUIC listener (Model/TlsDemux.v select_quic over the fact QUIC_SERVES_THE_SELECTION_OR_BOOTSTRAP): with HTTP/3 enabled a
   connection whose SNI designates an entry is served as that entry - its channel, its certificate identity, its credentials -
   over HTTP/3; one whose SNI designates nothing (or is absent) is served from the bootstrap context (a main host's tunnel
   channel), which the property forbids on TCP only; nothing else than HTTP/3 is ever chosen there *)
Theorem quic_serves_the_designated_entry :
  (forall c boot x s ch i creds, c_h3 c = true -> designated c (x :: s) = Some (ch, i, creds) ->
     select_quic QUIC_SERVES_THE_SELECTION_OR_BOOTSTRAP c boot (Some (x :: s)) =
     {| m_channel := ch; m_proto := H3; m_host := i; m_creds := creds |})
  /\ (forall c boot sni, match sni with Some s => designated c s = None | None => True end ->
        select_quic QUIC_SERVES_THE_SELECTION_OR_BOOTSTRAP c boot sni = bootstrap boot)
  /\ (forall c boot sni, m_proto (select_quic QUIC_SERVES_THE_SELECTION_OR_BOOTSTRAP c boot sni) = H3).
Proof.
  split; [exact quic_serves_designated_entry_proof|].
  split; [exact (quic_undesignated_is_bootstrap_proof QUIC_SERVES_THE_SELECTION_OR_BOOTSTRAP)|].
  exact (quic_always_h3_proof QUIC_SERVES_THE_SELECTION_OR_BOOTSTRAP).
Qed.
Print Assumptions quic_serves_the_designated_entry.

Theorem reload_atomic :
  (forall cur c loadable,
      fst (dstep cur (DReload c loadable)) = (if valid_hosts c && loadable then c else cur))
  /\ (forall cur alpn sni, dstep cur (DSelect alpn sni) = (cur, Some (select cur alpn sni)))
  /\ RELOAD_REPLACES_ONLY_ON_SUCCESS = true /\ RELOAD_TASK_REPORTS_FAILURES = true.
Proof.
  split; [intros cur c loadable; apply (reload_proof cur c loadable)|].
  split; [intros cur alpn sni; apply (reload_proof cur cur true)|split; exact eq_refl].
Qed.
Print Assumptions reload_atomic.

(* Known finding (recorded): on ping / speedtest / reverse-proxy hosts the chosen protocol is not
   restricted to the enabled listen protocols (pinned by the repository's own unit tests) *)
Theorem ping_ignores_enabled_protocols_refuted :
  exists c alpn sni m,
    select c alpn sni = Some m /\ m_channel m = ChPing /\ enabled c (m_proto m) = false.
Proof.
  exists {| c_main := [{| mh_name := [109]; mh_alts := [] |}]; c_rp := []; c_ping := [[112]];
            c_speed := []; c_h1 := false; c_h2 := true; c_h3 := true; c_rp_enabled := false |}.
  exists [], [112]. eexists. vm_compute. repeat split.
Qed.
Print Assumptions ping_ignores_enabled_protocols_refuted.

Example ex_select :
  let c := {| c_main := [{| mh_name := [109]; mh_alts := [[97; 108; 116]] |}];
              c_rp := [[114]]; c_ping := [[112; 46; 109]]; c_speed := [];
              c_h1 := true; c_h2 := true; c_h3 := false; c_rp_enabled := true |} in
  select c [[104; 50]; [104; 116; 116; 112; 47; 49; 46; 49]] [99; 46; 109]
  = Some {| m_channel := ChTunnel; m_proto := H2; m_host := 0; m_creds := Some [99] |}
  /\ select c [] [112; 46; 109]
     = Some {| m_channel := ChPing; m_proto := H1; m_host := 2; m_creds := None |}
  /\ select c [[104; 51]] [109] = None
  /\ select c [[120]] [109] = None
  /\ select c [] [97; 108; 116]
     = Some {| m_channel := ChTunnel; m_proto := H1; m_host := 0; m_creds := None |}.
Proof. vm_compute. repeat split. Qed.
