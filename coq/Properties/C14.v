(* C14 — Idle and establishment timeouts fire when, and only when, they should.
   The idle timer is proved on the timed model of pipe.rs (exact virtual clock: a timer fires at
   its deadline; a late real timer only delays the close). *)
From Coq Require Import List NArith Bool Lia.
From TT Require Import Lib.BytesL Model.Pipe Model.Listener Generated.PipeFacts Generated.TimeoutFacts Proofs.PipeProofs.
Import ListNotations.
Open Scope N_scope.

(* only when: a close by the idle timer means neither direction transferred during the last T;
   equivalently a tunnel with a transfer in every period of length T is never closed by it *)
Theorem no_early_close :
  forall fuel f T s s',
    drun fuel f T s = (DTimedOut, s') -> mode s' = Both ->
    la (pl s') < now s' - T /\ la (pr s') < now s' - T.
Proof. exact no_early_close_proof. Qed.
Print Assumptions no_early_close.

(* last_activity is the instant of the last transfer: it moves only when a chunk is processed
   and is not touched by the restart of the copy loops (PIPE_LA_ON_TRANSFER_ONLY, from pipe.rs) *)
Theorem last_activity_is_last_transfer :
  (forall f t p, la (apply_complete f t p) = la p \/ la (apply_complete f t p) = t)
  /\ (forall t p, la (restart PIPE_LA_ON_TRANSFER_ONLY t p) = la p).
Proof. split; [exact la_moves_on_transfer|exact restart_keeps_la]. Qed.
Print Assumptions last_activity_is_last_transfer.

(* when: from ANY reachable state in which both directions wait for input that never comes, the
   tunnel is closed with TimedOut no later than 2T after the last transfer (Full) *)
Theorem idle_closed_within_2T :
  forall T el er s,
    0 < T -> Reach T el er s -> quiet (pl s) -> quiet (pr s) -> mode s = Both ->
    exists s', drun 3 PIPE_LA_ON_TRANSFER_ONLY T s = (DTimedOut, s')
               /\ now s' <= N.max (la (pl s)) (la (pr s)) + 2 * T.
Proof. exact idle_closed_within_2T_reachable. Qed.
Print Assumptions idle_closed_within_2T.

(* the session-level timer (client_listener_timeout): for every history of accepted requests, ended
   requests and expiries, the session is closed by that timer only at an expiry at which no request
   was in service - a session with a tunnel in service is never closed by it - and an expiry of an
   idle session does close it *)
Theorem listener_timer_spares_sessions_in_service :
  forall es, closed_by_timer (lrun LISTENER_TIMEOUT_SPARES_ACTIVE_SESSIONS es) = true ->
             closed_with (lrun LISTENER_TIMEOUT_SPARES_ACTIVE_SESSIONS es) = 0%nat.
Proof.
  intros es. unfold lrun.
  assert (G : forall s, (closed_by_timer s = true -> closed_with s = 0%nat) ->
                        closed_by_timer (fold_left (lstep LISTENER_TIMEOUT_SPARES_ACTIVE_SESSIONS) es s) = true ->
                        closed_with (fold_left (lstep LISTENER_TIMEOUT_SPARES_ACTIVE_SESSIONS) es s) = 0%nat).
  { induction es as [|e r IH]; intros s I; cbn [fold_left]; [exact I|]. apply IH.
    unfold lstep. destruct (closed_by_timer s) eqn:C; [intros _; apply I; reflexivity|].
    destruct e; cbn [closed_by_timer closed_with]; try discriminate.
    change LISTENER_TIMEOUT_SPARES_ACTIVE_SESSIONS with true. cbn [andb].
    destruct (Nat.eqb (in_service s) 0) eqn:E; cbn [negb closed_by_timer closed_with].
    - intros _. apply PeanoNat.Nat.eqb_eq in E. exact E.
    - rewrite C. discriminate. }
  apply G. cbn. discriminate.
Qed.
Print Assumptions listener_timer_spares_sessions_in_service.

Theorem listener_timer_closes_idle_sessions :
  forall s, closed_by_timer s = false -> in_service s = 0%nat ->
            closed_by_timer (lstep LISTENER_TIMEOUT_SPARES_ACTIVE_SESSIONS s LExpire) = true.
Proof. intros s C I. unfold lstep. rewrite C, I. reflexivity. Qed.
Print Assumptions listener_timer_closes_idle_sessions.

(* the speedtest handler's session loop has the same shape (tests running instead of requests in service):
   its timer never closes a session with a test running, and closes an idle one *)
Theorem speedtest_timer_spares_running_tests_only :
  (forall es, closed_by_timer (lrun SPEEDTEST_TIMER_SPARES_RUNNING_TESTS_ONLY es) = true ->
              closed_with (lrun SPEEDTEST_TIMER_SPARES_RUNNING_TESTS_ONLY es) = 0%nat)
  /\ (forall s, closed_by_timer s = false -> in_service s = 0%nat ->
                closed_by_timer (lstep SPEEDTEST_TIMER_SPARES_RUNNING_TESTS_ONLY s LExpire) = true).
Proof.
  split.
  - exact listener_timer_spares_sessions_in_service.
  - exact listener_timer_closes_idle_sessions.
Qed.
Print Assumptions speedtest_timer_spares_running_tests_only.

(* the defect this exposed: without the test of requests in service the timer closes a session
   that is relaying a tunnel *)
Example ex_listener_as_found : closed_with (lrun false [LAccept; LExpire]) = 1%nat /\ closed_by_timer (lrun true [LAccept; LExpire]) = false.
Proof. split; reflexivity. Qed.

(* the establishment clause itself, for every completion time of the outbound connect (including
   never): the attempt is settled no later than the establishment timeout, whatever the idle
   timeout of established tunnels is; it fails exactly when the connect had not completed by then *)
Theorem establishment_settled_by_its_own_timeout :
  forall est other done_at,
    match establish CONNECT_UNDER_ESTABLISHMENT_TIMEOUT est other done_at with
    | EConnected t => done_at = Some t /\ (t < est)%N
    | EFailed t => t = est /\ (forall d, done_at = Some d -> (est <= d)%N)
    end.
Proof.
  intros est other done_at. change CONNECT_UNDER_ESTABLISHMENT_TIMEOUT with true. unfold establish.
  destruct done_at as [t|].
  - destruct (N.ltb_spec t est) as [L|L].
    + split; [reflexivity|exact L].
    + split; [reflexivity|]. intros d D. injection D as <-. exact L.
  - split; [reflexivity|]. intros d D. discriminate D.
Qed.
Print Assumptions establishment_settled_by_its_own_timeout.

(* the same race for what a forwarder has to find out from its upstream server before it accepts a UDP multiplexer
   request (the SOCKS5 forwarder opens a connection to its server and authenticates the client there): a server that
   never answers is given the establishment timeout, whatever the other timeouts are *)
Theorem silent_upstream_settled_by_establishment_timeout :
  forall est other, establish MUX_AUTH_UNDER_ESTABLISHMENT_TIMEOUT est other None = EFailed est.
Proof. intros est other. reflexivity. Qed.
Print Assumptions silent_upstream_settled_by_establishment_timeout.

(* and for the connection and UDP ASSOCIATE dialogue that every new client source of an open UDP multiplexer needs with a
   SOCKS5 upstream (socks5_forwarder.rs on_new_udp_connection, awaited by the only task that forwards that client's
   datagrams): a server that never answers is given the establishment timeout, then the attempt is dropped *)
Theorem silent_association_settled_by_establishment_timeout :
  forall est other, establish UDP_ASSOCIATE_UNDER_ESTABLISHMENT_TIMEOUT est other None = EFailed est.
Proof. intros est other. reflexivity. Qed.
Print Assumptions silent_association_settled_by_establishment_timeout.

(* the same race for the TLS handshake of the real listener: a peer that never completes its ClientHello
   (or never sends one) is dropped when the handshake timeout expires *)
Theorem stalled_handshake_dropped_by_handshake_timeout :
  forall hs other,
    establish (CLIENT_HELLO_UNDER_HANDSHAKE_TIMEOUT && TLS_ACCEPT_UNDER_HANDSHAKE_TIMEOUT) hs other None = EFailed hs.
Proof. intros hs other. reflexivity. Qed.
Print Assumptions stalled_handshake_dropped_by_handshake_timeout.

(* "a TLS handshake that does not complete within its timeout is dropped": the two stages of the handshake at the listener
   (the ClientHello, then the rest) share one deadline, so a handshake that completes did so within the timeout, however its
   duration is split between the stages *)
Theorem completed_handshake_took_less_than_its_timeout :
  forall T a b t, handshake TLS_HANDSHAKE_HAS_ONE_DEADLINE T a b = Some t -> (t = a + b /\ t < T)%N.
Proof.
  intros T a b t. change TLS_HANDSHAKE_HAS_ONE_DEADLINE with true. unfold handshake.
  destruct (a <? T)%N; [|discriminate]. destruct (a + b <? T)%N eqn:E; [|discriminate].
  intros H. inversion H; subst. split; [reflexivity|]. apply N.ltb_lt. exact E.
Qed.
Print Assumptions completed_handshake_took_less_than_its_timeout.

(* the same at the listener, where the deadline is an instant that the clock has to be able to represent: a timeout beyond the
   clock's reach is replaced by the far future (which is within it), never by a longer limit *)
Theorem completed_listener_handshake_took_less_than_its_timeout :
  forall room far T a b t, far <= room ->
    listener_handshake TLS_HANDSHAKE_HAS_ONE_DEADLINE TLS_HANDSHAKE_DEADLINE_SATURATES room far T a b = Some t -> t = a + b /\ t < T.
Proof.
  intros room far T a b t Hfar. unfold listener_handshake, handshake_limit.
  change TLS_HANDSHAKE_DEADLINE_SATURATES with true.
  destruct (T <=? room) eqn:E.
  - apply completed_handshake_took_less_than_its_timeout.
  - intros H. apply completed_handshake_took_less_than_its_timeout in H. destruct H as [H1 H2].
    split; [exact H1|]. apply N.leb_gt in E. lia.
Qed.
Print Assumptions completed_listener_handshake_took_less_than_its_timeout.

(* ... and only when it should: a handshake that takes less than its timeout (and less than the far future) is completed, however
   large the configured timeout is - tls_handshake_timeout_secs = i64::MAX included *)
Theorem prompt_handshake_completes_under_any_timeout :
  forall room far T a b, a + b < T -> a + b < far ->
    listener_handshake TLS_HANDSHAKE_HAS_ONE_DEADLINE TLS_HANDSHAKE_DEADLINE_SATURATES room far T a b = Some (a + b).
Proof.
  intros room far T a b HT Hfar. unfold listener_handshake, handshake_limit.
  change TLS_HANDSHAKE_DEADLINE_SATURATES with true. change TLS_HANDSHAKE_HAS_ONE_DEADLINE with true.
  assert (P : forall L, a + b < L -> handshake true L a b = Some (a + b)).
  { intros L HL. unfold handshake.
    replace (a <? L) with true by (symmetry; apply N.ltb_lt; lia).
    replace (a + b <? L) with true by (symmetry; apply N.ltb_lt; exact HL). reflexivity. }
  destruct (T <=? room); apply P; assumption.
Qed.
Print Assumptions prompt_handshake_completes_under_any_timeout.

(* as found: with the plain addition a client that was quick in every respect was dropped under the largest configurable timeout *)
Example ex_unrepresentable_deadline :
  listener_handshake true false CLOCK_ROOM_MS FAR_FUTURE_MS (9223372036854775807 * 1000) 2 3 = None
  /\ listener_handshake true true CLOCK_ROOM_MS FAR_FUTURE_MS (9223372036854775807 * 1000) 2 3 = Some 5
  /\ FAR_FUTURE_MS <= CLOCK_ROOM_MS.
Proof. split; [|split]; [reflexivity|reflexivity|discriminate]. Qed.

(* as found (a timeout per stage): a ClientHello after 600 ms and the rest 700 ms later was accepted after 1300 ms under a
   timeout of 1000 ms *)
Example ex_handshake_per_stage : handshake false 1000 600 700 = Some 1300%N /\ handshake true 1000 600 700 = None.
Proof. split; reflexivity. Qed.

(* what the guarded mix-up does: under the idle timeout of established tunnels (a week by default) an
   unanswered connect is still pending long after the establishment timeout *)
Example ex_establish_mixup : establish false 400 604800000 None = EFailed 604800000 /\ establish true 400 604800000 None = EFailed 400.
Proof. split; reflexivity. Qed.

(* establishment and handshake timeouts: the code still wraps the connect in
   connection_establishment_timeout (expiry -> ConnectionError::Timeout -> 502 / X-Warning 302),
   the TLS accept in tls_handshake_timeout (expiry -> connection dropped), and runs the pipe with
   tcp_connections_timeout; dropping the futures releases the sockets they own *)
Theorem establishment_timeouts_in_place :
  CONNECT_UNDER_ESTABLISHMENT_TIMEOUT = true /\ MUX_AUTH_UNDER_ESTABLISHMENT_TIMEOUT = true /\ UDP_ASSOCIATE_UNDER_ESTABLISHMENT_TIMEOUT = true
  /\ TIMEOUT_REPORTED_AS_502_302 = true
  /\ TLS_ACCEPT_UNDER_HANDSHAKE_TIMEOUT = true /\ PIPE_RUN_WITH_TCP_TIMEOUT = true
  /\ PIPE_EXPIRY_AS_MODELLED = true /\ PIPE_AWAITS_AS_MODELLED = true
  /\ LISTENER_TIMEOUT_SPARES_ACTIVE_SESSIONS = true /\ CLIENT_HELLO_UNDER_HANDSHAKE_TIMEOUT = true
  /\ SPEEDTEST_TIMER_SPARES_RUNNING_TESTS_ONLY = true.
Proof. repeat split; exact eq_refl. Qed.
Print Assumptions establishment_timeouts_in_place.

(* Non-vacuity: fully idle tunnel closes at 2T; traffic exactly every T keeps it open; the old
   behaviour (last_activity refreshed on restart) never closes under the exact clock *)
Definition idle_env : penv := {| reads := []; writes := []; waits := []; eof_err := false; flushes := [] |}.
Example ex_idle : match duplex true 1000 idle_env idle_env with (DTimedOut, s) => now s = 2000 | _ => False end.
Proof. vm_compute. reflexivity. Qed.
Example ex_every_T :
  match duplex true 1000 {| reads := [RChunk 1000 [1]; RChunk 2000 [2]; RChunk 3000 [3]]; writes := [];
                            waits := []; eof_err := false; flushes := [] |} idle_env with
  | (DTimedOut, s) => now s = 5000 /\ delivered (pl s) = [1; 2; 3]
  | _ => False
  end.
Proof. vm_compute. split; reflexivity. Qed.
Example ex_old_behaviour_never_closes :
  fst (duplex false 1000 idle_env idle_env) = DFuel.
Proof. vm_compute. reflexivity. Qed.
