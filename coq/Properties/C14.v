(* C14 — Idle and establishment timeouts fire when, and only when, they should.
   The idle timer is proved on the timed model of pipe.rs (exact virtual clock: a timer fires at
   its deadline; a late real timer only delays the close). *)
From Coq Require Import List NArith Bool.
From TT Require Import Lib.BytesL Model.Pipe Generated.PipeFacts Generated.TimeoutFacts Proofs.PipeProofs.
Import ListNotations.
Open Scope N_scope.

(* only when: a close by the idle timer means neither direction transferred during the last T;
   equivalently a tunnel with a transfer in every period of length T is never closed by it *)
Theorem no_early_close :
  forall fuel f T s s',
    drun fuel f T s = (DTimedOut, s') -> mode s' = Both ->
    la (pl s') < now s' - T /\ la (pr s') < now s' - T.
Proof. exact no_early_close_proof. Qed.
Print Assumptions no_early_close.

(* last_activity is the instant of the last transfer: it moves only when a chunk is processed
   and is not touched by the restart of the copy loops (PIPE_LA_ON_TRANSFER_ONLY, from pipe.rs) *)
Theorem last_activity_is_last_transfer :
  (forall f t p, la (apply_complete f t p) = la p \/ la (apply_complete f t p) = t)
  /\ (forall t p, la (restart PIPE_LA_ON_TRANSFER_ONLY t p) = la p).
Proof. split; [exact la_moves_on_transfer|exact restart_keeps_la]. Qed.
Print Assumptions last_activity_is_last_transfer.

(* when: from ANY reachable state in which both directions wait for input that never comes, the
   tunnel is closed with TimedOut no later than 2T after the last transfer (Full) *)
Theorem idle_closed_within_2T :
  forall T el er s,
    0 < T -> Reach T el er s -> quiet (pl s) -> quiet (pr s) -> mode s = Both ->
    exists s', drun 3 PIPE_LA_ON_TRANSFER_ONLY T s = (DTimedOut, s')
               /\ now s' <= N.max (la (pl s)) (la (pr s)) + 2 * T.
Proof. exact idle_closed_within_2T_reachable. Qed.
Print Assumptions idle_closed_within_2T.

(* establishment and handshake timeouts: the code still wraps the connect in
   connection_establishment_timeout (expiry -> ConnectionError::Timeout -> 502 / X-Warning 302),
   the TLS accept in tls_handshake_timeout (expiry -> connection dropped), and runs the pipe with
   tcp_connections_timeout; dropping the futures releases the sockets they own *)
Theorem establishment_timeouts_in_place :
  CONNECT_UNDER_ESTABLISHMENT_TIMEOUT = true /\ TIMEOUT_REPORTED_AS_502_302 = true
  /\ TLS_ACCEPT_UNDER_HANDSHAKE_TIMEOUT = true /\ PIPE_RUN_WITH_TCP_TIMEOUT = true
  /\ PIPE_EXPIRY_AS_MODELLED = true /\ PIPE_AWAITS_AS_MODELLED = true.
Proof. repeat split; exact eq_refl. Qed.
Print Assumptions establishment_timeouts_in_place.

(* Non-vacuity: fully idle tunnel closes at 2T; traffic exactly every T keeps it open; the old
   behaviour (last_activity refreshed on restart) never closes under the exact clock *)
Definition idle_env : penv := {| reads := []; writes := []; waits := []; eof_err := false; flushes := [] |}.
Example ex_idle : match duplex true 1000 idle_env idle_env with (DTimedOut, s) => now s = 2000 | _ => False end.
Proof. vm_compute. reflexivity. Qed.
Example ex_every_T :
  match duplex true 1000 {| reads := [RChunk 1000 [1]; RChunk 2000 [2]; RChunk 3000 [3]]; writes := [];
                            waits := []; eof_err := false; flushes := [] |} idle_env with
  | (DTimedOut, s) => now s = 5000 /\ delivered (pl s) = [1; 2; 3]
  | _ => False
  end.
Proof. vm_compute. split; reflexivity. Qed.
Example ex_old_behaviour_never_closes :
  fst (duplex false 1000 idle_env idle_env) = DFuel.
Proof. vm_compute. reflexivity. Qed.
