(* C08 — HTTP/1.1 transport is segmentation-invariant and never spins.
   Proved on the model of Http1Codec::listen (Model/Http1.v) for every way the transport can cut
   the client's byte stream into pieces, for any head parser that is stable under extension of its
   input (httparse is a left-to-right parser; the executable model's parser is proved stable). *)
From Coq Require Import List NArith Bool Arith.
From TT Require Import Lib.BytesL Model.Http1 Generated.Http1Facts Proofs.Http1Proofs.
From TT Require Import Model.Http1Wire Spec.Rfc9112 Proofs.Http1WireProofs.
Import ListNotations.
Local Open Scope nat_scope.

Section AnyStableParser.
  Variable parse : list N -> presult.
  Hypothesis complete_stable : forall b i t, parse b = PComplete i -> parse (b ++ t) = PComplete i.
  Hypothesis error_stable : forall b t, parse b = PError -> parse (b ++ t) = PError.
  Hypothesis complete_idx : forall b i, parse b = PComplete i -> i <= length b.

  (* same request head and same following bytes for every segmentation of the same stream *)
  Theorem segmentation_invariant :
    forall a1 a2, wf a1 -> wf a2 -> concat a1 = concat a2 -> listen parse true a1 = listen parse true a2.
  Proof. exact (segmentation_invariance parse complete_stable error_stable complete_idx). Qed.

  (* what that common outcome is: the request the parser finds in the stream and every byte after
     it; a parse error or a head that reaches the size limit undecided is refused; end of stream
     before a complete head is a closed connection *)
  Theorem listen_outcome :
    forall a, wf a -> Spec parse (concat a) (listen parse true a).
  Proof. exact (listen_meets_spec parse complete_stable error_stable complete_idx). Qed.

  (* every iteration of the loop consumes input or ends: the loop never runs out of fuel *)
  Theorem listen_never_spins :
    forall a, wf a -> listen parse true a <> OFuel.
  Proof. exact (never_spins parse complete_stable error_stable complete_idx). Qed.

  (* the buffer never grows beyond the limit: a head that is still undecided at CAP bytes is refused *)
  Theorem undecided_at_limit_is_refused :
    forall a, wf a -> (forall k, 1 <= k <= CAP -> parse (firstn k (concat a)) = PPartial) ->
              CAP <= length (concat a) -> listen parse true a = OFailed.
  Proof.
    intros a W P L.
    first [apply (Spec_functional parse complete_stable error_stable complete_idx (concat a)) | apply (Spec_functional parse complete_stable error_stable (concat a))];
      [apply (listen_meets_spec parse complete_stable error_stable complete_idx); exact W|].
    apply STooLong; assumption.
  Qed.
End AnyStableParser.
Print Assumptions segmentation_invariant.
Print Assumptions listen_outcome.
Print Assumptions listen_never_spins.
Print Assumptions undecided_at_limit_is_refused.

(* the defect this property exposed (repaired by a fix: commit): with the code as found, a head
   whose first piece is incomplete is parsed over and over without ever reading again *)
Theorem split_head_spun_in_the_code_as_found :
  forall parse a rest fuel,
    a <> [] -> length a < CAP -> parse a = PPartial ->
    head_phase parse false (S fuel) [] (a :: rest) = OFuel.
Proof. exact split_head_spun_before_repair. Qed.
Print Assumptions split_head_spun_in_the_code_as_found.

(* payload: after the head, the upload side receives exactly the remaining bytes, in order, in
   non-empty chunks *)
Theorem upload_is_exactly_the_rest :
  forall ubs tail arrivals,
    wf arrivals -> 0 < ubs ->
    let chunks := upload_chunks (length (concat arrivals) + length arrivals + 3) ubs tail arrivals in
    concat chunks = tail ++ concat arrivals /\ Forall (fun c => c <> []) chunks.
Proof.
  intros ubs tail arrivals W U. apply upload_is_the_rest; [exact W|exact U|].
  destruct tail; cbv iota; Lia.lia.
Qed.
Print Assumptions upload_is_exactly_the_rest.

(* the executable model's parser meets the stability hypotheses, so the theorems apply to it *)
Theorem model_parser_is_stable :
  (forall b i t, parse_c b = PComplete i -> parse_c (b ++ t) = PComplete i)
  /\ (forall b t, parse_c b = PError -> parse_c (b ++ t) = PError)
  /\ (forall b i, parse_c b = PComplete i -> i <= length b).
Proof. repeat split; [exact parse_c_complete_stable|exact parse_c_error_stable|exact parse_c_complete_idx]. Qed.
Print Assumptions model_parser_is_stable.

(* "answers with a well-formed HTTP/1.1 response": for every status, reason phrase without a line break and header list as
   the http crate holds it (no colon in a name, no line break in a name or value), whatever follows on the connection, the
   bytes encode_response writes are read back under the RFC 9112 grammar (Spec/Rfc9112.v) as exactly that version, status,
   reason and header list (values up to leading blanks), and the reading ends exactly where the payload starts *)
Theorem response_head_is_well_formed :
  forall minor a b c reason hs rest,
    (minor < 10)%N -> is_digit a = true -> is_digit b = true -> is_digit c = true ->
    no_cr reason = true -> forallb hdr_ok hs = true ->
    read_response (S (length hs)) (enc_response minor [a; b; c] reason hs ++ rest) =
    Some ({| rs_minor := minor; rs_status := [a; b; c]; rs_reason := reason;
             rs_headers := map (fun h => (fst h, trim_ows (snd h))) hs |}, rest).
Proof. exact response_round_trip_proof. Qed.
Print Assumptions response_head_is_well_formed.

Example ex_response_head :
  read_response 3 (enc_response 1 [50; 48; 48] [79; 75] [([97], [49]); ([98; 99], [120; 32; 121])] ++ [1; 2; 3])%N =
  Some ({| rs_minor := 1; rs_status := [50; 48; 48]; rs_reason := [79; 75];
           rs_headers := [([97], [49]); ([98; 99], [120; 32; 121])] |}, [1; 2; 3])%N.
Proof. vm_compute. reflexivity. Qed.

Theorem code_facts :
  HTTP1_PARTIAL_HEAD_READS_MORE = true /\ HTTP1_READS_WHEN_EMPTY = true /\ HTTP1_TAIL_IS_FIRST_CHUNK = true
  /\ HTTP1_LIMITS_AS_MODELLED = true /\ HTTP1_HEAD_WRITERS_AS_MODELLED = true /\ N.to_nat HTTP1_MAX_RAW_HEADERS_SIZE = CAP
  /\ N.to_nat HTTP1_MAX_HEADERS_NUM = MAX_HEADERS.
Proof. repeat split; exact eq_refl. Qed.
Print Assumptions code_facts.

(* Non-vacuity: a head cut in three pieces; the same stream whole; the old code on the cut *)
Definition ex_head : list N :=
  [71; 69; 84; 32; 47; 32; 72; 84; 84; 80; 47; 49; 46; 49; 13; 10; 72; 58; 32; 120; 13; 10; 13; 10]%N.
Example ex_cut :
  listen parse_c true [firstn 5 ex_head; firstn 10 (skipn 5 ex_head); skipn 15 ex_head ++ [1; 2; 3]%N]
  = ORequest ex_head [1; 2; 3]%N
  /\ listen parse_c true [ex_head ++ [1; 2; 3]%N] = ORequest ex_head [1; 2; 3]%N
  /\ listen parse_c false [firstn 5 ex_head; skipn 5 ex_head] = OFuel.
Proof. vm_compute. repeat split; reflexivity. Qed.
