(* C16 — Metrics equal the live objects and relayed bytes, and are exported.
   Proved on the model of the metrics bookkeeping (Model/Metrics.v) for every sequence of session
   and tunnel openings and closings, failed connects, UDP socket creations and releases, and
   transfers. *)
From Coq Require Import List NArith ZArith Bool.
From TT Require Import Lib.BytesL Generated.MetricsFacts Model.Metrics Proofs.MetricsProofs.
From TT Require Import Generated.TimeoutFacts Model.QuicTimers Proofs.QuicTimersProofs.
Import ListNotations.
Open Scope Z_scope.

(* after EVERY operation history the three gauges equal the number of live objects *)
Theorem gauges_equal_live_objects :
  forall ops,
    let w := mrun ops in
    (forall p, g_sessions w p = live_sessions w p)
    /\ g_tcp w = Z.of_nat (length (tunnels w))
    /\ g_udp w = Z.of_nat (length (udp_socks w)).
Proof. intros ops w. destruct (mrun_inv ops w0 MInv_w0) as [A B C]. auto. Qed.
Print Assumptions gauges_equal_live_objects.

(* and return to zero when all clients are gone *)
Theorem gauges_return_to_zero :
  forall ops, sessions (mrun ops) = [] -> tunnels (mrun ops) = [] -> udp_socks (mrun ops) = [] ->
    (forall p, g_sessions (mrun ops) p = 0) /\ g_tcp (mrun ops) = 0 /\ g_udp (mrun ops) = 0.
Proof.
  intros ops S T U. destruct (gauges_equal_live_objects ops) as (A & B & C). cbv zeta in *.
  rewrite B, C, T, U. split; [|split; reflexivity]. intros p. rewrite A. unfold live_sessions. rewrite S. reflexivity.
Qed.
Print Assumptions gauges_return_to_zero.

(* closing a session releases everything it owns: no tunnel or UDP socket of it stays counted *)
Theorem closing_a_session_releases_its_objects :
  forall w id, MInv w ->
    let w' := mstep w (CloseSession id) in
    MInv w' /\ owned_by id (tunnels w') = [] /\ owned_by id (udp_socks w') = [].
Proof.
  intros w id I. split; [apply mstep_inv; exact I|]. cbn [mstep tunnels udp_socks].
  unfold owned_by, not_owned_by. split.
  - induction (tunnels w) as [|[t s] l IH]; [reflexivity|]. cbn [filter snd].
    destruct (s =? id)%N eqn:E; cbn [negb filter snd]; [exact IH|rewrite E; exact IH].
  - induction (udp_socks w) as [|[t s] l IH]; [reflexivity|]. cbn [filter snd].
    destruct (s =? id)%N eqn:E; cbn [negb filter snd]; [exact IH|rewrite E; exact IH].
Qed.
Print Assumptions closing_a_session_releases_its_objects.

(* traffic: a transfer adds exactly the uploaded bytes to inbound_traffic_bytes and the downloaded
   bytes to outbound_traffic_bytes of the session's protocol; nothing else moves the counters *)
Theorem traffic_counters :
  (forall w sess up down p, proto_of w sess = Some p ->
     let w' := mstep w (Transfer sess up down) in
     c_in w' p = c_in w p + Z.of_N up /\ c_out w' p = c_out w p + Z.of_N down
     /\ (forall q, q <> p -> c_in w' q = c_in w q /\ c_out w' q = c_out w q))
  /\ (forall w o, (forall s u d, o <> Transfer s u d) ->
        forall p, c_in (mstep w o) p = c_in w p /\ c_out (mstep w o) p = c_out w p).
Proof. split; [intros; apply transfer_counts; [exact eq_refl|assumption]|exact other_ops_keep_counters]. Qed.
Print Assumptions traffic_counters.

(* datagrams: for every sequence of datagrams and every pattern of acceptance by the sink, the counter holds exactly
   the payload bytes of the datagrams that were relayed; a dropped datagram leaves it alone *)
Theorem datagram_counter_is_delivered_bytes :
  forall offers, count_datagrams METRICS_COUNT_SENT_DATAGRAMS_ONLY offers = delivered_datagram_bytes offers.
Proof.
  intros offers. change METRICS_COUNT_SENT_DATAGRAMS_ONLY with true.
  unfold count_datagrams, delivered_datagram_bytes. cbn [negb].
  generalize 0%N. induction offers as [|o r IH]; intros a; cbn [fold_left]; [reflexivity|].
  rewrite Bool.orb_false_r. apply IH.
Qed.
Print Assumptions datagram_counter_is_delivered_bytes.

Example ex_counting_offered_datagrams_overcounts :
  count_datagrams false [(100, true); (100, false); (100, true)]%N = 300%N
  /\ delivered_datagram_bytes [(100, true); (100, false); (100, true)]%N = 200%N.
Proof. split; reflexivity. Qed.

(* "returning to zero when all clients are gone", for QUIC: a session ends when its connection is found closed, and a
   connection whose client went away is closed by one of its own timers (drain after the peer's close, idle). In the model of
   the multiplexer's timer bookkeeping (Model/QuicTimers.v), for every history of packets, rounds and removals, whatever the
   library answers: every armed deadline is served - left alone, the loop comes round by itself no later than that deadline -
   an expired connection that still has a timer is armed again with it, and a round leaves the unexpired ones alone. *)
Theorem quic_timer_of_a_gone_client_fires :
  (forall next ops now c t,
     In (c, t) (dl (qrun QUIC_EXPIRED_TIMERS_REARMED next ops)) ->
     exists d, will_wake QUIC_TIMER_ARM_ENABLED_WHENEVER_ARMED (qrun QUIC_EXPIRED_TIMERS_REARMED next ops) now = Some d
               /\ (d <= N.max t now)%N)
  /\ (forall next s now c t d, In (c, t) (dl s) -> (t <= now)%N -> next c now = Some d ->
        In (c, (now + d)%N) (dl (qstep QUIC_EXPIRED_TIMERS_REARMED next s (Wake now))))
  /\ (forall next s now c t, In (c, t) (dl s) -> (now < t)%N ->
        In (c, t) (dl (qstep QUIC_EXPIRED_TIMERS_REARMED next s (Wake now)))).
Proof.
  split; [exact armed_deadline_is_served_proof|].
  split; [exact expired_is_rearmed_proof|].
  exact (unexpired_is_kept_proof QUIC_EXPIRED_TIMERS_REARMED).
Qed.
Print Assumptions quic_timer_of_a_gone_client_fires.

(* as found (the closest deadline only moved backwards, the timer arm was enabled only while it lay in the future): connection 1's
   first timer expires at 10; its client's close arrives at 12 and arms the drain timer for 13; nothing wakes the loop any more,
   the connection is never found closed and its session, tunnels and sockets stay counted *)
Example ex_as_found_the_drain_timer_never_fires :
  let s := qrun false (fun _ _ => None) [Arm 1 10; Wake 10; Arm 1 13] in
  In (1%N, 13%N) (dl s) /\ will_wake false s 12 = None
  /\ will_wake true (qrun true (fun _ _ => None) [Arm 1 10; Wake 10; Arm 1 13]) 12 = Some 13%N.
Proof. vm_compute. repeat split. left. reflexivity. Qed.

Theorem code_facts :
  METRICS_COUNT_SENT_DATAGRAMS_ONLY = true /\ METRICS_NAMES_AND_LABELS = true /\ METRICS_COLLECT_OWN_REGISTRY = true /\ METRICS_GUARDS_AS_MODELLED = true
  /\ METRICS_UPLOAD_IS_INBOUND = true /\ METRICS_COUNT_SENT_BYTES_ONLY = true /\ METRICS_LISTENER_AS_MODELLED = true
  /\ QUIC_TIMER_ARM_ENABLED_WHENEVER_ARMED = true /\ QUIC_EXPIRED_TIMERS_REARMED = true.
Proof. repeat split; exact eq_refl. Qed.
Print Assumptions code_facts.

Example ex_history :
  let w := mrun [OpenSession 0 H1; OpenSession 1 H2; OpenTunnel 0 1; OpenTunnel 1 1; Transfer 1 100 300;
                 FailedConnect 1; CloseTunnel 0; OpenUdp 5 1; CloseSession 1] in
  (g_sessions w H1, g_sessions w H2, g_tcp w, g_udp w, c_in w H2, c_out w H2) = (1, 0, 0, 0, 100, 300).
Proof. vm_compute. reflexivity. Qed.
