(* C03 — Private-network egress policy is exact for every destination spelling.
   is_global_ipv4 / is_unicast_global_ipv6 / is_global_ipv6 are REGENERATED from
   lib/src/net_utils.rs on every run (Generated/GlobalIp.v); the theorems are about that text. *)
From Coq Require Import List NArith Bool Permutation.
From TT Require Import Model.IpStd Generated.GlobalIp Generated.ConnectFacts Spec.IanaSpecial
  Model.ConnectPolicy Proofs.GlobalIpProofs Proofs.ConnectPolicyProofs.
Import ListNotations.
Open Scope N_scope.

(* All 2^32 IPv4 addresses at once: global iff outside the special-purpose blocks (loopback,
   private, link-local, unspecified/0.0.0.0/8, shared 100.64/10, reserved 240/4 + 192.0.0.0/24,
   documentation, benchmarking). Both directions of the property for IPv4. *)
Theorem v4_global_iff_not_special :
  forall ip, ip < 4294967296 -> is_global_ipv4 ip = negb (in_ranges ip non_global_v4).
Proof. exact v4_exact. Qed.
Print Assumptions v4_global_iff_not_special.

(* All 2^128 IPv6 addresses: the named special classes, including every IPv4 special address
   embedded as ::ffff:a.b.c.d, are never global ... *)
Theorem special_never_global_v6 :
  forall ip, ip < 2 ^ 128 -> special_v6 ip = true -> is_global_ipv6 ip = false.
Proof. exact special_never_global_v6_proof. Qed.
Print Assumptions special_never_global_v6.

(* ... and global unicast (2000::/3 minus documentation and the 2001::/23 protocol block) is
   never refused *)
Theorem global_unicast_never_refused_v6 :
  forall ip, ip < 2 ^ 128 -> global_unicast_v6 ip = true -> is_global_ipv6 ip = true.
Proof. exact global_unicast_never_refused_v6_proof. Qed.
Print Assumptions global_unicast_never_refused_v6.

(* Literal destination: connected to iff allowed or global, and to the very address checked;
   otherwise refused with the loopback (311) or non-routable (310) error *)
Theorem literal_connects_checked_address :
  forall allow a a',
    decide_literal allow a = ConnectTo a' -> a' = a /\ (allow = true \/ is_global_ip a = true).
Proof. exact decide_literal_sound. Qed.
Print Assumptions literal_connects_checked_address.

Theorem literal_refusal_is_310_or_311 :
  forall a, is_global_ip a = false ->
    decide_literal false a = RefuseLoopback \/ decide_literal false a = RefuseNonroutable.
Proof. exact decide_literal_refuses. Qed.
Print Assumptions literal_refusal_is_310_or_311.

(* Host name: the address connected to is the first address of the answer that passes the
   policy (global or allowed; IPv6 only when available) *)
Theorem hostname_connects_first_usable :
  forall allow v6ok answers a,
    decide_hostname allow v6ok answers = ConnectTo a ->
    exists pre post, answers = pre ++ a :: post /\ usable allow v6ok a = true
                     /\ forallb (fun b => negb (usable allow v6ok b)) pre = true.
Proof. exact decide_hostname_sound. Qed.
Print Assumptions hostname_connects_first_usable.

(* Whether a host name is refused does not depend on the order of the resolver's answer *)
Theorem hostname_refusal_order_independent :
  forall allow v6ok l l', Permutation l l' ->
    (exists a, decide_hostname allow v6ok l = ConnectTo a) ->
    (exists a, decide_hostname allow v6ok l' = ConnectTo a).
Proof. exact refusal_order_independent. Qed.
Print Assumptions hostname_refusal_order_independent.

(* Which refusal: a host name none of whose addresses may be connected to is refused as loopback (311) when every
   address the loop looks at (IPv6 ones only when IPv6 is available) is a loopback one, as non-routable (310) as soon
   as one of them is not; with no address to look at the resolution has failed *)
Theorem hostname_refusal_is_loopback_iff_all_loopback :
  forall allow v6ok answers,
    forallb (fun b => negb (usable allow v6ok b)) answers = true ->
    decide_hostname allow v6ok answers =
      match considered v6ok answers with
      | [] => ResolveFailed
      | c => if forallb ip_is_loopback c then RefuseLoopback else RefuseNonroutable
      end.
Proof. exact decide_hostname_refusal_class. Qed.
Print Assumptions hostname_refusal_is_loopback_iff_all_loopback.

(* ... and that does not depend on the order of the resolver's answer either *)
Theorem hostname_refusal_class_order_independent :
  forall v6ok l l', Permutation l l' -> refusal_class v6ok l = refusal_class v6ok l'.
Proof. exact refusal_class_order_independent. Qed.
Print Assumptions hostname_refusal_class_order_independent.

(* the code still has the shape the policy model mirrors (regenerated facts) *)
Theorem connect_code_as_modelled :
  CONNECT_LITERAL_AS_MODELLED = true /\ CONNECT_LOOP_AS_MODELLED = true
  /\ CONNECT_OUTCOME_AS_MODELLED = true /\ CONNECT_SINGLE_RESOLUTION = true.
Proof. repeat split; exact eq_refl. Qed.
Print Assumptions connect_code_as_modelled.

(* Non-vacuity / witnesses of the repaired defects *)
Example ex_v6 :
  map is_global_ipv6
      [ 42541956123769884636017138956568135816 (* 2001:4860:4860::8888 *);
        336367375089603203431462613199536259073 (* fd0e::1 *);
        338288524927261089654018896841347694593 (* fe80::1 *);
        281472812449793 (* ::ffff:127.0.0.1 *); 281470816487432 (* ::ffff:8.8.8.8 *); 1; 0 ]
  = [true; false; false; false; true; false; false].
Proof. vm_compute. reflexivity. Qed.
Example ex_special : special_v6 281472812449793 = true /\ global_unicast_v6 42541956123769884636017138956568135816 = true.
Proof. vm_compute. split; reflexivity. Qed.
