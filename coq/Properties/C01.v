(* C01 — Authentication gate: no egress without valid credentials.
   Proved on the model of the per-request decision of a tunnel session (Model/TunnelGate.v),
   for any authenticator (a function of the presented credentials), any Proxy-Authorization value,
   any request and any sequence of requests. *)
From Coq Require Import List NArith Bool.
From TT Require Import Lib.BytesL Lib.Base64 Generated.GateFacts Model.Settings Model.TunnelGate
     Proofs.SettingsProofs Proofs.TunnelGateProofs.
Import ListNotations.
Open Scope N_scope.

(* With an authenticator configured a request passes the gate exactly when it carries a
   Proxy-Authorization of the form "Basic <token>" (visible ASCII) whose token the authenticator
   accepts, or carries no such header on a connection whose SNI credentials it accepted. *)
Theorem gate_allows_exactly_the_authenticated :
  forall a sni_creds p raw fa,
    connection_policy (Some a) sni_creds = Some p ->
    (gate (Some a) p (auth_info raw) = Allow fa <->
     (exists t, raw = Some (BASIC ++ t) /\ forallb visible (BASIC ++ t) = true /\ a (SBasic t) = true /\ fa = Some (SBasic t))
     \/ (exists c, raw = None /\ sni_creds = Some c /\ a (SSni c) = true /\ fa = Some (SSni c))).
Proof.
  intros a sni_creds p raw fa CP. rewrite (gate_allows_iff eq_refl). split.
  - intros [[t [H1 [H2 H3]]]|[x [H1 [H2 H3]]]].
    + left. apply auth_info_basic in H1. destruct H1 as [v [E1 [E2 E3]]]. subst v. exists t. auto.
    + right. apply auth_info_absent in H1. subst p.
      unfold connection_policy in CP. destruct sni_creds as [c|]; [|discriminate].
      destruct (a (SSni c)) eqn:E; [|discriminate]. injection CP as CP. subst x. exists c. auto.
  - intros [[t [H1 [H2 [H3 H4]]]]|[c [H1 [H2 [H3 H4]]]]].
    + left. exists t. split; [|auto]. apply auth_info_basic. exists (BASIC ++ t). auto.
    + right. subst raw sni_creds fa. unfold connection_policy in CP. rewrite H3 in CP. injection CP as CP. subst p.
      exists c. split; [apply auth_info_absent; reflexivity|auto].
Qed.
Print Assumptions gate_allows_exactly_the_authenticated.

(* Every other request is answered 407 with the Basic challenge and causes no egress; a 200 or any
   outbound traffic needs the gate to have allowed the request. *)
Theorem no_egress_without_authentication :
  forall a p raw c au hp o,
    (forall fa, gate (Some a) p (auth_info raw) <> Allow fa) ->
    handle (Some a) p raw c au hp o =
    {| a_status := 407; a_challenge := true; a_warning := 0; a_names_host := false; a_egress := false |}.
Proof.
  intros a p raw c au hp o H. apply handle_denied.
  destruct (gate (Some a) p (auth_info raw)) as [fa| |] eqn:E; [exfalso; exact (H fa eq_refl)|reflexivity|].
  exfalso. exact (gate_never_502 a p (auth_info raw) E).
Qed.
Print Assumptions no_egress_without_authentication.

Theorem egress_and_200_need_the_gate :
  forall auth p raw c au hp o,
    (a_egress (handle auth p raw c au hp o) = true \/ a_status (handle auth p raw c au hp o) = 200) ->
    exists fa, gate auth p (auth_info raw) = Allow fa.
Proof.
  intros auth p raw c au hp o [H|H]; [eapply handle_egress_needs_allow|eapply handle_200_needs_allow]; eassumption.
Qed.
Print Assumptions egress_and_200_need_the_gate.

(* a connection whose SNI credentials the authenticator rejects is dropped before any request *)
Theorem rejected_sni_serves_nothing :
  forall a c reqs, a (SSni c) = false -> serve (Some a) (Some c) reqs = None.
Proof. intros a c reqs H. unfold serve, connection_policy. rewrite H. reflexivity. Qed.
Print Assumptions rejected_sni_serves_nothing.

(* per request: the answer to a request is the answer it would get alone on the same connection,
   whatever was accepted or refused before or after it *)
Theorem decision_is_per_request :
  forall auth sni pre r post answers,
    serve auth sni (pre ++ r :: post) = Some answers ->
    exists one, serve auth sni [r] = Some [one] /\ nth_error answers (length pre) = Some one.
Proof. exact serve_pointwise. Qed.
Print Assumptions decision_is_per_request.

(* the registry authenticator: a token passes exactly when it is base64(user ":" password) of a
   configured pair; SNI credentials never pass *)
Theorem registry_accepts_exactly_configured_pairs :
  forall clients u p,
    bytes_ok (u ++ 58 :: p) = true -> Forall (fun c => bytes_ok (fst c ++ 58 :: snd c) = true) clients ->
    (registry clients (SBasic (b64_encode (u ++ 58 :: p))) = true <->
     exists c, In c clients /\ fst c ++ 58 :: snd c = u ++ 58 :: p)
    /\ forall c, registry clients (SSni c) = false.
Proof.
  intros clients u p Hb Hc. split; [|reflexivity]. cbn [registry]. exact (authenticate_iff_proof clients u p Hb Hc).
Qed.
Print Assumptions registry_accepts_exactly_configured_pairs.

Theorem code_facts :
  GATE_MATCH_AS_MODELLED = true /\ AUTH_UNREADABLE_IS_407 = true /\ AUTH_INFO_AS_MODELLED = true
  /\ SNI_AUTH_AS_MODELLED = true /\ DISPATCH_AS_MODELLED = true /\ STATUS_AND_CHALLENGE_AS_MODELLED = true.
Proof. repeat split; exact eq_refl. Qed.
Print Assumptions code_facts.

(* Non-vacuity: registry with u1:p1; valid, wrong password, other scheme, absent; the valid one in
   the middle of a session does not help its neighbours *)
Definition ex_auth : authenticator := registry [([117; 49], [112; 49])].
Definition ex_req raw := {| r_raw := raw; r_connect := true; r_authority := Some [104; 58; 56; 48]; r_has_port := true; r_outcome := COk |}.
Example ex_session :
  option_map (map a_status)
    (serve (Some ex_auth) None
       [ex_req None; ex_req (Some (BASIC ++ b64_encode [117; 49; 58; 112; 49]));
        ex_req (Some (BASIC ++ b64_encode [117; 49; 58; 112; 50])); ex_req (Some [66; 101; 97; 114; 101; 114; 32; 120]); ex_req None])
  = Some [407; 200; 407; 407; 407].
Proof. vm_compute. reflexivity. Qed.
