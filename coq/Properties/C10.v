(* C10 — Every tunnel request gets exactly one, correctly coded, final response.
   Proved on the model of the per-request handling (Model/TunnelGate.v: gate, dispatch on method
   and authority, outcome of the outbound attempt -> status, challenge, X-Warning code, host name
   header). The model answers every request with exactly one [answer] by construction; the
   theorems say which one. *)
From Coq Require Import List NArith Bool.
From TT Require Import Lib.BytesL Generated.GateFacts Model.TunnelGate Proofs.SettingsProofs Proofs.TunnelGateProofs.
Import ListNotations.
Open Scope N_scope.

(* 200 exactly when the request passed the gate and its destination was connected, or the
   multiplexer / health check was accepted *)
Theorem ok_iff :
  forall auth p raw c au hp o,
    a_status (handle auth p raw c au hp o) = 200 <->
    (exists fa, gate auth p (auth_info raw) = Allow fa)
    /\ match dispatch c au with
       | RHealth => True
       | RUdp => o = COk           (* the forwarder accepted the client (SOCKS5: its server did, within the establishment timeout) *)
       | RIcmp => o = COk          (* the ICMP forwarder is set up and made a multiplexer *)
       | RRefused => False
       | RConnect => au <> None /\ (c = true -> hp = true) /\ o = COk
       end.
Proof.
  intros auth p raw c au hp o. unfold handle.
  destruct (gate auth p (auth_info raw)) as [fa| |]; cbn.
  - destruct (dispatch c au) eqn:D; cbn.
    + split; [intros _; split; [eauto|exact I]|reflexivity].
    + destruct o; cbn; split; try discriminate; try (intros [_ H]; discriminate); intros _; split; [eauto|reflexivity].
    + change ICMP_REFUSED_WHEN_NOT_SET_UP with true. cbn iota.
      destruct o; cbn; split; try discriminate; try (intros [_ H]; discriminate); intros _; split; [eauto|reflexivity].
    + split; [discriminate|intros [_ []]].
    + destruct au as [a|]; cbn.
      * destruct c, hp; cbn.
        -- destruct o; cbn; split; try discriminate; try (intros [_ [_ [_ H]]]; discriminate);
             intros _; split; [eauto|repeat split; auto; discriminate].
        -- split; [discriminate|]. intros [_ [_ [H _]]]. specialize (H eq_refl). discriminate.
        -- destruct o; cbn; split; try discriminate; try (intros [_ [_ [_ H]]]; discriminate);
             intros _; split; [eauto|repeat split; auto; discriminate].
        -- destruct o; cbn; split; try discriminate; try (intros [_ [_ [_ H]]]; discriminate);
             intros _; split; [eauto|repeat split; auto; discriminate].
      * split; [discriminate|]. intros [_ [H _]]. contradiction.
  - split; [discriminate|]. intros [[fa H] _]. discriminate.
  - split; [discriminate|]. intros [[fa H] _]. discriminate.
Qed.
Print Assumptions ok_iff.

(* 407 exactly on an authentication failure, always with the challenge and nothing else *)
Theorem auth_failure_iff :
  forall auth p raw c au hp o,
    a_status (handle auth p raw c au hp o) = 407 <-> gate auth p (auth_info raw) = Deny407.
Proof.
  intros auth p raw c au hp o. unfold handle.
  destruct (gate auth p (auth_info raw)) as [fa| |]; cbn.
  - split; [|discriminate]. destruct (dispatch c au); cbn; try discriminate; try (destruct o; cbn; discriminate).
    destruct au; cbn; try discriminate. destruct (c && negb hp); cbn; try discriminate. destruct o; cbn; discriminate.
  - split; reflexivity.
  - split; discriminate.
Qed.
Print Assumptions auth_failure_iff.

(* a failed outbound attempt is reported as 502 with the documented code, and the host name
   header exactly for the two policy refusals, which cause no traffic *)
Theorem failure_codes :
  forall auth p raw c a fa o,
    gate auth p (auth_info raw) = Allow fa -> dispatch c (Some a) = RConnect -> o <> COk ->
    let r := handle auth p raw c (Some a) true o in
    a_status r = 502 /\ a_challenge r = false
    /\ a_warning r = match o with CTimeout => 302 | CUnreachable => 301 | CNonRoutable => 310 | CLoopback => 311 | _ => 300 end
    /\ a_names_host r = match o with CNonRoutable | CLoopback => true | _ => false end
    /\ (match o with CNonRoutable | CLoopback => a_egress r = false | _ => True end).
Proof.
  intros auth p raw c a fa o G D NO. unfold handle. rewrite G, D. cbn.
  rewrite andb_false_r. destruct o; cbn; try contradiction; repeat split; reflexivity.
Qed.
Print Assumptions failure_codes.

(* the UDP multiplexer that the forwarder does not accept (its upstream server refuses the client, fails, or does not
   answer within the establishment timeout) is reported like a failed connection attempt: one 502 with the documented code *)
Theorem refused_multiplexer_codes :
  forall auth p raw fa hp o,
    gate auth p (auth_info raw) = Allow fa -> o <> COk ->
    let r := handle auth p raw true (Some UDP2) hp o in
    a_status r = 502 /\ a_challenge r = false
    /\ a_warning r = match o with CTimeout => 302 | CUnreachable => 301 | CNonRoutable => 310 | CLoopback => 311 | _ => 300 end.
Proof.
  intros auth p raw fa hp o G NO. unfold handle. rewrite G.
  change (dispatch true (Some UDP2)) with RUdp. cbn iota.
  destruct o; cbn; try contradiction; repeat split; reflexivity.
Qed.
Print Assumptions refused_multiplexer_codes.

(* ... and so is the ICMP multiplexer that cannot be made because no ICMP forwarder is set up: one 502 with the generic code,
   nothing sent anywhere *)
Theorem refused_icmp_multiplexer_code :
  forall auth p raw fa hp o,
    gate auth p (auth_info raw) = Allow fa -> o <> COk ->
    let r := handle auth p raw true (Some ICMP) hp o in
    a_status r = 502 /\ a_challenge r = false /\ a_warning r = 300 /\ a_egress r = false.
Proof.
  intros auth p raw fa hp o G NO. unfold handle. rewrite G.
  change (dispatch true (Some ICMP)) with RIcmp. cbn iota.
  change ICMP_REFUSED_WHEN_NOT_SET_UP with true. change ICMP_REFUSAL_CARRIES_WARNING with true. cbn iota.
  destruct o; cbn; try contradiction; repeat split; reflexivity.
Qed.
Print Assumptions refused_icmp_multiplexer_code.

(* the reserved authorities are matched exactly: CONNECT to them is never a host to connect to,
   any other method on them is refused with 502 and no traffic; every other authority (different
   case, a suffix, a port) is an ordinary destination *)
Theorem reserved_authorities :
  (forall c a, dispatch c (Some a) = RConnect <-> a <> CHECK /\ a <> UDP2 /\ a <> ICMP)
  /\ dispatch true (Some CHECK) = RHealth /\ dispatch true (Some UDP2) = RUdp /\ dispatch true (Some ICMP) = RIcmp
  /\ (forall a, a = CHECK \/ a = UDP2 \/ a = ICMP -> dispatch false (Some a) = RRefused).
Proof.
  split; [|repeat split; try reflexivity; intros a [->|[->| ->]]; reflexivity].
  intros c a. unfold dispatch, beq.
  destruct (list_eqb N.eqb a CHECK) eqn:E1; [apply list_eqb_N_eq in E1; subst; destruct c; split; [discriminate|intros [H _]; contradiction|discriminate|intros [H _]; contradiction]|].
  destruct (list_eqb N.eqb a UDP2) eqn:E2; [apply list_eqb_N_eq in E2; subst; destruct c; split; [discriminate|intros [_ [H _]]; contradiction|discriminate|intros [_ [H _]]; contradiction]|].
  destruct (list_eqb N.eqb a ICMP) eqn:E3; [apply list_eqb_N_eq in E3; subst; destruct c; split; [discriminate|intros [_ [_ H]]; contradiction|discriminate|intros [_ [_ H]]; contradiction]|].
  split; [intros _|reflexivity].
  repeat split; intros ->; [rewrite (proj2 (list_eqb_N_eq _ _) eq_refl) in E1|rewrite (proj2 (list_eqb_N_eq _ _) eq_refl) in E2|rewrite (proj2 (list_eqb_N_eq _ _) eq_refl) in E3]; discriminate.
Qed.
Print Assumptions reserved_authorities.

Theorem refused_method_on_reserved_name :
  forall auth p raw a fa hp o,
    gate auth p (auth_info raw) = Allow fa -> (a = CHECK \/ a = UDP2 \/ a = ICMP) ->
    let r := handle auth p raw false (Some a) hp o in
    a_status r = 502 /\ a_egress r = false.
Proof.
  intros auth p raw a fa hp o G H. unfold handle. rewrite G.
  destruct reserved_authorities as (_ & _ & _ & _ & R). rewrite (R a H). cbn. split; reflexivity.
Qed.
Print Assumptions refused_method_on_reserved_name.

(* CONNECT without a port is refused before any attempt *)
Theorem connect_without_port_refused :
  forall auth p raw a fa o,
    gate auth p (auth_info raw) = Allow fa -> dispatch true (Some a) = RConnect ->
    let r := handle auth p raw true (Some a) false o in
    a_status r = 502 /\ a_warning r = 300 /\ a_egress r = false.
Proof. intros auth p raw a fa o G D. unfold handle. rewrite G, D. cbn. repeat split; reflexivity. Qed.
Print Assumptions connect_without_port_refused.

Theorem code_facts :
  DISPATCH_AS_MODELLED = true /\ STATUS_AND_CHALLENGE_AS_MODELLED = true /\ WARNING_TABLE_AS_MODELLED = true
  /\ CONNECT_NEEDS_PORT = true /\ GATE_MATCH_AS_MODELLED = true.
Proof. repeat split; exact eq_refl. Qed.
Print Assumptions code_facts.

Example ex_codes :
  map (fun o => a_warning (handle None PDefault None true (Some [104; 58; 56; 48]) true o))
      [COk; CIo; CTimeout; CUnreachable; CNonRoutable; CLoopback; COther]
  = [0; 300; 302; 301; 310; 311; 300].
Proof. vm_compute. reflexivity. Qed.
