(* C17 — Plain-HTTP forwarding preserves response bodies byte for byte.
   Proved on the model of ForwardedStreamSink's body states driven by SimplexPipe
   (Model/Forwarded.v), for every segmentation of the origin's byte stream and every
   partial-acceptance pattern of the client-side sink, for any chunk-size-line parser that is
   stable under extension and minimal (httparse::parse_chunk_size is a parameter; the executable
   model's parser is proved to meet the hypotheses). *)
From Coq Require Import List NArith Bool Arith.
From TT Require Import Lib.BytesL Model.Forwarded Generated.ForwardedFacts Proofs.ForwardedProofs Model.H3Stream Proofs.H3StreamProofs.
From TT Require Import Generated.Http1Facts Model.Http1Wire Spec.Rfc9112 Proofs.Http1WireProofs.
From TT Require Import Model.HopByHop Proofs.HopByHopProofs Model.FwdRequest Proofs.FwdRequestProofs.
Import ListNotations.
Local Open Scope nat_scope.

Section AnyChunkSizeParser.
  Variable psize : list N -> csize.
  Hypothesis empty_partial : psize [] = CPartial.
  Hypothesis complete_stable : forall b p z t, psize b = CComplete p z -> psize (b ++ t) = CComplete p z.
  Hypothesis error_stable : forall b t, psize b = CError -> psize (b ++ t) = CError.
  Hypothesis complete_min : forall b p z, psize b = CComplete p z ->
      1 <= p <= length b /\ psize (firstn p b) = CComplete p z /\ forall k, k < p -> psize (firstn k b) = CPartial.

  (* whatever the pieces and whatever the client-side sink accepts per write, the client receives
     exactly what the byte-at-a-time reference delivers for the whole stream, and ends in the same
     state (an error after the body was already complete counts as complete) *)
  Theorem delivery_is_segmentation_and_backpressure_invariant :
    forall st segs accs,
      good psize st ->
      let '(st1, out1) := drive psize st segs accs [] in
      out1 = snd (bfold psize st (concat segs)) /\ agrees st1 (fst (bfold psize st (concat segs))).
  Proof.
    intros st segs accs G.
    first [pose proof (drive_sim psize empty_partial complete_stable error_stable complete_min segs st accs [] G) as H | pose proof (drive_sim psize complete_stable error_stable complete_min segs st accs [] G) as H].
    destruct (drive psize st segs accs []) as [st1 out1]. exact H.
  Qed.

  (* chunked framing is removed exactly: the reference turns size line + data + CR LF, repeated,
     then a zero-size line and CR LF, into the concatenated data and the end of the body *)
  Theorem chunked_body_is_dechunked :
    forall chunks last_line,
      Forall (chunk_ok psize) chunks -> psize last_line = CComplete (length last_line) 0 ->
      bfold psize (BPrefix []) (concat (map enc_chunk chunks) ++ last_line ++ CRLF)
      = (BDone, concat (map snd chunks)).
  Proof. first [exact (dechunk_all psize empty_partial complete_stable error_stable complete_min) | exact (dechunk_all psize complete_stable error_stable complete_min)]. Qed.

  (* together: any segmentation and back-pressure pattern of a well-formed chunked body delivers exactly
     the data and reaches the end of the body (agrees _ BDone: the end-of-body signal was passed on) *)
  Theorem chunked_body_end_to_end :
    forall chunks last_line segs accs,
      Forall (chunk_ok psize) chunks -> psize last_line = CComplete (length last_line) 0 ->
      concat segs = concat (map enc_chunk chunks) ++ last_line ++ CRLF ->
      snd (drive psize (BPrefix []) segs accs []) = concat (map snd chunks)
      /\ agrees (fst (drive psize (BPrefix []) segs accs [])) BDone.
  Proof.
    intros chunks last_line segs accs F L E.
    first [pose proof (drive_sim psize empty_partial complete_stable error_stable complete_min segs (BPrefix []) accs [] empty_partial) as H | pose proof (drive_sim psize complete_stable error_stable complete_min segs (BPrefix []) accs [] empty_partial) as H].
    destruct (drive psize (BPrefix []) segs accs []) as [st1 out1].
    rewrite E in H. first [rewrite (dechunk_all psize empty_partial complete_stable error_stable complete_min chunks last_line F L) in H | rewrite (dechunk_all psize complete_stable error_stable complete_min chunks last_line F L) in H].
    cbn [fst snd app] in H |- *. exact H.
  Qed.
End AnyChunkSizeParser.
Print Assumptions delivery_is_segmentation_and_backpressure_invariant.
Print Assumptions chunked_body_is_dechunked.
Print Assumptions chunked_body_end_to_end.

(* Content-Length and close-delimited bodies, byte-at-a-time reference: exactly the first n bytes
   then the end of the body; everything until the origin closes *)
Theorem content_length_reference :
  forall psize n x, 0 < n -> length x = n ->
    bfold psize (BNon (Some n) 0) x = (BDone, x).
Proof.
  intros psize n x Hn Hx.
  assert (G : forall sent y, sent < n -> length y = n - sent ->
              bfold psize (BNon (Some n) sent) y = (BDone, y)).
  { intros sent y. revert sent. induction y as [|b y IH]; intros sent L1 L2; cbn [length] in L2; [Lia.lia|].
    cbn [bfold bstep]. replace (n <=? sent) with false by (symmetry; apply Nat.leb_gt; Lia.lia).
    destruct (S sent =? n) eqn:E.
    - apply Nat.eqb_eq in E. assert (y = []) by (destruct y; [reflexivity|cbn in L2; Lia.lia]). subst. reflexivity.
    - apply Nat.eqb_neq in E. rewrite IH by Lia.lia. reflexivity. }
  apply G; Lia.lia.
Qed.
Print Assumptions content_length_reference.

Theorem close_delimited_reference :
  forall psize x, bfold psize (BNon None 0) x = (BNon None (length x), x).
Proof.
  intros psize x.
  assert (G : forall sent, bfold psize (BNon None sent) x = (BNon None (sent + length x), x)).
  { induction x as [|b x IH]; intros sent; cbn [bfold bstep length].
    - rewrite Nat.add_0_r. reflexivity.
    - rewrite IH. replace (S sent + length x) with (sent + S (length x)) by Lia.lia. reflexivity. }
  apply (G 0).
Qed.
Print Assumptions close_delimited_reference.

(* the executable model's chunk-size parser (hex digits, optional extension, CR LF) meets the hypotheses *)
Theorem model_chunk_size_parser_ok :
  psize_c [] = CPartial
  /\ (forall b p z t, psize_c b = CComplete p z -> psize_c (b ++ t) = CComplete p z)
  /\ (forall b t, psize_c b = CError -> psize_c (b ++ t) = CError)
  /\ (forall b p z, psize_c b = CComplete p z ->
        1 <= p <= length b /\ psize_c (firstn p b) = CComplete p z /\ forall k, k < p -> psize_c (firstn k b) = CPartial).
Proof.
  split; [exact psize_c_empty|]. split; [exact psize_c_complete_stable|]. split; [exact psize_c_error_stable|].
  exact psize_c_complete_min.
Qed.
Print Assumptions model_chunk_size_parser_ok.

(* The code limits the length of a chunk-size line (MAX_CHUNK_SIZE_LINE_LENGTH, read by the translator): a line complete only beyond
   the limit is refused, and so is one still undecided when that many bytes are there (FWD_CHUNK_PREFIX_AS_MODELLED). A parser under
   such a limit is again a chunk-size line parser meeting the hypotheses above, so every theorem of this file speaks about the code's
   sink with [psize := bounded limit p] - for the executable model: [bounded 4096 psize_c], the parser of the engine c17_body *)
Theorem limited_chunk_size_parser_ok :
  forall psize limit, 0 < limit ->
    psize [] = CPartial ->
    (forall b p z t, psize b = CComplete p z -> psize (b ++ t) = CComplete p z) ->
    (forall b t, psize b = CError -> psize (b ++ t) = CError) ->
    (forall b p z, psize b = CComplete p z ->
        1 <= p <= length b /\ psize (firstn p b) = CComplete p z /\ forall k, k < p -> psize (firstn k b) = CPartial) ->
    let bp := bounded limit psize in
    bp [] = CPartial
    /\ (forall b p z t, bp b = CComplete p z -> bp (b ++ t) = CComplete p z)
    /\ (forall b t, bp b = CError -> bp (b ++ t) = CError)
    /\ (forall b p z, bp b = CComplete p z ->
          1 <= p <= length b /\ bp (firstn p b) = CComplete p z /\ forall k, k < p -> bp (firstn k b) = CPartial).
Proof.
  intros psize limit L E S1 S2 S3. cbv zeta.
  split; [apply (bounded_empty psize limit); assumption|].
  split; [apply (bounded_complete_stable psize limit); assumption|].
  split; [apply (bounded_error_stable psize limit); assumption|].
  apply (bounded_complete_min psize limit); assumption.
Qed.
Print Assumptions limited_chunk_size_parser_ok.

(* the limit the code states is a limit: 0 < 4096, and the engine's parser is the executable parser under it *)
Theorem stated_chunk_size_line_limit :
  (0 < FWD_MAX_CHUNK_SIZE_LINE)%N /\ (FWD_MAX_CHUNK_SIZE_LINE <= 65536)%N.
Proof. split; [reflexivity|]. intros H. discriminate H. Qed.
Print Assumptions stated_chunk_size_line_limit.

(* HTTP/3: whatever the order in which the client's end of stream (FIN) and the pieces of the response
   occur, every piece of the response reaches the client, in order; only a reset loses them *)
Theorem h3_response_survives_the_end_of_the_request :
  forall evs, ~ In ClientReset evs ->
    delivered (h3run H3_REQUEST_END_KEEPS_RESPONSE_DIRECTION H3_SINK_WRITE_AS_MODELLED evs) = responses evs
    /\ lost (h3run H3_REQUEST_END_KEEPS_RESPONSE_DIRECTION H3_SINK_WRITE_AS_MODELLED evs) = [].
Proof. exact every_response_piece_is_delivered_proof. Qed.
Print Assumptions h3_response_survives_the_end_of_the_request.

(* as found: a FIN that arrives before the response loses it; and (a seeded slip) a stream forgotten as soon as one
   direction is shut loses whatever still has to wait for credit *)
Example ex_fin_first_loses_the_response :
  lost (h3run false true [ClientFin; Respond 200; Respond 1]) = [200%N; 1%N]
  /\ lost (h3run true false [ClientFin; Respond 200; Respond 1]) = [200%N; 1%N]
  /\ delivered (h3run true true [ClientFin; Respond 200; Respond 1]) = [200%N; 1%N].
Proof. repeat split; reflexivity. Qed.

(* "forwarded to its target host as an equivalent HTTP/1.1 request (same method, path and headers minus proxy hop-by-hop ones)":
   whenever serialize_request accepts a request - any method and target without blank or line break, any authority and field list
   as the http crate holds them - the bytes it writes are read back under the RFC 9112 grammar (Spec/Rfc9112.v) as exactly that
   method, target and version, with the fields of the request minus Proxy-Authorization and Proxy-Connection,
   the Host field naming the request's authority (in place if the client sent one, else last), and the reading ends exactly where
   the body starts *)
Theorem forwarded_request_head_is_equivalent :
  forall method target minor mx authority hs bytes fr rest,
    ser_request method target minor mx authority hs = Some (bytes, fr) ->
    (minor < 10)%N -> no_byte 32 method = true -> no_cr method = true -> no_byte 32 target = true -> no_cr target = true ->
    no_cr authority = true -> forallb hdr_ok hs = true ->
    read_request (S (length (fwd_fields authority hs))) (bytes ++ rest) =
    Some ({| rq_method := method; rq_target := target; rq_minor := minor;
             rq_headers := map (fun h => (fst h, trim_ows (snd h))) (fwd_fields authority hs) |}, rest).
Proof. exact forwarded_request_round_trip_proof. Qed.
Print Assumptions forwarded_request_head_is_equivalent.

(* "same ... path": the target written is the origin-form of the client's path and query for every path (empty or absolute) and
   query - an empty path is "/" also in front of a query, where the http crate's rendering does not supply it *)
Theorem forwarded_target_is_origin_form :
  forall (path : list N) query, (path = [] \/ exists p, path = (47 :: p)%N) ->
    wire_target FWD_EMPTY_PATH_IS_SLASH (crate_as_str path query) = origin_form path query.
Proof. exact wire_target_is_origin_form_proof. Qed.
Print Assumptions forwarded_target_is_origin_form.

(* GET /p with Proxy-Authorization, a Host the client chose and Accept, for the authority o.test: accepted, Host rewritten in
   place, no body; a second Host field or a second Content-Length is refused *)
Example ex_forwarded_request :
  let get := [71; 69; 84]%N in let p := [47; 112]%N in let o := [111; 46; 116; 101; 115; 116]%N in
  let acc := ([97; 99; 99; 101; 112; 116], [42; 47; 42])%N in
  (exists bytes, ser_request get p 1 false o [(n_pauth, [120]%N); (n_host, [122]%N); acc] = Some (bytes, Det 0)
                 /\ read_request 3 bytes = Some ({| rq_method := get; rq_target := p; rq_minor := 1;
                                                    rq_headers := [(n_host, o); acc] |}, []))
  /\ ser_request get p 1 false o [(n_host, [122]%N); (n_host, [122]%N)] = None
  /\ ser_request get p 1 false o [(n_clen, [53]%N); (n_clen, [53]%N)] = None
  /\ (exists bytes, ser_request get p 1 true o [acc] = Some (bytes, Chunked)).
Proof. vm_compute. split; [eexists; split; reflexivity|]. repeat split. eexists. reflexivity. Qed.


(* "headers minus hop-by-hop ones": for every list of response fields, in whatever order the origin sent them, the fields
   handed on to the client are exactly the end-to-end ones, in the origin's order - Connection, the fields any Connection field
   names, Proxy-Connection, Keep-Alive, Upgrade and (when the chunked framing is removed for an HTTP/2 or HTTP/3 client) the
   framing fields are gone, everything else is kept *)
Theorem response_fields_minus_hop_by_hop :
  forall dechunked hs, convert FWD_HOP_BY_HOP_WHEREVER_THEY_STAND dechunked hs = end_to_end dechunked hs.
Proof. exact convert_is_end_to_end_proof. Qed.
Print Assumptions response_fields_minus_hop_by_hop.

(* as found (fields collected while handing on): "X-Hop: 1" before "Connection: X-Hop" got through, and so did a
   Content-Length standing before the Transfer-Encoding of a response whose framing is removed *)
Example ex_as_found_order_mattered :
  let x_hop := [120; 45; 104; 111; 112]%N in
  convert false false [(x_hop, [49]%N); (n_connection, x_hop)] = [(x_hop, [49]%N)]
  /\ convert true false [(x_hop, [49]%N); (n_connection, x_hop)] = []
  /\ convert false true [(n_cl, [53]%N); (n_te, [99; 104; 117; 110; 107; 101; 100]%N)] = [(n_cl, [53]%N)]
  /\ convert true true [(n_cl, [53]%N); (n_te, [99; 104; 117; 110; 107; 101; 100]%N)] = [].
Proof. vm_compute. repeat split. Qed.

Theorem code_facts :
  FWD_CHUNK_DATA_COUNTS_ACCEPTED_AND_KEEPS_STATE = true /\ FWD_NON_ENCODED_COUNTS_ACCEPTED = true
  /\ FWD_CHUNK_PREFIX_AS_MODELLED = true /\ FWD_CHUNK_SUFFIX_AS_MODELLED = true
  /\ FWD_INTERIM_TAIL_IS_PARSER_LEFTOVER = true /\ FWD_BODY_MODE_SELECTION_AS_MODELLED = true
  /\ H3_REQUEST_END_KEEPS_RESPONSE_DIRECTION = true /\ H3_SINK_WRITE_AS_MODELLED = true
  /\ FWD_HOP_BY_HOP_WHEREVER_THEY_STAND = true /\ FWD_SERIALIZE_REQUEST_AS_MODELLED = true
  /\ FWD_CHUNKED_IS_FINAL_CODING_ANY_CASE = true.
Proof. repeat split; exact eq_refl. Qed.
Print Assumptions code_facts.

(* Non-vacuity: "5 CRLF hello CRLF 6;x CRLF _world CRLF 0 CRLF CRLF" cut inside the data, the client taking 2 bytes at a time *)
Definition ex_body : list N :=
  [53; 13; 10; 104; 101; 108; 108; 111; 13; 10; 54; 59; 120; 13; 10; 32; 119; 111; 114; 108; 100; 13; 10; 48; 13; 10; 13; 10]%N.
Example ex_dechunk :
  drive psize_c (BPrefix []) [firstn 5 ex_body; firstn 12 (skipn 5 ex_body); skipn 17 ex_body] [2; 0; 2; 1; 1] []
  = (BDone, [104; 101; 108; 108; 111; 32; 119; 111; 114; 108; 100]%N).
Proof. vm_compute. reflexivity. Qed.

(* the limit at work: "5;eeee CR LF" is a line of 8 bytes: accepted under a limit of 8, refused under a limit of 7 whether it arrives whole
   or in two pieces; and the same body under the stated limit *)
Definition ex_long_line : list N := [53; 59; 101; 101; 101; 101; 13; 10; 104; 101; 108; 108; 111; 13; 10; 48; 13; 10; 13; 10]%N.
Example ex_line_limit :
  drive (bounded 8 psize_c) (BPrefix []) [ex_long_line] [] [] = (BDone, [104; 101; 108; 108; 111]%N)
  /\ fst (drive (bounded 7 psize_c) (BPrefix []) [ex_long_line] [] []) = BErr
  /\ fst (drive (bounded 7 psize_c) (BPrefix []) [firstn 7 ex_long_line; skipn 7 ex_long_line] [] []) = BErr
  /\ drive (bounded (N.to_nat FWD_MAX_CHUNK_SIZE_LINE) psize_c) (BPrefix []) [firstn 3 ex_long_line; skipn 3 ex_long_line] [] [] = (BDone, [104; 101; 108; 108; 111]%N).
Proof. vm_compute. repeat split. Qed.
