(* C09 — No untrusted input can panic, wedge or unboundedly grow the endpoint.
   The parsers whose code can fail abruptly (slice indexing, Buf::advance / get_*, copy_to_slice,
   asserts) are modelled with an explicit Panic outcome and with fuel; this file collects, for each
   of them, the theorem that on EVERY input the outcome is neither Panic nor fuel exhaustion, and,
   for the incremental readers, that the loop consumes input on every iteration and its buffer
   stays within the stated bound. *)
From Coq Require Import List NArith Bool Arith Lia ZifyBool ZifyNat ZifyN.
From TT Require Import Lib.Res Lib.BytesL Generated.Consts.
From TT Require Import Model.UdpCodec Proofs.UdpCodecProofs.
From TT Require Import Model.Icmp Proofs.IcmpProofs.
From TT Require Import Model.Socks5 Proofs.Socks5Proofs.
From TT Require Model.Http1 Proofs.Http1Proofs.
From TT Require Model.ClientRandom Proofs.ClientRandomProofs.
From TT Require Model.Forwarded Proofs.ForwardedProofs Generated.ForwardedFacts.
Import ListNotations.
Local Open Scope nat_scope.

(* UDP multiplexer stream (http_udp_codec.rs Decoder): every chunk sequence is decoded without
   panic and with the fuel the chunk lengths provide *)
Theorem udp_stream_decoder_total : forall chunks, exists r, run dec_init chunks = Ok r.
Proof. exact decoder_total_proof. Qed.
Print Assumptions udp_stream_decoder_total.

(* ICMP multiplexer stream (http_icmp_codec.rs Decoder) *)
Theorem icmp_stream_decoder_total : forall chunks, exists r outs, icmp_run [] chunks = Ok (r, outs).
Proof.
  intros chunks. destruct (icmp_segmentation_invariant_proof chunks) as (r & outs & H & _). eauto.
Qed.
Print Assumptions icmp_stream_decoder_total.

(* raw ICMP / ICMPv6 packets from the network: IP header skipping (incl. IPv6 extension chains),
   message deserialisation, matching against the quoted request *)
Theorem icmp_packet_parsers_total :
  forall p, safe (v4_deserialize p) /\ safe (v6_deserialize p)
            /\ safe (skip_ipv4_header p) /\ safe (skip_ipv6_header p)
            /\ (forall m, safe (responded_echo_request m)).
Proof.
  intros p. split; [apply v4_deserialize_safe|]. split; [apply v6_deserialize_safe|].
  split; [apply skip_ipv4_header_safe|]. split; [apply skip_ipv6_header_safe; reflexivity|].
  intros m. apply responded_echo_request_safe. reflexivity.
Qed.
Print Assumptions icmp_packet_parsers_total.

(* SOCKS5: a datagram relayed by the proxy (UdpAssociation::recv_from) *)
Theorem socks5_relayed_datagram_total : forall pkt, udp_unwrap pkt <> Panic /\ udp_unwrap pkt <> Fuel.
Proof. exact udp_unwrap_total. Qed.
Print Assumptions socks5_relayed_datagram_total.

(* HTTP/1.1 request head: the listen loop never spins, and a head still undecided at the size
   limit is refused, for any stable head parser *)
Theorem http1_listen_never_spins_and_is_bounded :
  forall parse,
    (forall b i t, parse b = Http1.PComplete i -> parse (b ++ t) = Http1.PComplete i) ->
    (forall b t, parse b = Http1.PError -> parse (b ++ t) = Http1.PError) ->
    (forall b i, parse b = Http1.PComplete i -> i <= length b) ->
    forall a, Http1Proofs.wf a ->
      Http1.listen parse true a <> Http1.OFuel
      /\ ((forall k, 1 <= k <= Http1.CAP -> parse (firstn k (concat a)) = Http1.PPartial) ->
          Http1.CAP <= length (concat a) -> Http1.listen parse true a = Http1.OFailed).
Proof.
  intros parse S1 S2 S3 a W. split; [exact (Http1Proofs.never_spins parse S1 S2 S3 a W)|].
  intros P L.
  first [apply (Http1Proofs.Spec_functional parse S1 S2 S3 (concat a)) | apply (Http1Proofs.Spec_functional parse S1 S2 (concat a))];
    [apply (Http1Proofs.listen_meets_spec parse S1 S2 S3); exact W|apply Http1Proofs.STooLong; assumption].
Qed.
Print Assumptions http1_listen_never_spins_and_is_bounded.

(* first bytes of a TLS connection: the peek loop ends by itself (fuel beyond the input is never
   used), never holds more than the limit, and loses nothing *)
Theorem tls_peek_terminates_and_is_bounded :
  forall extract maxp chunk pf arrivals,
    (0 < chunk)%N -> ClientRandomProofs.wfN arrivals ->
    (forall fuel, (ClientRandomProofs.measure arrivals < N.of_nat fuel)%N ->
       ClientRandom.peek extract maxp chunk pf fuel [] arrivals
       = ClientRandom.peek extract maxp chunk pf (S (length (concat arrivals) + length arrivals)) [] arrivals)
    /\ let '(cr, pre, rest) := ClientRandom.peek extract maxp chunk pf (S (length (concat arrivals) + length arrivals)) [] arrivals in
       (lenN pre <= maxp)%N /\ pre ++ concat rest = concat arrivals.
Proof.
  intros extract maxp chunk pf arrivals C W. split.
  - intros fuel F. apply ClientRandomProofs.peek_fuel_irrelevant; auto.
    unfold ClientRandomProofs.measure, lenN. lia.
  - pose proof (ClientRandomProofs.peek_transparent extract maxp chunk C pf (S (length (concat arrivals) + length arrivals)) [] arrivals W) as H.
    destruct (ClientRandom.peek extract maxp chunk pf (S (length (concat arrivals) + length arrivals)) [] arrivals) as [[cr pre] rest].
    destruct H as (H1 & _ & H3). split; [apply H3; rewrite lenN_nil; lia|exact H1].
Qed.
Print Assumptions tls_peek_terminates_and_is_bounded.

(* origin response body (http_forwarded_stream.rs): one write never loops and never grows what it
   was given: it hands back at most the bytes offered, and only a sink that accepts nothing can
   hand back all of them *)
Theorem forwarded_body_write_is_bounded :
  forall psize,
    psize [] = Forwarded.CPartial ->
    (forall b p z t, psize b = Forwarded.CComplete p z -> psize (b ++ t) = Forwarded.CComplete p z) ->
    (forall b t, psize b = Forwarded.CError -> psize (b ++ t) = Forwarded.CError) ->
    (forall b p z, psize b = Forwarded.CComplete p z ->
       1 <= p <= length b /\ psize (firstn p b) = Forwarded.CComplete p z /\ forall k, k < p -> psize (firstn k b) = Forwarded.CPartial) ->
    forall st data k st' o unsent used,
      ForwardedProofs.good psize st -> data <> [] -> Forwarded.bwrite psize st data k = Forwarded.WOk st' o unsent used ->
      length unsent <= length data /\ (length unsent = length data -> exists a, k = Some a /\ a = 0).
Proof.
  intros psize E S1 S2 S3 st data k st' o unsent used G NE W.
  first [destruct (ForwardedProofs.write_sim psize E S1 S2 S3 st data k st' o unsent used G NE W) as (_ & _ & _ & L1 & L2)
        |destruct (ForwardedProofs.write_sim psize S1 S2 S3 st data k st' o unsent used G NE W) as (_ & _ & _ & L1 & L2)].
  split; [exact L1|]. intros H. destruct (L2 H) as [_ X]. exact X.
Qed.
Print Assumptions forwarded_body_write_is_bounded.

(* origin response, chunk-size line: whatever the pieces the origin's bytes arrive in and whatever the client accepts, what the sink
   holds of an undecided chunk-size line stays below the limit the code states (the code's line parser is the library's under that
   limit: Forwarded.bounded, FWD_CHUNK_PREFIX_AS_MODELLED) *)
Theorem forwarded_chunk_size_line_is_bounded :
  forall psize limit,
    0 < limit ->
    psize [] = Forwarded.CPartial ->
    (forall b p z t, psize b = Forwarded.CComplete p z -> psize (b ++ t) = Forwarded.CComplete p z) ->
    (forall b t, psize b = Forwarded.CError -> psize (b ++ t) = Forwarded.CError) ->
    (forall b p z, psize b = Forwarded.CComplete p z ->
       1 <= p <= length b /\ psize (firstn p b) = Forwarded.CComplete p z /\ forall k, k < p -> psize (firstn k b) = Forwarded.CPartial) ->
    forall segs st accs,
      ForwardedProofs.good (Forwarded.bounded limit psize) st ->
      match fst (Forwarded.drive (Forwarded.bounded limit psize) st segs accs []) with
      | Forwarded.BPrefix buf => length buf < limit
      | _ => True
      end.
Proof.
  intros psize limit L E S1 S2 S3 segs st accs G.
  apply (ForwardedProofs.chunk_size_line_buffer_below_limit psize limit); assumption.
Qed.
Print Assumptions forwarded_chunk_size_line_is_bounded.

(* the guards the code relies on are still in the source; the origin's response head is kept only while undecided and shorter than
   the stated bound (the head parser is the library's; the fact pins the two guards and the single place the buffer is written),
   and both stated bounds are positive and at most 64 KiB *)
Theorem code_facts :
  V6_EXT_LENGTH_CHECKED = true /\ FIXED_IP_EXCLUDES_V6_LOOPBACK = true /\ SOCKS_USERPASS_LENGTH_CHECKED = 1%N
  /\ ForwardedFacts.FWD_RESPONSE_HEAD_BOUNDED = true /\ ForwardedFacts.FWD_CHUNK_PREFIX_AS_MODELLED = true
  /\ (0 < ForwardedFacts.FWD_MAX_RESPONSE_HEAD_SIZE <= 65536)%N /\ (0 < ForwardedFacts.FWD_MAX_CHUNK_SIZE_LINE <= 65536)%N.
Proof. repeat split; try exact eq_refl; intros H; discriminate H. Qed.
Print Assumptions code_facts.
