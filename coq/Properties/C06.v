(* C06 — UDP multiplexer wire codec is exact, segmentation-invariant and resynchronising.
   Statements only; proofs live in Proofs/UdpCodecProofs.v. *)
From Coq Require Import List NArith.
From TT Require Import Lib.Res Lib.BytesL Model.UdpCodec Spec.UdpWire Proofs.UdpCodecProofs Proofs.UdpAddrProofs Generated.UdpCodecFacts.
Import ListNotations.
Open Scope N_scope.

(* Full statement. For every sequence of records (accepted or not: classify decides), every
   incomplete trailing record t and EVERY segmentation of their concatenation into chunks, the
   decoder (the model of decode_chunk + the re-queue loop, started in its initial state) neither
   panics nor runs out of fuel and delivers exactly the datagrams PROTOCOL.md 6.3 assigns to the
   accepted records, in order; rejected records are skipped whole (resynchronisation). *)
Theorem decode_segmentation_invariant :
  forall (bodies : list (list N)) (t : list N) (chunks : list (list N)),
    Forall body_ok bodies -> incomplete t ->
    concat chunks = concat (map frame bodies) ++ t ->
    exists d' outs, run dec_init chunks = Ok (d', outs) /\ concat outs = classify_all bodies.
Proof. exact decode_segmentation_invariant_proof. Qed.
Print Assumptions decode_segmentation_invariant.

(* ... and every byte string is such a concatenation, so the theorem above covers all streams *)
Theorem stream_decomposes :
  forall s, bytes_ok s = true ->
    exists bodies t, s = concat (map frame bodies) ++ t /\ Forall body_ok bodies /\ incomplete t.
Proof. exact stream_decomposes_proof. Qed.
Print Assumptions stream_decomposes.

(* Any two segmentations of the same bytes give the same datagrams and the same decoder state *)
Theorem two_segmentations_agree :
  forall c1 c2, concat c1 = concat c2 ->
    exists d o1 o2, run dec_init c1 = Ok (d, o1) /\ run dec_init c2 = Ok (d, o2)
                    /\ concat o1 = concat o2.
Proof. exact two_segmentations_agree_proof. Qed.
Print Assumptions two_segmentations_agree.

(* No assert!/unwrap/underflow of the decoder is reachable, and the loop terminates within the
   model's fuel, for every input whatsoever *)
Theorem decoder_total : forall chunks, exists r, run dec_init chunks = Ok r.
Proof. exact decoder_total_proof. Qed.
Print Assumptions decoder_total.

(* the executable oracle used by the correspondence run is the relational specification *)
Theorem spec_oracle_is_spec :
  forall bodies t, Forall body_ok bodies -> incomplete t ->
    spec_decode_stream (concat (map frame bodies) ++ t) = classify_all bodies.
Proof. exact spec_decode_stream_frames. Qed.
Print Assumptions spec_oracle_is_spec.

(* 6.4: datagrams to the client (depends on the regenerated constants: 36-byte header, 12-byte
   IPv4 padding) *)
Theorem encode_layout :
  forall s t payload, encode_packet s t payload = spec_encode s t payload.
Proof. exact encode_packet_spec. Qed.
Print Assumptions encode_layout.

(* The 16-byte address field (both directions use it: the encoder writes it with put_fixed_size_ip,
   the decoder reads it with get_fixed_size_ip). What is written is read back for every IPv4 address
   except 0.0.0.1 and every IPv6 address that is ::1 or has a non-zero bit in its upper 96 bits; the
   field cannot tell the remaining ones apart (PROTOCOL.md: IPv4 = twelve zero bytes + the address), and
   the theorem says exactly how each is read: ::a.b.c.d as a.b.c.d, and 0.0.0.1 as ::1 *)
Theorem address_field_round_trip :
  (forall v, v < 2 ^ 32 -> v <> 1 ->
     get_fixed_size_ip (put_fixed_size_ip {| fam := 4; ipv := v |}) = {| fam := 4; ipv := v |})
  /\ (forall v, 2 ^ 32 <= v -> v < 2 ^ 128 ->
     get_fixed_size_ip (put_fixed_size_ip {| fam := 6; ipv := v |}) = {| fam := 6; ipv := v |})
  /\ get_fixed_size_ip (put_fixed_size_ip {| fam := 6; ipv := 1 |}) = {| fam := 6; ipv := 1 |}
  /\ (forall v, v < 2 ^ 32 -> v <> 1 ->
     get_fixed_size_ip (put_fixed_size_ip {| fam := 6; ipv := v |}) = {| fam := 4; ipv := v |})
  /\ get_fixed_size_ip (put_fixed_size_ip {| fam := 4; ipv := 1 |}) = {| fam := 6; ipv := 1 |}.
Proof.
  split; [intros v H N1; rewrite get_put_v4 by exact H; apply N.eqb_neq in N1; rewrite N1; reflexivity|].
  split; [exact get_put_v6_large|]. split; [vm_compute; reflexivity|].
  split; [intros v H N1; rewrite get_put_v6_small by exact H; apply N.eqb_neq in N1; rewrite N1; reflexivity|].
  vm_compute. reflexivity.
Qed.
Print Assumptions address_field_round_trip.

(* Non-vacuity: a rejected record (L = 0), a record with empty name and payload, an accepted
   record from ::1, cut in the middle of a header. *)
Definition ex_v4 : list N := [0;0;0;0;0;0;0;0;0;0;0;0;1;2;3;4].
Definition ex_lo : list N := [0;0;0;0;0;0;0;0;0;0;0;0;0;0;0;1].
Definition ex_body1 : list N := ex_v4 ++ [3;232] ++ ex_v4 ++ [0;53] ++ [0].
Definition ex_body2 : list N := ex_lo ++ [3;232] ++ ex_v4 ++ [0;53] ++ [1;97] ++ [104;105].
Example ex_stream_classified :
  classify_all [[]; ex_body1; ex_body2] =
  [ {| d_src := {| sip := {| fam := 4; ipv := 16909060 |}; sport := 1000 |};
       d_dst := {| sip := {| fam := 4; ipv := 16909060 |}; sport := 53 |};
       d_app := Some []; d_payload := [] |};
    {| d_src := {| sip := {| fam := 6; ipv := 1 |}; sport := 1000 |};
       d_dst := {| sip := {| fam := 4; ipv := 16909060 |}; sport := 53 |};
       d_app := Some [97]; d_payload := [104; 105] |} ].
Proof. vm_compute. reflexivity. Qed.
Example ex_run_cut :
  let s := concat (map frame [[]; ex_body1; ex_body2]) in
  match run dec_init [takeN 20 s; dropN 20 s] with
  | Ok (_, outs) => concat outs = classify_all [[]; ex_body1; ex_body2]
  | _ => False
  end.
Proof. vm_compute. reflexivity. Qed.

(* the decoder still enters each Dropping state with the modelled number of bytes to skip, and
   applies the modelled size limit *)
Theorem decoder_code_facts :
  UDP_DECODER_DROP_LENGTHS_AS_MODELLED = true /\ UDP_DECODER_SIZE_LIMIT_AS_MODELLED = true.
Proof. split; exact eq_refl. Qed.
Print Assumptions decoder_code_facts.
