(* C15 — SOCKS5 upstream dialogue is well-formed and faithful. *)
From Coq Require Import List NArith Bool.
From TT Require Import Lib.Res Lib.BytesL Lib.Utf8 Lib.Base64 Generated.Consts Generated.SocksFacts Model.Socks5 Spec.Rfc1928
  Proofs.Socks5Proofs.
Import ListNotations.
Open Scope N_scope.

(* Full: for every credential pair / extended value list (any lengths), every destination and
   EVERY byte string the server may send (hence every reply, truncation and segmentation), each
   message the client writes parses under the independent RFC 1928/1929/extended-auth grammar to
   exactly the intended fields. *)
Theorem emitted_wellformed :
  forall a d port server,
    auth_ok a -> dest_ok d -> port < 65536 ->
    Forall (em_wellformed a d port) (fst (connect a d port server)).
Proof. exact emitted_wellformed_proof. Qed.
Print Assumptions emitted_wellformed.

(* ... or the request fails without writing that message *)
Theorem too_long_fields_fail_unwritten :
  (forall u p, 255 < lenN u \/ 255 < lenN p -> auth_message (AUserPass u p) = None)
  /\ (forall cmd name port, 255 < lenN name -> request_message cmd (DDomain name) port = None).
Proof. split; [exact userpass_too_long|exact request_too_long]. Qed.
Print Assumptions too_long_fields_fail_unwritten.

(* RFC 1929 "UNAME ... 1 to 255", "PASSWD ... 1 to 255" and lib/README.md "length = (0..MAX]" for DOMAIN, USER_AGENT and
   PROXY_AUTH: with an empty user name, password or string value the request fails and no authentication message is written *)
Theorem empty_fields_fail_unwritten :
  (forall u p, lenN u = 0 \/ lenN p = 0 -> auth_message (AUserPass u p) = None)
  /\ (forall vals t v, In (t, v) vals -> (t = 1 \/ t = 3 \/ t = 4) -> lenN v = 0 -> auth_message (AExt vals) = None).
Proof.
  split; [exact userpass_empty|].
  intros vals t v Hin Ht Hv. unfold auth_message.
  rewrite (ext_values_empty_string vals t v Hin); [reflexivity| |exact Hv].
  destruct Ht as [Ht|[Ht|Ht]]; subst t; reflexivity.
Qed.
Print Assumptions empty_fields_fail_unwritten.

(* the grammar the emitted messages are read under does ask for those lengths (it does not leave them to the server) *)
Theorem wellformed_credentials_are_not_empty :
  forall m u p, spec_userpass m = Some (u, p) -> 1 <= lenN u <= 255 /\ 1 <= lenN p <= 255.
Proof. exact spec_userpass_lengths. Qed.
Print Assumptions wellformed_credentials_are_not_empty.

Example ex_zero_length_fields_are_malformed :
  spec_userpass [1; 0; 2; 112; 49] = None /\ spec_userpass [1; 2; 117; 49; 0] = None
  /\ spec_ext [1; 1; 0; 1; 120; 3; 0; 0; 0; 0; 0] = None /\ spec_ext [1; 1; 0; 1; 120; 5; 0; 0; 0; 0; 0] = Some [(1, [120]); (5, [])].
Proof. vm_compute. repeat split; reflexivity. Qed.

(* socks5_forwarder::make_extended_auth: the values that go with a request make a well-formed message whatever its User-Agent
   field was; a field with an empty value is not handed on (the request does not fail for it) *)
Theorem extended_values_of_a_request :
  forall domain addr agent src,
    bytes_ok domain = true -> bytes_ok addr = true -> (lenN addr = 4 \/ lenN addr = 16) ->
    match agent with Some ua => bytes_ok ua = true | None => True end ->
    match src with SrcBasic t => bytes_ok t = true | SrcSni => True end ->
    (forall msg, auth_message (AExt (make_extended_auth domain addr agent src)) = Some msg ->
                 spec_ext msg = Some (make_extended_auth domain addr agent src))
    /\ make_extended_auth domain addr (Some []) src = make_extended_auth domain addr None src.
Proof.
  intros domain addr agent src Hd Ha Hl Hu Hs. split.
  - intros msg. apply ext_auth_of_a_request_wf; assumption.
  - reflexivity.
Qed.
Print Assumptions extended_values_of_a_request.

Example ex_empty_user_agent :
  auth_message (AExt (make_extended_auth [104] [127; 0; 0; 1] (Some []) (SrcBasic [100; 84; 69; 54])))
  = Some [1; 1; 0; 1; 104; 2; 0; 4; 127; 0; 0; 1; 4; 0; 4; 100; 84; 69; 54; 0; 0; 0].
Proof. vm_compute. reflexivity. Qed.

(* offered methods reflect the available credentials *)
Theorem methods_reflect_credentials :
  forall a, spec_selection (selection_message a) = Some [method_of a; 0].
Proof. exact selection_wf. Qed.
Print Assumptions methods_reflect_credentials.

(* the tunnel is established only if the server selected an offered method, accepted the
   credentials when it asked for them, and replied success *)
Theorem proceeds_only_if_offered_and_success :
  forall a d port server em,
    connect a d port server = (em, OTcp) ->
    exists m rest, server = 5 :: m :: rest
                   /\ (m = 0 \/ (m = method_of a /\ exists r2, rest = 1 :: 0 :: r2)).
Proof. exact proceeds_only_if_offered_and_success_proof. Qed.
Print Assumptions proceeds_only_if_offered_and_success.

Theorem success_reply_required :
  forall s, read_reply s = OTcp -> exists rest, s = 5 :: 0 :: 0 :: rest.
Proof. exact read_reply_tcp. Qed.
Print Assumptions success_reply_required.

(* the tunnelled stream starts exactly after the server's reply: nothing of the reply leaks into it and
   nothing of it is eaten, whatever the bound address type and lengths *)
Theorem tunnel_stream_follows_the_reply :
  forall a d port server em,
    connect a d port server = (em, OTcp) ->
    exists pre reply,
      server = pre ++ reply ++ connect_rest a d port server
      /\ (pre = [5; 0] \/ pre = [5; method_of a; 1; 0])
      /\ reply_len (reply ++ connect_rest a d port server) = Some (lenN reply)
      /\ exists r, reply = 5 :: 0 :: 0 :: r.
Proof. exact connect_rest_frames. Qed.
Print Assumptions tunnel_stream_follows_the_reply.

Theorem no_stream_without_success :
  forall a d port server, snd (connect a d port server) <> OTcp -> connect_rest a d port server = [].
Proof. exact connect_rest_only_on_success. Qed.
Print Assumptions no_stream_without_success.

Example ex_domain_reply_then_data :
  connect_rest ANone (DIp [1;2;3;4]) 80 ([5;0] ++ [5;0;0;3;2;104;105;0;80] ++ [161;162]) = [161;162].
Proof. vm_compute. reflexivity. Qed.

(* end to end (socks5_forwarder.rs): the client of the endpoint is told 200 only when the dialogue succeeded, i.e.
   only after an offered method, accepted credentials and a success reply; every failure is a 407 or a 502 *)
Theorem ok_answer_only_after_a_successful_dialogue :
  forall a d port server em o,
    connect a d port server = (em, o) ->
    (fst (socks_result o) = 200 ->
       exists m rest, server = 5 :: m :: rest
                      /\ (m = 0 \/ (m = method_of a /\ exists r2, rest = 1 :: 0 :: r2)))
    /\ (fst (socks_result o) = 200 \/ fst (socks_result o) = 407 \/ fst (socks_result o) = 502).
Proof.
  intros a d port server em o H. split.
  - intros S. assert (o = OTcp).
    { destruct o as [|c| | |]; cbn in S; try discriminate; try reflexivity.
      destruct ((c =? 3) || (c =? 4)); [discriminate|]. destruct (c =? 6); discriminate. }
    subst o. exact (proceeds_only_if_offered_and_success_proof a d port server em H).
  - destruct o as [|c| | |]; cbn; auto.
    destruct ((c =? 3) || (c =? 4)); [auto|]. destruct (c =? 6); auto.
Qed.
Print Assumptions ok_answer_only_after_a_successful_dialogue.

Theorem forwarder_code_facts :
  SOCKS_OUTCOME_MAPPING_AS_MODELLED = true /\ SOCKS_AUTH_CHOICE_AS_MODELLED = true
  /\ SOCKS_EMPTY_USER_AGENT_NOT_SENT = true /\ SOCKS_DESTINATION_KEEPS_ITS_TYPE = true.
Proof. repeat split; exact eq_refl. Qed.
Print Assumptions forwarder_code_facts.

(* RFC 1928 section 7 *)
Theorem udp_wrap_unwrap :
  forall ip port data, (lenN ip = 4 \/ lenN ip = 16) -> port < 65536 ->
    udp_unwrap (udp_wrap ip port data) = Ok (ip, port, data)
    /\ spec_udp (udp_wrap ip port data) = Some (ip, port, data).
Proof. exact udp_roundtrip. Qed.
Print Assumptions udp_wrap_unwrap.

Theorem udp_unwrap_never_panics :
  forall pkt, udp_unwrap pkt <> Panic /\ udp_unwrap pkt <> Fuel.
Proof. exact udp_unwrap_total. Qed.
Print Assumptions udp_unwrap_never_panics.

(* user name / password = the two halves of the Basic credentials split at the first colon *)
Theorem creds_split_first_colon :
  forall u p,
    bytes_ok (u ++ 58 :: p) = true -> utf8_valid (u ++ 58 :: p) = true -> ~ In 58 u ->
    make_auth_basic (b64_encode (u ++ 58 :: p)) = Some (u, p).
Proof. exact creds_split_first_colon_proof. Qed.
Print Assumptions creds_split_first_colon.

Example ex_dialogue :
  connect (AUserPass [117] [112; 58; 113]) (DDomain [97; 46; 98]) 443
          [5; 2; 1; 0; 5; 0; 0; 1; 1; 2; 3; 4; 0; 80]
  = ([EmSel [5; 2; 2; 0]; EmAuth [1; 1; 117; 3; 112; 58; 113];
      EmReq [5; 1; 0; 3; 3; 97; 46; 98; 1; 187]], OTcp).
Proof. vm_compute. reflexivity. Qed.
(* an empty user name: the server asks for the credentials, nothing is written after the method selection *)
Example ex_empty_user_name :
  connect (AUserPass [] [112; 49]) (DDomain [97; 46; 98]) 443 [5; 2; 1; 0; 5; 0; 0; 1; 1; 2; 3; 4; 0; 80]
  = ([EmSel [5; 2; 2; 0]], OProtocol).
Proof. vm_compute. reflexivity. Qed.
(* an IPv6 destination goes out with address type 4 and the request's port *)
Example ex_ipv6_destination_port_80 :
  fst (connect ANone (DIp [32; 1; 13; 184; 0; 0; 0; 0; 0; 0; 0; 0; 0; 0; 0; 7]) 80 [5; 0])
  = [EmSel [5; 2; 0; 0]; EmReq [5; 1; 0; 4; 32; 1; 13; 184; 0; 0; 0; 0; 0; 0; 0; 0; 0; 0; 0; 7; 0; 80]].
Proof. vm_compute. reflexivity. Qed.
Example ex_failure :
  snd (connect ANone (DIp [1;2;3;4]) 80 [5; 0; 5; 4; 0; 1; 0; 0; 0; 0; 0; 0]) = OFailure 4.
Proof. vm_compute. reflexivity. Qed.
