(* C18 — Ping, speedtest and reverse-proxy channels do exactly what is documented.
   Proved on the model of HttpDemux::select and the speedtest handler (Model/Channels.v). *)
From Coq Require Import List NArith Bool.
From TT Require Import Lib.BytesL Model.Channels Generated.ChannelFacts Proofs.ChannelsProofs.
From TT Require Import Generated.Http1Facts Model.Http1Wire Spec.Rfc9112 Proofs.Http1WireProofs.
From TT Require Import Model.Http1Download Proofs.Http1DownloadProofs.
From TT Require Import Model.RpHeadWait Proofs.RpHeadWaitProofs.
(* not imported: its events and runs bear the same names as those of the wait for the head *)
From TT Require Model.RpRelay Proofs.RpRelayProofs.
Import ListNotations.
Open Scope N_scope.

(* routing inside a tunnel session: ping markers win, then an enabled speedtest path /speed/...,
   then (HTTP/1.1 with Upgrade, or HTTP/3) a path under the reverse-proxy mask, else the tunnel *)
Theorem request_routing :
  forall p s q,
    (select p s q = ChPing <-> q_ping_marker q = true)
    /\ (select p s q = ChSpeedtest <->
        q_ping_marker q = false /\ s_speedtest s = true /\ exists r, q_path q = SLASH ++ SPEED ++ SLASH ++ r)
    /\ (select p s q = ChReverseProxy ->
        (p = PH3 \/ (p = PH1 /\ q_upgrade q = true)) /\ exists m r, s_rp_mask s = Some m /\ q_path q = m ++ r).
Proof.
  intros p s q. destruct (select_spec p s q) as (A & B & C & D). split; [exact A|]. split.
  - rewrite B, check_speedtest_iff. tauto.
  - intros H. apply C in H. destruct H as (_ & _ & H). apply check_rp_iff in H. exact H.
Qed.
Print Assumptions request_routing.

(* GET /Nmb.bin for every N in 1..100 is a download of exactly N x 2^20 bytes, and the download
   delivers exactly that many bytes whatever the client-side sink accepts per write *)
Theorem download_n_mib :
  forall n accs, 1 <= n <= 100 ->
    speedtest_answer (download_req (dec n)) accs = (200, n * MIB).
Proof.
  intros n accs H. unfold speedtest_answer. rewrite (download_1_100 n H).
  rewrite download_exact_std. reflexivity.
Qed.
Print Assumptions download_n_mib.

Theorem download_is_exact_under_backpressure :
  forall n accs, download (length accs + N.to_nat (n / CHUNK) + 2) n accs 0 = (n, true).
Proof. exact download_exact_std. Qed.
Print Assumptions download_is_exact_under_backpressure.

(* nothing else is a download or an upload: the bounds *)
Theorem speedtest_bounds :
  forall q,
    (forall b, prepare q = Download b -> q_method q = 0 /\ exists n, 1 <= n <= 100 /\ b = n * MIB)
    /\ (forall b, prepare q = Upload b -> q_method q = 1 /\ 1 <= b <= 120 * MIB
                                         /\ exists v, q_content_length q = Some v /\ parse_u32 v = Some b)
    /\ (prepare q = Bad -> speedtest_answer q [] = (400, 0)).
Proof.
  intros q. split; [apply prepare_download|]. split; [apply prepare_upload|].
  intros H. unfold speedtest_answer. rewrite H. reflexivity.
Qed.
Print Assumptions speedtest_bounds.

(* the tie: shapes of the handlers; the reverse proxy's destination is the configured origin and
   is reached without the client egress policy; no handler consults credentials *)
(* the request the reverse proxy writes to the configured origin (encode_request on the client's request with
   x-original-protocol added): for every method and target without blank or line break and every field list as the http crate
   holds them, the bytes are read back under the RFC 9112 grammar (Spec/Rfc9112.v) as exactly that method, target, version and
   field list, and the reading ends where the body starts; when the request names an authority (HTTP/3) it is written first, as
   the Host field *)
Theorem reverse_proxy_request_head_is_well_formed :
  (forall method target minor hs rest,
     (minor < 10)%N -> no_byte 32 method = true -> no_cr method = true -> no_byte 32 target = true -> no_cr target = true ->
     forallb hdr_ok hs = true ->
     read_request (S (length hs)) (enc_request method target minor None hs ++ rest) =
     Some ({| rq_method := method; rq_target := target; rq_minor := minor;
              rq_headers := map (fun h => (fst h, trim_ows (snd h))) hs |}, rest))
  /\ (forall method target minor host hs,
        enc_request method target minor (Some host) hs = enc_request method target minor None (([72; 111; 115; 116]%N, host) :: hs))
  /\ HTTP1_HEAD_WRITERS_AS_MODELLED = true /\ RP_DESTINATION_IS_CONFIGURED_ORIGIN = true.
Proof.
  split; [exact request_round_trip_proof|]. split; [exact request_with_host_proof|]. split; exact eq_refl.
Qed.
Print Assumptions reverse_proxy_request_head_is_well_formed.

(* HTTP/1.1 response side (Model/Http1Download.v): whichever way offers to the one-place channel, partial writes to the transport
   and dropped listen futures (a handler giving up its wait, a timer firing beside it) are interleaved, the client has at every
   moment been sent a prefix of what the sink accepted, and once the session is closed in an orderly way, all of it. Holds because
   the message being written is kept in the codec (as found it lived in the future and a slow reader lost the tail of a download) and because
   the codec's own close has no limit on how long the client may take (a limit that had been put there cut off a client that paused) *)
Theorem http1_download_survives_dropped_futures :
  (forall ops, exists rest, accepted (drun true ops) = wire (drun true ops) ++ rest)
  /\ (forall ops, wire (drun true (ops ++ [DClose])) = accepted (drun true (ops ++ [DClose])))
  /\ HTTP1_MESSAGE_IN_FLIGHT_KEPT = true /\ HTTP1_OWN_CLOSE_WAITS_FOR_THE_CLIENT = true.
Proof. split; [exact sent_is_a_prefix|]. split; [exact closed_session_delivered_everything|split; exact eq_refl]. Qed.
Print Assumptions http1_download_survives_dropped_futures.

(* non-vacuity: a four-byte message, one byte written, the future dropped, the session closed: kept -> all four arrive; as found -> one *)
Example ex_dropped_future :
  wire (drun true [DOffer [1;2;3;4]%N; DTake; DWrite 1; DDrop; DClose]) = [1;2;3;4]%N
  /\ wire (drun false [DOffer [1;2;3;4]%N; DTake; DWrite 1; DDrop; DClose]) = [1]%N.
Proof. vm_compute. split; reflexivity. Qed.

(* "the origin's response ... relayed": while the reverse proxy waits for the origin's response head it goes on writing the request
   body (Model/RpHeadWait.v). For every order in which reads from the origin and steps of the body write are handled and for any
   head parser, what the client is told is decided by the origin's side alone; in particular an origin that answers and closes
   without reading the upload has its answer relayed, wherever the failure of the write falls. As found the failure ended the wait
   with 502 whenever it was handled first *)
Theorem origins_answer_survives_a_failed_upload :
  (forall complete evs,
     verdict (run complete RP_HEAD_WAIT_KEEPS_THE_ORIGINS_ANSWER evs)
     = verdict (run complete RP_HEAD_WAIT_KEEPS_THE_ORIGINS_ANSWER (filter is_origin evs)))
  /\ (forall complete pre post bytes h t,
        forallb (fun e => negb (is_origin e)) pre = true -> complete bytes = Some (h, t) ->
        run complete RP_HEAD_WAIT_KEEPS_THE_ORIGINS_ANSWER (pre ++ EOrigin bytes :: post) = Head h t).
Proof. split; [exact origins_answer_decides_proof|exact refused_upload_is_relayed_proof]. Qed.
Print Assumptions origins_answer_survives_a_failed_upload.

(* "... and subsequent bytes are relayed unchanged": after the head the request body goes on to the origin while the origin's bytes
   are relayed (Model/RpRelay.v, a DuplexPipe). RECORDED FINDING (known_findings.json, C18 rp-refused-upload-large-answer-cut): a
   failed write of the body - the origin has answered and closed with the upload unread - ends the whole exchange, and what has not
   yet been passed on of the origin's answer (everything beyond one read, or queued behind a client that reads slowly) is cut. The
   witness: the origin answers in two reads and the write fails between them. A repair that simply discarded the body after the
   failed write was tried and taken out again (it turned an origin's crash into a clean end and never ended for an endless upload);
   telling a refusal from a crash needs the response's own framing *)
Theorem answer_after_a_failed_upload_is_cut_known_finding :
  exists evs,
    forallb (fun e => negb (RpRelay.is_end e)) evs = true
    /\ RpRelay.relayed_of (RpRelay.run RP_FAILED_UPLOAD_STOPS_THE_UPLOAD_ONLY evs) <> RpRelay.origin_bytes evs.
Proof.
  exists [RpRelay.EOrigin [1; 2]%N; RpRelay.EUpFailed; RpRelay.EOrigin [3; 4]%N]. split; [reflexivity|].
  vm_compute. discriminate.
Qed.
Print Assumptions answer_after_a_failed_upload_is_cut_known_finding.

(* what a repair has to achieve (proved of the model with the flag set, Proofs/RpRelayProofs.v: the steps of the upload have no say
   in what is relayed, and everything the origin sent before its side ended is relayed) *)
Theorem a_repair_relays_the_whole_answer :
  (forall evs, RpRelay.relayed_of (RpRelay.run true evs)
               = RpRelay.relayed_of (RpRelay.run true (filter (fun e => negb (RpRelay.is_upload e)) evs)))
  /\ (forall evs post, forallb (fun e => negb (RpRelay.is_end e)) evs = true ->
        RpRelay.relayed_of (RpRelay.run true evs) = RpRelay.origin_bytes evs
        /\ RpRelay.relayed_of (RpRelay.run true (evs ++ RpRelay.EOriginEof :: post)) = RpRelay.origin_bytes evs).
Proof. split; [exact RpRelayProofs.upload_events_do_not_matter_proof|exact RpRelayProofs.whole_answer_is_relayed_proof]. Qed.
Print Assumptions a_repair_relays_the_whole_answer.

Theorem code_facts :
  DEMUX_SELECT_AS_MODELLED = true /\ SPEEDTEST_AS_MODELLED = true /\ PING_ANSWERS_200_EOF = true
  /\ RP_DESTINATION_IS_CONFIGURED_ORIGIN = true /\ SERVICE_CHANNELS_DO_NOT_AUTHENTICATE = true
  (* the wait for the origin's response head reads the origin first and survives a failed write of the request body (the shape
     the scenario c18_rp_refusal was written from: an origin that answers 413 and closes with the body unread) *)
  /\ RP_HEAD_WAIT_KEEPS_THE_ORIGINS_ANSWER = true.
Proof. repeat split; exact eq_refl. Qed.
Print Assumptions code_facts.

Example ex_bounds :
  prepare (download_req [48]) = Bad /\ prepare (download_req [49; 48; 49]) = Bad
  /\ prepare (download_req [49; 48; 48]) = Download (100 * MIB)
  /\ prepare {| q_method := 1; q_path := UPLOAD; q_ping_marker := false; q_upgrade := false;
                q_content_length := Some [49; 50; 53; 56; 50; 57; 49; 50; 49] |} = Bad        (* 120 MiB + 1 *)
  /\ prepare {| q_method := 1; q_path := UPLOAD; q_ping_marker := false; q_upgrade := false;
                q_content_length := Some [49; 50; 53; 56; 50; 57; 49; 50; 48] |} = Upload (120 * MIB).
Proof. vm_compute. repeat split; reflexivity. Qed.
