(* C11 — ICMP echo tunnelling: faithful requests, valid checksums, matched replies.
   Statements only; proofs in Proofs/IcmpProofs.v and Proofs/IcmpWaitersProofs.v. *)
From Coq Require Import List NArith.
From TT Require Import Lib.Res Lib.BytesL Generated.Consts Generated.IcmpWaiterFacts
  Model.UdpCodec Model.Icmp Model.IcmpWaiters Spec.Rfc1071 Spec.IcmpWire
  Proofs.IcmpProofs Proofs.IcmpWaitersProofs.
Import ListNotations.
Open Scope N_scope.

(* Full: for EVERY payload (every byte string up to the 16-bit size the 7.3 record can ask for),
   identifier and sequence number, the serialised echo request has the requested fields and its
   RFC 1071 verification sum is 0xFFFF -- including the payloads whose 32-bit sum folds with a
   second carry. *)
Theorem echo_checksum_valid :
  forall ty id seq data,
    ty < 256 -> bytes_ok data = true -> lenN data <= 65535 ->
    exists c,
      c < 65536 /\
      echo_serialize ty id seq data
      = Ok ([ty; 0] ++ to_be 2 c ++ to_be 2 id ++ to_be 2 seq ++ data)
      /\ verifies ([ty; 0] ++ to_be 2 c ++ to_be 2 id ++ to_be 2 seq ++ data) = true.
Proof. exact echo_checksum_valid_proof. Qed.
Print Assumptions echo_checksum_valid.

(* 7.3: for every segmentation, the decoded requests are the 23-byte records of the
   concatenated stream (fields read as request_of does), the rest is kept for later *)
Theorem request_stream_segmentation_invariant :
  forall chunks,
    exists r outs,
      icmp_run [] chunks = Ok (r, outs)
      /\ concat outs = map to_rq (fst (records23 [] (concat chunks)))
      /\ r = snd (records23 [] (concat chunks)).
Proof. exact icmp_segmentation_invariant_proof. Qed.
Print Assumptions request_stream_segmentation_invariant.

(* 7.4 reply record *)
Theorem reply_layout :
  forall peer m id seq d,
    responded_echo_request m = Ok (Some (id, seq, d)) ->
    icmp_encode peer m = Ok (Some (reply_record id peer (m_type m) (m_code m) seq)).
Proof. exact reply_layout_proof. Qed.
Print Assumptions reply_layout.

Theorem echo_reply_matches :
  forall v6 id seq data code,
    responded_echo_request
      {| m_v6 := v6; m_type := (if v6 then V6_ECHO_REPLY else V4_ECHO_REPLY); m_code := code;
         m_body := BEcho id seq data |} = Ok (Some (id, seq, data)).
Proof. exact echo_reply_matches_proof. Qed.
Print Assumptions echo_reply_matches.

(* "an ICMP error quoting that request is reported ... with the responder's address, type and code": a Destination
   Unreachable message is read whatever its code is (RFC 792 names 0..5, RFC 1122 and 1812 add 6..15, among them 13,
   "communication administratively prohibited", a router's usual answer to a filtered ping; RFC 4443, 6550 and 8883 give
   ICMPv6 0..8): type and code are kept and the body is the quoted datagram. The parser this model was first written
   from knew the codes of RFC 792 / RFC 4443 only and dropped the others as malformed; the model had copied that. *)
Theorem unreachable_parsed_with_any_code :
  (forall code c1 c2 u1 u2 u3 u4 quoted,
      ICMP_V4_MIN_MATCHING_DATA_SIZE <= lenN quoted ->
      v4_deserialize (V4_DESTINATION_UNREACHABLE :: code :: c1 :: c2 :: u1 :: u2 :: u3 :: u4 :: quoted)
      = Ok {| m_v6 := false; m_type := V4_DESTINATION_UNREACHABLE; m_code := code; m_body := BData quoted |})
  /\ (forall code c1 c2 u1 u2 u3 u4 quoted,
      MIN_IPV6_HEADER_SIZE <= lenN quoted ->
      v6_deserialize (V6_DESTINATION_UNREACHABLE :: code :: c1 :: c2 :: u1 :: u2 :: u3 :: u4 :: quoted)
      = Ok {| m_v6 := true; m_type := V6_DESTINATION_UNREACHABLE; m_code := code; m_body := BData quoted |}).
Proof. split; [exact (v4_unreachable_any_code_proof eq_refl)|exact (v6_unreachable_any_code_proof eq_refl)]. Qed.
Print Assumptions unreachable_parsed_with_any_code.

(* ... and when it quotes an echo request the way routers do (IP header without options, then the first octets of the
   datagram), the client is told: the 7.4 record carries the request's identifier and sequence number, the responder's
   address, type 3 and the code as received *)
Theorem unreachable_quoting_a_request_is_reported :
  forall code c1 c2 u1 u2 u3 u4 a b k1 k2 id seq data peer,
    lenN a = 8 -> lenN b = 10 -> id < 65536 -> seq < 65536 ->
    exists m,
      v4_deserialize (V4_DESTINATION_UNREACHABLE :: code :: c1 :: c2 :: u1 :: u2 :: u3 :: u4 ::
                      69 :: a ++ [IPPROTO_ICMP] ++ b ++ V4_ECHO :: 0 :: k1 :: k2 :: to_be 2 id ++ to_be 2 seq ++ data)
      = Ok m
      /\ responded_echo_request m = Ok (Some (id, seq, data))
      /\ icmp_encode peer m = Ok (Some (reply_record id peer V4_DESTINATION_UNREACHABLE code seq)).
Proof. exact (v4_unreachable_reported_proof eq_refl). Qed.
Print Assumptions unreachable_quoting_a_request_is_reported.

(* packets from the network never panic the parsers (shared with C09) *)
Theorem icmp_parsers_total :
  forall p, safe (v4_deserialize p) /\ safe (v6_deserialize p)
            /\ safe (skip_ipv4_header p) /\ safe (skip_ipv6_header p)
            /\ (forall m, safe (responded_echo_request m)).
Proof.
  intros p. split; [apply v4_deserialize_safe|]. split; [apply v6_deserialize_safe|].
  split; [apply skip_ipv4_header_safe|]. split; [apply skip_ipv6_header_safe; reflexivity|].
  intros m. apply responded_echo_request_safe. reflexivity.
Qed.
Print Assumptions icmp_parsers_total.

(* waiter table; the structural facts of icmp_forwarder.rs enter as the regenerated booleans,
   discharged here by eq_refl (a false flag breaks these proofs) *)
Theorem deliver_only_to_requester :
  forall T cap s k s' c,
    wstep T cap s (WPacket k) = (s', Some c) ->
    exists e, In e (table s) /\ echo_eq (e_key e) k = true /\ e_client e = c.
Proof. exact (deliver_only_to_requester_s eq_refl). Qed.
Print Assumptions deliver_only_to_requester.

Theorem unrelated_not_reported :
  forall T cap s k,
    (forall e, In e (table s) -> echo_eq (e_key e) k = false) ->
    wstep T cap s (WPacket k) = (s, None).
Proof. exact (unrelated_not_reported_s eq_refl). Qed.
Print Assumptions unrelated_not_reported.

Theorem deliver_once :
  forall T cap s k s' c,
    NoDupIds (table s) ->
    wstep T cap s (WPacket k) = (s', Some c) ->
    wstep T cap s' (WPacket k) = (s', None).
Proof. exact (deliver_once_s eq_refl eq_refl). Qed.
Print Assumptions deliver_once.

Theorem reply_goes_to_sender :
  forall T cap s c k now s1 o1,
    wstep T cap s (WSend c k now) = (s1, o1) ->
    queue_len (queues s1) c < cap ->
    exists s2, wstep T cap s1 (WPacket k) = (s2, Some c).
Proof. exact (reply_goes_to_sender_s eq_refl eq_refl eq_refl eq_refl eq_refl). Qed.
Print Assumptions reply_goes_to_sender.

(* "a pending request is forgotten after the request timeout": when the expiry has run at [now], every waiter and every
   deadline left is younger than the timeout. [well_timed]: each waiter's deadline is in the list under a key that finds
   it - IcmpSink::write makes the two together, and every step keeps it (waiters_stay_well_timed) *)
Theorem expired_forgotten :
  forall T cap s now s' o,
    NoDupIds (table s) -> well_timed s ->
    wstep T cap s (WExpire now) = (s', o) ->
    (forall e, In e (table s') -> now < e_deadline e) /\ (forall d, In d (deadlines s') -> now < fst d).
Proof. exact (expired_forgotten_s eq_refl eq_refl eq_refl eq_refl eq_refl). Qed.
Print Assumptions expired_forgotten.

Theorem waiters_stay_well_timed :
  forall T cap s o s' out,
    NoDupIds (table s) -> well_timed s -> wstep T cap s o = (s', out) -> well_timed s'.
Proof. exact (well_timed_step eq_refl eq_refl eq_refl eq_refl eq_refl). Qed.
Print Assumptions waiters_stay_well_timed.

(* ... and not before: a waiter whose own deadline lies ahead survives the expiry. The deadline entry of a request
   that was answered stays in the list until it is due; the code this model was first written from let it remove
   whatever waiter its key found then, i.e. the waiter of the same request sent again in the meantime (a client that
   repeats a request right after its answer, or whose sequence numbers wrap within the timeout): that request was
   forgotten early and its reply dropped as "Reply waiter not found". *)
Theorem pending_until_its_timeout :
  forall T cap s now s' o e,
    wstep T cap s (WExpire now) = (s', o) ->
    In e (table s) -> now < e_deadline e -> In e (table s').
Proof. exact (pending_until_its_timeout_s eq_refl eq_refl eq_refl eq_refl eq_refl). Qed.
Print Assumptions pending_until_its_timeout.

(* stated on the requests themselves: whatever happened before (in particular whatever deadlines are still listed), a
   request sent at t is answered to its sender by a packet arriving before t + T *)
Theorem reply_reported_while_pending :
  forall T cap s c k t s1 o1 now s2 o2,
    wstep T cap s (WSend c k t) = (s1, o1) ->
    now < t + T ->
    wstep T cap s1 (WExpire now) = (s2, o2) ->
    queue_len (queues s2) c < cap ->
    exists s3, wstep T cap s2 (WPacket k) = (s3, Some c).
Proof. exact (reply_while_pending_s eq_refl eq_refl eq_refl eq_refl eq_refl). Qed.
Print Assumptions reply_reported_while_pending.

Example ex_resent_request_outlives_the_old_deadline :
  snd (wrun 1000 8 winit
        [WSend 0 (7, 1, []) 0; WPacket (7, 1, []); WRecv 0; WSend 0 (7, 1, []) 600; WExpire 1200; WPacket (7, 1, [])])
  = [None; Some 0; None; None; None; Some 0].
Proof. vm_compute. reflexivity. Qed.

(* "Each echo request read from the stream produces one echo": a request the endpoint cannot send (TTL 0, more data than
   an IP packet holds, a destination the socket may not send to, no route) costs that request only. IcmpSink::write
   answers Dropped - an error would end the client's whole stream in datagram_pipe - and the waiter made for it is
   taken back; the other pending requests and the queues are as they were, and a packet that looks like the answer to
   the unsent request is not reported. *)
Theorem unsendable_request_is_dropped : SEND_ERROR_DROPS_THE_REQUEST = true.
Proof. exact eq_refl. Qed.
Print Assumptions unsendable_request_is_dropped.

Theorem failed_send_spares_the_others :
  forall T cap s c k now s' o,
    wstep T cap s (WSendFailed c k now) = (s', o) ->
    o = None /\ queues s' = queues s
    /\ forall e, In e (table s) -> echo_eq (e_key e) k = false -> In e (table s').
Proof. exact (failed_send_spares_the_others_s eq_refl). Qed.
Print Assumptions failed_send_spares_the_others.

Theorem failed_send_leaves_no_waiter :
  forall T cap s c k now s' o,
    NoDupIds (table s) -> compatible (table s) k ->
    wstep T cap s (WSendFailed c k now) = (s', o) ->
    wstep T cap s' (WPacket k) = (s', None).
Proof. exact (failed_send_leaves_no_waiter_s eq_refl eq_refl). Qed.
Print Assumptions failed_send_leaves_no_waiter.

(* the model's table finds waiters by key equality; the real table is a HashMap, which finds a stored
   key only if it also hashes like the probe. With the hash confined to the identifier and sequence
   number the two agree for every pair of keys: a quotation that carries only a prefix of the request's
   data (ICMP errors, truncated replies) still finds the waiter *)
Theorem hashmap_lookup_is_key_equality :
  forall stored probe, waiter_found ECHO_HASH_OF_ID_AND_SEQ stored probe = echo_eq stored probe.
Proof.
  intros [[i1 s1] d1] [[i2 s2] d2]. change ECHO_HASH_OF_ID_AND_SEQ with true.
  unfold waiter_found, echo_hashed, key_same, echo_eq. cbn [list_eqb].
  destruct (N.eqb i1 i2); destruct (N.eqb s1 s2); cbn [andb];
    repeat rewrite Bool.andb_true_r; repeat rewrite Bool.andb_false_r; reflexivity.
Qed.
Print Assumptions hashmap_lookup_is_key_equality.

(* with the data hashed as well, a truncated quotation misses its waiter *)
Example ex_hash_of_data_loses_truncated_quotations :
  waiter_found false (7, 1, [1; 2; 3]) (7, 1, []) = false /\ echo_eq (7, 1, [1; 2; 3]) (7, 1, []) = true.
Proof. split; reflexivity. Qed.

(* the request is on the wire only after its waiter exists (WSend then WPacket is the only order) *)
Theorem waiter_registered_before_send : WAITER_REGISTERED_BEFORE_SEND = true.
Proof. exact eq_refl. Qed.
Print Assumptions waiter_registered_before_send.

Theorem pending_ids_stay_distinct :
  forall t k c dl, NoDupIds t -> compatible t k ->
    NoDupIds (insert_key t k c dl) /\ (forall k', NoDupIds (remove_key t k')) /\ (forall d, NoDupIds (remove_due t d)).
Proof.
  intros t k c dl H1 H2. split; [apply insert_key_NoDupIds; assumption|]. split.
  - intros k'. apply remove_key_NoDupIds. exact H1.
  - intros d. apply remove_due_NoDupIds. exact H1.
Qed.
Print Assumptions pending_ids_stay_distinct.

(* Known finding (recorded, not repaired): identifiers are not translated per client, so two
   clients with a pending request of equal (identifier, sequence) and prefix-compatible data
   share one waiter; the answer to the first client's request is queued for the second. *)
Theorem shared_identifier_cross_delivery_refuted :
  exists ops,
    wrun 1000 8 winit ops =
    (fst (wrun 1000 8 winit ops), [None; None; Some 1]).
Proof.
  exists [WSend 0 (7, 1, []) 0; WSend 1 (7, 1, []) 5; WPacket (7, 1, [])].
  vm_compute. reflexivity.
Qed.
Print Assumptions shared_identifier_cross_delivery_refuted.

(* Non-vacuity *)
Example ex_double_carry :
  match echo_serialize 8 63487 65535 [255; 255; 0; 1] with
  | Ok p => verifies p = true
  | _ => False
  end.
Proof. vm_compute. reflexivity. Qed.
Example ex_waiters :
  snd (wrun 1000 8 winit
        [WSend 0 (7, 1, [1;2]) 0; WSend 1 (7, 2, [3]) 5; WPacket (7, 1, [1;2]); WPacket (7, 1, [1;2]);
         WPacket (9, 9, []); WExpire 2000; WPacket (7, 2, [3])])
  = [None; None; Some 0; None; None; None; None].
Proof. vm_compute. reflexivity. Qed.
