(* C12 — ClientHello random is extracted exactly and transparently.
   Proved on the model of tls_listener.rs (Model/ClientRandom.v): the peek loop for ANY extraction
   function (transparency) and for any extraction function that is stable under extension of its
   input (segmentation invariance); the modelled record / ClientHello layout is proved exact and
   stable. *)
From Coq Require Import List NArith Bool Lia ZifyBool ZifyNat ZifyN.
From TT Require Import Lib.BytesL Model.ClientRandom Generated.TlsFacts Spec.TlsRecords Proofs.ClientRandomProofs.
Import ListNotations.
Open Scope N_scope.

(* Transparency: whatever the parser answers and however the first flight is segmented, the bytes
   the TLS stack reads from the wrapped stream are exactly the bytes the client sent, in order:
   prebuffer ++ unread socket bytes = the client's stream, and the wrapped stream replays them *)
Theorem peeking_is_transparent :
  forall extract maxp chunk pf arrivals rooms,
    0 < chunk -> wfN arrivals -> Forall (fun r => 0 < r) rooms ->
    let '(cr, pre, rest) := peek extract maxp chunk pf (S (length (concat arrivals) + length arrivals)) [] arrivals in
    pre ++ concat rest = concat arrivals
    /\ lenN pre <= maxp
    /\ replay_all (S (2 * length (concat arrivals))) rooms pre 0 rest = concat arrivals.
Proof.
  intros extract maxp chunk pf arrivals rooms C W R.
  pose proof (peek_transparent extract maxp chunk C pf (S (length (concat arrivals) + length arrivals)) [] arrivals W) as H.
  destruct (peek extract maxp chunk pf (S (length (concat arrivals) + length arrivals)) [] arrivals) as [[cr pre] rest].
  destruct H as (H1 & H2 & H3). cbn [app] in H1. split; [exact H1|]. split; [apply H3; cbn; lia|].
  rewrite replay_all_spec; [rewrite dropN_0; exact H1|exact H2|exact R|lia|].
  - assert (G : forall l, wfN l -> (length l <= length (concat l))%nat).
    { induction l as [|a l IH]; intros Wl; [cbn; lia|]. inversion Wl; subst. cbn [concat length].
      rewrite app_length. match goal with Hw : Forall _ l |- _ => specialize (IH Hw) end. destruct a; [contradiction|]. cbn [length]. lia. }
    pose proof (G rest H2) as G1. apply (f_equal (@length N)) in H1. rewrite app_length in H1.
    unfold measure, lenN. lia.
Qed.
Print Assumptions peeking_is_transparent.

(* Segmentation invariance: if some prefix of the client's stream, within the limit, yields the
   client random, every segmentation yields exactly that value *)
Theorem client_random_is_segmentation_invariant :
  forall extract maxp chunk arrivals k0 r,
    0 < chunk ->
    (forall b t e, extract b = e -> e <> XNeedMore -> extract (b ++ t) = e) ->
    wfN arrivals -> k0 <= maxp -> k0 <= lenN (concat arrivals) ->
    extract (takeN k0 (concat arrivals)) = XFound r ->
    fst (fst (peek extract maxp chunk true (S (length (concat arrivals) + length arrivals)) [] arrivals)) = Some r.
Proof.
  intros extract maxp chunk arrivals k0 r C St W K1 K2 X.
  apply (peek_found extract maxp chunk C St _ [] arrivals k0 r); cbn [app]; auto.
  - rewrite lenN_nil. lia.
  - unfold measure, lenN. lia.
Qed.
Print Assumptions client_random_is_segmentation_invariant.

(* Exactness, whatever the record boundaries: a value is reported exactly when the handshake byte stream carried by the
   leading handshake records (Spec/TlsRecords.v: an independent reading of the record layer, fragments of any sizes) starts
   with a ClientHello and has its first 38 bytes, and the value is the random field of that message - however many records
   the ClientHello is spread over, however large it is, and whatever follows the random; and the modelled extraction is
   stable, so the theorem above applies to it *)
Theorem reported_value_is_the_random_field :
  forall data r, extract_c data = XFound r <-> client_hello_random (handshake_bytes data) = Some r.
Proof. intros data r. split; [apply extract_c_found|apply extract_c_complete]. Qed.
Print Assumptions reported_value_is_the_random_field.

(* a ClientHello whose first 43 bytes arrive in three records (3 + 30 + the rest): the same random as in one record *)
Example ex_three_records :
  let rnd := map N.of_nat (seq 100 32) in
  let hello := [1; 0; 0; 40; 3; 3] ++ rnd ++ [0; 0; 2; 19; 1; 1; 0]%N in
  let rec (f : list N) := [22; 3; 1; 0; lenN f] ++ f in
  extract_c (rec hello) = XFound rnd
  /\ extract_c (rec (takeN 3 hello) ++ rec (takeN 30 (dropN 3 hello)) ++ rec (dropN 33 hello)) = XFound rnd
  /\ extract_c (rec (takeN 3 hello) ++ rec (takeN 30 (dropN 3 hello))) = XNeedMore
  /\ extract_c (rec (takeN 3 hello) ++ [23; 3; 3; 0; 1; 0]%N) = XNotFound.
Proof. vm_compute. repeat split; reflexivity. Qed.

Theorem modelled_extraction_is_stable :
  forall b t e, extract_c b = e -> e <> XNeedMore -> extract_c (b ++ t) = e.
Proof. exact extract_c_stable. Qed.
Print Assumptions modelled_extraction_is_stable.

Theorem code_facts :
  PEEK_PARSES_BEFORE_LIMIT_CHECK = true /\ PEEK_READS_AS_MODELLED = true /\ PREBUFFER_REPLAY_AS_MODELLED = true
  /\ EXTRACT_AS_MODELLED = true /\ PEEK_MAX_PREBUFFER_LEN = 16384 /\ PEEK_READ_CHUNK_LEN = 1024.
Proof. repeat split; exact eq_refl. Qed.
Print Assumptions code_facts.

(* Non-vacuity, and the defect this property exposed: with the limit checked before parsing, the
   same stream gives a value or none depending on how it is cut (toy parser: found from 7 bytes on,
   limit 8, reads of 4) *)
Definition toy (b : list N) : extraction := if 7 <=? lenN b then XFound [lenN b] else XNeedMore.
Example ex_old_loop_depends_on_segmentation :
  fst (fst (peek toy 8 4 false 10 [] [[1; 2; 3; 4]; [5; 6; 7; 8]; [9]])) = None
  /\ fst (fst (peek toy 8 4 false 10 [] [[1; 2; 3; 4]; [5; 6; 7]; [8; 9]])) = Some [7]
  /\ fst (fst (peek toy 8 4 true 10 [] [[1; 2; 3; 4]; [5; 6; 7; 8]; [9]])) = Some [8]
  /\ fst (fst (peek toy 8 4 true 10 [] [[1; 2; 3; 4]; [5; 6; 7]; [8; 9]])) = Some [7].
Proof. vm_compute. repeat split; reflexivity. Qed.
