(* C20 — Secrets never reach the log, at any level.
   Proved on the model of the scrubbing functions (Model/Scrub.v); that every log site uses them is
   a regenerated structural fact over all of lib/src, and the absence of planted canaries in
   trace-level logs of the scenarios of the other properties is the correspondence run. *)
From Coq Require Import List NArith Bool.
From TT Require Import Lib.BytesL Model.Scrub Generated.LogFacts Proofs.ScrubProofs.
Import ListNotations.
Open Scope N_scope.

(* a scrubbed request shows, for Authorization, Proxy-Authorization and Cookie, nothing but the
   placeholder, whatever values (and however many) the request carried; such a header that was
   present is still shown (as the placeholder); every other header, the method, the URI and the
   version are shown unchanged *)
Theorem scrubbed_request_shows_no_secret_header :
  forall r,
    (forall n v, In (n, v) (r_headers (scrub_request r)) -> secret_name n = true -> v = SCRUBBED)
    /\ (forall n v, In (n, v) (r_headers r) -> secret_name n = true -> In (n, SCRUBBED) (r_headers (scrub_request r)))
    /\ filter (fun h => negb (secret_name (fst h))) (r_headers (scrub_request r))
       = filter (fun h => negb (secret_name (fst h))) (r_headers r)
    /\ r_method (scrub_request r) = r_method r /\ r_uri (scrub_request r) = r_uri r
    /\ r_version (scrub_request r) = r_version r.
Proof.
  intros r. cbn [scrub_request r_headers r_method r_uri r_version]. split; [apply scrub_headers_secret|].
  split; [intros n v H S; eapply scrub_headers_keeps_names; eauto|]. split; [apply scrub_headers_other|auto].
Qed.
Print Assumptions scrubbed_request_shows_no_secret_header.

(* an SNI <credentials>.<host> is shown as scrubbed.<host>, whatever the credentials label is *)
Theorem scrubbed_sni_hides_the_credentials_label :
  forall creds host, (forall c, In c creds -> c <> 46) ->
    scrub_sni (creds ++ 46 :: host) = SCRUBBED ++ 46 :: host.
Proof. exact scrub_sni_label. Qed.
Print Assumptions scrubbed_sni_hides_the_credentials_label.

(* the Debug form of presented credentials does not depend on them *)
Theorem credentials_debug_is_constant :
  forall a b, source_debug (SBasic a) = source_debug (SBasic b) /\ source_debug (SSni a) = source_debug (SSni b).
Proof. intros a b. split; reflexivity. Qed.
Print Assumptions credentials_debug_is_constant.

Theorem code_facts :
  LOG_REQUESTS_ALWAYS_SCRUBBED = true /\ SCRUB_FUNCTIONS_AS_MODELLED = true /\ SOURCE_DEBUG_HIDES_VALUE = true
  /\ SNI_LOGGED_SCRUBBED = true /\ LOGGERS_DROP_TLS_HANDSHAKE_DUMPS = true.
Proof. repeat split; exact eq_refl. Qed.
Print Assumptions code_facts.

Example ex_scrub :
  r_headers (scrub_request {| r_method := [71]; r_uri := [47]; r_version := 1;
     r_headers := [(COOKIE, [1]); ([120], [2]); (COOKIE, [3]); (AUTHORIZATION, [4])] |})
  = [(COOKIE, SCRUBBED); ([120], [2]); (AUTHORIZATION, SCRUBBED)].
Proof. vm_compute. reflexivity. Qed.
