(* C20 — Secrets never reach the log, at any level.
   Proved on the model of the scrubbing functions (Model/Scrub.v); that every log site uses them is
   a regenerated structural fact over all of lib/src, and the absence of planted canaries in
   trace-level logs of the scenarios of the other properties is the correspondence run. *)
From Coq Require Import List NArith Bool.
From TT Require Import Lib.BytesL Model.Scrub Generated.LogFacts Proofs.ScrubProofs.
Import ListNotations.
Open Scope N_scope.

(* a scrubbed request shows, for Authorization, Proxy-Authorization and Cookie, nothing but the
   placeholder, whatever values (and however many) the request carried; such a header that was
   present is still shown (as the placeholder); every other header, the method, the URI and the
   version are shown unchanged *)
Theorem scrubbed_request_shows_no_secret_header :
  forall r,
    (forall n v, In (n, v) (r_headers (scrub_request r)) -> secret_name n = true -> v = SCRUBBED)
    /\ (forall n v, In (n, v) (r_headers r) -> secret_name n = true -> In (n, SCRUBBED) (r_headers (scrub_request r)))
    /\ filter (fun h => negb (secret_name (fst h))) (r_headers (scrub_request r))
       = filter (fun h => negb (secret_name (fst h))) (r_headers r)
    /\ r_method (scrub_request r) = r_method r /\ r_uri (scrub_request r) = r_uri r
    /\ r_version (scrub_request r) = r_version r.
Proof.
  intros r. cbn [scrub_request r_headers r_method r_uri r_version]. split; [apply scrub_headers_secret|].
  split; [intros n v H S; eapply scrub_headers_keeps_names; eauto|]. split; [apply scrub_headers_other|auto].
Qed.
Print Assumptions scrubbed_request_shows_no_secret_header.

(* an SNI <credentials>.<host> is shown as scrubbed.<host>, whatever the credentials label is *)
Theorem scrubbed_sni_hides_the_credentials_label :
  forall creds host, (forall c, In c creds -> c <> 46) ->
    scrub_sni (creds ++ 46 :: host) = SCRUBBED ++ 46 :: host.
Proof. exact scrub_sni_label. Qed.
Print Assumptions scrubbed_sni_hides_the_credentials_label.

(* non-interference: two requests that differ at most in the VALUES of their Authorization,
   Proxy-Authorization and Cookie headers have the same scrubbed form, so whatever is printed from the
   scrubbed request (any rendering: Debug, Display, at any level) is the same text for every choice
   of the secret values, and cannot contain them *)
Theorem scrubbed_request_is_independent_of_the_secret_values :
  forall r1 r2,
    r_method r1 = r_method r2 -> r_uri r1 = r_uri r2 -> r_version r1 = r_version r2 ->
    Forall2 same_but_secrets (r_headers r1) (r_headers r2) ->
    scrub_request r1 = scrub_request r2
    /\ forall (T : Type) (render : req -> T), render (scrub_request r1) = render (scrub_request r2).
Proof.
  intros r1 r2 Hm Hu Hv Hh.
  assert (E : scrub_request r1 = scrub_request r2).
  { unfold scrub_request. rewrite Hm, Hu, Hv. f_equal. apply scrub_headers_noninterference. exact Hh. }
  split; [exact E|]. intros T render. rewrite E. reflexivity.
Qed.
Print Assumptions scrubbed_request_is_independent_of_the_secret_values.

(* byte provenance: every byte of a header value of the scrubbed request comes from the placeholder
   or from the value of a header of the request whose name is none of the three *)
Theorem scrubbed_header_bytes_come_from_public_values :
  forall r n v k, In (n, v) (r_headers (scrub_request r)) -> In k v ->
    In k SCRUBBED \/ (secret_name n = false /\ In (n, v) (r_headers r)).
Proof. intros r n v k. cbn [scrub_request r_headers]. apply scrub_headers_bytes_origin. Qed.
Print Assumptions scrubbed_header_bytes_come_from_public_values.

(* the SNI shown is the same for every credentials label (labels have no dot) *)
Theorem scrubbed_sni_is_independent_of_the_credentials :
  forall c1 c2 host, (forall c, In c c1 -> c <> 46) -> (forall c, In c c2 -> c <> 46) ->
    scrub_sni (c1 ++ 46 :: host) = scrub_sni (c2 ++ 46 :: host).
Proof. intros c1 c2 host H1 H2. rewrite !scrub_sni_label by assumption. reflexivity. Qed.
Print Assumptions scrubbed_sni_is_independent_of_the_credentials.

(* the Debug form of presented credentials does not depend on them *)
Theorem credentials_debug_is_constant :
  forall a b, source_debug (SBasic a) = source_debug (SBasic b) /\ source_debug (SSni a) = source_debug (SSni b).
Proof. intros a b. split; reflexivity. Qed.
Print Assumptions credentials_debug_is_constant.

Theorem code_facts :
  LOG_REQUESTS_ALWAYS_SCRUBBED = true /\ SCRUB_FUNCTIONS_AS_MODELLED = true /\ SOURCE_DEBUG_HIDES_VALUE = true
  /\ SNI_LOGGED_SCRUBBED = true /\ LOGGERS_DROP_TLS_HANDSHAKE_DUMPS = true.
Proof. repeat split; exact eq_refl. Qed.
Print Assumptions code_facts.

Example ex_scrub :
  r_headers (scrub_request {| r_method := [71]; r_uri := [47]; r_version := 1;
     r_headers := [(COOKIE, [1]); ([120], [2]); (COOKIE, [3]); (AUTHORIZATION, [4])] |})
  = [(COOKIE, SCRUBBED); ([120], [2]); (AUTHORIZATION, SCRUBBED)].
Proof. vm_compute. reflexivity. Qed.

(* the premises of the independence theorem are met by two requests with different secrets *)
Example ex_independent :
  Forall2 same_but_secrets [(COOKIE, [1; 2]); ([120], [2]); (PROXY_AUTHORIZATION, [9])]
                           [(COOKIE, [7]); ([120], [2]); (PROXY_AUTHORIZATION, [8; 8; 8])].
Proof. repeat constructor; cbn; intros H; try discriminate H; reflexivity. Qed.
