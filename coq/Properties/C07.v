(* C07 — UDP flows: correct routing, isolation, expiry and bounded sockets.
   Proved on the model of the two coupled flow tables (Model/UdpFlows.v: udp_pipe.rs over
   udp_forwarder.rs) for every operation history, with the environment's answers (socket can be
   opened, send succeeds, a reply or a socket error arrives, the timer ticks) as operations. *)
From Coq Require Import List NArith Bool.
From TT Require Import Lib.BytesL Generated.UdpFacts Generated.SocksFacts Generated.TimeoutFacts Model.UdpFlows Proofs.UdpFlowsProofs
  Model.SocksFlows Proofs.SocksFlowsProofs Model.UdpParked.
Import ListNotations.
Open Scope N_scope.

(* After EVERY history: the multiplexer is alive, both tables know exactly the same flows, no
   socket serves two flows, the tables have no duplicate keys and the same size (so the number of
   sockets, which the outbound_udp_sockets gauge counts, is the number of live flows). *)
Theorem tables_agree_after_every_history :
  forall T ops,
    let s := fst (urun T uinit ops) in
    terminated s = false
    /\ (forall m, has m (pipe s) = has m (fwd s))
    /\ (forall m m' k, lookup m (fwd s) = Some k -> lookup m' (fwd s) = Some k -> m = m')
    /\ NoDup (keys (fwd s)) /\ NoDup (keys (pipe s))
    /\ length (fwd s) = length (pipe s).
Proof.
  intros T ops s.
  pose proof (urun_inv eq_refl eq_refl eq_refl eq_refl T ops uinit UInv_init) as I.
  pose proof (urun_kinv T ops uinit KInv_init) as K.
  pose proof (sizes_agree _ I K) as L.
  destruct I as [A B C D]. destruct K as [P F]. repeat split; assumption.
Qed.
Print Assumptions tables_agree_after_every_history.

(* routing: a forwarded client datagram leaves through the socket registered for exactly its own
   (source, destination) pair, towards snd m *)
Theorem datagram_uses_its_own_socket :
  forall T ops m now d c k sock,
    let s := fst (urun T uinit ops) in
    In (ToPeer m sock) (snd (ustep T s (ClientDgram m now d c k))) ->
    lookup m (fwd (fst (ustep T s (ClientDgram m now d c k)))) = Some sock.
Proof.
  intros T ops m now d c k sock s. apply routing_s; try exact eq_refl.
  exact (urun_inv eq_refl eq_refl eq_refl eq_refl T ops uinit UInv_init).
Qed.
Print Assumptions datagram_uses_its_own_socket.

(* a datagram read from a flow's socket (key m = (peer, client)) is handed to the client labelled
   source = peer, destination = client, and nothing else is emitted *)
Theorem reply_carries_the_flow_label :
  forall T ops m now,
    snd (ustep T (fst (urun T uinit ops)) (PeerDgram m now)) = [ToClient m].
Proof.
  intros T ops m now. apply reply_labelled.
  destruct (urun_inv eq_refl eq_refl eq_refl eq_refl T ops uinit UInv_init) as [A _ _ _]. exact A.
Qed.
Print Assumptions reply_carries_the_flow_label.

(* expiry: right after a tick, every flow still holding a socket was active within the timeout *)
Theorem idle_flows_are_released :
  forall T ops now m,
    let s := fst (urun T uinit ops) in
    has m (fwd (fst (ustep T s (Tick now)))) = true ->
    exists c, lookup m (pipe (fst (ustep T s (Tick now)))) = Some c /\ now - T <= u_la c.
Proof.
  intros T ops now m s. apply expiry_both; try exact eq_refl.
  exact (urun_inv eq_refl eq_refl eq_refl eq_refl T ops uinit UInv_init).
Qed.
Print Assumptions idle_flows_are_released.

(* a port-53 flow whose only pending query is answered is released on both sides *)
Theorem answered_dns_flow_is_released :
  forall T ops m now c,
    let s := fst (urun T uinit ops) in
    lookup (reversed m) (pipe s) = Some c -> u_dns c = Some 1 ->
    has (reversed m) (pipe (fst (ustep T s (PeerDgram m now)))) = false
    /\ has (reversed m) (fwd (fst (ustep T s (PeerDgram m now)))) = false.
Proof.
  intros T ops m now c s. apply answered_dns_flow_released.
  exact (urun_inv eq_refl eq_refl eq_refl eq_refl T ops uinit UInv_init).
Qed.
Print Assumptions answered_dns_flow_is_released.

(* a datagram on a pair that has no flow (never seen, expired, released) starts a fresh flow on a
   socket nobody else holds *)
Theorem released_pair_starts_a_fresh_flow :
  forall T ops m now d,
    let s := fst (urun T uinit ops) in
    has m (pipe s) = false ->
    snd (ustep T s (ClientDgram m now d true true)) = [ToPeer m (next_sock s)]
    /\ forall m', lookup m' (fwd s) <> Some (next_sock s).
Proof.
  intros T ops m now d s H.
  pose proof (urun_inv eq_refl eq_refl eq_refl eq_refl T ops uinit UInv_init) as I.
  split.
  - rewrite (fresh_flow_fresh_socket T s m now d I H). reflexivity.
  - intros m' L. destruct I as [_ _ C _]. specialize (C m' _ L). apply N.lt_irrefl in C. exact C.
Qed.
Print Assumptions released_pair_starts_a_fresh_flow.

(* isolation: whatever happens on one flow (datagram, failed open, failed send, socket error,
   reply, DNS completion) leaves every other flow's entries in both tables untouched *)
Theorem faults_stay_inside_their_flow :
  forall T ops o m m',
    let s := fst (urun T uinit ops) in
    op_flow o = Some m -> m <> m' ->
    lookup m' (pipe (fst (ustep T s o))) = lookup m' (pipe s)
    /\ lookup m' (fwd (fst (ustep T s o))) = lookup m' (fwd s).
Proof.
  intros T ops o m m' s. apply other_flows_untouched; try exact eq_refl.
  exact (urun_inv eq_refl eq_refl eq_refl eq_refl T ops uinit UInv_init).
Qed.
Print Assumptions faults_stay_inside_their_flow.

(* towards a SOCKS5 upstream (one association per client source, shared by its destinations): after every history of
   datagrams (sent, or refused by the association's socket), closes, read errors on an association's socket and expiry
   ticks that fall into the set-up of a flow, the multiplexer is alive and every live pair still has its destination
   among the peers of its source's association: a datagram of a live pair is never met with NotFound, and neither the
   close of one pair nor the failure of one association takes anything away from another *)
Definition socks_code : kflags :=
  {| f_records := SOCKS_ASSOCIATION_RECORDS_EVERY_PEER; f_keyed := SOCKS_READ_ERROR_CLOSES_THE_FLOWS;
     f_drops := SOCKS_SEND_ERROR_DROPS_DATAGRAM; f_beside := UDP_TICK_RUNS_BESIDE_THE_DIRECTIONS |}.

Theorem socks_associations_follow_the_live_pairs :
  forall ops,
    k_dead (krun socks_code ops) = false
    /\ forall src dst, In (src, dst) (k_flows (krun socks_code ops)) ->
         exists ps, klookup src (k_assocs (krun socks_code ops)) = Some ps /\ In dst ps.
Proof. intros ops. exact (krun_inv ops). Qed.
Print Assumptions socks_associations_follow_the_live_pairs.

(* a later datagram on a pair whose association failed starts a fresh association; the other source is not touched *)
Example ex_read_error_then_fresh_flow :
  let s := krun socks_code [KDgram (1, 10); KDgram (2, 10); KReadErr 1; KDgram (2, 10); KDgram (1, 10)] in
  k_dead s = false /\ klookup 1 (k_assocs s) = Some [10] /\ klookup 2 (k_assocs s) = Some [10].
Proof. repeat split; reflexivity. Qed.

(* when further destinations are not recorded, the close of the first pair ends the multiplexer at the next datagram of the second *)
Example ex_unrecorded_peer_ends_the_multiplexer :
  k_dead (krun {| f_records := false; f_keyed := true; f_drops := true; f_beside := true |}
               [KDgram (1, 10); KDgram (1, 20); KClose (1, 10); KDgram (1, 20)]) = true
  /\ k_dead (krun kfixed [KDgram (1, 10); KDgram (1, 20); KClose (1, 10); KDgram (1, 20)]) = false.
Proof. split; reflexivity. Qed.

(* each of the other three flags is needed as well: a read error whose closes the pipe cannot match leaves the pair behind
   and its next datagram ends the multiplexer; a refused send that is returned as an error ends it at once; a timer that
   drops the direction in the middle of an association's set-up leaves a pair without association *)
Example ex_each_flag_is_needed :
  k_dead (krun {| f_records := true; f_keyed := false; f_drops := true; f_beside := true |} [KDgram (1, 10); KReadErr 1; KDgram (1, 10)]) = true
  /\ k_dead (krun {| f_records := true; f_keyed := true; f_drops := false; f_beside := true |} [KDgram (1, 10); KRefused (1, 10)]) = true
  /\ k_dead (krun {| f_records := true; f_keyed := true; f_drops := true; f_beside := false |} [KCut (1, 10); KDgram (1, 10)]) = true
  /\ k_dead (krun kfixed [KDgram (1, 10); KReadErr 1; KDgram (1, 10); KRefused (1, 10); KCut (2, 10); KDgram (2, 10)]) = false.
Proof. repeat split; reflexivity. Qed.

(* "has its socket released, so the number of open sockets ... follow the number of live flows": the descriptors themselves.
   A flow's socket (with a SOCKS5 upstream: its source's association) is held by the forwarder's table and, while the
   reading side waits, by the futures it waits on (Model/UdpParked.v). With the wake-up that on_connection_closed sends
   (as the code is read, for both forwarders), after every history of flows opened, flows closed by the pipe and events
   on the reading side, a descriptor is open exactly when its flow is in the table, i.e. exactly when the gauge counts it *)
Theorem open_descriptors_are_the_table :
  forall ops k,
    p_open (prun UDP_CLOSE_WAKES_THE_READING_SIDE ops) k = pmem k (p_table (prun UDP_CLOSE_WAKES_THE_READING_SIDE ops))
    /\ p_open (prun SOCKS_CLOSE_WAKES_THE_READING_SIDE ops) k = pmem k (p_table (prun SOCKS_CLOSE_WAKES_THE_READING_SIDE ops)).
Proof. intros ops k. split; apply woken_open_iff_in_table. Qed.
Print Assumptions open_descriptors_are_the_table.

(* as found (no wake-up): three flows are opened and expire while nothing else happens: the table is empty (the gauge
   says 0) and all three descriptors are open; a single later event lets go of them *)
Example ex_idle_multiplexer_kept_its_sockets :
  let s := prun false [POpen 1; POpen 2; POpen 3; PClose 1; PClose 2; PClose 3] in
  p_table s = [] /\ p_open s 1 = true /\ p_open s 2 = true /\ p_open s 3 = true
  /\ p_held (prun false [POpen 1; POpen 2; POpen 3; PClose 1; PClose 2; PClose 3; PEvent]) = []
  /\ p_held (prun true [POpen 1; POpen 2; POpen 3; PClose 1; PClose 2; PClose 3]) = [].
Proof. repeat split; reflexivity. Qed.

(* the tie: what the translator read in udp_pipe.rs / udp_forwarder.rs / socks5_forwarder.rs *)
Theorem code_facts :
  UDP_TICK_CLOSES_REVERSED_KEY = true /\ UDP_TICK_EXPIRES_IDLE_LONGER_THAN_TIMEOUT = true
  /\ UDP_FAILED_OPEN_FORGETS_FLOW = true /\ UDP_DONE_AND_CLOSE_AS_MODELLED = true
  /\ UDP_SEND_ERROR_DROPS_DATAGRAM = true /\ UDP_FORWARDER_TABLE_AS_MODELLED = true
  /\ UDP_READ_ERRORS_REMOVE_THE_FLOW = true /\ SOCKS_UDP_READ_DOES_NOT_WAIT = true /\ SOCKS_ASSOCIATION_RECORDS_EVERY_PEER = true
  /\ SOCKS_READ_ERROR_CLOSES_THE_FLOWS = true /\ SOCKS_SEND_ERROR_DROPS_DATAGRAM = true /\ UDP_TICK_RUNS_BESIDE_THE_DIRECTIONS = true
  /\ UDP_CLOSE_WAKES_THE_READING_SIDE = true /\ SOCKS_CLOSE_WAKES_THE_READING_SIDE = true
  (* the one place where opening a flow waits for somebody else (the SOCKS5 server), inside the only task that forwards
     the client's datagrams, is bounded: a server that falls silent costs the other flows the establishment timeout at most *)
  /\ UDP_ASSOCIATE_UNDER_ESTABLISHMENT_TIMEOUT = true.
Proof. repeat split; exact eq_refl. Qed.
Print Assumptions code_facts.

(* Non-vacuity: two flows, one expires, the other is refreshed; a failing destination in between *)
Example ex_history :
  let ops := [ClientDgram (1,9) 0 false true true; ClientDgram (2,9) 10 false true true;
              ClientDgram (3,8) 20 false false true; PeerDgram (9,2) 900; Tick 1500] in
  let '(s, outs) := urun 1000 uinit ops in
  outs = [[ToPeer (1,9) 1]; [ToPeer (2,9) 2]; [Dropped (3,8)]; [ToClient (9,2)]; []]
  /\ keys (fwd s) = [(2,9)] /\ keys (pipe s) = [(2,9)] /\ terminated s = false.
Proof. vm_compute. repeat split; reflexivity. Qed.

