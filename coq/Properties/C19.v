(* C19 — Graceful shutdown reaches every participant and completes when all finish.
   Proved on the model of shutdown.rs (Model/ShutdownM.v) for every interleaving of registrations,
   waits, submissions, wind-downs and the coordinator's completion wait. *)
From Coq Require Import List NArith Bool.
From TT Require Import Model.ShutdownM Generated.ShutdownFacts Generated.Http1Facts Proofs.ShutdownProofs.
Import ListNotations.

(* in EVERY reachable state, a submission reaches every participant registered before it that has
   not wound down: those already waiting observe it at once, the others have it pending *)
Theorem submission_reaches_every_registered_participant :
  forall history i p,
    nth_error (parts (srun history)) i = Some p -> p_finished p = false ->
    exists p', nth_error (parts (sstep (srun history) Submit)) i = Some p'
               /\ p_finished p' = false
               /\ (p_waiting p = true -> p_observed p' = true)
               /\ (p_waiting p = false -> p_pending p' = true).
Proof.
  intros history i p H F. destruct (submit_reaches (srun history) i p H F) as (p' & A & B & _ & C & D).
  exists p'. auto.
Qed.
Print Assumptions submission_reaches_every_registered_participant.

(* a pending notification is not lost by anything others do, and is delivered when its owner waits *)
Theorem pending_notification_is_delivered :
  (forall s o i p, nth_error (parts s) i = Some p -> p_finished p = false -> o <> Wait i -> o <> Finish i ->
     exists p', nth_error (parts (sstep s o)) i = Some p' /\ p_finished p' = false
                /\ (p_pending p = true -> p_pending p' = true \/ p_observed p' = true)
                /\ (p_observed p = true -> p_observed p' = true))
  /\ (forall s i p, nth_error (parts s) i = Some p -> p_pending p = true -> p_finished p = false ->
        exists p', nth_error (parts (sstep s (Wait i))) i = Some p' /\ p_observed p' = true).
Proof.
  split.
  - intros s o i p H F NW NF. destruct (pending_survives s o i p H F NW NF) as (p' & A & B & C & D & _).
    exists p'. auto.
  - intros s i p H P F. destruct (pending_delivered_on_wait s i p H P F) as (p' & A & B & _). exists p'. auto.
Qed.
Print Assumptions pending_notification_is_delivered.

(* waiting for completion returns exactly when it was started and the last participant holding a
   guard has wound down: never earlier, and nothing more is needed *)
Theorem completion_exactly_when_all_finished :
  forall history,
    completion_done (srun history) = true <->
    completing (srun history) = true
    /\ forall i p, nth_error (parts (srun history)) i = Some p -> p_awaited p = true -> p_finished p = true.
Proof. intros history. apply completion_iff. Qed.
Print Assumptions completion_exactly_when_all_finished.

(* who is waited for: exactly the participants that registered before completion began *)
Theorem awaited_iff_registered_before_completion :
  forall history,
    nth_error (parts (sstep (srun history) Register)) (length (parts (srun history))) =
    Some {| p_awaited := negb (completing (srun history)); p_pending := false; p_waiting := false;
            p_observed := false; p_finished := false |}.
Proof. intros history. apply register_awaited. Qed.
Print Assumptions awaited_iff_registered_before_completion.

(* the listener stops only because it observed the submission, and the submission reaches every
   subscriber at once: whenever a session has lost its feed it has been notified too. Then, whatever the
   scheduler does (the order in which listener and session run, the branch an unbiased select would
   prefer), the session winds down with a goodbye (GOAWAY / QUIC close), never abruptly *)
Theorem notified_session_says_goodbye :
  forall notified feed_lost coin,
    (feed_lost = true -> notified = true) ->
    session_poll SESSIONS_SAY_GOODBYE_WHEN_FEED_STOPS notified feed_lost coin <> Abrupt
    /\ (notified = true -> session_poll SESSIONS_SAY_GOODBYE_WHEN_FEED_STOPS notified feed_lost coin = Goodbye).
Proof.
  intros notified feed_lost coin H. change SESSIONS_SAY_GOODBYE_WHEN_FEED_STOPS with true.
  destruct notified, feed_lost; cbn; try (split; [discriminate|]; intros; try reflexivity; try discriminate).
  exfalso. specialize (H eq_refl). discriminate H.
Qed.
Print Assumptions notified_session_says_goodbye.

(* the defect this exposed: with an unbiased select a QUIC session whose listener stopped first ends with
   an error and never sends its close *)
Example ex_unbiased_select_can_end_abruptly : session_poll false true true false = Abrupt.
Proof. reflexivity. Qed.

(* the binary: whatever happened before, the process exits only when every participant that registered before
   completion began has finished (sessions included), however early the listener returned *)
Theorem process_exits_only_after_the_last_participant :
  forall history listener_returned,
    process_may_exit MAIN_AWAITS_COMPLETION (sstep (srun history) Complete) listener_returned = true ->
    forall i p, nth_error (parts (srun history)) i = Some p -> p_awaited p = true -> p_finished p = true.
Proof.
  intros history lr H i p N A. change MAIN_AWAITS_COMPLETION with true in H. cbn [process_may_exit] in H.
  pose proof (proj1 (completion_exactly_when_all_finished (history ++ [Complete]))) as C.
  unfold srun in C. rewrite fold_left_app in C. cbn [fold_left] in C. fold (srun history) in C.
  destruct (C H) as [_ F]. apply (F i p); [|exact A].
  cbn [sstep parts]. exact N.
Qed.
Print Assumptions process_exits_only_after_the_last_participant.

(* as found: the listener returns as soon as it has observed the submission *)
Example ex_exit_at_listener_return :
  process_may_exit false (srun [Register; Register; Wait 0; Wait 1; Submit; Finish 0; Complete]) true = true
  /\ completion_done (srun [Register; Register; Wait 0; Wait 1; Submit; Finish 0; Complete]) = false.
Proof. split; reflexivity. Qed.

(* "without hanging": a notified HTTP/1.1 session finishes within the bound of its orderly close whatever its client does - a client
   that reads nothing included - so the last participant does finish and completion returns; and the bound costs a client that does
   read nothing: one that takes what is left within the bound is closed in an orderly way, at the moment it has taken it *)
Theorem http1_session_finishes_within_its_bound :
  (forall taken_at, exists t orderly,
      h1_close HTTP1_ORDERLY_CLOSE_BOUNDED HTTP1_GRACEFUL_SHUTDOWN_TIMEOUT_MS taken_at = Some (t, orderly)
      /\ (t <= HTTP1_GRACEFUL_SHUTDOWN_TIMEOUT_MS)%N)
  /\ (forall t, (t < HTTP1_GRACEFUL_SHUTDOWN_TIMEOUT_MS)%N ->
        h1_close HTTP1_ORDERLY_CLOSE_BOUNDED HTTP1_GRACEFUL_SHUTDOWN_TIMEOUT_MS (Some t) = Some (t, true))
  /\ (1000 <= HTTP1_GRACEFUL_SHUTDOWN_TIMEOUT_MS)%N.
Proof.
  change HTTP1_ORDERLY_CLOSE_BOUNDED with true. split; [|split].
  - intros [t|]; cbn [h1_close andb].
    + destruct (t <? HTTP1_GRACEFUL_SHUTDOWN_TIMEOUT_MS)%N eqn:E; cbn [negb].
      * exists t, true. split; [reflexivity|]. apply N.ltb_lt in E. apply N.lt_le_incl, E.
      * exists HTTP1_GRACEFUL_SHUTDOWN_TIMEOUT_MS, false. split; [reflexivity|apply N.le_refl].
    + exists HTTP1_GRACEFUL_SHUTDOWN_TIMEOUT_MS, false. split; [reflexivity|apply N.le_refl].
  - intros t H. cbn [h1_close andb]. apply N.ltb_lt in H. rewrite H. reflexivity.
  - discriminate.
Qed.
Print Assumptions http1_session_finishes_within_its_bound.

(* as found: the session of a client that reads nothing never finished *)
Example ex_unbounded_close : h1_close false 10000 None = None /\ h1_close true 10000 None = Some (10000%N, false).
Proof. split; reflexivity. Qed.

(* "winds down gracefully (HTTP/2 GOAWAY ...)": the bound above is for HTTP/1.1 sessions only. A notified HTTP/2 session sends GOAWAY
   and its streams in flight run to their end, however long that takes: the session finishes exactly when the last of them has ended,
   and none is cut *)
Theorem http2_streams_in_flight_run_to_their_end :
  SESSION_CLOSE_BOUND_IS_FOR_HTTP1_ONLY = true
  /\ (forall streams_end_at,
        h2_close (negb SESSION_CLOSE_BOUND_IS_FOR_HTTP1_ONLY) HTTP1_GRACEFUL_SHUTDOWN_TIMEOUT_MS streams_end_at = (streams_end_at, true)).
Proof. split; [exact eq_refl|]. intros t. change SESSION_CLOSE_BOUND_IS_FOR_HTTP1_ONLY with true. reflexivity. Qed.
Print Assumptions http2_streams_in_flight_run_to_their_end.

(* as found after the bound had been put around the close of every protocol: a download that needed 12 s more was cut at 10 s *)
Example ex_http2_session_cut : h2_close true 10000 12000 = (10000%N, false) /\ h2_close false 10000 12000 = (12000%N, true).
Proof. split; reflexivity. Qed.

Theorem code_facts :
  SHUTDOWN_CHANNELS_AS_MODELLED = true /\ SHUTDOWN_WAIT_AS_MODELLED = true /\ SHUTDOWN_PARTICIPANTS_REGISTER_BOTH = true
  /\ SESSIONS_SAY_GOODBYE_WHEN_FEED_STOPS = true /\ MAIN_AWAITS_COMPLETION = true.
Proof. repeat split; exact eq_refl. Qed.
Print Assumptions code_facts.

Example ex_history :
  let s := srun [Register; Register; Wait 0; Submit; Complete; Register; Finish 0] in
  map p_observed (parts s) = [true; false; false] /\ map p_pending (parts s) = [false; true; false]
  /\ map p_awaited (parts s) = [true; true; false] /\ completion_done s = false
  /\ completion_done (sstep (sstep s (Wait 1)) (Finish 1)) = true.
Proof. vm_compute. repeat split; reflexivity. Qed.
