(* C13 — Configured credentials and settings mean exactly what the files say.
   The TOML lexer itself (toml_edit) is library code: after the repair the endpoint reads the
   decoded string VALUES, so the statements are over values and the lexical forms (escapes, quotes,
   literal strings, whitespace) are covered by the correspondence run against an independent TOML
   reader. *)
From Coq Require Import List NArith Bool.
From TT Require Import Lib.BytesL Lib.Base64 Model.TlsDemux Spec.SniRouting Model.Settings Generated.SettingsFacts
  Proofs.SettingsProofs Proofs.TlsDemuxProofs.
Import ListNotations.
Open Scope N_scope.

(* the accepted pairs are exactly the (non-empty) string values of the [[client]] tables; a table
   with a missing / non-string / empty field makes the whole file refused *)
Theorem accepted_pairs_eq_file_values :
  forall ts clients,
    read_clients CLIENTS_READ_AS_TOML_STRINGS ts = Some clients <->
    (map (fun c => (Some (fst c), Some (snd c))) clients = ts
     /\ Forall (fun c => fst c <> [] /\ snd c <> []) clients).
Proof. exact accepted_pairs_eq_file_values_proof. Qed.
Print Assumptions accepted_pairs_eq_file_values.

(* a Basic token authenticates iff it encodes a configured user:password (base64 is injective) *)
Theorem authenticate_iff_configured :
  forall clients u p,
    bytes_ok (u ++ 58 :: p) = true ->
    Forall (fun c => bytes_ok (fst c ++ 58 :: snd c) = true) clients ->
    (authenticate clients (b64_encode (u ++ 58 :: p)) = true <->
     exists c, In c clients /\ fst c ++ 58 :: snd c = u ++ 58 :: p).
Proof. exact authenticate_iff_proof. Qed.
Print Assumptions authenticate_iff_configured.

(* the endpoint refuses to start exactly when: listen address unset, invalid reverse-proxy
   section, no listen protocol enabled, or no credentials on a non-loopback address *)
Theorem start_refused_iff :
  forall s,
    validate s <> None <->
    ( (s_addr_unspecified s = true /\ s_port s = 0)
      \/ (exists r, s_rp s = Some r /\ rp_valid r = false)
      \/ (s_h1 s = false /\ s_h2 s = false /\ s_h3 s = false)
      \/ (s_clients s = [] /\ s_addr_loopback s = false) ).
Proof. exact start_refused_iff_proof. Qed.
Print Assumptions start_refused_iff.

(* no main host, or a name (host name or alternative SNI) that two different host entries claim, is refused;
   unloadable certificates - a file without any certificate included - fail the loaders (LOAD_CERTS_REFUSES_EMPTY_CHAIN) *)
Theorem hosts_refused_iff :
  forall c, valid_hosts c = false <-> (c_main c = [] \/ ~ one_entry_per_name (claims c)).
Proof. exact hosts_refused_iff_proof. Qed.
Print Assumptions hosts_refused_iff.

(* accepted exactly when there is a main host and every name designates at most one entry of the four groups *)
Theorem hosts_accepted_iff :
  forall c, valid_hosts c = true <-> (c_main c <> [] /\ one_entry_per_name (claims c)).
Proof. exact hosts_accepted_iff_proof. Qed.
Print Assumptions hosts_accepted_iff.

(* in particular no host name occurs twice anywhere in the four groups *)
Theorem accepted_host_names_are_distinct :
  forall c, valid_hosts c = true -> NoDup (main_names c ++ c_ping c ++ c_speed c ++ c_rp c).
Proof. exact valid_hosts_names_distinct. Qed.
Print Assumptions accepted_host_names_are_distinct.

(* the code still has the modelled shape *)
Theorem settings_code_as_modelled :
  CLIENTS_READ_AS_TOML_STRINGS = true /\ CLIENTS_EMPTY_FIELDS_REFUSED = true
  /\ SETTINGS_VALIDATE_AS_MODELLED = true /\ REVERSE_PROXY_VALIDATE_AS_MODELLED = true
  /\ CORE_NEW_VALIDATES = true /\ REGISTRY_AUTH_AS_MODELLED = true /\ CLIENT_CONFIG_COPIES_PAIR = true
  /\ TLS_HOSTS_UNIQUE_ACROSS_GROUPS = true /\ LOAD_CERTS_REFUSES_EMPTY_CHAIN = true.
Proof. repeat split; exact eq_refl. Qed.
Print Assumptions settings_code_as_modelled.

Example ex_validate :
  validate {| s_addr_unspecified := true; s_addr_loopback := false; s_port := 443; s_rp := None;
              s_h1 := true; s_h2 := false; s_h3 := false; s_clients := [] |}
  = Some NoCredentialsOnPublicAddress
  /\ validate {| s_addr_unspecified := false; s_addr_loopback := true; s_port := 443;
                 s_rp := Some {| rp_port := 80; rp_mask := [47; 120] |};
                 s_h1 := false; s_h2 := true; s_h3 := false; s_clients := [] |} = None.
Proof. vm_compute. split; reflexivity. Qed.

Example ex_hosts :
  let h n a := {| mh_name := n; mh_alts := a |} in
  let c m := {| c_main := m; c_rp := [[114]]; c_ping := [[112]]; c_speed := []; c_h1 := true; c_h2 := true; c_h3 := false;
                c_rp_enabled := true |} in
  valid_hosts (c [h [97] [[120]; [97]; [120]]; h [98] [[121]]]) = true        (* names repeated within an entry *)
  /\ valid_hosts (c [h [97] [[120]]; h [98] [[121]; [120]]]) = false           (* an alternative SNI of two main hosts *)
  /\ valid_hosts (c [h [97] [[98]]; h [98] []]) = false                        (* ... that is the name of a later host *)
  /\ valid_hosts (c [h [97] []; h [98] [[97]]]) = false                        (* ... of an earlier host *)
  /\ valid_hosts (c [h [97] [[112]]]) = false                                  (* ... of a ping host *)
  /\ valid_hosts (c [h [97] [[114]]]) = false.                                 (* ... of a reverse-proxy host *)
Proof. vm_compute. repeat split. Qed.
