(* C02 — TCP tunnel relays the byte stream exactly, both ways.
   Statements about the timed model of pipe.rs (Model/Pipe.v) for EVERY pair of endpoint scripts:
   all chunkings, partial-acceptance patterns, arrival / readiness instants (hence every
   interleaving and every idle-timer restart) and every position of a read, write, wait, eof or
   flush failure. *)
From Coq Require Import List NArith Bool.
(* H3Stream first: the names it shares with the pipe model (delivered) mean the pipe's below *)
From TT Require Import Model.H3Stream Proofs.H3StreamProofs.
From TT Require Import Lib.BytesL Model.Pipe Generated.PipeFacts Proofs.PipeProofs.
Import ListNotations.
Open Scope N_scope.

Theorem relay_exact :
  forall f T el er res s,
    duplex f T el er = (res, s) ->
    (* whenever and however the tunnel stops: no loss inside the delivered prefix, no duplication,
       no reordering; receive-window credit = metrics = bytes actually forwarded *)
    (forall p, p = pl s \/ p = pr s ->
       (exists rest, delivered p ++ rest = read_log p)
       /\ consumed p = lenN (delivered p) /\ metric p = lenN (delivered p))
    (* clean end: every byte read was delivered, then end-of-stream passed on and flushed *)
    /\ (res = DOk -> forall p, p = pl s \/ p = pr s ->
          delivered p = read_log p /\ 1 <= eof_calls p /\ 1 <= flush_done p)
    (* a failure on either side tears the whole tunnel down *)
    /\ ((ph (pl s) = PFailed \/ ph (pr s) = PFailed) <-> res = DError).
Proof. exact relay_exact_proof. Qed.
Print Assumptions relay_exact.

(* the invariant behind it holds after every single event, not only at the end *)
Theorem invariant_after_every_event :
  forall f T s, DInv T s -> DInv T (out_state (dstep f T s)).
Proof. exact dstep_inv. Qed.
Print Assumptions invariant_after_every_event.

(* cancelling the copy loops (idle-timer restart) loses nothing: the pending chunk is kept *)
Theorem restart_preserves :
  forall f t p, Inv p -> iter_start p <= t ->
    Inv (restart f t p) /\ pending (restart f t p) = pending p
    /\ delivered (restart f t p) = delivered p /\ read_log (restart f t p) = read_log p.
Proof. intros f t p I H. split; [apply Inv_restart; assumption|repeat split]. Qed.
Print Assumptions restart_preserves.

(* the code still has the modelled shape (regenerated from pipe.rs) *)
Theorem pipe_code_as_modelled :
  PIPE_CHUNK_ARM_AS_MODELLED = true /\ PIPE_EOF_ARM_AS_MODELLED = true
  /\ PIPE_AWAITS_AS_MODELLED = true /\ PIPE_SELECT_AS_MODELLED = true.
Proof. repeat split; exact eq_refl. Qed.
Print Assumptions pipe_code_as_modelled.

(* HTTP/3: what the tunnel's source reads once the client has abandoned its request stream (RESET_STREAM). The read side of
   Model/H3Stream.v, with the check that the regenerated fact pins: whatever else the client did before or after, and whatever
   quiche's stream_finished says, a stream whose reset the codec has handled is a FAILED read (which [relay_exact] turns into the
   tear-down of the whole tunnel), never the end of the upload. *)
Theorem h3_client_reset_is_a_read_failure :
  H3_SOURCE_RESET_IS_A_READ_FAILURE = true
  /\ (forall evs, In ClientReset evs -> h3_read_empty H3_SOURCE_RESET_IS_A_READ_FAILURE (h3src_run evs) = SrcErr)
  (* an end of the upload is reported only for a stream that was never reset, and that the client finished *)
  /\ (forall evs, h3_read_empty H3_SOURCE_RESET_IS_A_READ_FAILURE (h3src_run evs) = SrcEof ->
        ~ In ClientReset evs /\ In ClientFin evs).
Proof. split; [exact eq_refl|exact h3_reset_read_proof]. Qed.
Print Assumptions h3_client_reset_is_a_read_failure.

(* the history of the finding, without the check: the client uploads, resets its stream while the source is busy writing to a
   destination that does not read; the codec handles the reset (stream shut down and forgotten); the next read is an end of stream *)
Example h3_reset_read_as_end_of_upload_without_the_check :
  h3_read_empty false (h3src_run [ClientReset]) = SrcEof /\ h3_read_empty true (h3src_run [ClientReset]) = SrcErr
  /\ h3_read_empty true (h3src_run [ClientFin]) = SrcEof /\ h3_read_empty true (h3src_run []) = SrcWait.
Proof. vm_compute. repeat split. Qed.

(* Non-vacuity: partial writes, a restart in the middle, clean end *)
Example ex_relay :
  let el := {| reads := [RChunk 10 [1;2;3;4;5]; REof 2500]; writes := [WAccept 2; WAccept 1];
               waits := [AOk 1200; AOk 1300]; eof_err := false; flushes := [AOk 2500] |} in
  let er := {| reads := [RChunk 900 [9]; REof 2400]; writes := []; waits := []; eof_err := false;
               flushes := [AOk 2450] |} in
  match duplex true 1000 el er with
  | (DOk, s) => delivered (pl s) = [1;2;3;4;5] /\ delivered (pr s) = [9]
  | _ => False
  end.
Proof. vm_compute. split; reflexivity. Qed.
Example ex_failure :
  fst (duplex true 1000
         {| reads := [RChunk 10 [1;2]]; writes := [WErr]; waits := []; eof_err := false; flushes := [] |}
         {| reads := [REof 5]; writes := []; waits := []; eof_err := false; flushes := [AOk 6] |}) = DError.
Proof. vm_compute. reflexivity. Qed.
