From TT Require Import Lib.BytesL.
Theorem placeholder : True. Proof. exact I. Qed.
Print Assumptions placeholder.
