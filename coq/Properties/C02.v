(* C02 — TCP tunnel relays the byte stream exactly, both ways.
   Statements about the timed model of pipe.rs (Model/Pipe.v) for EVERY pair of endpoint scripts:
   all chunkings, partial-acceptance patterns, arrival / readiness instants (hence every
   interleaving and every idle-timer restart) and every position of a read, write, wait, eof or
   flush failure. *)
From Coq Require Import List NArith Bool.
(* H3Stream first: the names it shares with the pipe model (delivered) mean the pipe's below *)
From TT Require Import Model.H3Stream Proofs.H3StreamProofs.
From TT Require Import Lib.BytesL Model.Pipe Generated.PipeFacts Proofs.PipeProofs.
Import ListNotations.
Open Scope N_scope.

Theorem relay_exact :
  forall f T el er res s,
    duplex f T el er = (res, s) ->
    (* whenever and however the tunnel stops: no loss inside the delivered prefix, no duplication,
       no reordering; receive-window credit = metrics = bytes actually forwarded *)
    (forall p, p = pl s \/ p = pr s ->
       (exists rest, delivered p ++ rest = read_log p)
       /\ consumed p = lenN (delivered p) /\ metric p = lenN (delivered p))
    (* clean end: every byte read was delivered, then end-of-stream passed on and flushed *)
    /\ (res = DOk -> forall p, p = pl s \/ p = pr s ->
          delivered p = read_log p /\ 1 <= eof_calls p /\ 1 <= flush_done p)
    (* a failure on either side tears the whole tunnel down *)
    /\ ((ph (pl s) = PFailed \/ ph (pr s) = PFailed) <-> res = DError).
Proof. exact relay_exact_proof. Qed.
Print Assumptions relay_exact.

(* the invariant behind it holds after every single event, not only at the end *)
Theorem invariant_after_every_event :
  forall f T s, DInv T s -> DInv T (out_state (dstep f T s)).
Proof. exact dstep_inv. Qed.
Print Assumptions invariant_after_every_event.

(* cancelling the copy loops (idle-timer restart) loses nothing: the pending chunk is kept *)
Theorem restart_preserves :
  forall f t p, Inv p -> iter_start p <= t ->
    Inv (restart f t p) /\ pending (restart f t p) = pending p
    /\ delivered (restart f t p) = delivered p /\ read_log (restart f t p) = read_log p.
Proof. intros f t p I H. split; [apply Inv_restart; assumption|repeat split]. Qed.
Print Assumptions restart_preserves.

(* the code still has the modelled shape (regenerated from pipe.rs) *)
Theorem pipe_code_as_modelled :
  PIPE_CHUNK_ARM_AS_MODELLED = true /\ PIPE_EOF_ARM_AS_MODELLED = true
  /\ PIPE_AWAITS_AS_MODELLED = true /\ PIPE_SELECT_AS_MODELLED = true.
Proof. repeat split; exact eq_refl. Qed.
Print Assumptions pipe_code_as_modelled.

(* HTTP/3: what the tunnel's source reads once the client has abandoned its request stream (RESET_STREAM). The read side of
   Model/H3Stream.v, with the two checks that the regenerated facts pin: whatever else the client did before or after, whatever
   quiche's stream_finished says, and whether or not the codec has been told of the reset and has handled it, a stream the client
   has reset is a FAILED read (which [relay_exact] turns into the tear-down of the whole tunnel), never the end of the upload:
   the source learns of the reset from the codec's flag, or from the connection, which it asks before it trusts stream_finished. *)
Theorem h3_client_reset_is_a_read_failure :
  H3_SOURCE_RESET_IS_A_READ_FAILURE = true /\ H3_SOURCE_ASKS_THE_CONNECTION = true
  /\ (forall told evs, In ClientReset evs ->
        h3_read_empty H3_SOURCE_RESET_IS_A_READ_FAILURE H3_SOURCE_ASKS_THE_CONNECTION (h3src_run told evs) = SrcErr)
  (* an end of the upload is reported only for a stream that was never reset, and that the client finished *)
  /\ (forall told evs, h3_read_empty H3_SOURCE_RESET_IS_A_READ_FAILURE H3_SOURCE_ASKS_THE_CONNECTION (h3src_run told evs) = SrcEof ->
        ~ In ClientReset evs /\ In ClientFin evs).
Proof. split; [exact eq_refl|split; [exact eq_refl|exact h3_reset_read_proof]]. Qed.
Print Assumptions h3_client_reset_is_a_read_failure.

(* the histories of the two findings. Without the flag: the client uploads, resets its stream while the source is busy writing to
   a destination that does not read; the codec handles the reset (stream shut down and forgotten); the next read is an end of
   stream. Without the question to the connection: the client resets its stream right behind its last DATA frames; quiche's HTTP/3
   layer reports Data, then Finished, the codec is never told of a reset (or the source reads before the codec has handled it):
   the flag is down, stream_finished is true, the read is an end of stream *)
Example h3_reset_read_as_end_of_upload_without_the_check :
  h3_read_empty false false (h3src_run true [ClientReset]) = SrcEof /\ h3_read_empty true false (h3src_run true [ClientReset]) = SrcErr
  /\ h3_read_empty true false (h3src_run false [ClientReset]) = SrcEof /\ h3_read_empty true true (h3src_run false [ClientReset]) = SrcErr
  /\ h3_read_empty true true (h3src_run false [ClientFin]) = SrcEof /\ h3_read_empty true true (h3src_run false []) = SrcWait.
Proof. vm_compute. repeat split. Qed.

(* Non-vacuity: partial writes, a restart in the middle, clean end *)
Example ex_relay :
  let el := {| reads := [RChunk 10 [1;2;3;4;5]; REof 2500]; writes := [WAccept 2; WAccept 1];
               waits := [AOk 1200; AOk 1300]; eof_err := false; flushes := [AOk 2500] |} in
  let er := {| reads := [RChunk 900 [9]; REof 2400]; writes := []; waits := []; eof_err := false;
               flushes := [AOk 2450] |} in
  match duplex true 1000 el er with
  | (DOk, s) => delivered (pl s) = [1;2;3;4;5] /\ delivered (pr s) = [9]
  | _ => False
  end.
Proof. vm_compute. split; reflexivity. Qed.
Example ex_failure :
  fst (duplex true 1000
         {| reads := [RChunk 10 [1;2]]; writes := [WErr]; waits := []; eof_err := false; flushes := [] |}
         {| reads := [REof 5]; writes := []; waits := []; eof_err := false; flushes := [AOk 6] |}) = DError.
Proof. vm_compute. reflexivity. Qed.
