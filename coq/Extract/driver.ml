(* Line-protocol runner for the extracted models.
   stdin : "<engine> <tok> <tok> ..."   tok = "-" | n,n,n
   stdout: "<tok> <tok> ..." *)
open BinNums

let rec pos_of_int (n : int) : positive =
  if n = 1 then Coq_xH
  else if n land 1 = 1 then Coq_xI (pos_of_int (n lsr 1))
  else Coq_xO (pos_of_int (n lsr 1))

let n_of_int (n : int) : coq_N = if n = 0 then N0 else Npos (pos_of_int n)

let rec int_of_pos (p : positive) : int =
  match p with
  | Coq_xH -> 1
  | Coq_xO q -> 2 * int_of_pos q
  | Coq_xI q -> 2 * int_of_pos q + 1

let int_of_n (n : coq_N) : int = match n with N0 -> 0 | Npos p -> int_of_pos p

let parse_tok (t : string) : coq_N list =
  if t = "-" then []
  else Stdlib.List.map (fun s -> n_of_int (int_of_string s)) (String.split_on_char ',' t)

let render_tok (t : coq_N list) : string =
  match t with
  | [] -> "-"
  | _ -> String.concat "," (Stdlib.List.map (fun n -> string_of_int (int_of_n n)) t)

let () =
  try
    while true do
      let line = input_line stdin in
      let parts = Stdlib.List.filter (fun s -> s <> "") (String.split_on_char ' ' line) in
      match parts with
      | [] -> ()
      | engine :: toks ->
        let f = Dispatch.find engine in
        let out = f (Stdlib.List.map parse_tok toks) in
        print_string (String.concat " " (Stdlib.List.map render_tok out));
        print_newline ()
    done
  with End_of_file -> ()
