(* Uniform executable interface of the models for the correspondence run: every engine maps a
   list of token lists (naturals) to a list of token lists, mirrored by harness/src/engines. *)
From Coq Require Import List NArith Bool.
From TT Require Import Lib.Res Lib.BytesL Model.UdpCodec Spec.UdpWire.
Import ListNotations.
Open Scope N_scope.

Definition PANIC_TOK : list (list N) := [[999]].
Definition FUEL_TOK : list (list N) := [[998]].
Definition REJECT_TOK : list (list N) := [[997]].

Definition res_toks {A} (r : res A) (f : A -> list (list N)) : list (list N) :=
  match r with Ok a => f a | Reject => REJECT_TOK | Panic => PANIC_TOK | Fuel => FUEL_TOK end.

Definition ip_bytes (a : ipaddr) : list N :=
  if fam a =? 4 then to_be 4 (ipv a) else to_be 16 (ipv a).

Definition render_dgram (g : dgram) : list (list N) :=
  [ [fam (sip (d_src g)); sport (d_src g); fam (sip (d_dst g)); sport (d_dst g);
     match d_app g with Some _ => 1 | None => 0 end];
    ip_bytes (sip (d_src g)); ip_bytes (sip (d_dst g));
    match d_app g with Some a => a | None => [] end;
    d_payload g ].

Definition render_chunk_out (out : list dgram) : list (list N) :=
  [1000 + lenN out] :: flat_map render_dgram out.

Definition c06_decode (toks : list (list N)) : list (list N) :=
  res_toks (run dec_init toks) (fun r => flat_map render_chunk_out (snd r)).

(* spec oracle: the datagrams of the whole stream, ignoring which chunk completed them *)
Definition c06_spec (toks : list (list N)) : list (list N) :=
  flat_map render_dgram (spec_decode_stream (concat toks)).

Definition mk_sockaddr (f : N) (ip : list N) (p : N) : sockaddr :=
  {| sip := {| fam := f; ipv := be ip |}; sport := p |}.

(* in: [sfam; sport; dfam; dport] sip-bytes dip-bytes payload *)
Definition c06_encode (toks : list (list N)) : list (list N) :=
  match toks with
  | [sf; sp; df; dp] :: sipb :: dipb :: rest =>
    [encode_packet (mk_sockaddr sf sipb sp) (mk_sockaddr df dipb dp)
                   (match rest with p :: _ => p | [] => [] end)]
  | _ => REJECT_TOK
  end.

Definition c06_encode_spec (toks : list (list N)) : list (list N) :=
  match toks with
  | [sf; sp; df; dp] :: sipb :: dipb :: rest =>
    [spec_encode (mk_sockaddr sf sipb sp) (mk_sockaddr df dipb dp)
                 (match rest with p :: _ => p | [] => [] end)]
  | _ => REJECT_TOK
  end.

(* ---------------- C11 / C09: ICMP ---------------- *)
From TT Require Import Model.Icmp Generated.Consts Generated.IcmpWaiterFacts.

Definition c11_checksum (toks : list (list N)) : list (list N) :=
  res_toks (rfc1071_checksum (match toks with b :: _ => b | [] => [] end)) (fun c => [[0; c]]).

Definition c11_serialize_echo (toks : list (list N)) : list (list N) :=
  match toks with
  | [v6; id; seq] :: rest =>
    res_toks (echo_serialize (if v6 =? 1 then V6_ECHO_REQUEST else V4_ECHO) id seq
                             (match rest with d :: _ => d | [] => [] end))
             (fun b => [b])
  | _ => REJECT_TOK
  end.

Definition render_request (q : icmp_request) : list (list N) :=
  [ [fam (rq_peer q); (if fam (rq_peer q) =? 4 then 0 else 1); rq_id q; rq_seq q; rq_ttl q; rq_size q];
    ip_bytes (rq_peer q) ].

Definition c11_decode_requests (toks : list (list N)) : list (list N) :=
  res_toks (icmp_run [] toks)
           (fun r => flat_map (fun out => [1000 + lenN out] :: flat_map render_request out) (snd r)).

Definition c11_skip_header (toks : list (list N)) : list (list N) :=
  match toks with
  | [v6] :: rest =>
    let p := match rest with p :: _ => p | [] => [] end in
    res_toks (if v6 =? 1 then skip_ipv6_header p else skip_ipv4_header p)
             (fun r => match r with Some (proto, payload) => [[proto]; payload] | None => REJECT_TOK end)
  | _ => REJECT_TOK
  end.

Definition c11_parse_message (toks : list (list N)) : list (list N) :=
  match toks with
  | [v6; pf] :: peer :: rest =>
    let p := match rest with p :: _ => p | [] => [] end in
    let pa := {| fam := pf; ipv := be peer |} in
    res_toks (m <- (if v6 =? 1 then v6_deserialize p else v4_deserialize p) ;;
              k <- responded_echo_request m ;;
              e <- icmp_encode pa m ;;
              Ok (m, k, e))
             (fun r =>
                let '(m, k, e) := r in
                [ [m_type m; m_code m; msg_len m;
                   (match k with Some _ => 1 | None => 0 end);
                   (match e with Some _ => 1 | None => 0 end)];
                  (match k with Some (id, seq, _) => [id; seq] | None => [] end);
                  (match k with Some (_, _, d) => d | None => [] end);
                  (match e with Some b => b | None => [] end) ])
  | _ => REJECT_TOK
  end.

Definition c11_echo_eq (toks : list (list N)) : list (list N) :=
  match toks with
  | [i1; s1] :: d1 :: [i2; s2] :: rest =>
    let k2 := (i2, s2, match rest with d :: _ => d | [] => [] end) in
    [[if echo_eq (i1, s1, d1) k2 then 1 else 0; if waiter_found ECHO_HASH_OF_ID_AND_SEQ (i1, s1, d1) k2 then 1 else 0]]
  | _ => REJECT_TOK
  end.

From TT Require Import Spec.Rfc1071.
Definition c11_verify (toks : list (list N)) : list (list N) :=
  [[if verifies (match toks with b :: _ => b | [] => [] end) then 1 else 0]].

(* C11 live loopback scenario. Environment model (not part of the verified model): an echo request
   sent to a loopback address is answered at once by the kernel with an echo reply from that
   address carrying the same identifier, sequence number and data. An IPv4 request with a TTL of 0
   (setsockopt IP_TTL: EINVAL), with more than 65507 octets of data (EMSGSIZE) or for 255.255.255.255
   (EACCES without SO_BROADCAST) cannot be sent: the sink answers "dropped". *)
From TT Require Import Model.IcmpWaiters.

Record live := {
  lw : wstate; lnow : N;
  lq : list (N * list (list (list N)))       (* client -> queued rendered replies *)
}.

Fixpoint lq_get (q : list (N * list (list (list N)))) (c : N) : list (list (list N)) :=
  match q with [] => [] | p :: r => if fst p =? c then snd p else lq_get r c end.
Fixpoint lq_set (q : list (N * list (list (list N)))) (c : N) (v : list (list (list N))) :=
  match q with
  | [] => [(c, v)]
  | p :: r => if fst p =? c then (c, v) :: r else p :: lq_set r c v
  end.

Definition live_packet (T cap : N) (st : live) (k : echo_key) (ip : list N) (ty : N) : live :=
  let '(w1, d) := wstep T cap (lw st) (WPacket k) in
  match d with
  | Some c =>
    let '(id, seq, _) := k in
    {| lw := w1; lnow := lnow st;
       lq := lq_set (lq st) c (lq_get (lq st) c ++ [[[2; 1; ty; 0; 1; id; seq]; ip]]) |}
  | None => {| lw := w1; lnow := lnow st; lq := lq st |}
  end.

Definition live_expire (T cap : N) (st : live) : live :=
  {| lw := fst (wstep T cap (lw st) (WExpire (lnow st))); lnow := lnow st; lq := lq st |}.

Fixpoint live_run (fuel : nat) (T cap : N) (st : live) (ops : list (list N)) : list (list N) :=
  match fuel with
  | O => []
  | S f =>
    let st := live_expire T cap st in
    match ops with
    | [1; c; id; seq; ttl] :: ip :: data :: rest =>
      let k := (id, seq, data) in
      let unsendable := (lenN ip =? 4)
                        && ((ttl =? 0) || (65507 <? lenN data) || list_eqb N.eqb ip [255; 255; 255; 255]) in
      if unsendable then
        [1; 0] :: live_run f T cap
                    {| lw := fst (wstep T cap (lw st) (WSendFailed c k (lnow st))); lnow := lnow st; lq := lq st |} rest
      else
      let w1 := fst (wstep T cap (lw st) (WSend c k (lnow st))) in
      let st1 := {| lw := w1; lnow := lnow st; lq := lq st |} in
      let loopback := match ip with
                      | [a; _; _; _] => a =? 127
                      | _ => list_eqb N.eqb ip [0;0;0;0;0;0;0;0;0;0;0;0;0;0;0;1]
                      end in
      let st2 := if loopback then live_packet T cap st1 k ip (if lenN ip =? 4 then 0 else 129)
                 else st1 in
      [1; 1] :: live_run f T cap st2 rest
    | [2; c; wait] :: rest =>
      match lq_get (lq st) c with
      | m :: more =>
        m ++ live_run f T cap
               {| lw := fst (wstep T cap (lw st) (WRecv c)); lnow := lnow st;
                  lq := lq_set (lq st) c more |} rest
      | [] => [2; 0] :: [] :: live_run f T cap {| lw := lw st; lnow := lnow st + wait; lq := lq st |} rest
      end
    | [3] :: rest =>
      [3; lenN (table (lw st)); lenN (deadlines (lw st))] :: live_run f T cap st rest
    | [4; ms] :: rest =>
      [4] :: live_run f T cap {| lw := lw st; lnow := lnow st + ms; lq := lq st |} rest
    | [5; id; seq] :: data :: rest =>
      [5; 1] :: live_run f T cap (live_packet T cap st (id, seq, data) [127; 0; 0; 1] 0) rest
    | _ => []
    end
  end.

Definition c11_live (toks : list (list N)) : list (list N) :=
  match toks with
  | [T; cap; n] :: ops =>
    live_run (S (length ops)) T cap {| lw := winit; lnow := 0; lq := [] |} ops
  | _ => REJECT_TOK
  end.

(* ---------------- C03 ---------------- *)
From TT Require Import Model.IpStd Generated.GlobalIp Model.ConnectPolicy Spec.IanaSpecial.

Definition addr_of_bytes (b : list N) : addr :=
  {| afam := if lenN b =? 4 then 4 else 6; aip := be b |}.

Definition c03_is_global (toks : list (list N)) : list (list N) :=
  [map (fun b => if is_global_ip (addr_of_bytes b) then 1 else 0) toks].

(* spec verdict per address: 0 = must be refused, 1 = must be allowed, 2 = unconstrained *)
Definition c03_spec (toks : list (list N)) : list (list N) :=
  [map (fun b =>
          let a := addr_of_bytes b in
          if afam a =? 4 then (if in_ranges (aip a) non_global_v4 then 0 else 1)
          else if special_v6 (aip a) then 0 else if global_unicast_v6 (aip a) then 1 else 2) toks].

Definition c03_ranges (toks : list (list N)) : list (list N) :=
  map (fun r => [fst r; snd r]) non_global_v4.

Fixpoint split17 (fuel : nat) (l : list N) : list addr :=
  match fuel with
  | O => []
  | S f => match l with
           | [] => []
           | fam_ :: rest =>
             {| afam := fam_; aip := be (if fam_ =? 4 then dropN 12 (takeN 16 rest) else takeN 16 rest) |}
             :: split17 f (dropN 16 rest)
           end
  end.

Definition render_decision (d : decision) : list (list N) :=
  match d with
  | ConnectTo a => [[0; afam a]; if afam a =? 4 then to_be 4 (aip a) else to_be 16 (aip a)]
  | RefuseLoopback => [[1]; []]
  | RefuseNonroutable => [[2]; []]
  | ResolveFailed => [[5]; []]
  end.

(* in: [allow; v6ok] then per destination: [kind] payload answers(17 bytes each) *)
Fixpoint c03_connect_go (fuel : nat) (allow v6ok : bool) (ds : list (list N)) : list (list N) :=
  match fuel with
  | O => []
  | S f =>
    match ds with
    | [kind] :: payload :: answers :: rest =>
      render_decision
        (if kind =? 1 then decide_literal allow (addr_of_bytes payload)
         else decide_hostname allow v6ok (split17 (length answers) answers))
      ++ c03_connect_go f allow v6ok rest
    | _ => []
    end
  end.

Definition c03_connect (toks : list (list N)) : list (list N) :=
  match toks with
  | [a; v] :: ds => c03_connect_go (length ds) (a =? 1) (v =? 1) ds
  | _ => REJECT_TOK
  end.

(* ---------------- C04 ---------------- *)
From TT Require Import Model.Rules Generated.RulesFacts.

Definition c04_cidr (kind : N) (payload : list N) : cidr_field :=
  if kind =? 0 then CNone
  else if kind =? 1 then CBad
  else match payload with
       | f :: l :: a => CNet f (be a) l
       | _ => CBad
       end.

Definition c04_pat (kind : N) (p m : list N) : pat_field :=
  if kind =? 0 then PNone else if kind =? 1 then PBad
  else if kind =? 2 then PPrefix p else PMasked p m.

Fixpoint c04_rules (n : nat) (toks : list (list N)) : list rule * list (list N) :=
  match n with
  | O => ([], toks)
  | S k =>
    match toks with
    | [act; ck; pk] :: c :: p :: m :: rest =>
      let '(rs, tl) := c04_rules k rest in
      ({| r_cidr := c04_cidr ck c; r_pat := c04_pat pk p m;
          r_action := if act =? 0 then Allow else Deny |} :: rs, tl)
    | _ => ([], toks)
    end
  end.

Definition act_code (a : action) : N := match a with Allow => 0 | Deny => 1 end.

Definition c04_eval (toks : list (list N)) : list (list N) :=
  match toks with
  | [n; _] :: rest =>
    match c04_rules (N.to_nat n) rest with
    | (rules, [has] :: peer :: tl) =>
      let cr := if has =? 1 then Some (match tl with c :: _ => c | [] => [] end) else None in
      let a := addr_of_bytes peer in
      [[act_code (evaluate rules a cr);
        act_code (connection_verdict RULES_ON_CANONICAL_PEER rules a cr)]]
    | _ => REJECT_TOK
    end
  | _ => REJECT_TOK
  end.

(* ---------------- C15 ---------------- *)
From TT Require Import Model.Socks5 Spec.Rfc1928.

Fixpoint c15_vals (fuel : nat) (a : list N) : list (N * list N) :=
  match fuel with
  | O => []
  | S f =>
    match a with
    | t :: h :: l :: rest =>
      let n := h * 256 + l in (t, takeN n rest) :: c15_vals f (dropN n rest)
    | _ => []
    end
  end.

Definition c15_auth (k : N) (a b : list N) : s_auth :=
  if k =? 0 then ANone else if k =? 1 then AUserPass a b else AExt (c15_vals (length a) a).

Definition outcome_toks (o : s_outcome) : list N :=
  match o with
  | OTcp => [0; 0] | OFailure c => [1; c] | OIo => [2; 0] | OProtocol => [3; 0] | OAuth => [4; 0]
  end.

Definition c15_connect (toks : list (list N)) : list (list N) :=
  match toks with
  | [ak; dk; port] :: a :: b :: dest :: segs =>
    let d := if dk =? 3 then DDomain dest else DIp dest in
    let '(em, o) := connect (c15_auth ak a b) d port (concat segs) in
    [outcome_toks o; concat (map em_bytes em); connect_rest (c15_auth ak a b) d port (concat segs)]
  | _ => REJECT_TOK
  end.

(* spec oracle on the bytes the implementation wrote: can they be split into well-formed
   messages (selection, then optionally authentication, then optionally request)?
   in: [ak] client-bytes.  out: [1|0] *)
(* C15 end to end: the endpoint with a SOCKS5 upstream. in: [ext; with_creds; method; auth status; reply code; atyp; tail length; _;
   destination kind; request form (0 CONNECT :443 | 1 GET without a port = 80 | 2 GET :8080 | 3 GET someone@...:8080);
   credentials (0 u1:p1 | 1 :p1 | 2 u1: | 3 u1:p1 and a User-Agent field with an empty value)]
   out: [status; X-Warning; tunnel intact] bytes-the-server-received *)
Definition c15_front (toks : list (list N)) : list (list N) :=
  match toks with
  | (ext :: creds :: method :: st :: code :: atyp :: tail_n :: _ :: more) :: _ =>
    let dk := nth 0 more 0 in
    let form := nth 1 more 0 in
    let cv := nth 2 more 0 in
    let port := if form =? 1 then 80 else if (form =? 2) || (form =? 3) then 8080 else 443 in
    let name := [101; 120; 97; 109; 112; 108; 101; 46; 111; 114; 103] in          (* example.org *)
    let dest := if dk =? 1 then DIp [203; 0; 113; 9]
                else if dk =? 2 then DIp [32; 1; 13; 184; 0; 0; 0; 0; 0; 0; 0; 0; 0; 0; 0; 7]
                else if dk =? 3 then DIp [0; 0; 0; 0; 0; 0; 0; 0; 0; 0; 255; 255; 203; 0; 113; 9]
                else DDomain name in
    let tok64 := if cv =? 1 then [79; 110; 65; 120]                               (* OnAx = :p1 *)
                 else if cv =? 2 then [100; 84; 69; 54]                           (* dTE6 = u1: *)
                 else [100; 84; 69; 54; 99; 68; 69; 61] in                        (* dTE6cDE= = u1:p1 *)
    (* the client's User-Agent field: "verif-agent", or present with an empty value *)
    let agent := if cv =? 3 then Some [] else Some [118; 101; 114; 105; 102; 45; 97; 103; 101; 110; 116] in
    let a := if creds =? 0 then ANone
             else if ext =? 1 then AExt (make_extended_auth [108; 111; 99; 97; 108; 104; 111; 115; 116] [127; 0; 0; 1]
                                                            agent (SrcBasic tok64))
             else match make_auth_basic tok64 with
                  | Some (u, p) => AUserPass u p
                  | None => ANone
                  end in
    let tail := map (fun i => 160 + N.of_nat i) (seq 0 (N.to_nat tail_n)) in
    let bound := if atyp =? 1 then [127; 0; 0; 1] else if atyp =? 4 then repeat 0 16
                 else 9 :: [98; 111; 117; 110; 100; 46; 116; 115; 116] in
    let server := [5; method] ++ (if (method =? 2) || (method =? 128) then [1; st] else [])
                  ++ [5; code; 0; atyp] ++ bound ++ [31; 144] ++ tail in
    let '(em, o) := connect a dest port server in
    let '(status, warn) := socks_result o in
    let intact := match o with OTcp => if list_eqb N.eqb (connect_rest a dest port server) tail then 1 else 0 | _ => 0 end in
    [[status; warn; intact]; concat (map em_bytes em)]
  | _ => REJECT_TOK
  end.

Definition c15_wellformed (toks : list (list N)) : list (list N) :=
  match toks with
  | [ak] :: bytes_ :: _ =>
    let sel_ok := match spec_selection (takeN 4 bytes_) with Some _ => true | None => false end in
    let rest := dropN 4 bytes_ in
    let req_ok (m : list N) := match spec_request m with Some _ => true | None => false end in
    (* try every split point of rest into auth ++ request *)
    let fix try_split (n : nat) : bool :=
        let a := firstn n rest in
        let r := skipn n rest in
        let a_ok := is_nil a
                    || (if ak =? 1 then match spec_userpass a with Some _ => true | None => false end
                        else if ak =? 2 then match spec_ext a with Some _ => true | None => false end
                        else false) in
        let r_ok := is_nil r || req_ok r in
        (a_ok && r_ok) || match n with O => false | S k => try_split k end in
    [[if sel_ok && try_split (length rest) then 1 else 0]]
  | _ => REJECT_TOK
  end.

Definition c15_udp (toks : list (list N)) : list (list N) :=
  match toks with
  | [1; port] :: ip :: rest => [udp_wrap ip port (match rest with d :: _ => d | [] => [] end)]
  | [2; cap] :: rest =>
    (* UdpSocket::recv into a buffer of 22 + cap bytes truncates the datagram (environment) *)
    match udp_unwrap (takeN (22 + cap) (match rest with d :: _ => d | [] => [] end)) with
    | Ok (ip, port, data) => [[1; lenN data; port]; ip; takeN cap data]
    | Reject => [[0]]
    | Panic => PANIC_TOK
    | Fuel => FUEL_TOK
    end
  | _ => REJECT_TOK
  end.

Definition c15_make_auth (toks : list (list N)) : list (list N) :=
  match toks with
  | [k] :: v :: _ =>
    if k =? 1 then
      match make_auth_basic v with Some (u, p) => [[1]; u; p] | None => [[0]] end
    else [[1]; v; v]
  | [k] :: [] => if k =? 1 then [[0]] else [[1]; []; []]
  | _ => REJECT_TOK
  end.

(* ---------------- C05 ---------------- *)
From TT Require Import Model.TlsDemux Generated.DemuxFacts.

Fixpoint dec_names (fuel : nat) (b : list N) : list (list N) :=
  match fuel with
  | O => []
  | S f => match b with
           | [] => []
           | l :: r => takeN l r :: dec_names f (dropN l r)
           end
  end.

Fixpoint dec_alts (fuel : nat) (b : list N) : list (N * list N) :=
  match fuel with
  | O => []
  | S f => match b with
           | h :: l :: r => (h, takeN l r) :: dec_alts f (dropN l r)
           | _ => []
           end
  end.

Fixpoint mk_main (names : list (list N)) (alts : list (N * list N)) (idx : N) : list main_host :=
  match names with
  | [] => []
  | n :: r =>
    {| mh_name := n; mh_alts := map snd (filter (fun a => fst a =? idx) alts) |} :: mk_main r alts (idx + 1)
  end.

Definition c05_config (flags main alts rp ping speed : list N) : config :=
  match flags with
  | [h1; h2; h3; rpf] =>
    {| c_main := mk_main (dec_names (length main) main) (dec_alts (length alts) alts) 0;
       c_rp := dec_names (length rp) rp; c_ping := dec_names (length ping) ping;
       c_speed := dec_names (length speed) speed;
       c_h1 := h1 =? 1; c_h2 := h2 =? 1; c_h3 := h3 =? 1; c_rp_enabled := rpf =? 1 |}
  | _ => {| c_main := []; c_rp := []; c_ping := []; c_speed := [];
            c_h1 := false; c_h2 := false; c_h3 := false; c_rp_enabled := false |}
  end.

Definition chan_code (c : channel) : N :=
  match c with ChTunnel => 0 | ChPing => 1 | ChSpeed => 2 | ChRevProxy => 3 end.

Definition render_meta (r : option meta) : list (list N) :=
  match r with
  | None => [[0]]
  | Some m => [[1; chan_code (m_channel m); proto_rank (m_proto m); m_host m;
                match m_creds m with Some _ => 1 | None => 0 end];
               match m_creds m with Some c => c | None => [] end]
  end.

Fixpoint c05_queries (fuel : nat) (c : config) (qs : list (list N)) : list (list N) :=
  match fuel with
  | O => []
  | S f => match qs with
           | alpn :: sni :: rest =>
             render_meta (select c (dec_names (length alpn) alpn) sni) ++ c05_queries f c rest
           | _ => []
           end
  end.

Definition c05_select (toks : list (list N)) : list (list N) :=
  match toks with
  | flags :: main :: alts :: rp :: ping :: speed :: qs =>
    let c := c05_config flags main alts rp ping speed in
    if valid_hosts c then c05_queries (length qs) c qs else [[2]]
  | _ => REJECT_TOK
  end.

(* the QUIC listener: the ALPN token of a query is ignored (the listener speaks h3 only); out per query [1; channel] *)
Fixpoint c05_quic_queries (fuel : nat) (c : config) (qs : list (list N)) : list (list N) :=
  match fuel with
  | O => []
  | S f => match qs with
           | _ :: sni :: rest =>
             [1; chan_code (m_channel (select_quic QUIC_SERVES_THE_SELECTION_OR_BOOTSTRAP c 0 (Some sni)))] :: c05_quic_queries f c rest
           | _ => []
           end
  end.

Definition c05_select_quic (toks : list (list N)) : list (list N) :=
  match toks with
  | flags :: main :: alts :: rp :: ping :: speed :: qs =>
    let c := c05_config flags main alts rp ping speed in
    if valid_hosts c then c05_quic_queries (length qs) c qs else [[2]]
  | _ => REJECT_TOK
  end.

Fixpoint c05_ops (fuel : nat) (flags : list N) (cur : config) (ops : list (list N)) : list (list N) :=
  match fuel with
  | O => []
  | S f =>
    match ops with
    | [1] :: alpn :: sni :: rest =>
      render_meta (select cur (dec_names (length alpn) alpn) sni) ++ c05_ops f flags cur rest
    | [2] :: main :: alts :: rp :: ping :: speed :: rest =>
      let c := c05_config flags main alts rp ping speed in
      let '(nxt, _) := dstep cur (DReload c true) in
      [3; if valid_hosts c then 1 else 0] :: c05_ops f flags nxt rest
    | [2; _] :: main :: alts :: rp :: ping :: speed :: rest =>
      (* unloadable certificate / duplicate names read from a hosts file: the reload fails *)
      [3; 0] :: c05_ops f flags cur rest
    | _ => []
    end
  end.

Definition c05_history (toks : list (list N)) : list (list N) :=
  match toks with
  | flags :: main :: alts :: rp :: ping :: speed :: ops =>
    c05_ops (length ops) flags (c05_config flags main alts rp ping speed) ops
  | _ => REJECT_TOK
  end.

(* C04 at the real listener: the composite front-door model on the harness's endpoint (one main host "localhost",
   HTTP/1.1 and HTTP/2 enabled), a ClientHello for that host offering http/1.1.
   in: the rule tokens of c04_eval, then [has random] peer random.  out: [refused; refused]  (1 = the handshake is not answered) *)
From TT Require Import Model.FrontDoor.
Definition c04_front (toks : list (list N)) : list (list N) :=
  match toks with
  | [n; _] :: rest =>
    match c04_rules (N.to_nat n) rest with
    | (rules, [has] :: peer :: tl) =>
      let cr := if has =? 1 then Some (match tl with c :: _ => c | [] => [] end) else None in
      let name := [108; 111; 99; 97; 108; 104; 111; 115; 116] in
      let c := c05_config [1; 1; 0; 0] (9 :: name) [] [] [] [] in
      let h := {| h_sni := Some name; h_alpn := [[104; 116; 116; 112; 47; 49; 46; 49]]; h_random := cr |} in
      let r := if answered_handshake (front_tcp RULES_ON_CANONICAL_PEER RULES_DENY_DROPS RULES_BEFORE_TLS_ACCEPT
                                                rules c (addr_of_bytes peer) h) then 0 else 1 in
      [[r; r]]
    | _ => REJECT_TOK
    end
  | _ => REJECT_TOK
  end.

(* ---------------- C13 ---------------- *)
From TT Require Import Model.Settings.

(* in: [unspec; loopback; port; has_rp; rp_port; h1; h2; h3; nclients] rp-mask.  out: [0 ok | 1..4] *)
Definition c13_validate (toks : list (list N)) : list (list N) :=
  match toks with
  | [un; lo; port; hasrp; rpp; h1; h2; h3; nc] :: rest =>
    let mask := match rest with m :: _ => m | [] => [] end in
    let s := {| s_addr_unspecified := un =? 1; s_addr_loopback := lo =? 1; s_port := port;
                s_rp := if hasrp =? 1 then Some {| rp_port := rpp; rp_mask := mask |} else None;
                s_h1 := h1 =? 1; s_h2 := h2 =? 1; s_h3 := h3 =? 1;
                s_clients := repeat ([117], [112]) (N.to_nat nc) |} in
    [[match validate s with
      | None => 0 | Some ListenAddressNotSet => 1 | Some BadReverseProxy => 2
      | Some NoListenProtocol => 3 | Some NoCredentialsOnPublicAddress => 4 end]]
  | _ => REJECT_TOK
  end.

(* in: [n] then per client [has_user; has_pass] user pass, then probe tokens.
   out: [0] | [1; n] (user pass)* [verdicts] *)
Fixpoint c13_tables (n : nat) (toks : list (list N))
  : list (option (list N) * option (list N)) * list (list N) :=
  match n with
  | O => ([], toks)
  | S k => match toks with
           | [hu; hp] :: u :: p :: rest =>
             let '(ts, tl) := c13_tables k rest in
             ((if hu =? 1 then Some u else None, if hp =? 1 then Some p else None) :: ts, tl)
           | _ => ([], toks)
           end
  end.

Definition c13_clients (toks : list (list N)) : list (list N) :=
  match toks with
  | [n] :: rest =>
    let '(ts, probes) := c13_tables (N.to_nat n) rest in
    match read_clients true ts with
    | None => [[0]]
    | Some cs =>
      [1; lenN cs] :: flat_map (fun c => [fst c; snd c]) cs
      ++ [map (fun t => if authenticate cs t then 1 else 0) probes]
    end
  | _ => REJECT_TOK
  end.

(* ---------------- C02 / C14 ---------------- *)
From TT Require Import Model.Pipe.

Fixpoint gen_bytes (n : nat) (c : N) : list N :=
  match n with O => [] | S k => c :: gen_bytes k ((c + 1) mod 256) end.

Fixpoint dec_reads (fuel : nat) (t : list N) (c : N) : list read_ans :=
  match fuel with
  | O => []
  | S f =>
    match t with
    | k :: a :: l :: rest =>
      (if k =? 1 then RChunk a (gen_bytes (N.to_nat l) c)
       else if k =? 2 then REof a else if k =? 3 then RErr a else RNever)
      :: dec_reads f rest (if k =? 1 then (c + l) mod 256 else c)
    | _ => []
    end
  end.

Fixpoint dec_timed (fuel : nat) (t : list N) : list timed_ans :=
  match fuel with
  | O => []
  | S f =>
    match t with
    | k :: a :: rest => (if k =? 1 then AOk a else if k =? 3 then AErr a else ANever) :: dec_timed f rest
    | _ => []
    end
  end.

Definition dec_env (r w wa e fl : list N) (c0 : N) : penv :=
  {| reads := dec_reads (length r) r c0;
     writes := map (fun k => if k =? 999999 then WErr else WAccept k) w;
     waits := dec_timed (length wa) wa;
     eof_err := match e with x :: _ => x =? 1 | [] => false end;
     flushes := dec_timed (length fl) fl |}.

Fixpoint is_prefix_of (a b : list N) : bool :=
  match a, b with
  | [], _ => true
  | x :: a', y :: b' => (x =? y) && is_prefix_of a' b'
  | _ :: _, [] => false
  end.

Definition render_pipe (p : pstate) : list N :=
  [lenN (delivered p); consumed p; metric p; eof_calls p; flush_done p;
   if is_prefix_of (delivered p) (read_log p) then 1 else 0; lenN (read_log p)].

Definition c02_run_with (la_flag : bool) (toks : list (list N)) : list (list N) :=
  match toks with
  | [T] :: r1 :: w1 :: wa1 :: e1 :: f1 :: r2 :: w2 :: wa2 :: e2 :: f2 :: _ =>
    let '(res, s) := duplex la_flag T (dec_env r1 w1 wa1 e1 f1 0) (dec_env r2 w2 wa2 e2 f2 100) in
    [match res with
     | DOk => [0; now s] | DTimedOut => [1; now s] | DError => [2; now s]
     | DHang => [3; 0] | DFuel => [4; 0] end;
     render_pipe (pl s); render_pipe (pr s)]
  | _ => REJECT_TOK
  end.

From TT Require Import Generated.PipeFacts.
Definition c02_run (toks : list (list N)) : list (list N) := c02_run_with PIPE_LA_ON_TRANSFER_ONLY toks.

(* ------------------------------------------------------------------ *)
(* C07: UDP flow bookkeeping against real loopback sockets.
   Environment assumptions written into the engine (they are what the harness arranges):
   echo servers answer every datagram; the "DNS" destination answers and the flow's accounting is
   finished before the next operation; a datagram to a closed port leaves and is never answered (the queued ICMP error only makes
   a later send fail, which drops that datagram); the unconnectable destination refuses connect(); every operation
   carries its nominal time and the generator keeps idle times out of the window in which the
   tick phase decides. *)
From TT Require Import Model.UdpFlows.

Definition c07_kind (f : N) : N := N.min (f mod 8) 4.
Definition c07_meta (f : N) : meta := (1000 + f, c07_kind f).

Fixpoint c07_seen (k : N) (seen : list (N * N)) : option N :=
  match seen with
  | [] => None
  | (a, b) :: r => if a =? k then Some b else c07_seen k r
  end.

Fixpoint c07_ops (T : N) (s : ustate) (seen : list (N * N)) (ops : list (list N)) : list (list N) :=
  match ops with
  | [] => []
  | op :: rest =>
    match op with
    | [1; f; _; now] =>
      let s1 := fst (ustep T s (Tick now)) in
      let m := c07_meta f in
      let k := c07_kind f in
      let '(s2, outs) := ustep T s1 (ClientDgram m now (k =? 2) (negb (k =? 4)) true) in
      match outs with
      | [ToPeer m' sock] =>
        if k <? 3 then
          let '(id, seen') := match c07_seen sock seen with
                              | Some id => (id, seen)
                              | None => (lenN seen + 1, (sock, lenN seen + 1) :: seen)
                              end in
          let '(s3, outs2) := ustep T s2 (PeerDgram (reversed m') now) in
          match outs2 with
          | [ToClient l] => [1; 1; id; 1; if meta_eqb l (reversed m) then 1 else 0] :: c07_ops T s3 seen' rest
          | _ => [1; 1; id; 0; 0] :: c07_ops T s3 seen' rest
          end
        else
          (* closed port: the datagram leaves, nobody answers; the queued ICMP error is consumed by the
             next send on that socket (which is then dropped) and is not seen by the reader *)
          [1; 0; 0; 0; 0] :: c07_ops T s2 seen rest
      | _ => [1; 0; 0; 0; 0] :: c07_ops T s2 seen rest
      end
    | [2; _; now] => [2] :: c07_ops T (fst (ustep T s (Tick now))) seen rest
    | [3; now] =>
      let s1 := fst (ustep T s (Tick now)) in
      (if terminated s1 then [3; 0; 0] else [3; lenN (fwd s1); 1]) :: c07_ops T s1 seen rest
    | _ => [997] :: c07_ops T s seen rest
    end
  end.

Definition c07_run (toks : list (list N)) : list (list N) :=
  match toks with
  | [T] :: ops => c07_ops T uinit [] ops
  | _ => REJECT_TOK
  end.

(* C07: a socket error on the reading side of one flow, a later datagram on the same pair, a bystander
   flow, then everything idle for more than two timeouts.
   in: [T].  out: [q1 sent on; later datagram sent on; its reply labelled for the client; bystander; alive;
                   sockets left; the failed flow's socket released] *)
Definition c07_read_error (toks : list (list N)) : list (list N) :=
  match toks with
  | [T] :: _ =>
    let m := (1, 10) in let by_ := (2, 20) in
    let is_to_peer (o : list uout) := match o with [ToPeer _ _] => 1 | _ => 0 end in
    let '(s1, o_b1) := ustep T uinit (ClientDgram by_ 0 false true true) in
    let '(s2, o_q1) := ustep T s1 (ClientDgram m 0 false true true) in
    let '(s3, _) := ustep T s2 (PeerDgram (reversed m) 10) in
    let '(s4, _) := ustep T s3 (SocketErr m) in
    let sock1 := lookup m (fwd s2) in
    let '(s5, o_q3) := ustep T s4 (ClientDgram m 200 false true true) in
    let '(s6, o_r3) := ustep T s5 (PeerDgram (reversed m) 210) in
    let '(s7, o_b2) := ustep T s6 (ClientDgram by_ 300 false true true) in
    let '(s8, _) := ustep T s7 (Tick (300 + 2 * T + 400)) in
    [[is_to_peer o_q1; is_to_peer o_q3;
      match o_r3 with [ToClient k] => if meta_eqb k (reversed m) then 1 else 0 | _ => 0 end;
      N.min (is_to_peer o_b1) (is_to_peer o_b2);
      if terminated s8 then 0 else 1;
      lenN (fwd s8);
      match sock1 with
      | Some k => if existsb (fun kv => snd kv =? k) (fwd s8) then 0 else 1
      | None => 1
      end]]
  | _ => REJECT_TOK
  end.

(* C13: TlsHostsSettings::validate through both routes.
   in : [bad_group; bad_index; bad_kind] main rp ping speed [alts]   (bad_group 0 = every certificate loads; alts = the main hosts'
        alternative SNIs as in c05_select)
   out: [builder refused; Core::new refused] *)
Definition c13_hosts (toks : list (list N)) : list (list N) :=
  match toks with
  | (bg :: _) :: main :: rp :: ping :: speed :: rest =>
    let c := c05_config [1; 1; 1; 1] main (match rest with a :: _ => a | [] => [] end) rp ping speed in
    let ok := valid_hosts c && (bg =? 0) in
    [[if ok then 0 else 1; if ok then 0 else 1]]
  | _ => REJECT_TOK
  end.

(* ---------------- C08 ---------------- *)
From TT Require Import Model.Http1 Generated.Http1Facts.

Fixpoint c08_split (stream : list N) (sizes : list N) : list (list N) :=
  match sizes with
  | [] => match stream with [] => [] | _ => [stream] end
  | n :: r =>
    match stream with
    | [] => []
    | _ => let k := N.to_nat n in
           match firstn k stream with
           | [] => c08_split stream r
           | p => p :: c08_split (skipn k stream) r
           end
    end
  end.

(* in: [status; close_after] stream seg_sizes download.  out: [outcome; head_len] upload *)
Definition c08_run (toks : list (list N)) : list (list N) :=
  match toks with
  | _ :: stream :: sizes :: _ =>
    match listen parse_c HTTP1_PARTIAL_HEAD_READS_MORE (c08_split stream sizes) with
    | ORequest head rest => [[0; lenN head]; rest]
    | OClosed => [[1; 0]; []]
    | OFailed => [[2; 0]; []]
    | OFuel => [[995; 0]; []]
    end
  | _ => REJECT_TOK
  end.

(* ---------------- C17 ---------------- *)
(* the head writers. in: [0; minor; a; b; c] reason flat-headers rest   (response)
                         [1; minor; has_host] method target host flat-headers rest   (request)
   flat headers: n, name bytes, m, value bytes, ...
   out: the bytes written; [1] if reading them back under RFC 9112 gives the same fields (values up to leading blanks) and [rest] *)
From TT Require Import Model.Http1Wire Spec.Rfc9112.

Fixpoint dec_headers (fuel : nat) (l : list N) : list header :=
  match fuel with
  | O => []
  | S f =>
    match l with
    | [] => []
    | n :: r =>
      let name := takeN n r in
      match dropN n r with
      | m :: r2 => (name, takeN m r2) :: dec_headers f (dropN m r2)
      | [] => [(name, [])]
      end
    end
  end.

Definition headers_eqb (a b : list header) : bool :=
  list_eqb (fun x y => list_eqb N.eqb (fst x) (fst y) && list_eqb N.eqb (snd x) (snd y)) a b.

Definition c08_wire (toks : list (list N)) : list (list N) :=
  match toks with
  | [0; minor; a; b; c] :: reason :: flat :: rest :: _ =>
    let hs := dec_headers (length flat) flat in
    let bytes := enc_response minor [a; b; c] reason hs in
    [bytes;
     [match read_response (S (length hs)) (bytes ++ rest) with
      | Some (r, tail) =>
        if (rs_minor r =? minor) && list_eqb N.eqb (rs_status r) [a; b; c] && list_eqb N.eqb (rs_reason r) reason
           && headers_eqb (rs_headers r) (map (fun h => (fst h, trim_ows (snd h))) hs) && list_eqb N.eqb tail rest then 1 else 0
      | None => 0
      end]]
  | [1; minor; has_host] :: method :: target :: host :: flat :: rest :: _ =>
    let hs := dec_headers (length flat) flat in
    let bytes := enc_request method target minor (if has_host =? 1 then Some host else None) hs in
    let hs' := if has_host =? 1 then ([72; 111; 115; 116], host) :: hs else hs in
    [bytes;
     [match read_request (S (length hs')) (bytes ++ rest) with
      | Some (r, tail) =>
        if (rq_minor r =? minor) && list_eqb N.eqb (rq_method r) method && list_eqb N.eqb (rq_target r) target
           && headers_eqb (rq_headers r) (map (fun h => (fst h, trim_ows (snd h))) hs') && list_eqb N.eqb tail rest then 1 else 0
      | None => 0
      end]]
  | _ => REJECT_TOK
  end.

(* serialize_request. in: [minor; multiplexed] method target authority flat-headers
   out: the bytes; [0; n] a body of n bytes | [1] a chunked body   -  or [997] when the request is refused *)
From TT Require Import Model.FwdRequest.
Definition c17_request (toks : list (list N)) : list (list N) :=
  match toks with
  | [minor; mx] :: method :: target :: authority :: flat :: _ =>
    match ser_request method target minor (mx =? 1) authority (dec_headers (length flat) flat) with
    | Some (bytes, Det n) => [bytes; [0; n]]
    | Some (bytes, Chunked) => [bytes; [1]]
    | None => [[997]]
    end
  | _ => REJECT_TOK
  end.

From TT Require Import Model.Forwarded Generated.ForwardedFacts.

(* the chunk-size line parser of the executable model under the line limit the code states *)
Definition c17_psize : list N -> csize := bounded (N.to_nat FWD_MAX_CHUNK_SIZE_LINE) psize_c.

(* in: [mode; n] body_stream seg_sizes accepts    mode 0 close-delimited | 1 Content-Length n | 2 chunked
   out: [end: 0 complete | 1 more expected | 2 error] delivered *)
Definition c17_body (toks : list (list N)) : list (list N) :=
  match toks with
  | [mode; n] :: stream :: sizes :: accs :: _ =>
    let st0 := if mode =? 0 then BNon None 0
               else if mode =? 1 then BNon (Some (N.to_nat n)) 0 else BPrefix [] in
    let '(st, out) := drive c17_psize st0 (c08_split stream sizes) (map N.to_nat accs) [] in
    [[match st with BDone => 0 | BErr => 2 | _ => 1 end]; out]
  | _ => REJECT_TOK
  end.

(* ---------------- C01 / C10 ---------------- *)
From TT Require Import Model.TunnelGate.

Definition c01_clients : list (list N * list N) :=
  [([117; 49], [112; 49]); ([195; 188], [112; 195; 164; 32; 115; 115]);
   ([99; 97; 110; 97; 114; 121; 117; 115; 101; 114], [67; 70; 71; 80; 87; 45; 48; 98; 53; 101; 49; 99; 45; 99; 97; 110; 97; 114; 121])].      (* u1:p1, "ü":"pä ss", canaryuser:CFGPW-0b5e1c-canary *)
Definition c01_snicreds : list N := [115; 110; 105; 99; 114; 101; 100; 115; 45; 55; 101; 50; 97; 57; 99; 45; 99; 97; 110; 97; 114; 121].   (* "snicreds-7e2a9c-canary" *)
Definition c01_auth (cfg : N) : option authenticator :=
  if cfg =? 0 then None
  else if cfg =? 1 then Some (fun s => match s with SBasic t => authenticate c01_clients t | SSni _ => false end)
  else Some (fun s => match s with SBasic t => authenticate c01_clients t | SSni c => list_eqb N.eqb c c01_snicreds end).

Fixpoint take_until_slash (b : list N) : list N :=
  match b with [] => [] | c :: r => if c =? 47 then [] else c :: take_until_slash r end.
Definition HTTP_SCHEME : list N := [104; 116; 116; 112; 58; 47; 47].

(* authority of the request target; outcome class of the destination:
   0 canary (connects), 1 refused port, 2 name that does not resolve, 3 private/loopback literal with private connections disallowed *)
Definition c01_authority (kind : N) (target : list N) : option (list N) :=
  if kind =? 1 then Some target
  else match strip_prefix HTTP_SCHEME target with Some r => Some (take_until_slash r) | None => None end.

(* '@x' stands for one of the harness's loopback destinations (address:port) *)
Definition c01_has_port (a : list N) : bool :=
  existsb (fun c => c =? 58) a || match a with 64 :: _ => true | _ => false end.

Fixpoint c01_reqs (auth : option authenticator) (p : policy) (toks : list (list N)) (fuel : nat) : list (list N) :=
  match fuel with
  | O => []
  | S f =>
    match toks with
    | [kind; oc] :: target :: header :: payload :: rest =>
      let raw := match header with [] => None | [256] => Some [] | h => Some h end in
      let au := c01_authority kind target in
      let hp := match au with Some a => c01_has_port a | None => false end in
      let o := if oc =? 0 then COk else if oc =? 1 then CIo else if oc =? 2 then CIo
               else if oc =? 3 then CNonRoutable else if oc =? 4 then CLoopback
               else if oc =? 5 then CTimeout else CUnreachable in
      let a := handle auth p raw (kind =? 1) au hp o in
      let route := dispatch (kind =? 1) au in
      let tcp := match route with RConnect => if a_egress a && (a_status a =? 200) then 1 else 0 | _ => 0 end in
      let udp := match route with RUdp => if a_egress a && (a_status a =? 200) && negb (is_nil payload) then 1 else 0 | _ => 0 end in
      [a_status a; if a_challenge a then 1 else 0; a_warning a; tcp; udp; if a_names_host a then 1 else 0]
        :: c01_reqs auth p rest f
    | _ => []
    end
  end.

Fixpoint c01_dropped (toks : list (list N)) (fuel : nat) : list (list N) :=
  match fuel with
  | O => []
  | S f => match toks with _ :: _ :: _ :: _ :: rest => [0; 0; 0; 0; 0; 0] :: c01_dropped rest f | _ => [] end
  end.

Definition c01_session (toks : list (list N)) : list (list N) :=
  match toks with
  | [acfg; _; sni; _] :: rest =>
    let auth := c01_auth acfg in
    let creds := if sni =? 0 then None else if sni =? 1 then Some c01_snicreds else Some [98; 97; 100; 99; 114; 101; 100; 115] in
    match connection_policy auth creds with
    | None => c01_dropped rest (length rest)
    | Some p => c01_reqs auth p rest (length rest)
    end
  | _ => REJECT_TOK
  end.

(* ---------------- C12 ---------------- *)
From TT Require Import Model.ClientRandom Generated.TlsFacts.

Definition c12_code (e : extraction) : list (list N) :=
  match e with
  | XFound r => [[0]; r]
  | XNeedMore => [[1]; []]
  | XNotFound => [[2]; []]
  | XOther => [[9]; []]
  end.

Definition c12_extract (toks : list (list N)) : list (list N) :=
  match toks with
  | data :: _ => c12_code (extract_c data)
  | _ => REJECT_TOK
  end.

(* in: [gap] stream sizes.  out: [found] random [replayed = stream; length] ([9] = outside the modelled record shapes) *)
Definition c12_peek (toks : list (list N)) : list (list N) :=
  match toks with
  | _ :: stream :: sizes :: _ =>
    let arrivals := c08_split stream sizes in
    let '(cr, pre, rest) := peek extract_c PEEK_MAX_PREBUFFER_LEN PEEK_READ_CHUNK_LEN PEEK_PARSES_BEFORE_LIMIT_CHECK
                                 (S (length stream + length arrivals)) [] arrivals in
    let replayed := replay_all (S (length stream + length arrivals)) [] pre 0 rest in
    let other := match extract_c pre with XOther => true | _ => false end in
    if other then [[9]]
    else [[match cr with Some _ => 1 | None => 0 end]; match cr with Some r => r | None => [] end;
          [if list_eqb N.eqb replayed stream then 1 else 0; lenN replayed]]
  | _ => REJECT_TOK
  end.

(* ---------------- C18 ---------------- *)
From TT Require Import Model.Channels.

(* in: [channel; http2; _; rp_enabled; speedtest_enable; _; _] [method_kind] path headers [body]
       headers: flat [name_len, name..., value_len, value...]*
   out: [channel_code 0 tunnel | 1 ping | 2 speedtest | 3 reverse proxy] [status; body_len]   (tunnel: [0] only) *)
Fixpoint c18_headers (fuel : nat) (b : list N) : list (list N * list N) :=
  match fuel with
  | O => []
  | S f =>
    match b with
    | [] => []
    | nl :: r => let name := takeN nl r in
                 match dropN nl r with
                 | vl :: r2 => (name, takeN vl r2) :: c18_headers f (dropN vl r2)
                 | [] => []
                 end
    end
  end.

Definition c18_get (hs : list (list N * list N)) (name : list N) : option (list N) :=
  match filter (fun h => list_eqb N.eqb (fst h) name) hs with h :: _ => Some (snd h) | [] => None end.

Definition c18_session (toks : list (list N)) : list (list N) :=
  match toks with
  | (chan :: http2 :: _ :: rp :: st :: rest_cfg) :: [kind] :: path :: hdrs :: _ =>
    let hs := c18_headers (length hdrs) hdrs in
    let q := {| q_method := if kind =? 6 then 0 else if kind =? 7 then 1 else 2;
                q_path := path;
                q_ping_marker := match c18_get hs [120; 45; 112; 105; 110; 103] with Some [49] => true | _ => false end
                                 || match c18_get hs [115; 101; 99; 45; 102; 101; 116; 99; 104; 45; 109; 111; 100; 101] with
                                    | Some v => list_eqb N.eqb v [110; 97; 118; 105; 103; 97; 116; 101] | None => false end;
                q_upgrade := match c18_get hs [117; 112; 103; 114; 97; 100; 101] with Some _ => true | None => false end;
                q_content_length := c18_get hs [99; 111; 110; 116; 101; 110; 116; 45; 108; 101; 110; 103; 116; 104] |} in
    (* cfg[11] = 1: the reverse-proxy path mask is "/sp" instead of "/rp" *)
    let mask := match nth_error rest_cfg 6 with Some 1 => [47; 115; 112] | _ => [47; 114; 112] end in
    let s := {| s_speedtest := st =? 1; s_rp_mask := if rp =? 1 then Some mask else None |} in
    let ch := if chan =? 1 then ChPing else if chan =? 2 then ChSpeedtest else if chan =? 3 then ChReverseProxy
              else select (if http2 =? 1 then PH2 else PH1) s q in
    match ch with
    | ChPing => [[1]; [200; 0]]
    | ChSpeedtest => let '(st, n) := speedtest_answer q [] in [[2]; [st; n]]
    | ChReverseProxy => [[3]; [101; 23]]
    | ChTunnel => [[0]]
    end
  | _ => REJECT_TOK
  end.

(* c18_dl: the response side of the HTTP/1.1 codec under a scripted transport (harness engine c18dl.rs).
   in: ops head; ops = flat (kind, arg) pairs: 0 offer of arg bytes numbered on | 1 the loop runs with room for arg bytes
   | 2 the listen future is dropped | 3 the response ends.  out: offers wire_lengths wire [end] *)
From TT Require Import Model.Http1Download Generated.Http1Facts.
Fixpoint dl_bytes (from : N) (n : nat) : list N :=
  match n with O => [] | S k => (1 + from mod 251) :: dl_bytes (from + 1) k end.

(* one run of the listen loop with room for k bytes: the message in flight first, then the queued one as far as the room goes;
   a queued message is taken into flight even when there is no room left *)
Definition dl_poll (keep : bool) (s : dl) (k : nat) : dl :=
  let s1 := dstep keep s DTake in
  let w1 := Nat.min k (length (flight s1)) in
  let s2 := dstep keep s1 (DWrite w1) in
  let s3 := dstep keep s2 DTake in
  dstep keep s3 (DWrite (Nat.min (k - w1) (length (flight s3)))).

Fixpoint dl_script (keep : bool) (ops : list N) (fuel : nat) (s : dl) (counter : N) (offers lens : list N) : list N * list N * dl * N :=
  match fuel, ops with
  | S f, kind :: arg :: rest =>
    if kind =? 0 then
      let s' := dstep keep s (DOffer (dl_bytes counter (N.to_nat arg))) in
      let ok := match queued s with [] => 1 | _ => 0 end in
      dl_script keep rest f s' (counter + arg) (offers ++ [ok]) (lens ++ [lenN (wire s')])
    else if kind =? 1 then
      let s' := dl_poll keep s (N.to_nat arg) in dl_script keep rest f s' counter offers (lens ++ [lenN (wire s')])
    else if kind =? 2 then
      let s' := dstep keep s DDrop in dl_script keep rest f s' counter offers (lens ++ [lenN (wire s')])
    else
      (* 3: ended in order; 4: ended in order with a client that pauses first - however long it pauses, everything is written *)
      let s' := dstep keep s DClose in (offers, lens ++ [lenN (wire s')], s', 1)
  | _, _ => (offers, lens, s, 0)
  end.

Definition c18_dl (toks : list (list N)) : list (list N) :=
  match toks with
  | ops :: head :: _ =>
    let '(offers, lens, s, e) := dl_script HTTP1_MESSAGE_IN_FLIGHT_KEPT ops (length ops) (dstep true dl0 (DOffer head)) 0 [] [] in
    [offers; lens; wire s; [e]]
  | _ => REJECT_TOK
  end.

(* ---------------- C16 ---------------- *)
From Coq Require Import ZArith.
From TT Require Import Model.Metrics Generated.MetricsFacts.
Open Scope N_scope.

(* the harness script: sessions are numbered in opening order; every successful CONNECT adds a tunnel
   in: [http1_enabled] ops.  out per snapshot op: [4; sess_h1; sess_h2; tcp; udp; in_h1; in_h2; out_h1; out_h2] *)
Definition zN (z : Z) : N := Z.to_N z.

Fixpoint c16_ops (w : world) (next_sess next_tun : N) (latest : list (N * N)) (ops : list (list N)) : list (list N) :=
  match ops with
  | [] => []
  | op :: rest =>
    match op with
    | [1; p] =>
      [1; next_sess] :: c16_ops (mstep w (OpenSession next_sess (if p =? 1 then H2 else H1))) (next_sess + 1) next_tun latest rest
    | [2; s; up; down] =>
      let w1 := mstep w (OpenTunnel next_tun s) in
      let w2 := mstep w1 (Transfer s (N.max up 8) down) in
      [2; 200; down] :: c16_ops w2 next_sess (next_tun + 1) ((s, next_tun) :: latest) rest
    | [3; s] => [3] :: c16_ops (mstep w (CloseSession s)) next_sess next_tun (filter (fun x => negb (fst x =? s)) latest) rest
    | [4] =>
      [4; zN (g_sessions w H1); zN (g_sessions w H2); zN (g_tcp w); zN (g_udp w);
       zN (c_in w H1); zN (c_in w H2); zN (c_out w H1); zN (c_out w H2)] :: c16_ops w next_sess next_tun latest rest
    | [5] => [5; 31; 1; zN (g_sessions w H1 + g_sessions w H2)%Z; zN (g_tcp w)] :: c16_ops w next_sess next_tun latest rest
    | [6; s] => [6; 502; 0] :: c16_ops (mstep w (FailedConnect s)) next_sess next_tun latest rest
    | [7; s] =>
      match filter (fun x => fst x =? s) latest with
      | (_, t) :: _ => [7] :: c16_ops (mstep w (CloseTunnel t)) next_sess next_tun
                                      (filter (fun x => negb (snd x =? t)) latest) rest
      | [] => [7] :: c16_ops w next_sess next_tun latest rest
      end
    | [8; path] => [8; if path <? 2 then 200 else 400; 0] :: c16_ops w next_sess next_tun latest rest
    | _ => [997] :: c16_ops w next_sess next_tun latest rest
    end
  end.

Definition c16_run (toks : list (list N)) : list (list N) :=
  match toks with
  | _ :: ops => c16_ops w0 0 0 [] ops
  | _ => REJECT_TOK
  end.

(* C16: datagram counters. in: [drop_every; n; len].  out: [inbound counted; outbound counted; received by the peer; received by the client] *)
Definition c16_udp (toks : list (list N)) : list (list N) :=
  match toks with
  | [k; n; len] :: _ =>
    let idx := map N.of_nat (seq 1 (N.to_nat n)) in
    let up := map (fun _ => (len, true)) idx in
    let down := map (fun i => (len, if k =? 0 then true else negb (i mod k =? 0))) idx in
    [[count_datagrams METRICS_COUNT_SENT_DATAGRAMS_ONLY up; count_datagrams METRICS_COUNT_SENT_DATAGRAMS_ONLY down;
      delivered_datagram_bytes up; delivered_datagram_bytes down]]
  | _ => REJECT_TOK
  end.

(* C16 through the real endpoint. in: [u1; d1; u2; d2; u3; d3; udp transport; k; payload length]
   sessions: 1, 2, 3 = the tunnels' connections on HTTP/1.1, HTTP/2, HTTP/3; 4 = the multiplexer's own connection when it
   runs over HTTP/1.1 (one request per connection there); on HTTP/2 and HTTP/3 the multiplexer is a stream of session 2 / 3.
   out: the live snapshot and the snapshot after every client has gone, eleven values each *)
Definition snap11 (w : world) : list N :=
  [zN (g_sessions w H1); zN (g_sessions w H2); zN (g_sessions w H3); zN (g_tcp w); zN (g_udp w);
   zN (c_in w H1); zN (c_in w H2); zN (c_in w H3); zN (c_out w H1); zN (c_out w H2); zN (c_out w H3)].

Definition c16_front_history (u1 d1 u2 d2 u3 d3 udp k plen : N) : list mop :=
  let tun (id : N) (p : proto) (u d : N) :=
      if u =? 0 then [] else [OpenTunnel id id; Transfer id (N.max u 8) d] in
  let sess (id : N) (p : proto) (u : N) := if (negb (u =? 0)) || ((udp =? id) && negb (id =? 1)) then [OpenSession id p] else [] in
  let flows (s : N) := map (fun i => OpenUdp (100 + N.of_nat i) s) (seq 0 (N.to_nat k)) ++ [Transfer s (k * plen) (k * plen)] in
  sess 1 H1 u1 ++ sess 2 H2 u2 ++ sess 3 H3 u3
  ++ tun 1 H1 u1 d1 ++ tun 2 H2 u2 d2 ++ tun 3 H3 u3 d3
  ++ (if udp =? 1 then OpenSession 4 H1 :: flows 4 else if udp =? 2 then flows 2 else if udp =? 3 then flows 3 else []).

Definition c16_front (toks : list (list N)) : list (list N) :=
  match toks with
  | [u1; d1; u2; d2; u3; d3; udp; k; plen] :: _ =>
    let live := mrun (c16_front_history u1 d1 u2 d2 u3 d3 udp k plen) in
    let gone := fold_left mstep [CloseSession 1; CloseSession 2; CloseSession 3; CloseSession 4] live in
    [snap11 live; snap11 gone]
  | _ => REJECT_TOK
  end.

(* ---------------- C19 ---------------- *)
From TT Require Import Model.ShutdownM Generated.ShutdownFacts.

Fixpoint c19_mask (f : participant -> bool) (l : list participant) (bit : N) : N :=
  match l with
  | [] => 0
  | p :: r => (if f p then bit else 0) + c19_mask f r (2 * bit)
  end.

(* the harness script (same numbering): [1] register, [2,i] wait, [3] submit, [4,i] finish, [5] complete, [6] observe *)
(* real sessions register by themselves and wind down by themselves when they observe a submission *)
Fixpoint c19_ops (s : sstate) (sess : list nat) (ops : list (list N)) : list (list N) :=
  match ops with
  | [] => []
  | op :: rest =>
    match op with
    | [1] => let s' := sstep s Register in
             [1; lenN (parts s); if completing s then 0 else 1] :: c19_ops s' sess rest
    | [2; i] => [2] :: c19_ops (sstep s (Wait (N.to_nat i))) sess rest
    | [3] => [3] :: c19_ops (fold_left (fun st k => sstep st (Finish k)) sess (sstep s Submit)) [] rest
    | [4; i] => [4] :: c19_ops (sstep s (Finish (N.to_nat i))) sess rest
    | [5] => [5] :: c19_ops (sstep s Complete) sess rest
    | [6] => [6; c19_mask p_observed (parts s) 1; 0; if completion_done s then 1 else 0] :: c19_ops s sess rest
    | [7; _] => [7; lenN (parts s)] :: c19_ops (sstep s Register) (length (parts s) :: sess) rest
    | [8; i] => [8] :: c19_ops (sstep s (Finish (N.to_nat i))) (filter (fun k => negb (Nat.eqb k (N.to_nat i))) sess) rest
    | _ => [997] :: c19_ops s sess rest
    end
  end.

Definition c19_run (toks : list (list N)) : list (list N) :=
  match toks with
  | _ :: ops => c19_ops s0 [] ops
  | _ => REJECT_TOK
  end.

(* ---------------- C20 ---------------- *)
From TT Require Import Model.Scrub.

Fixpoint c20_flat (hs : list (list N * list N)) : list N :=
  match hs with
  | [] => []
  | (n, v) :: r => (lenN n :: n) ++ (lenN v :: v) ++ c20_flat r
  end.

(* the http crate groups the values of a repeated name at the place of its first occurrence *)
Fixpoint c20_group (fuel : nat) (hs : list (list N * list N)) : list (list N * list N) :=
  match fuel with
  | O => []
  | S f =>
    match hs with
    | [] => []
    | (n, v) :: r =>
      (n, v) :: filter (fun h => list_eqb N.eqb (fst h) n) r
             ++ c20_group f (filter (fun h => negb (list_eqb N.eqb (fst h) n)) r)
    end
  end.

(* in: headers(flat) sni [proxy_basic] value.  out: scrubbed headers(flat) scrubbed_sni debug_text *)
Definition c20_scrub (toks : list (list N)) : list (list N) :=
  match toks with
  | hdrs :: sni :: [pb] :: _ :: _ =>
    let hs := c20_group (length hdrs) (c18_headers (length hdrs) hdrs) in
    [c20_flat (scrub_headers [] hs); Scrub.scrub_sni sni;
     source_debug (if pb =? 1 then Scrub.SBasic [] else Scrub.SSni [])]
  | _ => REJECT_TOK
  end.

(* C19 on the real endpoint: sessions of the transports in [mask] are live, the shutdown is submitted, the clients
   finish what they have open once they saw the goodbye, the coordinator waits for completion.
   in: [mask].  out: [established; listener returned; wound-down mask; completion returned; completion early; accepts] *)
Definition c19_front (toks : list (list N)) : list (list N) :=
  match toks with
  | [mask] :: _ =>
    (* 64 / 128 = an HTTP/1.1 tunnel whose upload / download is stalled: a session like the others *)
    let bits := filter (fun b => negb (N.land mask b =? 0)) [1; 2; 4; 8; 16; 64; 128] in
    let k := S (length bits) in                       (* the listener is participant 0 *)
    let idx := seq 0 k in
    let hist := repeat Register k ++ map Wait idx ++ [Submit] in
    let s1 := srun hist in
    let all_observed := forallb p_observed (parts s1) in
    (* a QUIC session (bit 4) may have lost its feed by the time it runs: the listener has observed too *)
    let wound (b : N) :=
      match session_poll SESSIONS_SAY_GOODBYE_WHEN_FEED_STOPS all_observed (b =? 4) false with
      | Goodbye => true | _ => false end in
    (* the session of bit 128 (the last participant) belongs to a client that takes nothing: it finishes if its close is bounded *)
    let stuck := negb (N.land mask 128 =? 0)
                 && match h1_close HTTP1_ORDERLY_CLOSE_BOUNDED HTTP1_GRACEFUL_SHUTDOWN_TIMEOUT_MS None with
                    | Some (t, _) => negb (t <=? 20000) | None => true end in
    let finishing := if stuck then seq 0 (length bits) else idx in
    let s2 := fold_left sstep (map Finish finishing ++ [Complete]) s1 in
    [[mask; if all_observed then 1 else 0;
      fold_left N.add (filter wound bits) 0;
      if completion_done s2 then 1 else 0; 0; 0;
      (* waiting for completion while the listener (participant 0) runs and nothing was submitted *)
      if completion_done (sstep (srun (repeat Register k)) Complete) then 1 else 0]]
  | _ => REJECT_TOK
  end.

From TT Require Import Generated.TimeoutFacts Model.Listener.
(* C14: establishment. in: [http2; est; tcp_T] against a peer that never answers.  out: [status; when] *)
Definition c14_establish (toks : list (list N)) : list (list N) :=
  match toks with
  | [_; est; other] :: _ =>
    match establish CONNECT_UNDER_ESTABLISHMENT_TIMEOUT est other None with
    | EFailed t => if t <=? 3 * est + 500 then [[502; 1]] else [[0; 2]]
    | EConnected _ => [[200; 0]]
    end
  | _ => REJECT_TOK
  end.

(* C14: the timers of the real listener. in: [kind; handshake_T; listener_T].  out: [closed; when]
   kind 5 (a prompt client under a very long handshake timeout): in: [5; _; listener_T] [hi; lo], the timeout is hi * 2^32 + lo seconds
   (the runner's numbers are OCaml ints: i64::MAX does not fit in one).  out: [served] *)
Definition c14_front (toks : list (list N)) : list (list N) :=
  match toks with
  | [kind; hs; lt] :: rest =>
    if kind =? 5 then
      match rest with
      | [hi; lo] :: _ =>
        match listener_handshake TLS_HANDSHAKE_HAS_ONE_DEADLINE TLS_HANDSHAKE_DEADLINE_SATURATES CLOCK_ROOM_MS FAR_FUTURE_MS
                                 ((hi * 4294967296 + lo) * 1000) 1 1 with
        | Some _ => [[1]]
        | None => [[0]]
        end
      | _ => REJECT_TOK
      end
    else if kind <=? 1 then
      match establish (CLIENT_HELLO_UNDER_HANDSHAKE_TIMEOUT && TLS_ACCEPT_UNDER_HANDSHAKE_TIMEOUT) hs 100000000 None with
      | EFailed t => if t <=? 3 * hs + 500 then [[1; 1]] else [[0; 2]]
      | EConnected _ => [[0; 0]]
      end
    else if closed_by_timer (lrun LISTENER_TIMEOUT_SPARES_ACTIVE_SESSIONS [LExpire]) then [[1; 1]] else [[0; 2]]
  | _ => REJECT_TOK
  end.

(* C14: the session-level timer. in: [http2; listener_T; tcp_T; period; rounds].  out: [status; echoed; closed_early; idle_closed] *)
Definition c14_session (toks : list (list N)) : list (list N) :=
  match toks with
  | [_; lt; _; period; rounds] :: _ =>
    if LISTENER_TIMEOUT_SPARES_ACTIVE_SESSIONS then [[200; rounds; 0; 1]]
    else let k := N.min rounds (lt / N.max period 1) in [[200; k; if k <? rounds then 1 else 0; 1]]
  | _ => REJECT_TOK
  end.
