(* Uniform executable interface of the models for the correspondence run: every engine maps a
   list of token lists (naturals) to a list of token lists, mirrored by harness/src/engines. *)
From Coq Require Import List NArith Bool.
From TT Require Import Lib.Res Lib.BytesL Model.UdpCodec Spec.UdpWire.
Import ListNotations.
Open Scope N_scope.

Definition PANIC_TOK : list (list N) := [[999]].
Definition FUEL_TOK : list (list N) := [[998]].
Definition REJECT_TOK : list (list N) := [[997]].

Definition res_toks {A} (r : res A) (f : A -> list (list N)) : list (list N) :=
  match r with Ok a => f a | Reject => REJECT_TOK | Panic => PANIC_TOK | Fuel => FUEL_TOK end.

Definition ip_bytes (a : ipaddr) : list N :=
  if fam a =? 4 then to_be 4 (ipv a) else to_be 16 (ipv a).

Definition render_dgram (g : dgram) : list (list N) :=
  [ [fam (sip (d_src g)); sport (d_src g); fam (sip (d_dst g)); sport (d_dst g);
     match d_app g with Some _ => 1 | None => 0 end];
    ip_bytes (sip (d_src g)); ip_bytes (sip (d_dst g));
    match d_app g with Some a => a | None => [] end;
    d_payload g ].

Definition render_chunk_out (out : list dgram) : list (list N) :=
  [1000 + lenN out] :: flat_map render_dgram out.

Definition c06_decode (toks : list (list N)) : list (list N) :=
  res_toks (run dec_init toks) (fun r => flat_map render_chunk_out (snd r)).

(* spec oracle: the datagrams of the whole stream, ignoring which chunk completed them *)
Definition c06_spec (toks : list (list N)) : list (list N) :=
  flat_map render_dgram (spec_decode_stream (concat toks)).

Definition mk_sockaddr (f : N) (ip : list N) (p : N) : sockaddr :=
  {| sip := {| fam := f; ipv := be ip |}; sport := p |}.

(* in: [sfam; sport; dfam; dport] sip-bytes dip-bytes payload *)
Definition c06_encode (toks : list (list N)) : list (list N) :=
  match toks with
  | [sf; sp; df; dp] :: sipb :: dipb :: rest =>
    [encode_packet (mk_sockaddr sf sipb sp) (mk_sockaddr df dipb dp)
                   (match rest with p :: _ => p | [] => [] end)]
  | _ => REJECT_TOK
  end.

Definition c06_encode_spec (toks : list (list N)) : list (list N) :=
  match toks with
  | [sf; sp; df; dp] :: sipb :: dipb :: rest =>
    [spec_encode (mk_sockaddr sf sipb sp) (mk_sockaddr df dipb dp)
                 (match rest with p :: _ => p | [] => [] end)]
  | _ => REJECT_TOK
  end.
