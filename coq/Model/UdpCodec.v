(* Model of lib/src/http_udp_codec.rs (Decoder, Encoder) and of net_utils::{get,put}_fixed_size_ip.
   Hand translation, function by function; every Rust panic site (assert!, usize underflow,
   Bytes::split_to/get_* past the end, Option::unwrap) is an explicit [Panic]. *)
From Coq Require Import List NArith Bool.
From TT Require Import Lib.Res Lib.BytesL Lib.Utf8 Generated.Consts.
Import ListNotations.
Open Scope N_scope.

(* std::net::IpAddr as (family, numeric value); SocketAddr adds the port *)
Record ipaddr := { fam : N; ipv : N }.
Record sockaddr := { sip : ipaddr; sport : N }.

Record dgram := {
  d_src : sockaddr;
  d_dst : sockaddr;
  d_app : option (list N);   (* Option<String>, as its UTF-8 bytes *)
  d_payload : list N
}.

Inductive rstate :=
| SLength
| SFixed
| SAppName (n : N)
| SPayload (n : N)
| SDropping (n : N).

Record dec := {
  st : rstate;
  total : N;
  buf : list N;
  src : option sockaddr;
  dst : option sockaddr;
  app : option (list N)
}.

Definition dec_init : dec :=
  {| st := SLength; total := 0; buf := []; src := None; dst := None; app := None |}.

Definition set_st (d : dec) (s : rstate) : dec :=
  {| st := s; total := total d; buf := buf d; src := src d; dst := dst d; app := app d |}.
Definition set_buf (d : dec) (b : list N) : dec :=
  {| st := st d; total := total d; buf := b; src := src d; dst := dst d; app := app d |}.
Definition set_total (d : dec) (t : N) : dec :=
  {| st := st d; total := t; buf := buf d; src := src d; dst := dst d; app := app d |}.
Definition set_addrs (d : dec) (s t : sockaddr) : dec :=
  {| st := st d; total := total d; buf := buf d; src := Some s; dst := Some t; app := app d |}.
Definition set_app (d : dec) (a : option (list N)) : dec :=
  {| st := st d; total := total d; buf := buf d; src := src d; dst := dst d; app := a |}.

(* net_utils::get_fixed_size_ip on exactly IPV6_WIRE_LENGTH bytes *)
Definition v6_loopback_bytes : list N := [0;0;0;0;0;0;0;0;0;0;0;0;0;0;0;1].
Definition get_fixed_size_ip (b16 : list N) : ipaddr :=
  if all_zero (takeN IPV4_PADDING_WIRE_LENGTH b16)
     && negb (FIXED_IP_EXCLUDES_V6_LOOPBACK && list_eqb N.eqb b16 v6_loopback_bytes)
  then {| fam := 4; ipv := be (dropN IPV4_PADDING_WIRE_LENGTH b16) |}
  else {| fam := 6; ipv := be b16 |}.

(* net_utils::put_fixed_size_ip *)
Definition put_fixed_size_ip (a : ipaddr) : list N :=
  if fam a =? 4 then repeat 0 (N.to_nat IPV4_PADDING_WIRE_LENGTH) ++ to_be 4 (ipv a)
  else to_be 16 (ipv a).

(* Decoder::buffered_read *)
Definition buffered_read (d : dec) (input : list N) (cap : N)
  : res (dec * option (list N * list N)) :=
  if negb ((lenN (buf d) <? cap) || (cap =? 0)) then Panic        (* assert! *)
  else if cap <? lenN (buf d) then Panic                            (* cap - buffer.len() *)
  else
    let to_drain := N.min (lenN input) (cap - lenN (buf d)) in
    let b' := buf d ++ takeN to_drain input in
    let input' := dropN to_drain input in
    if lenN b' <? cap then
      (if is_nil input' then Ok (set_buf d b', None) else Panic)   (* assert!(input.is_empty()) *)
    else Ok (set_buf d [], Some (b', input')).

Definition HDR : N := UDPPKT_IN_FIXED_HEADER_NO_LENGTH_SIZE.

Definition process_client_length (d : dec) (data : list N) : res (dec * list N) :=
  '(d1, r) <- buffered_read d data UDPPKT_LENGTH_SIZE ;;
  match r with
  | None => Ok (d1, [])
  | Some (raw, tail) =>
    let t := be raw in
    let d2 := set_total d1 t in
    Ok (set_st d2 (if HDR <=? t then SFixed else SDropping t), tail)
  end.

Definition parse_sockaddr (b18 : list N) : sockaddr :=
  {| sip := get_fixed_size_ip (takeN 16 b18); sport := be (takeN 2 (dropN 16 b18)) |}.

Definition process_client_fixed_header (d : dec) (data : list N) : res (dec * list N) :=
  '(d1, r) <- buffered_read d data HDR ;;
  match r with
  | None => Ok (d1, [])
  | Some (header, tail) =>
    if lenN header <? 37 then Panic else                      (* split_to / get_u16 / get_u8 *)
    let s := parse_sockaddr (takeN 18 header) in
    let t := parse_sockaddr (takeN 18 (dropN 18 header)) in
    let app_len := be (takeN 1 (dropN 36 header)) in
    let d2 := set_addrs d1 s t in
    if MAX_UDP_IN_RECORD_SIZE + app_len <? total d2 then
      (if total d2 <? HDR then Panic else Ok (set_st d2 (SDropping (total d2 - HDR)), tail))
    else if HDR + app_len <=? total d2 then
      Ok (set_st d2 (SAppName app_len), tail)
    else
      (if total d2 <? HDR then Panic else Ok (set_st d2 (SDropping (total d2 - HDR)), tail))
  end.

Definition process_client_app_name (d : dec) (length : N) (data : list N) : res (dec * list N) :=
  '(d1, r) <- buffered_read d data length ;;
  match r with
  | None => Ok (d1, [])
  | Some (name, tail) =>
    if total d1 <? HDR + length then Panic else                (* usize subtraction *)
    let payload_length := total d1 - HDR - length in
    if utf8_valid name then Ok (set_st (set_app d1 (Some name)) (SPayload payload_length), tail)
    else Ok (set_st d1 (SDropping payload_length), tail)
  end.

Definition process_client_payload (d : dec) (length : N) (data : list N)
  : res (dec * option dgram * list N) :=
  let emit (d1 : dec) (to_send tail : list N) :=
    match src d1, dst d1 with
    | Some s, Some t =>
      Ok (set_st (set_app d1 None) SLength,
          Some {| d_src := s; d_dst := t; d_app := app d1; d_payload := to_send |}, tail)
    | _, _ => Panic                                             (* unwrap *)
    end in
  if is_nil (buf d) && (length <=? lenN data) then
    emit d (takeN length data) (dropN length data)
  else if length <? lenN (buf d) then Panic                     (* length - buffer.len() *)
  else
    let to_drain := N.min (lenN data) (length - lenN (buf d)) in
    let b' := buf d ++ takeN to_drain data in
    let data' := dropN to_drain data in
    if lenN b' <? length then Ok (set_buf d b', None, data')
    else emit (set_buf d []) b' data'.

(* Decoder::decode_chunk_once *)
Definition once (d : dec) (data : list N) : res (dec * option dgram * list N) :=
  match st d with
  | SLength => '(d1, tail) <- process_client_length d data ;; Ok (d1, None, tail)
  | SFixed => '(d1, tail) <- process_client_fixed_header d data ;; Ok (d1, None, tail)
  | SAppName n => '(d1, tail) <- process_client_app_name d n data ;; Ok (d1, None, tail)
  | SPayload n => process_client_payload d n data
  | SDropping n =>
    let to_drop := N.min n (lenN data) in
    Ok (set_st d (if n <=? to_drop then SLength else SDropping (n - to_drop)),
        None, dropN to_drop data)
  end.

Definition zero_step_pending (d : dec) : bool :=
  match st d with
  | SAppName 0 | SPayload 0 | SDropping 0 => true
  | _ => false
  end.

(* Decoder::decode_chunk's loop merged with the re-queue loop of
   http_downstream::DatagramDecoder::read: a Complete(d, tail) with a non-empty tail re-enters
   decode_chunk with that tail, which is the same as staying in the loop; all datagrams completed
   while [data] is being consumed are collected. *)
Fixpoint decode_all (fuel : nat) (d : dec) (data : list N) : res (dec * list dgram) :=
  if is_nil data && negb (zero_step_pending d) then Ok (d, [])
  else
    match fuel with
    | O => Fuel
    | S f =>
      '(d1, o, tail) <- once d data ;;
      '(d2, out) <- decode_all f d1 tail ;;
      Ok (d2, match o with Some g => g :: out | None => out end)
    end.

Definition fuel_for (data : list N) : nat := 3 * length data + 4.

Definition decode_chunk_all (d : dec) (data : list N) : res (dec * list dgram) :=
  decode_all (fuel_for data) d data.

(* all chunks of a stream, in order; per chunk the datagrams it completed *)
Fixpoint run (d : dec) (chunks : list (list N)) : res (dec * list (list dgram)) :=
  match chunks with
  | [] => Ok (d, [])
  | c :: rest =>
    '(d1, out) <- decode_chunk_all d c ;;
    '(d2, outs) <- run d1 rest ;;
    Ok (d2, out :: outs)
  end.

(* Encoder::encode_packet (endpoint -> client, PROTOCOL.md 6.4) *)
Definition encode_packet (s t : sockaddr) (payload : list N) : list N :=
  let total_length := UDPPKT_OUT_FIXED_HEADER_NO_LENGTH_SIZE + lenN payload in
  to_be 4 total_length
  ++ put_fixed_size_ip (sip s) ++ to_be 2 (sport s)
  ++ put_fixed_size_ip (sip t) ++ to_be 2 (sport t)
  ++ payload.
