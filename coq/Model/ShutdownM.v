(* Model of shutdown.rs: a broadcast channel of capacity 1 (notification) and an mpsc channel whose
   senders are the completion guards. Participants register (subscribe + clone the guard sender if
   it still exists), wait, and finish; the coordinator submits and waits for completion. *)
From Coq Require Import List NArith Bool.
Import ListNotations.
Open Scope N_scope.

Record participant := {
  p_awaited : bool;        (* holds a completion guard (registered before completion began) *)
  p_pending : bool;        (* a notification sent after its subscription has not been consumed yet *)
  p_waiting : bool;        (* blocked in Notification::wait *)
  p_observed : bool;       (* wait returned Ok *)
  p_finished : bool        (* wound down: everything it held is dropped *)
}.

Record sstate := {
  parts : list participant;
  completing : bool;       (* completion() dropped the original guard sender and awaits the channel *)
}.

Definition s0 : sstate := {| parts := []; completing := false |}.

Inductive sop := Register | Wait (i : nat) | Submit | Finish (i : nat) | Complete.

Fixpoint upd_nth (i : nat) (f : participant -> participant) (l : list participant) : list participant :=
  match l, i with
  | [], _ => []
  | x :: r, O => f x :: r
  | x :: r, S k => x :: upd_nth k f r
  end.

(* a waiting participant with a pending notification observes it at once *)
Definition deliver (p : participant) : participant :=
  if p_waiting p && p_pending p && negb (p_finished p)
  then {| p_awaited := p_awaited p; p_pending := false; p_waiting := false; p_observed := true; p_finished := false |}
  else p.

Definition sstep (s : sstate) (o : sop) : sstate :=
  match o with
  | Register =>
    {| parts := parts s ++ [{| p_awaited := negb (completing s); p_pending := false; p_waiting := false;
                               p_observed := false; p_finished := false |}];
       completing := completing s |}
  | Wait i =>
    {| parts := upd_nth i (fun p => if p_finished p then p else
                                     deliver {| p_awaited := p_awaited p; p_pending := p_pending p; p_waiting := true;
                                                p_observed := p_observed p; p_finished := false |}) (parts s);
       completing := completing s |}
  | Submit =>
    {| parts := map (fun p => if p_finished p then p else
                               deliver {| p_awaited := p_awaited p; p_pending := true; p_waiting := p_waiting p;
                                          p_observed := p_observed p; p_finished := false |}) (parts s);
       completing := completing s |}
  | Finish i =>
    {| parts := upd_nth i (fun p => {| p_awaited := p_awaited p; p_pending := p_pending p; p_waiting := false;
                                       p_observed := p_observed p; p_finished := true |}) (parts s);
       completing := completing s |}
  | Complete => {| parts := parts s; completing := true |}
  end.

Definition srun (ops : list sop) : sstate := fold_left sstep ops s0.

(* completion() returns: it was started and no guard is alive *)
Definition completion_done (s : sstate) : bool :=
  completing s && forallb (fun p => negb (p_awaited p) || p_finished p) (parts s).

(* A session selects between the shutdown notification and its work. [feed_lost] = the listener that
   feeds the session (the QUIC multiplexer inside Core::listen) has stopped, which makes the work future
   ready too, with an error. [shutdown_first] = SESSIONS_SAY_GOODBYE_WHEN_FEED_STOPS; otherwise the
   select picks either ready branch ([coin]). *)
Inductive wind := StillServing | Goodbye | Abrupt.

Definition session_poll (shutdown_first notified feed_lost coin : bool) : wind :=
  match notified, feed_lost with
  | false, false => StillServing
  | true, false => Goodbye
  | false, true => Abrupt
  | true, true => if shutdown_first then Goodbye else if coin then Goodbye else Abrupt
  end.

(* endpoint/src/main.rs after an interrupt: the process may exit when its select! ends. [waits] =
   MAIN_AWAITS_COMPLETION: the listener's return is followed by awaiting completion; otherwise (as found) the
   listener's return ends the process at once. *)
Definition process_may_exit (waits : bool) (s : sstate) (listener_returned : bool) : bool :=
  if waits then completion_done s else listener_returned.

(* The wind-down of a notified HTTP/1.1 session (http1_codec.rs graceful_shutdown called through shutdown::close_within_bound, with the
   session's protocol, by the session's owner): what is left of the download has to be written
   to the client, flushed, and the transport shut down, all of which needs the client to take bytes. [taken_at] = when the client
   has taken all of it, in ms after the call (None = never: a client that has stopped reading and stays connected).
   [bounded] = HTTP1_ORDERLY_CLOSE_BOUNDED: the whole orderly close of a NOTIFIED session runs under one bound [B]; on expiry it fails and the
   connection is closed by the drop of the codec (what was left is lost with the failed connection). As found the writes and the
   flush had no bound: the session of a client that reads nothing never finished, and completion never returned.
   Some (t, orderly) = the session finishes t ms after it was notified; None = it never does. *)
Definition h1_close (bounded : bool) (B : N) (taken_at : option N) : option (N * bool) :=
  match taken_at with
  | Some t => if bounded && negb (t <? B) then Some (B, false) else Some (t, true)
  | None => if bounded then Some (B, false) else None
  end.

(* The wind-down of a notified HTTP/2 session (http2_codec.rs graceful_shutdown): GOAWAY, so that no new stream is taken, and then the
   connection is driven until the streams in flight have run to their end. [streams_end_at] = when the last of them ends by itself,
   in ms after the call (its client reads all the time; the peers of the tunnel decide how long it lasts).
   [limited] = the bound of the orderly close is applied to this session too (negb SESSION_CLOSE_BOUND_IS_FOR_HTTP1_ONLY). As found
   after the bound had been introduced for every protocol: a tunnel still live [B] ms after the submission was cut in the middle.
   (t, whole) = the session finishes t ms after it was notified; whole = its streams ran to their end. *)
Definition h2_close (limited : bool) (B : N) (streams_end_at : N) : N * bool :=
  if limited && negb (streams_end_at <? B) then (B, false) else (streams_end_at, true).
