(* Model of rules.rs (Rule::matches, RulesEngine::evaluate) and of
   Core::evaluate_connection_rules. Rule fields are modelled after parsing: the text forms
   (IpNet::from_str, hex::decode) are produced by the harness and validated by the diff. *)
From Coq Require Import List NArith Bool.
From TT Require Import Lib.BytesL Model.ConnectPolicy.
Import ListNotations.
Open Scope N_scope.

Inductive cidr_field :=
| CNone                                   (* key absent *)
| CBad                                    (* does not parse as an IpNet *)
| CNet (fam : N) (a : N) (plen : N).      (* family 4|6, address (host bits may be set), prefix length *)

Inductive pat_field :=
| PNone
| PBad                                    (* hex::decode fails on the prefix or on the mask *)
| PPrefix (p : list N)
| PMasked (p m : list N).

Inductive action := Allow | Deny.

Record rule := { r_cidr : cidr_field; r_pat : pat_field; r_action : action }.

Definition bits (fam : N) : N := if fam =? 4 then 32 else 128.

(* IpNet::contains(&IpAddr): same family and equal network part *)
Definition net_contains (fam a plen : N) (ip : addr) : bool :=
  (afam ip =? fam) && (plen <=? bits fam)
  && (N.shiftr a (bits fam - plen) =? N.shiftr (aip ip) (bits fam - plen)).

Fixpoint starts_with (cr p : list N) {struct p} : bool :=
  match p, cr with
  | [], _ => true
  | x :: p', y :: cr' => (x =? y) && starts_with cr' p'
  | _ :: _, [] => false
  end.

(* the `for i in 0..mask_len` loop over the three slices *)
Fixpoint masked_eq (cr p m : list N) {struct m} : bool :=
  match cr, p, m with
  | c :: cr', x :: p', k :: m' => (N.land c k =? N.land x k) && masked_eq cr' p' m'
  | _, _, _ => true
  end.

Definition mask_len (cr p m : list N) : N := N.min (N.min (lenN m) (lenN p)) (lenN cr).

Definition rule_matches (r : rule) (ip : addr) (cr : option (list N)) : bool :=
  match r_cidr r with
  | CBad => false
  | c =>
    let m1 := match c with CNet f a l => net_contains f a l ip | _ => true end in
    match r_pat r with
    | PNone => m1
    | pat =>
      match cr with
      | None => false
      | Some data =>
        match pat with
        | PBad => false
        | PPrefix p => m1 && starts_with data p
        | PMasked p m => m1 && ((0 <? mask_len data p m) && masked_eq data p m)
        | PNone => m1
        end
      end
    end
  end.

Definition has_pat (r : rule) : bool := match r_pat r with PNone => false | _ => true end.

Definition verdict_of (a : action) : action := a.

Fixpoint first_match (rules : list rule) (ip : addr) (cr : option (list N)) : action :=
  match rules with
  | [] => Allow
  | r :: rest => if rule_matches r ip cr then r_action r else first_match rest ip cr
  end.

(* RulesEngine::evaluate *)
Definition evaluate (rules : list rule) (ip : addr) (cr : option (list N)) : action :=
  match cr with
  | None => if existsb has_pat rules then Deny else first_match rules ip cr
  | Some _ => first_match rules ip cr
  end.

(* IpAddr::to_canonical: ::ffff:a.b.c.d becomes a.b.c.d *)
Definition to_canonical (ip : addr) : addr :=
  if (afam ip =? 6) && (aip ip / 4294967296 =? 65535)
  then {| afam := 4; aip := aip ip mod 4294967296 |} else ip.

(* Core::evaluate_connection_rules on a known peer address *)
Definition connection_verdict (canonicalise : bool) (rules : list rule) (peer : addr)
           (cr : option (list N)) : action :=
  evaluate rules (if canonicalise then to_canonical peer else peer) cr.
