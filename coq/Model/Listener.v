(* Model of the session loop of tunnel.rs Tunnel::listen_inner with respect to the client-listener
   timeout: requests are accepted and served concurrently; when the timeout expires the session is
   closed only if no request is in service. *)
From Coq Require Import List NArith Bool.
Import ListNotations.

Inductive levent :=
| LAccept            (* listen() returned a request: a task is spawned for it *)
| LDone              (* a request task ended *)
| LExpire.           (* client_listener_timeout expired while waiting in listen() *)

Record lstate := { in_service : nat; closed_by_timer : bool; closed_with : nat }.
Definition l0 : lstate := {| in_service := 0; closed_by_timer := false; closed_with := 0 |}.

(* [spares] = LISTENER_TIMEOUT_SPARES_ACTIVE_SESSIONS *)
Definition lstep (spares : bool) (s : lstate) (e : levent) : lstate :=
  if closed_by_timer s then s else
  match e with
  | LAccept => {| in_service := S (in_service s); closed_by_timer := false; closed_with := 0 |}
  | LDone => {| in_service := pred (in_service s); closed_by_timer := false; closed_with := 0 |}
  | LExpire =>
    if spares && negb (Nat.eqb (in_service s) 0) then s
    else {| in_service := in_service s; closed_by_timer := true; closed_with := in_service s |}
  end.

Definition lrun (spares : bool) (es : list levent) : lstate := fold_left (lstep spares) es l0.

(* Connection establishment (tunnel.rs on_tcp_connect_request): the connect future completes at
   [done_at] (None = never, e.g. a peer that does not answer the SYN) and races a timer.
   [under_est] = CONNECT_UNDER_ESTABLISHMENT_TIMEOUT: the timer is connection_establishment_timeout [est];
   otherwise (the mix-up this guards against) some other duration [other]. *)
Inductive eoutcome :=
| EConnected (at_ms : N)      (* 200, the tunnel starts *)
| EFailed (at_ms : N).        (* 502 / X-Warning 302, the connect future and its socket are dropped *)

Definition establish (under_est : bool) (est other : N) (done_at : option N) : eoutcome :=
  let timer := if under_est then est else other in
  match done_at with
  | Some t => if (t <? timer)%N then EConnected t else EFailed timer
  | None => EFailed timer
  end.

(* The TLS handshake at the listener (core.rs listen_tcp + on_new_tls_connection) has two stages: reading the ClientHello,
   finished [a] ms after the connection was accepted, and the rest of the handshake, finished [b] ms after that.
   [one_deadline] = TLS_HANDSHAKE_HAS_ONE_DEADLINE: both stages run under one deadline fixed when the connection was accepted;
   as found each stage was given the whole timeout [T] of its own.
   Some t = the handshake completed [t] ms after the connection was accepted; None = the connection was dropped. *)
Definition handshake (one_deadline : bool) (T a b : N) : option N :=
  if (a <? T)%N then
    (if one_deadline then (if (a + b <? T)%N then Some (a + b)%N else None)
     else (if (b <? T)%N then Some (a + b)%N else None))
  else None.

(* The deadline of the handshake is an instant on the clock (core.rs listen_tcp: the instant the connection was accepted + T), and
   that sum has to be representable: [room] = how far beyond now the clock reaches (tokio's Instant on Linux counts the seconds in
   an i64; tls_handshake_timeout_secs may be as large as i64::MAX, a natural way to write "no limit"), [far] = what stands in for
   a deadline the clock cannot represent (30 years, tokio's own far future).
   [saturates] = TLS_HANDSHAKE_DEADLINE_SATURATES: the deadline is computed with checked_add and falls back to now + far; as found
   (once the two stages shared one deadline) the plain addition panicked in the connection's task and the connection was dropped,
   whatever the client did.
   Some T' = the limit the handshake runs under; None = there is no handshake at all. *)
Definition handshake_limit (saturates : bool) (room far T : N) : option N :=
  if (T <=? room)%N then Some T else if saturates then Some far else None.

Definition listener_handshake (one_deadline saturates : bool) (room far T a b : N) : option N :=
  match handshake_limit saturates room far T with
  | Some T' => handshake one_deadline T' a b
  | None => None
  end.

(* milliseconds: i64::MAX seconds less the clock's own reading (at least one second since boot), and 30 years *)
Definition CLOCK_ROOM_MS : N := (9223372036854775807 - 1) * 1000.
Definition FAR_FUTURE_MS : N := 86400 * 365 * 30 * 1000.
