(* Model of the response side of Http1Codec (http1_codec.rs): messages (the response head, body chunks) are handed over through
   a channel of capacity one, taken one at a time by the listen loop and written to the client, possibly in several partial
   writes; the future that does the writing can be dropped at any await point (a handler gives it up when its session timer
   expires); graceful_shutdown finishes the message in flight and the queued one before it closes the connection.
   [keep] = HTTP1_MESSAGE_IN_FLIGHT_KEPT: the message being written lives in the codec (download_in_flight) and survives the
   future; as found it lived in the future and a drop lost what was left of it. *)
From Coq Require Import List NArith Bool.
Import ListNotations.

Record dl := { queued : list (list N);        (* the channel: at most one message *)
               flight : list N;               (* what is left of the message being written ([] = none) *)
               wire : list N;                 (* what the client has been sent *)
               accepted : list N }.           (* everything the sink accepted, in order *)
Definition dl0 : dl := {| queued := []; flight := []; wire := []; accepted := [] |}.

Inductive dop :=
| DOffer (m : list N)      (* StreamSink::write: accepted if the channel is empty, handed back otherwise *)
| DTake                    (* the listen loop takes the queued message when none is in flight *)
| DWrite (k : nat)         (* the transport accepts k more bytes of the message in flight *)
| DDrop                    (* the listen future is dropped *)
| DClose.                  (* graceful_shutdown comes to its end: the message in flight, then the queued one, are written out.
                              (The codec itself puts no limit on how long the client may take, HTTP1_OWN_CLOSE_WAITS_FOR_THE_CLIENT. Only
                              a session that closes because a shutdown was submitted is bounded, by its owner (SESSION_CLOSE_TIMEOUT):
                              for a client that takes nothing the close then fails, the connection is dropped as a failed one and what
                              was left is lost with it; that is not a close "in an orderly way", which is all DClose stands for - see
                              h1_close in Model/ShutdownM.v, C19) *)

Definition dstep (keep : bool) (s : dl) (o : dop) : dl :=
  match o with
  | DOffer m =>
    match queued s with
    | [] => {| queued := [m]; flight := flight s; wire := wire s; accepted := accepted s ++ m |}
    | _ => s
    end
  | DTake =>
    match flight s, queued s with
    | [], m :: q => {| queued := q; flight := m; wire := wire s; accepted := accepted s |}
    | _, _ => s
    end
  | DWrite k => {| queued := queued s; flight := skipn k (flight s); wire := wire s ++ firstn k (flight s); accepted := accepted s |}
  | DDrop => if keep then s else {| queued := queued s; flight := []; wire := wire s; accepted := accepted s |}
  | DClose => {| queued := []; flight := []; wire := wire s ++ flight s ++ concat (queued s); accepted := accepted s |}
  end.

Definition drun (keep : bool) (ops : list dop) : dl := fold_left (dstep keep) ops dl0.
