(* Model of the start-up decisions of settings.rs / core.rs: Settings::validate,
   ReverseProxySettings::validate, TlsHostsSettings::validate (through Model/TlsDemux.valid_hosts),
   deserialize_clients on TOML values, and RegistryBasedAuthenticator. *)
From Coq Require Import List NArith Bool.
From TT Require Import Lib.BytesL Lib.Base64 Model.TlsDemux.
Import ListNotations.
Open Scope N_scope.

Record rp_settings := { rp_port : N; rp_mask : list N }.      (* server port, path mask bytes *)

Record core_settings := {
  s_addr_unspecified : bool;     (* listen_address.ip().is_unspecified() *)
  s_addr_loopback : bool;        (* listen_address.ip().is_loopback() *)
  s_port : N;
  s_rp : option rp_settings;
  s_h1 : bool; s_h2 : bool; s_h3 : bool;
  s_clients : list (list N * list N)
}.

Inductive verr := ListenAddressNotSet | BadReverseProxy | NoListenProtocol | NoCredentialsOnPublicAddress.

Definition rp_valid (r : rp_settings) : bool :=
  negb (rp_port r =? 0)
  && match rp_mask r with c :: _ => c =? 47 | [] => false end.      (* non-empty, starts with '/' *)

(* Settings::validate, checks in the order of the code *)
Definition validate (s : core_settings) : option verr :=
  if s_addr_unspecified s && (s_port s =? 0) then Some ListenAddressNotSet
  else if match s_rp s with Some r => negb (rp_valid r) | None => false end then Some BadReverseProxy
  else if negb (s_h1 s) && negb (s_h2 s) && negb (s_h3 s) then Some NoListenProtocol
  else if is_nil (s_clients s) && negb (s_addr_loopback s) then Some NoCredentialsOnPublicAddress
  else None.

(* deserialize_clients on the parsed document: each [[client]] table gives its "username" and
   "password" items as TOML string values (None = key missing or not a string) *)
Definition read_client (READ_AS_STR : bool) (t : option (list N) * option (list N))
  : option (list N * list N) :=
  if negb READ_AS_STR then None      (* the raw-text reader is not modelled: obligation fails *)
  else match t with
       | (Some u, Some p) => if is_nil u || is_nil p then None else Some (u, p)
       | _ => None
       end.

Fixpoint read_clients (flag : bool) (ts : list (option (list N) * option (list N)))
  : option (list (list N * list N)) :=
  match ts with
  | [] => Some []
  | t :: r => match read_client flag t, read_clients flag r with
              | Some c, Some cs => Some (c :: cs)
              | _, _ => None
              end
  end.

(* RegistryBasedAuthenticator: the set of base64("user:password") strings *)
Definition token_of (c : list N * list N) : list N := b64_encode (fst c ++ 58 :: snd c).
Definition authenticate (clients : list (list N * list N)) (token : list N) : bool :=
  existsb (fun c => list_eqb N.eqb (token_of c) token) clients.
