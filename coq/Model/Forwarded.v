(* Model of the response-body side of http_forwarded_stream.rs (ForwardedStreamSink after the
   response head) driven by pipe.rs SimplexPipe: the origin's bytes arrive in pieces, the
   client-side sink accepts an arbitrary part of what it is offered. The chunk-size line parser
   (httparse::parse_chunk_size) is a parameter. *)
From Coq Require Import List NArith Bool Arith.
From TT Require Import Lib.BytesL.
Import ListNotations.
Local Open Scope nat_scope.

Inductive csize := CComplete (pos : nat) (size : nat) | CPartial | CError.

(* SinkState after the head *)
Inductive bstate :=
| BNon (len : option nat) (sent : nat)         (* TransferringBodyNonEncoded *)
| BPrefix (buf : list N)                       (* WaitingChunkPrefix *)
| BData (remaining : nat)                      (* TransferringBodyChunked *)
| BSuffix (buf : list N) (terminating : bool)  (* WaitingChunkSuffix *)
| BDone                                        (* body complete, end of stream passed on *)
| BErr.

Definition CRLF : list N := [13%N; 10%N].

Fixpoint is_prefix (a b : list N) : bool :=
  match a, b with
  | [], _ => true
  | x :: a', y :: b' => N.eqb x y && is_prefix a' b'
  | _ :: _, [] => false
  end.

Inductive wres := WErr | WOk (st : bstate) (delivered : list N) (unsent : list N) (used_sink : bool).

Section Sink.
  Variable psize : list N -> csize.

  (* ForwardedStreamSink::write in a body state; [k] = what the client sink accepts of this offer *)
  Definition cap (k : option nat) (n : nat) : nat := match k with Some k => Nat.min k n | None => n end.

  Definition bwrite (st : bstate) (data : list N) (k : option nat) : wres :=
    match st with
    | BNon len sent =>
      match len with
      | Some n =>
        if n <=? sent then WErr
        else
          let to_send := Nat.min (length data) (n - sent) in
          let a := cap k to_send in
          if sent + a =? n then WOk BDone (firstn a data) [] true     (* body complete: eof, the rest is dropped *)
          else WOk (BNon len (sent + a)) (firstn a data) (skipn a data) true
      | None =>
        let a := cap k (length data) in
        WOk (BNon None (sent + a)) (firstn a data) (skipn a data) true
      end
    | BPrefix buf =>
      let d := buf ++ data in
      match psize d with
      | CComplete pos size =>
        WOk (if size =? 0 then BSuffix [] true else BData size) [] (skipn pos d) false
      | CPartial => WOk (BPrefix d) [] [] false
      | CError => WErr
      end
    | BData r =>
      let to_send := Nat.min (length data) r in
      let a := cap k to_send in
      WOk (if r - a =? 0 then BSuffix [] false else BData (r - a)) (firstn a data) (skipn a data) true
    | BSuffix buf term =>
      let to_read := Nat.min (length data) (2 - length buf) in
      let suffix := buf ++ firstn to_read data in
      let rest := skipn to_read data in
      if negb (is_prefix suffix CRLF) then WErr
      else if length suffix <? 2 then WOk (BSuffix suffix term) [] rest false
      else if term then WOk BDone [] [] false
      else WOk (BPrefix []) [] rest false
    | BDone => WErr
    | BErr => WErr
    end.

  (* SimplexPipe::exchange on one chunk read from the origin: write, and write the unsent rest
     again (after wait_writable) until nothing is left *)
  Fixpoint drive_chunk (fuel : nat) (st : bstate) (data : list N) (accs : list nat) (out : list N)
    : bstate * list N * list nat :=
    match fuel with
    | O => (BErr, out, accs)
    | S f =>
      match data with
      | [] => (st, out, accs)
      | _ :: _ =>
        let k := match accs with a :: _ => Some a | [] => None end in
        match bwrite st data k with
        | WErr => (BErr, out, accs)
        | WOk st' o unsent used =>
          drive_chunk f st' unsent (if used then tl accs else accs) (out ++ o)
        end
      end
    end.

  Fixpoint drive (st : bstate) (segs : list (list N)) (accs : list nat) (out : list N) : bstate * list N :=
    match segs with
    | [] => (st, out)
    | s :: r =>
      let '(st1, out1, accs1) := drive_chunk (length s + length accs + 1) st s accs out in
      match st1 with
      | BErr => (BErr, out1)
      | _ => drive st1 r accs1 out1
      end
    end.

  (* ---- reference: one byte at a time ---- *)
  Definition bstep (st : bstate) (b : N) : bstate * list N :=
    match st with
    | BNon None sent => (BNon None (S sent), [b])
    | BNon (Some n) sent =>
      if n <=? sent then (BErr, [])
      else if S sent =? n then (BDone, [b]) else (BNon (Some n) (S sent), [b])
    | BPrefix buf =>
      match psize (buf ++ [b]) with
      | CComplete _ size => (if size =? 0 then BSuffix [] true else BData size, [])
      | CPartial => (BPrefix (buf ++ [b]), [])
      | CError => (BErr, [])
      end
    | BData r => (if r - 1 =? 0 then BSuffix [] false else BData (r - 1), [b])
    | BSuffix buf term =>
      let suffix := buf ++ [b] in
      if negb (is_prefix suffix CRLF) then (BErr, [])
      else if length suffix <? 2 then (BSuffix suffix term, [])
      else if term then (BDone, []) else (BPrefix [], [])
    | BDone => (BDone, [])
    | BErr => (BErr, [])
    end.

  Fixpoint bfold (st : bstate) (bytes : list N) : bstate * list N :=
    match bytes with
    | [] => (st, [])
    | b :: r => let '(st1, o1) := bstep st b in
                let '(st2, o2) := bfold st1 r in (st2, o1 ++ o2)
    end.
End Sink.

(* ---- the stated limit of a chunk-size line (on_encoded_chunk_prefix: MAX_CHUNK_SIZE_LINE_LENGTH): a line that is complete
        only beyond [limit] bytes is refused, and so is a line still undecided once [limit] bytes are there. The limited
        parser is again a chunk-size line parser, so the sink above is the code's sink when [psize] is [bounded limit p]. ---- *)
Definition bounded (limit : nat) (p : list N -> csize) (d : list N) : csize :=
  match p d with
  | CComplete pos size => if limit <? pos then CError else CComplete pos size
  | CPartial => if limit <=? length d then CError else CPartial
  | CError => CError
  end.

(* ---- a concrete chunk-size line parser for the executable model: hex digits, optional
        extension introduced by ';' (or blanks), CR LF ---- *)
Definition hexval (c : N) : option nat :=
  if (48 <=? c)%N && (c <=? 57)%N then Some (N.to_nat (c - 48))
  else if (97 <=? c)%N && (c <=? 102)%N then Some (N.to_nat (c - 87))
  else if (65 <=? c)%N && (c <=? 70)%N then Some (N.to_nat (c - 55))
  else None.

(* phase 0: digits (count so far), 1: extension, 2: after CR *)
Fixpoint psize_go (b : list N) (phase : nat) (ndig : nat) (acc : nat) (pos : nat) : csize :=
  match b with
  | [] => CPartial
  | c :: r =>
    match phase with
    | 0 =>
      match hexval c with
      | Some v => if 15 <? ndig then CError else psize_go r 0 (S ndig) (16 * acc + v) (S pos)
      | None =>
        if ndig =? 0 then CError
        else if (c =? 13)%N then psize_go r 2 ndig acc (S pos)
        else if (c =? 59)%N || (c =? 32)%N || (c =? 9)%N then psize_go r 1 ndig acc (S pos)
        else CError
      end
    | 1 =>
      if (c =? 13)%N then psize_go r 2 ndig acc (S pos)
      else if (c =? 10)%N then CError
      else psize_go r 1 ndig acc (S pos)
    | _ => if (c =? 10)%N then CComplete (S pos) acc else CError
    end
  end.

Definition psize_c (b : list N) : csize := psize_go b 0 0 0 0.
