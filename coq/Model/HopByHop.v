(* Model of ForwardedStreamSource::convert_response (http_forwarded_stream.rs): which of the origin's response fields are
   handed on to the client. A field is (name, value), the name compared in lower case as the code does.
   [two_pass] = FWD_HOP_BY_HOP_WHEREVER_THEY_STAND: the fields named by Connection, the Content-Length of a response that
   carries Transfer-Encoding, and that Transfer-Encoding when the chunked framing is removed (HTTP/2 and HTTP/3 clients), are
   collected before the fields are handed on;
   as found they were collected while handing on, so a field standing before the one that names it got through.
   Modelling limits: str::trim and str::to_lowercase are modelled on ASCII (a Connection token with a non-ASCII letter whose
   lower case is ASCII, such as the Kelvin sign, is not followed). *)
From Coq Require Import List NArith Bool.
From TT Require Import Lib.BytesL Lib.Utf8.
Import ListNotations.
Open Scope N_scope.

Definition field : Type := (list N * list N)%type.

Definition lower (b : N) : N := if (65 <=? b) && (b <=? 90) then b + 32 else b.
Definition lower_s (s : list N) : list N := map lower s.
Definition is_ws (b : N) : bool := (b =? 32) || ((9 <=? b) && (b <=? 13)).

Fixpoint trim_l (s : list N) : list N :=
  match s with x :: r => if is_ws x then trim_l r else s | [] => [] end.
Definition trim (s : list N) : list N := rev (trim_l (rev (trim_l s))).

(* str::split(',') *)
Fixpoint split_comma (s : list N) : list (list N) :=
  match s with
  | [] => [[]]
  | x :: r => if x =? 44 then [] :: split_comma r
              else match split_comma r with t :: ts => (x :: t) :: ts | [] => [[x]] end
  end.

Definition s_eqb (a b : list N) : bool := list_eqb N.eqb a b.
Definition mem (x : list N) (l : list (list N)) : bool := existsb (s_eqb x) l.

Definition n_connection : list N := [99; 111; 110; 110; 101; 99; 116; 105; 111; 110].
Definition n_close : list N := [99; 108; 111; 115; 101].
Definition n_te : list N := [116; 114; 97; 110; 115; 102; 101; 114; 45; 101; 110; 99; 111; 100; 105; 110; 103].
Definition n_cl : list N := [99; 111; 110; 116; 101; 110; 116; 45; 108; 101; 110; 103; 116; 104].
Definition always_dropped : list (list N) :=
  [[112; 114; 111; 120; 121; 45; 99; 111; 110; 110; 101; 99; 116; 105; 111; 110];   (* proxy-connection *)
   [107; 101; 101; 112; 45; 97; 108; 105; 118; 101];                              (* keep-alive *)
   [117; 112; 103; 114; 97; 100; 101]].                                           (* upgrade *)

(* the names a Connection value adds to the drop set: split(','), all but the literal "close", trimmed, lower case; a value that is
   not UTF-8 adds nothing *)
Definition connection_tokens (v : list N) : list (list N) :=
  if utf8_valid v then map (fun t => lower_s (trim t)) (filter (fun t => negb (s_eqb t n_close)) (split_comma v)) else [].

Section Convert.
Variable two_pass : bool.
Variable dechunked : bool.      (* the client speaks HTTP/2 or HTTP/3 *)

(* one step of the loop over the fields: the drop set so far, the fields handed on so far (in order) *)
Definition conv_step (st : list (list N) * list field) (h : field) : list (list N) * list field :=
  let '(drop, out) := st in
  let name := lower_s (fst h) in
  if mem name drop then (drop, out)
  else if s_eqb name n_connection then ((if two_pass then [] else connection_tokens (snd h)) ++ drop, out)
  else if s_eqb name n_te && dechunked then ((if two_pass then [] else [n_cl; n_te]) ++ drop, out)
  else (drop, out ++ [h]).
(* (as found, before the names were collected ahead, a Transfer-Encoding handed on to an HTTP/1.1 client left Content-Length alone) *)

Definition prescan (hs : list field) : list (list N) :=
  flat_map (fun h => if s_eqb (lower_s (fst h)) n_connection then connection_tokens (snd h) else []) hs
  ++ (if existsb (fun h => s_eqb (lower_s (fst h)) n_te) hs then n_cl :: (if dechunked then [n_te] else []) else []).

Definition convert (hs : list field) : list field :=
  snd (fold_left conv_step hs ((if two_pass then prescan hs else []) ++ always_dropped, [])).
End Convert.

(* ---- the reading of "headers minus hop-by-hop ones" (RFC 9110 7.6.1): Connection itself, the fields any Connection field of
   the response names, Proxy-Connection / Keep-Alive / Upgrade, and - when the chunked framing is removed for the client - the
   framing fields Transfer-Encoding and Content-Length of a response that carries Transfer-Encoding *)
Definition hop_by_hop (dechunked : bool) (hs : list field) (name : list N) : bool :=
  let n := lower_s name in
  s_eqb n n_connection
  || mem n always_dropped
  || mem n (flat_map (fun h => if s_eqb (lower_s (fst h)) n_connection then connection_tokens (snd h) else []) hs)
  || (existsb (fun h => s_eqb (lower_s (fst h)) n_te) hs && (s_eqb n n_cl || (dechunked && s_eqb n n_te))).

Definition end_to_end (dechunked : bool) (hs : list field) : list field :=
  filter (fun h => negb (hop_by_hop dechunked hs (fst h))) hs.
