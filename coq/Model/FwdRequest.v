(* Model of http_forwarded_stream.rs serialize_request: the HTTP/1.1 request head written to the target host of a
   non-CONNECT request on the tunnel channel, and the framing chosen for its body. Header names are lower case (http::HeaderMap). *)
From Coq Require Import List NArith Bool.
From TT Require Import Lib.BytesL Model.Http1Wire Model.HopByHop.
Import ListNotations.
Open Scope N_scope.

Definition n_host : list N := [104; 111; 115; 116].
Definition n_pauth : list N := [112; 114; 111; 120; 121; 45; 97; 117; 116; 104; 111; 114; 105; 122; 97; 116; 105; 111; 110].
Definition n_pconn : list N := [112; 114; 111; 120; 121; 45; 99; 111; 110; 110; 101; 99; 116; 105; 111; 110].
Definition n_clen : list N := [99; 111; 110; 116; 101; 110; 116; 45; 108; 101; 110; 103; 116; 104].
Definition n_tenc : list N := [116; 114; 97; 110; 115; 102; 101; 114; 45; 101; 110; 99; 111; 100; 105; 110; 103].
Definition v_chunked : list N := [99; 104; 117; 110; 107; 101; 100].
Definition n_options : list N := [79; 80; 84; 73; 79; 78; 83].
Definition n_head : list N := [72; 69; 65; 68].

Definition seqb (a b : list N) : bool := list_eqb N.eqb a b.

(* is_chunked: the final transfer coding of the value (the last comma-separated element, trimmed) is "chunked" in any case *)
Definition is_chunked (v : list N) : bool :=
  seqb (lower_s (trim (last (split_comma v) []))) v_chunked.

Inductive framing := Det (n : N) | Chunked.

(* u64::from_str: optional '+', at least one digit, below 2^64 *)
Fixpoint digits_val (acc : N) (s : list N) : option N :=
  match s with
  | [] => Some acc
  | d :: r => if (48 <=? d) && (d <=? 57) then digits_val (acc * 10 + (d - 48)) r else None
  end.
Definition parse_u64 (s : list N) : option N :=
  let body := match s with 43 :: r => r | _ => s end in
  match body with
  | [] => None
  | _ => match digits_val 0 body with
         | Some v => if v <? 18446744073709551616 then Some v else None
         | None => None
         end
  end.

(* the loop over the fields: bytes written, whether a Host field was met, the framing so far; None = the request is refused (400) *)
Fixpoint ser_fields (authority : list N) (hs : list header) (host_seen : bool) (fr : option framing)
  : option (list N * bool * option framing) :=
  match hs with
  | [] => Some ([], host_seen, fr)
  | h :: r =>
    let name := fst h in
    if seqb name n_pauth || seqb name n_pconn then ser_fields authority r host_seen fr
    else if seqb name n_host then
      if host_seen then None
      else match ser_fields authority r true fr with
           | Some (b, s, f) => Some (n_host ++ [58; 32] ++ authority ++ crlf ++ b, s, f)
           | None => None
           end
    else
      let next (fr' : option framing) :=
          match ser_fields authority r host_seen fr' with
          | Some (b, s, f) => Some (name ++ [58; 32] ++ snd h ++ crlf ++ b, s, f)
          | None => None
          end in
      if seqb name n_clen then
        match fr with
        | None => match parse_u64 (snd h) with Some n => next (Some (Det n)) | None => None end
        | Some (Det _) => None
        | Some Chunked => next fr
        end
      else if seqb name n_tenc && is_chunked (snd h) then next (Some Chunked)
      else next fr
  end.

(* [target]: the request's path and query (for a request without a path: * for OPTIONS, / otherwise - the caller's business);
   [multiplexed]: the client speaks HTTP/2 or HTTP/3 (a body without a stated length is sent chunked) *)
Definition ser_request (method target : list N) (minor : N) (multiplexed : bool) (authority : list N) (hs : list header)
  : option (list N * framing) :=
  match ser_fields authority hs false None with
  | None => None
  | Some (b, seen, fr) =>
    let line := method ++ [32] ++ target ++ [32] ++ http1_version minor ++ crlf in
    let tail := (if seen then [] else n_host ++ [58; 32] ++ authority ++ crlf) ++ crlf in
    Some (line ++ b ++ tail,
          if seqb method n_head then Det 0
          else match fr with Some f => f | None => if multiplexed then Chunked else Det 0 end)
  end.

(* ---- the request target. The http crate holds path and query as one string and renders it with [as_str]: "/" when the string
   is empty, the string itself otherwise - so an absolute-form target with an empty path and a query (http://h.test?x=1) is
   rendered "?x=1". [wire_target] is what serialize_request writes for what [as_str] gave ([slash] =
   FWD_EMPTY_PATH_IS_SLASH: "/" is written in front of a rendering that starts with the query; as found it was not) *)
Definition crate_as_str (path : list N) (query : option (list N)) : list N :=
  match path ++ match query with Some q => 63 :: q | None => [] end with
  | [] => [47]
  | d => d
  end.

Definition wire_target (slash : bool) (rendered : list N) : list N :=
  match rendered with
  | 63 :: _ => if slash then 47 :: rendered else rendered
  | _ => rendered
  end.

(* RFC 9112 3.2.1 origin-form: absolute-path [ "?" query ], an empty path being sent as "/" *)
Definition origin_form (path : list N) (query : option (list N)) : list N :=
  (match path with [] => [47] | _ => path end) ++ match query with Some q => 63 :: q | None => [] end.

(* ---- what "the same headers minus proxy hop-by-hop ones, for the target host" reads as: Proxy-Authorization and
   Proxy-Connection are gone, the Host field names the request's authority (in place if the client sent one, else last),
   everything else is kept in order *)
Definition fwd_fields (authority : list N) (hs : list header) : list header :=
  let kept := flat_map (fun h => if seqb (fst h) n_pauth || seqb (fst h) n_pconn then []
                                 else if seqb (fst h) n_host then [(n_host, authority)] else [h]) hs in
  if existsb (fun h => seqb (fst h) n_host) hs then kept else kept ++ [(n_host, authority)].
