(* Model of reverse_proxy.rs handle_stream once the head of the origin's response has been passed on to the client: the request
   body goes on to the origin while the origin's bytes are relayed to the client (a DuplexPipe whose origin-bound end is
   RequestBodySink). The events are taken in the order they are handled: the origin's side (bytes, end of stream, error), the
   upload (a chunk taken by the origin, a write that fails, the end of the request), a failure of the client's side.
   [only_upload] = RP_FAILED_UPLOAD_STOPS_THE_UPLOAD_ONLY: a failed write to the origin (it answered and closed with the body
   unread) stops the upload - the rest of the body is discarded - and the origin's side is relayed on until it ends or fails; as
   found the failed write ended the whole exchange, and what the endpoint had not yet passed on of the origin's answer (everything
   beyond one read, or everything queued behind a slow client) was dropped. *)
From Coq Require Import List NArith Bool.
Import ListNotations.

Inductive ev :=
| EOrigin (bytes : list N) | EOriginEof | EOriginErr
| EUpChunk | EUpFailed | EUpEnd
| EClientFailed.

Definition is_upload (e : ev) : bool :=
  match e with EUpChunk | EUpFailed | EUpEnd => true | _ => false end.

(* ends the origin's side of the exchange *)
Definition is_end (e : ev) : bool :=
  match e with EOriginEof | EOriginErr | EClientFailed => true | _ => false end.

Inductive state :=
| Relaying (relayed : list N) (upload_failed upload_ended : bool)   (* the origin's side is open *)
| OriginDone (relayed : list N)                                     (* its end has been passed on; the request is not over yet *)
| Ended (relayed : list N) (clean : bool).

Definition step (only_upload : bool) (s : state) (e : ev) : state :=
  match s with
  | Relaying r f d =>
    match e with
    | EOrigin b => Relaying (r ++ b) f d
    | EOriginEof => if d then Ended r true else OriginDone r
    | EOriginErr | EClientFailed => Ended r false
    | EUpChunk => s
    | EUpFailed => if f then s else if only_upload then Relaying r true d else Ended r false
    | EUpEnd => Relaying r f true
    end
  | OriginDone r =>
    match e with
    | EUpEnd => Ended r true
    | EUpFailed => if only_upload then s else Ended r false
    | EClientFailed => Ended r false
    | _ => s
    end
  | Ended _ _ => s
  end.

Definition run_from (only_upload : bool) (s : state) (evs : list ev) : state := fold_left (step only_upload) evs s.
Definition run (only_upload : bool) (evs : list ev) : state := run_from only_upload (Relaying [] false false) evs.

(* what the client has been sent of the origin's bytes that follow the head *)
Definition relayed_of (s : state) : list N :=
  match s with Relaying r _ _ | OriginDone r | Ended r _ => r end.

(* what the origin has sent, in order *)
Fixpoint origin_bytes (evs : list ev) : list N :=
  match evs with
  | [] => []
  | EOrigin b :: r => b ++ origin_bytes r
  | _ :: r => origin_bytes r
  end.
