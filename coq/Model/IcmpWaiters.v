(* Model of the reply-waiter bookkeeping of icmp_forwarder.rs (IcmpSink::write with a send that succeeds or fails, the
   matching part of IcmpForwarder::listen, maintain_listeners). The HashMap keyed by Echo (hash = id, seq;
   equality = id, seq and prefix-compatible data) is an association list searched with echo_eq;
   the behaviours the code may or may not have are read from Generated/IcmpWaiterFacts.v. *)
From Coq Require Import List NArith Bool.
From TT Require Import Lib.BytesL Model.Icmp Generated.IcmpWaiterFacts.
Import ListNotations.
Open Scope N_scope.

(* a waiter: the key it is stored under, the client whose queue it feeds, and the instant of the deadline entry made
   for it (ReplyWaiter::deadline) *)
Record entry := { e_key : echo_key; e_client : N; e_deadline : N }.
Record wstate := {
  table : list entry;
  deadlines : list (N * echo_key);         (* (instant, key) in insertion order *)
  queues : list (N * N)                    (* (client, messages waiting in its mpsc queue) *)
}.

Definition queue_len (q : list (N * N)) (c : N) : N :=
  match find (fun p => fst p =? c) q with Some p => snd p | None => 0 end.
Fixpoint queue_set (q : list (N * N)) (c n : N) : list (N * N) :=
  match q with
  | [] => [(c, n)]
  | p :: r => if fst p =? c then (c, n) :: r else p :: queue_set r c n
  end.

Fixpoint lookup (t : list entry) (k : echo_key) : option entry :=
  match t with
  | [] => None
  | e :: r => if echo_eq (e_key e) k then Some e else lookup r k
  end.

(* HashMap::remove: removes the entry whose key equals k *)
Fixpoint remove_key (t : list entry) (k : echo_key) : list entry :=
  match t with
  | [] => []
  | e :: r => if echo_eq (e_key e) k then r else e :: remove_key r k
  end.

(* HashMap::insert: an equal key keeps the stored key and takes the new value *)
Fixpoint insert_key (t : list entry) (k : echo_key) (c dl : N) : list entry :=
  match t with
  | [] => [{| e_key := k; e_client := c; e_deadline := dl |}]
  | e :: r => if echo_eq (e_key e) k then {| e_key := e_key e; e_client := c; e_deadline := dl |} :: r
              else e :: insert_key r k c dl
  end.

(* maintain_listeners, one expired deadline d = (instant, key): the waiter found under the key is removed if its own
   deadline is not later than d. The deadline of an answered request stays in the list; when the same request has been
   sent again, the waiter found is the later one and is left alone. The code this model was first written from removed
   whatever waiter the key found (WAITER_EXPIRES_BY_ITS_OWN_DEADLINE = false). *)
Fixpoint remove_due (t : list entry) (d : N * echo_key) : list entry :=
  match t with
  | [] => []
  | e :: r =>
    if echo_eq (e_key e) (snd d) then
      if WAITER_EXPIRES_BY_ITS_OWN_DEADLINE && negb (e_deadline e <=? fst d) then e :: r else r
    else e :: remove_due r d
  end.

(* IcmpSink::write after a failed send_to: the waiter found under the key is removed if it is the one just made *)
Fixpoint remove_mine (t : list entry) (k : echo_key) (dl : N) : list entry :=
  match t with
  | [] => []
  | e :: r => if echo_eq (e_key e) k then (if e_deadline e =? dl then r else e :: r)
              else e :: remove_mine r k dl
  end.

Inductive wop :=
| WSend (c : N) (k : echo_key) (now : N)    (* the request was sent: IcmpSink::write after send_to *)
| WSendFailed (c : N) (k : echo_key) (now : N)  (* IcmpSink::write when send_to fails (TTL 0, oversize, no route ...) *)
| WPacket (k : echo_key)                    (* a packet whose responded_echo_request() is k *)
| WRecv (c : N)                             (* the client reads one message from its queue *)
| WExpire (now : N).                        (* maintain_listeners wakes up at now *)

Definition set_table (s : wstate) (t : list entry) : wstate :=
  {| table := t; deadlines := deadlines s; queues := queues s |}.

(* returns the new state and the client a message was queued for, if any *)
Definition wstep (T cap : N) (s : wstate) (o : wop) : wstate * option N :=
  match o with
  | WSend c k now =>
    if WAITER_INSERTED_FOR_SENDER then
      ({| table := insert_key (table s) k c (now + T);
          deadlines := deadlines s ++ [(now + T, k)];
          queues := queues s |}, None)
    else (s, None)
  | WSendFailed c k now =>
    if WAITER_INSERTED_FOR_SENDER then
      ({| table := remove_mine (insert_key (table s) k c (now + T)) k (now + T);
          deadlines := deadlines s ++ [(now + T, k)];
          queues := queues s |}, None)
    else (s, None)
  | WPacket k =>
    if negb WAITER_LOOKUP_BY_REQUEST then (s, None) else
    match lookup (table s) k with
    | None => (s, None)
    | Some e =>
      if queue_len (queues s) (e_client e) <? cap then
        ({| table := if WAITER_REMOVED_ON_DELIVERY then remove_key (table s) k else table s;
            deadlines := deadlines s;
            queues := queue_set (queues s) (e_client e) (queue_len (queues s) (e_client e) + 1) |},
         Some (e_client e))
      else
        (set_table s (if WAITER_REMOVED_ON_FULL then remove_key (table s) k else table s), None)
    end
  | WRecv c =>
    ({| table := table s; deadlines := deadlines s;
        queues := queue_set (queues s) c (queue_len (queues s) c - 1) |}, None)
  | WExpire now =>
    if negb WAITERS_EXPIRED_UP_TO_NOW then (s, None) else
    let expired := filter (fun d => fst d <=? now) (deadlines s) in
    ({| table := fold_left remove_due expired (table s);
        deadlines := filter (fun d => negb (fst d <=? now)) (deadlines s);
        queues := queues s |}, None)
  end.

Definition winit : wstate := {| table := []; deadlines := []; queues := [] |}.

Fixpoint wrun (T cap : N) (s : wstate) (ops : list wop) : wstate * list (option N) :=
  match ops with
  | [] => (s, [])
  | o :: r => let '(s1, d) := wstep T cap s o in
              let '(s2, ds) := wrun T cap s1 r in (s2, d :: ds)
  end.
