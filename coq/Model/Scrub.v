(* Model of net_utils.rs scrub_request / scrub_sni and of the Debug form of authentication::Source. *)
From Coq Require Import List NArith Bool.
From TT Require Import Lib.BytesL.
Import ListNotations.
Open Scope N_scope.

Definition SCRUBBED : list N := [115; 99; 114; 117; 98; 98; 101; 100].     (* "scrubbed" *)
Definition AUTHORIZATION : list N := [97; 117; 116; 104; 111; 114; 105; 122; 97; 116; 105; 111; 110].
Definition PROXY_AUTHORIZATION : list N := [112; 114; 111; 120; 121; 45] ++ AUTHORIZATION.
Definition COOKIE : list N := [99; 111; 111; 107; 105; 101].

Definition name_eqb (a b : list N) : bool := list_eqb N.eqb a b.
Definition secret_name (n : list N) : bool := name_eqb n AUTHORIZATION || name_eqb n PROXY_AUTHORIZATION || name_eqb n COOKIE.

(* a header map as the list of (lower-case name, value) pairs in first-insertion order of the names;
   HeaderMap::insert replaces every value of the name by one value, keeping the name's place *)
Fixpoint scrub_headers (seen : list (list N)) (hs : list (list N * list N)) : list (list N * list N) :=
  match hs with
  | [] => []
  | (n, v) :: r =>
    if secret_name n then
      if existsb (name_eqb n) seen then scrub_headers seen r
      else (n, SCRUBBED) :: scrub_headers (n :: seen) r
    else (n, v) :: scrub_headers seen r
  end.

Record req := { r_method : list N; r_uri : list N; r_version : N; r_headers : list (list N * list N) }.

Definition scrub_request (r : req) : req :=
  {| r_method := r_method r; r_uri := r_uri r; r_version := r_version r; r_headers := scrub_headers [] (r_headers r) |}.

(* scrub_sni: everything before the first '.' is replaced *)
Fixpoint find_dot (s : list N) : option (list N) :=       (* the suffix starting at the first '.' *)
  match s with
  | [] => None
  | c :: r => if c =? 46 then Some s else find_dot r
  end.
Definition scrub_sni (s : list N) : list N :=
  match find_dot s with Some suffix => SCRUBBED ++ suffix | None => s end.

(* Debug of authentication::Source *)
Inductive source := SSni (c : list N) | SBasic (t : list N).
Definition source_debug (s : source) : list N :=
  match s with
  | SSni _ => [83; 110; 105; 40; 60] ++ SCRUBBED ++ [62; 41]                                   (* Sni(<scrubbed>) *)
  | SBasic _ => [80; 114; 111; 120; 121; 66; 97; 115; 105; 99; 40; 60] ++ SCRUBBED ++ [62; 41] (* ProxyBasic(<scrubbed>) *)
  end.
