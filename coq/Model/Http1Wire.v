(* Model of the HTTP/1.1 head writers of http1_codec.rs: encode_headers, encode_response, encode_request.
   A header is (name, value); the fields are byte strings as the http crate holds them. *)
From Coq Require Import List NArith Bool.
From TT Require Import Lib.BytesL.
Import ListNotations.
Open Scope N_scope.

Definition crlf : list N := [13; 10].
Definition header : Type := (list N * list N)%type.

(* name ": " value CRLF for every header in order, then the empty line *)
Definition enc_headers (hs : list header) : list N :=
  flat_map (fun h => fst h ++ [58; 32] ++ snd h ++ crlf) hs ++ crlf.

(* "HTTP/1." and the minor digit *)
Definition http1_version (minor : N) : list N := [72; 84; 84; 80; 47; 49; 46; 48 + minor].

(* encode_response: version SP status SP canonical-reason CRLF headers *)
Definition enc_response (minor : N) (status reason : list N) (hs : list header) : list N :=
  http1_version minor ++ [32] ++ status ++ [32] ++ reason ++ crlf ++ enc_headers hs.

(* encode_request: method SP path-and-query SP version CRLF [Host: authority CRLF] headers *)
Definition enc_request (method target : list N) (minor : N) (host : option (list N)) (hs : list header) : list N :=
  method ++ [32] ++ target ++ [32] ++ http1_version minor ++ crlf
  ++ match host with Some h => [72; 111; 115; 116; 58; 32] ++ h ++ crlf | None => [] end
  ++ enc_headers hs.
