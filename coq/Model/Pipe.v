(* Timed model of pipe.rs: SimplexPipe::exchange and DuplexPipe::exchange/exchange_once driven by
   scripted endpoints (every answer carries the virtual instant from which it is available).
   Times are milliseconds; the idle timeout is T. The discrete-event loop mirrors try_select
   (left polled first) and tokio::time::timeout (the inner future is polled before the timer). *)
From Coq Require Import List NArith Bool.
From TT Require Import Lib.BytesL.
Import ListNotations.
Open Scope N_scope.

Inductive read_ans := RChunk (at_ : N) (bs : list N) | REof (at_ : N) | RErr (at_ : N) | RNever.
Inductive timed_ans := AOk (at_ : N) | AErr (at_ : N) | ANever.
Inductive write_ans := WAccept (k : N) | WErr.

Record penv := {
  reads : list read_ans;
  writes : list write_ans;
  waits : list timed_ans;
  eof_err : bool;
  flushes : list timed_ans
}.

Inductive phase := PRun | PFlush | PFinished | PFailed.

Record pstate := {
  env : penv;
  pending : option (list N);       (* pending_chunk *)
  la : N;                          (* last_activity *)
  iter_start : N;                  (* when the current await (and its timer) started *)
  ph : phase;
  (* observations *)
  read_log : list N; delivered : list N; consumed : N; metric : N; eof_calls : N; flush_done : N
}.

Definition pinit (e : penv) : pstate :=
  {| env := e; pending := None; la := 0; iter_start := 0; ph := PRun;
     read_log := []; delivered := []; consumed := 0; metric := 0; eof_calls := 0; flush_done := 0 |}.

Definition LA_ON_TRANSFER_ONLY : bool := true.   (* overridden by the regenerated fact in the engine *)

Inductive evkind := Complete | Timeout.

Definition avail (t start : N) : N := N.max t start.

(* next event of one pipe: (instant, kind); None = its await never ends and has no timer *)
Definition next_event (T : N) (p : pstate) : option (N * evkind) :=
  let timer := iter_start p + T in
  let timed (c : option N) :=
      match c with
      | Some c => if c <=? timer then Some (c, Complete) else Some (timer, Timeout)
      | None => Some (timer, Timeout)
      end in
  match ph p with
  | PRun =>
    match pending p with
    | None =>
      timed match reads (env p) with
            | RChunk t _ :: _ | REof t :: _ | RErr t :: _ => Some (avail t (iter_start p))
            | _ => None
            end
    | Some _ =>
      timed match waits (env p) with
            | AOk t :: _ | AErr t :: _ => Some (avail t (iter_start p))
            | _ => None
            end
    end
  | PFlush =>
    match flushes (env p) with
    | AOk t :: _ | AErr t :: _ => Some (avail t (iter_start p), Complete)
    | _ => None
    end
  | _ => None
  end.

Definition set_env_reads (e : penv) r := {| reads := r; writes := writes e; waits := waits e; eof_err := eof_err e; flushes := flushes e |}.
Definition set_env_writes (e : penv) w := {| reads := reads e; writes := w; waits := waits e; eof_err := eof_err e; flushes := flushes e |}.
Definition set_env_waits (e : penv) w := {| reads := reads e; writes := writes e; waits := w; eof_err := eof_err e; flushes := flushes e |}.
Definition set_env_flushes (e : penv) f := {| reads := reads e; writes := writes e; waits := waits e; eof_err := eof_err e; flushes := f |}.

Definition fail (p : pstate) : pstate :=
  {| env := env p; pending := pending p; la := la p; iter_start := iter_start p; ph := PFailed;
     read_log := read_log p; delivered := delivered p; consumed := consumed p; metric := metric p;
     eof_calls := eof_calls p; flush_done := flush_done p |}.

(* Data::Chunk(bytes) arm: sink.write, metrics, consume, stash the rest, next loop iteration *)
Definition write_chunk (la_on_transfer : bool) (now : N) (p : pstate) (bs : list N) : pstate :=
  let '(ans, ws) := match writes (env p) with a :: r => (a, r) | [] => (WAccept (lenN bs), []) end in
  match ans with
  | WErr => fail {| env := set_env_writes (env p) ws; pending := None; la := la p; iter_start := iter_start p;
                    ph := ph p; read_log := read_log p; delivered := delivered p; consumed := consumed p;
                    metric := metric p; eof_calls := eof_calls p; flush_done := flush_done p |}
  | WAccept k =>
    let n := N.min k (lenN bs) in
    {| env := set_env_writes (env p) ws;
       pending := if n <? lenN bs then Some (dropN n bs) else None;
       la := now;
       iter_start := now; ph := PRun;
       read_log := read_log p; delivered := delivered p ++ takeN n bs;
       consumed := consumed p + n; metric := metric p + n;
       eof_calls := eof_calls p; flush_done := flush_done p |}
  end.

(* the await of pipe p completed at [now]: run the synchronous code up to the next await *)
Definition apply_complete0 (la_on_transfer : bool) (now : N) (p : pstate) : pstate :=
  match ph p with
  | PRun =>
    match pending p with
    | None =>
      match reads (env p) with
      | RChunk _ bs :: r =>
        write_chunk la_on_transfer now
          {| env := set_env_reads (env p) r; pending := None; la := la p; iter_start := iter_start p; ph := PRun;
             read_log := read_log p ++ bs; delivered := delivered p; consumed := consumed p; metric := metric p;
             eof_calls := eof_calls p; flush_done := flush_done p |} bs
      | REof _ :: r =>
        let p1 := {| env := set_env_reads (env p) r; pending := None; la := la p; iter_start := now;
                     ph := PFlush; read_log := read_log p; delivered := delivered p; consumed := consumed p;
                     metric := metric p; eof_calls := eof_calls p + 1; flush_done := flush_done p |} in
        if eof_err (env p) then fail p1 else p1
      | RErr _ :: r =>
        fail {| env := set_env_reads (env p) r; pending := None; la := la p; iter_start := iter_start p; ph := PRun;
                read_log := read_log p; delivered := delivered p; consumed := consumed p; metric := metric p;
                eof_calls := eof_calls p; flush_done := flush_done p |}
      | _ => p
      end
    | Some bs =>
      match waits (env p) with
      | AOk _ :: r =>
        write_chunk la_on_transfer now
          {| env := set_env_waits (env p) r; pending := None; la := la p; iter_start := iter_start p; ph := PRun;
             read_log := read_log p; delivered := delivered p; consumed := consumed p; metric := metric p;
             eof_calls := eof_calls p; flush_done := flush_done p |} bs
      | AErr _ :: r =>
        fail {| env := set_env_waits (env p) r; pending := pending p; la := la p; iter_start := iter_start p; ph := PRun;
                read_log := read_log p; delivered := delivered p; consumed := consumed p; metric := metric p;
                eof_calls := eof_calls p; flush_done := flush_done p |}
      | _ => p
      end
    end
  | PFlush =>
    match flushes (env p) with
    | AOk _ :: r =>
      {| env := set_env_flushes (env p) r; pending := pending p; la := la p; iter_start := iter_start p;
         ph := PFinished; read_log := read_log p; delivered := delivered p; consumed := consumed p;
         metric := metric p; eof_calls := eof_calls p; flush_done := flush_done p + 1 |}
    | AErr _ :: r =>
      fail {| env := set_env_flushes (env p) r; pending := pending p; la := la p; iter_start := iter_start p;
              ph := PFlush; read_log := read_log p; delivered := delivered p; consumed := consumed p;
              metric := metric p; eof_calls := eof_calls p; flush_done := flush_done p |}
    | _ => p
    end
  | _ => p
  end.

Definition with_start (t : N) (p : pstate) : pstate :=
  {| env := env p; pending := pending p; la := la p; iter_start := t; ph := ph p;
     read_log := read_log p; delivered := delivered p; consumed := consumed p; metric := metric p;
     eof_calls := eof_calls p; flush_done := flush_done p |}.

(* whatever follows starts at [now] (the start instant is irrelevant for a failed / finished pipe) *)
Definition apply_complete (la_on_transfer : bool) (now : N) (p : pstate) : pstate :=
  with_start now (apply_complete0 la_on_transfer now p).

(* a new SimplexPipe::exchange call: the previous in-flight await is dropped (no state is lost:
   pending_chunk is only taken after wait_writable returned) *)
Definition restart (la_on_transfer : bool) (now : N) (p : pstate) : pstate :=
  {| env := env p; pending := pending p;
     la := if la_on_transfer then la p else now;
     iter_start := now; ph := match ph p with PFlush => PRun | x => x end;
     read_log := read_log p; delivered := delivered p; consumed := consumed p; metric := metric p;
     eof_calls := eof_calls p; flush_done := flush_done p |}.

Inductive dmode := Both | OnlyLeft | OnlyRight.
Inductive dresult := DOk | DTimedOut | DError | DHang | DFuel.

Record dstate := { now : N; pl : pstate; pr : pstate; mode : dmode }.

Definition earlier (a b : option (N * evkind)) : bool :=   (* is a's event not later than b's? *)
  match a, b with
  | Some (ta, _), Some (tb, _) => ta <=? tb
  | Some _, None => true
  | None, _ => false
  end.

Inductive step_out := Done (r : dresult) (s : dstate) | Next (s : dstate).

(* one event of the duplex pipe *)
Definition dstep (la_on_transfer : bool) (T : N) (s : dstate) : step_out :=
  let el := match mode s with OnlyRight => None | _ => next_event T (pl s) end in
  let er := match mode s with OnlyLeft => None | _ => next_event T (pr s) end in
  let left_first := earlier el er in
  match (if left_first then el else er) with
  | None => Done DHang s
  | Some (t, Complete) =>
    let p' := apply_complete la_on_transfer t (if left_first then pl s else pr s) in
    let s' := if left_first then {| now := t; pl := p'; pr := pr s; mode := mode s |}
              else {| now := t; pl := pl s; pr := p'; mode := mode s |} in
    match ph p' with
    | PFailed => Done DError s'
    | PFinished =>
      match mode s with
      | Both => Next {| now := t; pl := pl s'; pr := pr s';
                        mode := if left_first then OnlyRight else OnlyLeft |}
      | _ => Done DOk s'
      end
    | _ => Next s'
    end
  | Some (t, Timeout) =>
    match mode s with
    | Both =>
      let deadline := t - T in
      if (la (pl s) <? deadline) && (la (pr s) <? deadline)
      then Done DTimedOut {| now := t; pl := pl s; pr := pr s; mode := Both |}
      else Next {| now := t; pl := restart la_on_transfer t (pl s);
                   pr := restart la_on_transfer t (pr s); mode := Both |}
    | _ => Done DTimedOut {| now := t; pl := pl s; pr := pr s; mode := mode s |}
    end
  end.

Fixpoint drun (fuel : nat) (la_on_transfer : bool) (T : N) (s : dstate) : dresult * dstate :=
  match fuel with
  | O => (DFuel, s)
  | S f => match dstep la_on_transfer T s with
           | Done r s' => (r, s')
           | Next s' => drun f la_on_transfer T s'
           end
  end.

Definition env_size (e : penv) : nat :=
  length (reads e) + length (writes e) + length (waits e) + length (flushes e).

Definition duplex (la_on_transfer : bool) (T : N) (el er : penv) : dresult * dstate :=
  drun (4 * (env_size el + env_size er) + 16) la_on_transfer T
       {| now := 0; pl := pinit el; pr := pinit er; mode := Both |}.
