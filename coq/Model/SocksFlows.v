(* Model of the UDP side of socks5_forwarder.rs together with the flow table of udp_pipe.rs: towards a
   SOCKS5 upstream every client source address has one association (control connection + relay socket)
   shared by all destinations that source talks to; the association remembers its peers and is dropped
   when the last of them is closed. [records] = SOCKS_ASSOCIATION_RECORDS_EVERY_PEER: a further
   destination of a known source is added to the association's peers. *)
From Coq Require Import List NArith Bool.
Import ListNotations.
Open Scope N_scope.

Definition flow := (N * N)%type.                     (* (client source, destination) *)
Definition flow_eqb (a b : flow) : bool := (fst a =? fst b) && (snd a =? snd b).

Record kstate := {
  k_flows : list flow;                               (* udp_pipe.rs: the live (source, destination) pairs *)
  k_assocs : list (N * list N);                      (* socks5_forwarder.rs: source -> peers of its association *)
  k_dead : bool                                      (* the multiplexer ended (DatagramSink::write found no association) *)
}.
Definition k0 : kstate := {| k_flows := []; k_assocs := []; k_dead := false |}.

Fixpoint klookup (src : N) (t : list (N * list N)) : option (list N) :=
  match t with
  | [] => None
  | (s, ps) :: r => if s =? src then Some ps else klookup src r
  end.

Fixpoint kremove (src : N) (t : list (N * list N)) : list (N * list N) :=
  match t with
  | [] => []
  | (s, ps) :: r => if s =? src then kremove src r else (s, ps) :: kremove src r
  end.

Definition kset (src : N) (ps : list N) (t : list (N * list N)) : list (N * list N) := (src, ps) :: kremove src t.

Definition mem_flow (f : flow) (l : list flow) : bool := existsb (flow_eqb f) l.
Definition del_flow (f : flow) (l : list flow) : list flow := filter (fun g => negb (flow_eqb f g)) l.
Definition del_peer (d : N) (ps : list N) : list N := filter (fun p => negb (p =? d)) ps.

Inductive kop :=
| KDgram (f : flow)          (* a client datagram on the pair: LeftPipe::on_udp_packet, then DatagramSink::write *)
| KClose (f : flow).         (* the pair is closed (idle expiry, answered DNS flow): on_connection_closed *)

Definition kstep (records : bool) (s : kstate) (o : kop) : kstate :=
  if k_dead s then s else
  match o with
  | KDgram (src, dst) =>
    let s1 :=
      if mem_flow (src, dst) (k_flows s) then s
      else {| k_flows := (src, dst) :: k_flows s;
              k_assocs := match klookup src (k_assocs s) with
                          | Some ps => if records then kset src (dst :: ps) (k_assocs s) else k_assocs s
                          | None => kset src [dst] (k_assocs s)
                          end;
              k_dead := false |} in
    match klookup src (k_assocs s1) with
    | Some _ => s1
    | None => {| k_flows := k_flows s1; k_assocs := k_assocs s1; k_dead := true |}
    end
  | KClose (src, dst) =>
    if mem_flow (src, dst) (k_flows s) then
      {| k_flows := del_flow (src, dst) (k_flows s);
         k_assocs := match klookup src (k_assocs s) with
                     | Some ps => match del_peer dst ps with
                                  | [] => kremove src (k_assocs s)
                                  | ps' => kset src ps' (k_assocs s)
                                  end
                     | None => k_assocs s
                     end;
         k_dead := false |}
    else s
  end.

Definition krun (records : bool) (ops : list kop) : kstate := fold_left (kstep records) ops k0.
