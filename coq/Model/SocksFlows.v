(* Model of the UDP side of socks5_forwarder.rs together with the flow table of udp_pipe.rs: towards a
   SOCKS5 upstream every client source address has one association (control connection + relay socket)
   shared by all destinations that source talks to; the association remembers its peers and is dropped
   when the last of them is closed. What the translator read in the code comes in as flags:
   [f_records] = SOCKS_ASSOCIATION_RECORDS_EVERY_PEER: a further destination of a known source is added to the
   association's peers; [f_keyed] = SOCKS_READ_ERROR_CLOSES_THE_FLOWS: a failed read drops the association and reports
   its flows closed under the key the pipe knows them by; [f_drops] = SOCKS_SEND_ERROR_DROPS_DATAGRAM: a failed send
   costs the datagram only; [f_beside] = UDP_TICK_RUNS_BESIDE_THE_DIRECTIONS: the expiry timer does not drop the
   direction that is setting a flow up (towards a SOCKS5 server that is a TCP connect and a dialogue, a real await). *)
From Coq Require Import List NArith Bool.
Import ListNotations.
Open Scope N_scope.

Definition flow := (N * N)%type.                     (* (client source, destination) *)
Definition flow_eqb (a b : flow) : bool := (fst a =? fst b) && (snd a =? snd b).

Record kstate := {
  k_flows : list flow;                               (* udp_pipe.rs: the live (source, destination) pairs *)
  k_assocs : list (N * list N);                      (* socks5_forwarder.rs: source -> peers of its association *)
  k_dead : bool                                      (* the multiplexer ended (DatagramSink::write found no association) *)
}.
Definition k0 : kstate := {| k_flows := []; k_assocs := []; k_dead := false |}.

Fixpoint klookup (src : N) (t : list (N * list N)) : option (list N) :=
  match t with
  | [] => None
  | (s, ps) :: r => if s =? src then Some ps else klookup src r
  end.

Fixpoint kremove (src : N) (t : list (N * list N)) : list (N * list N) :=
  match t with
  | [] => []
  | (s, ps) :: r => if s =? src then kremove src r else (s, ps) :: kremove src r
  end.

Definition kset (src : N) (ps : list N) (t : list (N * list N)) : list (N * list N) := (src, ps) :: kremove src t.

Definition mem_flow (f : flow) (l : list flow) : bool := existsb (flow_eqb f) l.
Definition del_flow (f : flow) (l : list flow) : list flow := filter (fun g => negb (flow_eqb f g)) l.
Definition del_peer (d : N) (ps : list N) : list N := filter (fun p => negb (p =? d)) ps.

Inductive kop :=
| KDgram (f : flow)          (* a client datagram on the pair: LeftPipe::on_udp_packet, then DatagramSink::write *)
| KClose (f : flow)          (* the pair is closed (idle expiry, answered DNS flow): on_connection_closed *)
| KRefused (f : flow)        (* a client datagram whose send on the association's socket fails (the relay's port is closed) *)
| KReadErr (src : N)         (* reading from the socket of this source's association fails (refused, malformed packet) *)
| KCut (f : flow).           (* a client datagram, and the expiry timer fires while its flow is being set up *)

Record kflags := { f_records : bool; f_keyed : bool; f_drops : bool; f_beside : bool }.

Definition kdie (s : kstate) : kstate := {| k_flows := k_flows s; k_assocs := k_assocs s; k_dead := true |}.

(* LeftPipe::on_udp_packet with on_new_udp_connection: an unknown pair is recorded; its source gets an association, or one more peer *)
Definition kopen (records : bool) (s : kstate) (src dst : N) : kstate :=
  if mem_flow (src, dst) (k_flows s) then s
  else {| k_flows := (src, dst) :: k_flows s;
          k_assocs := match klookup src (k_assocs s) with
                      | Some ps => if records then kset src (dst :: ps) (k_assocs s) else k_assocs s
                      | None => kset src [dst] (k_assocs s)
                      end;
          k_dead := false |}.

(* DatagramSink::write: no association for the source ends the multiplexer; [sent] = send_to succeeded *)
Definition kwrite (drops sent : bool) (s : kstate) (src : N) : kstate :=
  match klookup src (k_assocs s) with
  | Some _ => if sent || drops then s else kdie s
  | None => kdie s
  end.

Definition is_some {A} (o : option A) : bool := match o with Some _ => true | None => false end.

Definition kstep (fl : kflags) (s : kstate) (o : kop) : kstate :=
  if k_dead s then s else
  match o with
  | KDgram (src, dst) => kwrite (f_drops fl) true (kopen (f_records fl) s src dst) src
  | KRefused (src, dst) => kwrite (f_drops fl) false (kopen (f_records fl) s src dst) src
  | KCut (src, dst) =>
    (* only the set-up of a new association waits; when the timer drops the direction there, the pair stays recorded without one *)
    if f_beside fl || mem_flow (src, dst) (k_flows s) || is_some (klookup src (k_assocs s))
    then kwrite (f_drops fl) true (kopen (f_records fl) s src dst) src
    else {| k_flows := (src, dst) :: k_flows s; k_assocs := k_assocs s; k_dead := false |}
  | KReadErr src =>
    match klookup src (k_assocs s) with
    | None => s
    | Some ps =>
      (* on_socket_error: one UdpClose per peer; RightPipe removes the entries with exactly those keys *)
      {| k_flows := if f_keyed fl
                    then filter (fun f => negb ((fst f =? src) && existsb (N.eqb (snd f)) ps)) (k_flows s)
                    else k_flows s;
         k_assocs := kremove src (k_assocs s);
         k_dead := false |}
    end
  | KClose (src, dst) =>
    if mem_flow (src, dst) (k_flows s) then
      {| k_flows := del_flow (src, dst) (k_flows s);
         k_assocs := match klookup src (k_assocs s) with
                     | Some ps => match del_peer dst ps with
                                  | [] => kremove src (k_assocs s)
                                  | ps' => kset src ps' (k_assocs s)
                                  end
                     | None => k_assocs s
                     end;
         k_dead := false |}
    else s
  end.

Definition krun (fl : kflags) (ops : list kop) : kstate := fold_left (kstep fl) ops k0.
