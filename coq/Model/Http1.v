(* Model of Http1Codec::listen (lib/src/http1_codec.rs): the WaitingRequest phase that assembles a
   request head from whatever pieces the transport delivers, and the RequestInProgress phase that
   hands the following bytes to the upload side. The head parser (httparse) is a parameter. *)
From Coq Require Import List NArith Bool Arith.
From TT Require Import Lib.BytesL.
Import ListNotations.
Local Open Scope nat_scope.

Inductive presult := PComplete (idx : nat) | PPartial | PError.

Inductive outcome :=
| ORequest (head : list N) (rest : list N)   (* head bytes, and every byte after it in arrival order *)
| OClosed                                    (* end of stream before a request: graceful shutdown *)
| OFailed                                    (* parse error / head too long *)
| OFuel.                                     (* the loop made no progress: it spins *)

Definition CAP : nat := 1024.                (* MAX_RAW_HEADERS_SIZE = initial capacity of the buffer *)

(* read_buf into a buffer with [limit] spare bytes: the next piece, or the part of it that fits *)
Definition take_read (limit : nat) (arrivals : list (list N)) : list N * list (list N) :=
  match arrivals with
  | [] => ([], [])
  | a :: r => if length a <=? limit then (a, r) else (firstn limit a, skipn limit a :: r)
  end.

Section Listen.
  Variable parse : list N -> presult.
  (* HTTP1_PARTIAL_HEAD_READS_MORE: with a partial head buffered, listen reads more (the repaired
     code); false = the code as found: the buffered bytes are parsed again without reading *)
  Variable reads_more : bool.

  Fixpoint head_phase (fuel : nat) (buf : list N) (arrivals : list (list N)) : outcome :=
    match fuel with
    | O => OFuel
    | S f =>
      (* wait_read *)
      let '(buffer, arrivals1) :=
        match buf with
        | [] => take_read CAP arrivals
        | _ :: _ =>
          if reads_more then
            let '(r, arr) := take_read (CAP - length buf) arrivals in
            match r with
            | [] => take_read CAP arr                 (* closed in the middle of a head: cleared, read again *)
            | _ :: _ => (buf ++ r, arr)
            end
          else (buf, arrivals)
        end in
      match buffer with
      | [] => OClosed
      | _ :: _ =>
        match parse buffer with
        | PComplete i => ORequest (firstn i buffer) (skipn i buffer ++ concat arrivals1)
        | PError => OFailed
        | PPartial => if length buffer <? CAP then head_phase f buffer arrivals1 else OFailed
        end
      end
    end.

  Definition listen (arrivals : list (list N)) : outcome :=
    head_phase (S (length (concat arrivals) + length arrivals)) [] arrivals.
End Listen.

(* RequestInProgress: the tail is the first chunk, then one chunk per read of at most [ubs] bytes *)
Fixpoint upload_chunks (fuel : nat) (ubs : nat) (buffer : list N) (arrivals : list (list N)) : list (list N) :=
  match fuel with
  | O => []
  | S f =>
    match buffer with
    | _ :: _ => buffer :: upload_chunks f ubs [] arrivals
    | [] => match take_read ubs arrivals with
            | ([], _) => []
            | (r, arr) => r :: upload_chunks f ubs [] arr
            end
    end
  end.

(* byte-at-a-time delivery as the reference: the verdict on a stream *)
Section Verdict.
  Variable parse : list N -> presult.
  Fixpoint scan (fuel : nat) (k : nat) (s : list N) : outcome :=
    match fuel with
    | O => OFuel
    | S f =>
      if length s <? k then OClosed
      else match parse (firstn k s) with
           | PComplete i => ORequest (firstn i s) (skipn i s)
           | PError => OFailed
           | PPartial => if k <? CAP then scan f (S k) s else OFailed
           end
    end.
  Definition verdict (s : list N) : outcome :=
    match s with [] => OClosed | _ => scan (S (length s)) 1 s end.
End Verdict.

(* ---- a concrete head parser for the executable model: CRLF CRLF ends the head; more than
        MAX_HEADERS_NUM header lines is an error ---- *)
Fixpoint find_end (b : list N) (pos : nat) : option nat :=
  match b with
  | 13%N :: ((10%N :: 13%N :: 10%N :: _) as r) => Some (pos + 4)
  | _ :: r => find_end r (S pos)
  | [] => None
  end.

Fixpoint count_crlf (b : list N) : nat :=
  match b with
  | 13%N :: ((10%N :: _) as r) => S (count_crlf r)
  | _ :: r => count_crlf r
  | [] => 0
  end.

Definition MAX_HEADERS : nat := 32.

Definition parse_c (b : list N) : presult :=
  match find_end b 0 with
  | None => PPartial
  | Some i =>
    (* lines = request line + headers + blank line *)
    if count_crlf (firstn i b) - 2 <=? MAX_HEADERS then PComplete i else PError
  end.
