(* Who holds the outbound sockets of a UDP multiplexer (udp_forwarder.rs; socks5_forwarder.rs with "association" = relay
   socket + control connection for "socket"). A socket is shared: the forwarder's table holds it, and the reading side,
   while it waits, holds it once more in each of the futures it built from the table when it last started to wait
   (poll_events: select_all over listen_socket_read(meta, socket.clone())). The descriptor is open as long as either of
   the two holds it; the outbound_udp_sockets gauge counts the table only.
   [wake] = UDP_CLOSE_WAKES_THE_READING_SIDE / SOCKS_CLOSE_WAKES_THE_READING_SIDE: on_connection_closed, called by the pipe
   (expiry tick, answered DNS flow), wakes the reading side when it removed an entry. Without it the reading side goes
   on holding the sockets of closed flows until something else makes it return. *)
From Coq Require Import List NArith Bool.
Import ListNotations.
Open Scope N_scope.

Definition pkey := N.

Record parked := { p_table : list pkey; p_held : list pkey }.

Inductive pop :=
| POpen (k : pkey)    (* a flow is opened: its socket is put into the table and the writing side wakes the reading side *)
| PClose (k : pkey)   (* the pipe closes a flow from outside the reading side *)
| PEvent.             (* a datagram, a socket error or a wake-up reaches the reading side: it returns and starts to wait anew *)

Definition pmem (k : pkey) (l : list pkey) : bool := existsb (N.eqb k) l.
Definition premove (k : pkey) (l : list pkey) : list pkey := filter (fun x => negb (x =? k)) l.

Definition pstep (wake : bool) (s : parked) (o : pop) : parked :=
  match o with
  | POpen k =>
      if pmem k (p_table s) then s   (* "Already present": nothing is opened *)
      else {| p_table := k :: p_table s; p_held := k :: p_table s |}
  | PClose k =>
      {| p_table := premove k (p_table s);
         p_held := if wake && pmem k (p_table s) then premove k (p_table s) else p_held s |}
  | PEvent => {| p_table := p_table s; p_held := p_table s |}
  end.

Definition pinit : parked := {| p_table := []; p_held := [] |}.
Definition prun (wake : bool) (ops : list pop) : parked := fold_left (pstep wake) ops pinit.

(* the descriptor of flow k's socket is open *)
Definition p_open (s : parked) (k : pkey) : bool := pmem k (p_table s) || pmem k (p_held s).

Lemma premove_absent : forall k l, pmem k l = false -> premove k l = l.
Proof.
  intros k l. induction l as [|a l IH]; simpl; intros H; [reflexivity|].
  apply orb_false_iff in H. destruct H as [H1 H2].
  rewrite N.eqb_sym, H1. simpl. rewrite (IH H2). reflexivity.
Qed.

Lemma pstep_keeps : forall s o, p_held s = p_table s -> p_held (pstep true s o) = p_table (pstep true s o).
Proof.
  intros s o H. destruct o as [k|k|]; simpl.
  - destruct (pmem k (p_table s)); [exact H|reflexivity].
  - destruct (pmem k (p_table s)) eqn:E; simpl; [reflexivity|].
    rewrite (premove_absent _ _ E). exact H.
  - reflexivity.
Qed.

Lemma prun_keeps : forall ops s, p_held s = p_table s ->
  p_held (fold_left (pstep true) ops s) = p_table (fold_left (pstep true) ops s).
Proof.
  induction ops as [|o ops IH]; intros s H; simpl; [exact H|].
  apply IH. apply pstep_keeps. exact H.
Qed.

(* with the wake-up, after every history the reading side holds exactly the sockets of the table: a descriptor is open
   iff its flow is in the table, which is what the gauge counts *)
Theorem woken_reader_holds_the_table :
  forall ops, p_held (prun true ops) = p_table (prun true ops).
Proof. intros ops. apply prun_keeps. reflexivity. Qed.

Corollary woken_open_iff_in_table :
  forall ops k, p_open (prun true ops) k = pmem k (p_table (prun true ops)).
Proof.
  intros ops k. unfold p_open. rewrite woken_reader_holds_the_table. apply orb_diag.
Qed.
