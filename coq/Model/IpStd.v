(* std::net::Ipv4Addr / Ipv6Addr predicates used by net_utils::is_global_*, from their documented
   ranges (trusted; exercised by the exhaustive IPv4 sweep and the IPv6 sweeps of the C03 check).
   IPv4 addresses are N < 2^32, IPv6 addresses N < 2^128. *)
From Coq Require Import NArith Bool.
Open Scope N_scope.

Definition octet (i : N) (ip : N) : N := (ip / 2 ^ (8 * (3 - i))) mod 256.
Definition segment (i : N) (ip : N) : N := (ip / 2 ^ (16 * (7 - i))) mod 65536.

Definition is_private (ip : N) : bool :=
  (octet 0 ip =? 10)
  || ((octet 0 ip =? 172) && (16 <=? octet 1 ip) && (octet 1 ip <=? 31))
  || ((octet 0 ip =? 192) && (octet 1 ip =? 168)).
Definition is_loopback (ip : N) : bool := octet 0 ip =? 127.
Definition is_link_local (ip : N) : bool := (octet 0 ip =? 169) && (octet 1 ip =? 254).
Definition is_broadcast (ip : N) : bool := ip =? 4294967295.
Definition is_documentation (ip : N) : bool :=
  ((octet 0 ip =? 192) && (octet 1 ip =? 0) && (octet 2 ip =? 2))
  || ((octet 0 ip =? 198) && (octet 1 ip =? 51) && (octet 2 ip =? 100))
  || ((octet 0 ip =? 203) && (octet 1 ip =? 0) && (octet 2 ip =? 113)).
Definition is_unspecified (ip : N) : bool := ip =? 0.

Definition is_multicast6 (ip : N) : bool := N.land (segment 0 ip) 65280 =? 65280.
Definition is_loopback6 (ip : N) : bool := ip =? 1.
Definition is_unspecified6 (ip : N) : bool := ip =? 0.
(* ::ffff:a.b.c.d *)
Definition to_ipv4_mapped (ip : N) : option N :=
  if ip / 4294967296 =? 65535 then Some (ip mod 4294967296) else None.
