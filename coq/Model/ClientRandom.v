(* Model of tls_listener.rs: extract_client_random on the peeked bytes (tls-parser's record and
   ClientHello layout for a record whose first handshake message is a ClientHello),
   read_client_random_and_wrap_stream (peek loop with the 16 KiB limit and 1 KiB reads) and
   PrebufferedTcpStream::poll_read (replay of the peeked bytes). *)
From Coq Require Import List NArith Bool.
From TT Require Import Lib.BytesL.
Import ListNotations.
Open Scope N_scope.

Inductive extraction := XFound (r : list N) | XNeedMore | XNotFound
                      | XOther.   (* a handshake record that does not start with a ClientHello: not modelled *)

Definition MAX_RECORD_LEN : N := 16640.   (* tls-parser: (1 << 14) + 256 *)

Definition nthN (l : list N) (i : N) : N := nth (N.to_nat i) l 0.

(* parse_tls_handshake_client_hello inside exactly [body] (the handshake message body) *)
Definition hello_ok (body : list N) : bool :=
  (34 <=? lenN body) &&
  let sidlen := nthN body 34 in
  (35 <=? lenN body) && (sidlen <=? 32) &&
  let p1 := 35 + sidlen in
  (p1 + 2 <=? lenN body) &&
  let clen := be (takeN 2 (dropN p1 body)) in
  let p2 := p1 + 2 in
  (clen mod 2 =? 0) && (p2 + clen <=? lenN body) &&
  let p3 := p2 + clen in
  (p3 + 1 <=? lenN body) &&
  let complen := nthN body p3 in
  (p3 + 1 + complen <=? lenN body).

(* the record fragment: many1(complete(handshake message)) must accept its first message *)
Definition decide_fragment (frag : list N) : extraction :=
  if lenN frag <? 4 then XNotFound
  else
    let mtype := nthN frag 0 in
    let mlen := be (takeN 3 (dropN 1 frag)) in
    if lenN frag <? 4 + mlen then XNotFound
    else if mtype =? 1 then
      let body := takeN mlen (dropN 4 frag) in
      if hello_ok body then XFound (takeN 32 (dropN 2 body)) else XNotFound
    else XOther.

Definition extract_c (data : list N) : extraction :=
  if lenN data <? 5 then XNeedMore
  else
    let rtype := nthN data 0 in
    let rlen := be (takeN 2 (dropN 3 data)) in
    if MAX_RECORD_LEN <? rlen then XNotFound
    else if lenN data <? 5 + rlen then XNeedMore
    else if rtype =? 22 then decide_fragment (takeN rlen (dropN 5 data))
    else if (rtype =? 20) || (rtype =? 21) || (rtype =? 23) then XNotFound
    else if rtype =? 24 then XOther
    else XNotFound.

(* one read of at most [limit] bytes from what has arrived *)
Definition take_readN (limit : N) (arrivals : list (list N)) : list N * list (list N) :=
  match arrivals with
  | [] => ([], [])
  | a :: r => if lenN a <=? limit then (a, r) else (takeN limit a, dropN limit a :: r)
  end.

Section Peek.
  Variable extract : list N -> extraction.
  Variables MAXP CHUNK : N.          (* MAX_PREBUFFER_LEN, READ_CHUNK_LEN *)
  (* PEEK_PARSES_BEFORE_LIMIT_CHECK: the repaired loop; false = `while len < MAX { parse; read }` *)
  Variable parse_first : bool.

  Fixpoint peek (fuel : nat) (pre : list N) (arrivals : list (list N)) : option (list N) * list N * list (list N) :=
    match fuel with
    | O => (None, pre, arrivals)
    | S f =>
      if negb parse_first && (MAXP <=? lenN pre) then (None, pre, arrivals)
      else
        match extract pre with
        | XFound r => (Some r, pre, arrivals)
        | XNotFound | XOther => (None, pre, arrivals)
        | XNeedMore =>
          if parse_first && (MAXP <=? lenN pre) then (None, pre, arrivals)
          else
            let '(r, arr) := take_readN (N.min CHUNK (MAXP - lenN pre)) arrivals in
            match r with
            | [] => (None, pre, arr)
            | _ => peek f (pre ++ r) arr
            end
        end
    end.
End Peek.

(* PrebufferedTcpStream::poll_read with a buffer of [room] bytes: the prebuffer first *)
Definition replay_read (room : N) (pre : list N) (pos : N) (arrivals : list (list N)) : list N * N * list (list N) :=
  if pos <? lenN pre then
    let n := N.min (lenN pre - pos) room in (takeN n (dropN pos pre), pos + n, arrivals)
  else let '(r, arr) := take_readN room arrivals in (r, pos, arr).

Fixpoint replay_all (fuel : nat) (rooms : list N) (pre : list N) (pos : N) (arrivals : list (list N)) : list N :=
  match fuel with
  | O => []
  | S f =>
    let room := match rooms with r :: _ => r | [] => 4096 end in
    let '(got, pos', arr) := replay_read room pre pos arrivals in
    match got with
    | [] => []
    | _ => got ++ replay_all f (tl rooms) pre pos' arr
    end
  end.
