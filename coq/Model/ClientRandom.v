(* Model of tls_listener.rs: extract_client_random on the peeked bytes (the handshake byte stream
   reassembled from the leading handshake records),
   read_client_random_and_wrap_stream (peek loop with the 16 KiB limit and 1 KiB reads) and
   PrebufferedTcpStream::poll_read (replay of the peeked bytes). *)
From Coq Require Import List NArith Bool.
From TT Require Import Lib.BytesL.
Import ListNotations.
Open Scope N_scope.

Inductive extraction := XFound (r : list N) | XNeedMore | XNotFound
                      | XOther.   (* (not produced any more: kept for the engines' output code) *)

Definition MAX_RECORD_LEN : N := 16640.   (* tls-parser: (1 << 14) + 256 *)

Definition nthN (l : list N) (i : N) : N := nth (N.to_nat i) l 0.

(* extract_client_random: the ClientHello is the first handshake message of the connection and may be spread over several
   TLS records; its first 38 bytes (type, length, legacy version, random) are gathered from the fragments of the leading
   handshake records, whatever the record boundaries. *)
Definition NEEDED : N := 38.

Inductive rec_step := RDone (e : extraction) | RNext (rest acc : list N).

(* one round of the loop: the record at the head of [data]; [acc] = the message bytes gathered so far *)
Definition record_step (data acc : list N) : rec_step :=
  if lenN data <? 5 then RDone XNeedMore
  else
    let rlen := be (takeN 2 (dropN 3 data)) in
    if negb (nthN data 0 =? 22) || (rlen =? 0) || (MAX_RECORD_LEN <? rlen) then RDone XNotFound
    else
      let frag := takeN rlen (dropN 5 data) in
      let acc' := takeN NEEDED (acc ++ frag) in          (* message[have..have + take] = fragment[..take] *)
      if (0 <? lenN acc') && negb (nthN acc' 0 =? 1) then RDone XNotFound
      else if NEEDED <=? lenN acc' then RDone (XFound (takeN 32 (dropN 6 acc')))
      else if lenN frag <? rlen then RDone XNeedMore
      else RNext (dropN (5 + rlen) data) acc'.

Fixpoint reassemble (fuel : nat) (data acc : list N) : extraction :=
  match fuel with
  | O => XNeedMore
  | S f => match record_step data acc with RDone e => e | RNext rest acc' => reassemble f rest acc' end
  end.

(* every further round consumes at least six bytes: the fuel is never exhausted (reassemble_fuel) *)
Definition extract_c (data : list N) : extraction := reassemble (S (length data)) data [].

(* one read of at most [limit] bytes from what has arrived *)
Definition take_readN (limit : N) (arrivals : list (list N)) : list N * list (list N) :=
  match arrivals with
  | [] => ([], [])
  | a :: r => if lenN a <=? limit then (a, r) else (takeN limit a, dropN limit a :: r)
  end.

Section Peek.
  Variable extract : list N -> extraction.
  Variables MAXP CHUNK : N.          (* MAX_PREBUFFER_LEN, READ_CHUNK_LEN *)
  (* PEEK_PARSES_BEFORE_LIMIT_CHECK: the repaired loop; false = `while len < MAX { parse; read }` *)
  Variable parse_first : bool.

  Fixpoint peek (fuel : nat) (pre : list N) (arrivals : list (list N)) : option (list N) * list N * list (list N) :=
    match fuel with
    | O => (None, pre, arrivals)
    | S f =>
      if negb parse_first && (MAXP <=? lenN pre) then (None, pre, arrivals)
      else
        match extract pre with
        | XFound r => (Some r, pre, arrivals)
        | XNotFound | XOther => (None, pre, arrivals)
        | XNeedMore =>
          if parse_first && (MAXP <=? lenN pre) then (None, pre, arrivals)
          else
            let '(r, arr) := take_readN (N.min CHUNK (MAXP - lenN pre)) arrivals in
            match r with
            | [] => (None, pre, arr)
            | _ => peek f (pre ++ r) arr
            end
        end
    end.
End Peek.

(* PrebufferedTcpStream::poll_read with a buffer of [room] bytes: the prebuffer first *)
Definition replay_read (room : N) (pre : list N) (pos : N) (arrivals : list (list N)) : list N * N * list (list N) :=
  if pos <? lenN pre then
    let n := N.min (lenN pre - pos) room in (takeN n (dropN pos pre), pos + n, arrivals)
  else let '(r, arr) := take_readN room arrivals in (r, pos, arr).

Fixpoint replay_all (fuel : nat) (rooms : list N) (pre : list N) (pos : N) (arrivals : list (list N)) : list N :=
  match fuel with
  | O => []
  | S f =>
    let room := match rooms with r :: _ => r | [] => 4096 end in
    let '(got, pos', arr) := replay_read room pre pos arrivals in
    match got with
    | [] => []
    | _ => got ++ replay_all f (tl rooms) pre pos' arr
    end
  end.
