(* Model of the service channels: http_demultiplexer.rs HttpDemux::select, http_ping_handler.rs,
   http_speedtest_handler.rs (prepare_speedtest, run_download_test, run_upload_test) and the
   destination choice of reverse_proxy.rs. *)
From Coq Require Import List NArith Bool.
From TT Require Import Lib.BytesL.
Import ListNotations.
Open Scope N_scope.

Inductive channel := ChPing | ChSpeedtest | ChReverseProxy | ChTunnel.
Inductive proto := PH1 | PH2 | PH3.

Fixpoint starts_with (s p : list N) {struct p} : bool :=
  match p, s with
  | [], _ => true
  | x :: p', y :: s' => (x =? y) && starts_with s' p'
  | _ :: _, [] => false
  end.

Fixpoint strip_prefix (p s : list N) : option (list N) :=
  match p, s with
  | [], _ => Some s
  | x :: p', y :: s' => if x =? y then strip_prefix p' s' else None
  | _ :: _, [] => None
  end.

Definition strip_suffix (suf s : list N) : option (list N) :=
  match strip_prefix (rev suf) (rev s) with Some r => Some (rev r) | None => None end.

Definition SLASH : list N := [47].
Definition SPEED : list N := [115; 112; 101; 101; 100].                (* "speed" *)
Definition MB_BIN : list N := [109; 98; 46; 98; 105; 110].             (* "mb.bin" *)
Definition UPLOAD : list N := [47; 117; 112; 108; 111; 97; 100; 46; 104; 116; 109; 108].  (* "/upload.html" *)

Record request := {
  q_method : N;               (* 0 GET, 1 POST, 2 other *)
  q_path : list N;
  q_ping_marker : bool;       (* x-ping: 1  or  sec-fetch-mode: navigate *)
  q_upgrade : bool;           (* an Upgrade header is present *)
  q_content_length : option (list N)   (* raw Content-Length value *)
}.

Record settings := { s_speedtest : bool; s_rp_mask : option (list N) }.

(* HttpDemux::select: ping > speedtest > reverse proxy > tunnel *)
Definition check_speedtest (s : settings) (q : request) : bool :=
  s_speedtest s &&
  match strip_prefix SLASH (q_path q) with
  | Some r => match strip_prefix SPEED r with
              | Some r2 => match strip_prefix SLASH r2 with Some _ => true | None => false end
              | None => false end
  | None => false
  end.

Definition check_rp (p : proto) (s : settings) (q : request) : bool :=
  match p with
  | PH1 => q_upgrade q
  | PH3 => true
  | PH2 => false
  end &&
  match s_rp_mask s with Some m => starts_with (q_path q) m | None => false end.

Definition select (p : proto) (s : settings) (q : request) : channel :=
  if q_ping_marker q then ChPing
  else if check_speedtest s q then ChSpeedtest
  else if check_rp p s q then ChReverseProxy
  else ChTunnel.

(* u32::from_str: optional '+', at least one digit, no overflow *)
Fixpoint digits (s : list N) (acc : N) : option N :=
  match s with
  | [] => Some acc
  | c :: r => if (48 <=? c) && (c <=? 57)
              then let v := acc * 10 + (c - 48) in if 4294967295 <? v then None else digits r v
              else None
  end.
Definition parse_u32 (s : list N) : option N :=
  match s with
  | [] => None
  | 43 :: r => match r with [] => None | _ => digits r 0 end
  | _ => digits s 0
  end.

Inductive speedtest := Download (bytes : N) | Upload (bytes : N) | Bad.

Definition MIB : N := 1048576.

Definition prepare (q : request) : speedtest :=
  let path := match strip_prefix SLASH (q_path q) with
              | Some r => match strip_prefix SPEED r with Some r2 => r2 | None => q_path q end
              | None => q_path q
              end in
  if q_method q =? 0 then
    match strip_prefix SLASH path with
    | Some r => match strip_suffix MB_BIN r with
                | Some num => match parse_u32 num with
                              | Some n => if (0 <? n) && (n <=? 100) then Download (n * MIB) else Bad
                              | None => Bad
                              end
                | None => Bad
                end
    | None => Bad
    end
  else if q_method q =? 1 then
    if list_eqb N.eqb path UPLOAD then
      match q_content_length q with
      | Some v => match parse_u32 v with
                  | Some n => if (0 <? n) && (n <=? 120 * MIB) then Upload n else Bad
                  | None => Bad
                  end
      | None => Bad
      end
    else Bad
  else Bad.

(* run_download_test: chunks of at most 64 KiB, the sink accepts what it accepts; returns the
   number of bytes the client received and whether the loop finished *)
Definition CHUNK : N := 65536.
Fixpoint download (fuel : nat) (n : N) (accs : list N) (sent : N) : N * bool :=
  match fuel with
  | O => (sent, false)
  | S f =>
    if n =? 0 then (sent, true)
    else
      let chunk := N.min CHUNK n in
      let a := match accs with k :: _ => N.min k chunk | [] => chunk end in
      download f (n - a) (tl accs) (sent + a)
  end.

(* run_upload_test: reads until n bytes were seen (saturating) or the client ends the body *)
Fixpoint upload (n : N) (chunks : list N) (consumed : N) : N * N :=     (* (consumed, status) *)
  if n =? 0 then (consumed, 200)
  else match chunks with
       | [] => (consumed, 200)             (* end of stream: answered all the same *)
       | c :: r => upload (n - c) r (consumed + c)
       end.

(* what the client gets on each channel: (status, body bytes) *)
Definition ping_answer : N * N := (200, 0).
Definition speedtest_answer (q : request) (accs : list N) : N * N :=
  match prepare q with
  | Download n => (200, fst (download (length accs + N.to_nat (n / CHUNK) + 2) n accs 0))
  | Upload _ => (200, 0)
  | Bad => (400, 0)
  end.
