(* Model of the timer bookkeeping of quic_multiplexer.rs (QuicMultiplexer::listen, update_connection_deadline,
   process_timeouts): per connection the instant at which its next QUIC timer (loss probe, idle, drain after the peer's close)
   is due, and the single instant [closest] the listen loop sleeps until.
   [rearm]  = QUIC_EXPIRED_TIMERS_REARMED: process_timeouts re-arms every expired connection from its own next timeout and
              recomputes [closest] as the minimum of the armed deadlines; as found it only removed the expired entries and left
              [closest] where it was (it only ever moved backwards).
   [guard]  = QUIC_TIMER_ARM_ENABLED_WHENEVER_ARMED: the loop's timer arm is enabled whenever [closest] is set; as found it was
              enabled only while [closest] lay in the future.
   [next c now] stands for quiche's Connection::timeout after on_timeout (the environment). Times are naturals. *)
From Coq Require Import List NArith Bool.
Import ListNotations.
Open Scope N_scope.

Record qt := { dl : list (N * N); closest : option N }.
Definition qt0 : qt := {| dl := []; closest := None |}.

Definition drop_conn (c : N) (l : list (N * N)) : list (N * N) := filter (fun p => negb (fst p =? c)) l.

Fixpoint minl (l : list (N * N)) : option N :=
  match l with
  | [] => None
  | p :: r => match minl r with None => Some (snd p) | Some m => Some (N.min (snd p) m) end
  end.

Inductive qop :=
| Arm (c t : N)        (* a packet of connection c was processed: its next timer is due at t (update_connection_deadline) *)
| Wake (now : N)       (* the loop came round at [now] (any event, or its own timer): process_timeouts *)
| Forget (c : N).      (* the connection was removed *)

Section Timers.
Variable rearm : bool.
Variable next : N -> N -> option N.

Definition qstep (s : qt) (o : qop) : qt :=
  match o with
  | Arm c t =>
    {| dl := (c, t) :: drop_conn c (dl s);
       closest := match closest s with None => Some t | Some d => if t <? d then Some t else Some d end |}
  | Forget c => {| dl := drop_conn c (dl s); closest := closest s |}
  | Wake now =>
    let expired := filter (fun p => snd p <=? now) (dl s) in
    let kept := filter (fun p => negb (snd p <=? now)) (dl s) in
    if rearm then
      let again := flat_map (fun p => match next (fst p) now with Some d => [(fst p, now + d)] | None => [] end) expired in
      {| dl := again ++ kept; closest := minl (again ++ kept) |}
    else {| dl := kept; closest := closest s |}
  end.

Definition qrun (ops : list qop) : qt := fold_left qstep ops qt0.
End Timers.

(* when the loop, left alone from [now] on, comes round by itself *)
Definition will_wake (guard : bool) (s : qt) (now : N) : option N :=
  match closest s with
  | None => None
  | Some d => if guard then Some (N.max d now) else if now <? d then Some d else None
  end.
