(* Model of the UDP flow bookkeeping: udp_pipe.rs (LeftPipe::on_udp_packet, RightPipe::exchange,
   on_timer_tick) over udp_forwarder.rs (MultiplexerShared connections, MultiplexerSink::write,
   on_socket_error). A flow key is (client endpoint, peer endpoint); the reply direction carries
   the reversed key. Environment answers (can the socket be opened, does send fail) are part of
   the operations. *)
From Coq Require Import List NArith Bool.
From TT Require Import Lib.BytesL Generated.UdpFacts.
Import ListNotations.
Open Scope N_scope.

Definition meta := (N * N)%type.                       (* (source, destination) *)
Definition reversed (m : meta) : meta := (snd m, fst m).
Definition meta_eqb (a b : meta) : bool := (fst a =? fst b) && (snd a =? snd b).

Record uconn := { u_la : N; u_dns : option N }.        (* last_activity, pending plain-DNS queries *)

Record ustate := {
  pipe : list (meta * uconn);          (* udp_pipe: udp_connections *)
  fwd : list (meta * N);               (* udp_forwarder: connections (socket id) *)
  next_sock : N;
  terminated : bool                    (* exchange() returned an error *)
}.

Definition uinit : ustate := {| pipe := []; fwd := []; next_sock := 1; terminated := false |}.

Fixpoint lookup {A} (m : meta) (t : list (meta * A)) : option A :=
  match t with
  | [] => None
  | (k, v) :: r => if meta_eqb k m then Some v else lookup m r
  end.
Fixpoint remove {A} (m : meta) (t : list (meta * A)) : list (meta * A) :=
  match t with
  | [] => []
  | (k, v) :: r => if meta_eqb k m then remove m r else (k, v) :: remove m r
  end.
Definition insert {A} (m : meta) (v : A) (t : list (meta * A)) : list (meta * A) := (m, v) :: remove m t.

Inductive uop :=
| ClientDgram (m : meta) (now : N) (is_dns : bool) (can_open : bool) (send_ok : bool)
| PeerDgram (m : meta) (now : N)         (* m = (peer, client): a datagram read from the flow's socket *)
| SocketErr (m : meta)                   (* m = (client, peer): the socket reported an error *)
| Tick (now : N).

Inductive uout :=
| ToPeer (m : meta) (sock : N)           (* sent through the flow's own socket to snd m *)
| ToClient (m : meta)                    (* delivered to the client labelled source = fst m, destination = snd m *)
| Dropped (m : meta).

Definition set_pipe (s : ustate) p := {| pipe := p; fwd := fwd s; next_sock := next_sock s; terminated := terminated s |}.
Definition set_fwd (s : ustate) f := {| pipe := pipe s; fwd := f; next_sock := next_sock s; terminated := terminated s |}.

Definition register_outgoing (now : N) (c : uconn) : uconn :=
  {| u_la := now; u_dns := match u_dns c with Some n => Some (n + 1) | None => None end |}.

(* MultiplexerShared::on_connection_closed removes the reversed key *)
Definition fwd_closed (s : ustate) (m : meta) : ustate := set_fwd s (remove (reversed m) (fwd s)).

Definition ustep (T : N) (s : ustate) (o : uop) : ustate * list uout :=
  if terminated s then (s, []) else
  match o with
  | ClientDgram m now is_dns can_open send_ok =>
    (* LeftPipe::on_udp_packet *)
    let r :=
      match lookup m (pipe s) with
      | Some c => inl (set_pipe s (insert m (register_outgoing now c) (pipe s)))
      | None =>
        let c0 := {| u_la := now; u_dns := if is_dns then Some 0 else None |} in
        let s1 := set_pipe s (insert m c0 (pipe s)) in
        (* forwarder: on_new_udp_connection *)
        match lookup m (fwd s1) with
        | Some _ => inr (if UDP_FAILED_OPEN_FORGETS_FLOW then set_pipe s1 (remove m (pipe s1)) else s1)
        | None =>
          if can_open then
            inl {| pipe := insert m (register_outgoing now c0) (pipe s1);
                   fwd := insert m (next_sock s1) (fwd s1);
                   next_sock := next_sock s1 + 1; terminated := false |}
          else inr (if UDP_FAILED_OPEN_FORGETS_FLOW then set_pipe s1 (remove m (pipe s1)) else s1)
        end
      end in
    match r with
    | inr s' => (s', [Dropped m])
    | inl s' =>
      (* MultiplexerSink::write *)
      match lookup m (fwd s') with
      | None => ({| pipe := pipe s'; fwd := fwd s'; next_sock := next_sock s'; terminated := true |}, [])
      | Some sock =>
        if send_ok then (s', [ToPeer m sock])
        else if UDP_SEND_ERROR_DROPS_DATAGRAM then (s', [Dropped m])
        else ({| pipe := pipe s'; fwd := fwd s'; next_sock := next_sock s'; terminated := true |}, [])
      end
    end
  | PeerDgram m now =>
    (* RightPipe::exchange: deliver, then account on the client-orientation key *)
    let k := reversed m in
    match lookup k (pipe s) with
    | None => (s, [ToClient m])
    | Some c =>
      match u_dns c with
      | None => (set_pipe s (insert k {| u_la := now; u_dns := None |} (pipe s)), [ToClient m])
      | Some n =>
        let n' := n - 1 in
        if n' =? 0 then (fwd_closed (set_pipe s (remove k (pipe s))) m, [ToClient m])
        else (set_pipe s (insert k {| u_la := now; u_dns := Some n' |} (pipe s)), [ToClient m])
      end
    end
  | SocketErr m =>
    (* MultiplexerSource::on_socket_error, then UdpClose handled by RightPipe *)
    match lookup m (fwd s) with
    | None => (s, [])
    | Some _ => ({| pipe := remove m (pipe s);
                    (* [UDP_READ_ERRORS_REMOVE_THE_FLOW]: every error path of the reading side goes through
                       on_socket_error, which removes the entry (socket + gauge guard) before the pipe is told *)
                    fwd := if UDP_READ_ERRORS_REMOVE_THE_FLOW then remove m (fwd s) else fwd s;
                    next_sock := next_sock s; terminated := false |}, [])
    end
  | Tick now =>
    (* on_timer_tick *)
    let expired := filter (fun kv => u_la (snd kv) <? now - T) (pipe s) in
    (fold_left (fun st kv =>
                  fwd_closed (set_pipe st (remove (fst kv) (pipe st)))
                             (if UDP_TICK_CLOSES_REVERSED_KEY then reversed (fst kv) else fst kv))
               expired s, [])
  end.

Fixpoint urun (T : N) (s : ustate) (ops : list uop) : ustate * list (list uout) :=
  match ops with
  | [] => (s, [])
  | o :: r => let '(s1, out) := ustep T s o in
              let '(s2, outs) := urun T s1 r in (s2, out :: outs)
  end.
