(* Model of the metrics bookkeeping: RAII guards (ClientSessionsCounter, OutboundTcpSocketCounter,
   OutboundUdpSocketCounter in metrics.rs) incremented when an object is created and decremented
   when it is dropped, and the traffic counters fed by the pipes' update callback (tunnel.rs). *)
From Coq Require Import List NArith ZArith Bool.
From TT Require Import Lib.BytesL Generated.MetricsFacts.
Import ListNotations.
Open Scope Z_scope.

Inductive proto := H1 | H2 | H3.
Definition proto_eqb (a b : proto) : bool :=
  match a, b with H1, H1 | H2, H2 | H3, H3 => true | _, _ => false end.

(* live objects, by identifier *)
Record world := {
  sessions : list (N * proto);          (* client sessions *)
  tunnels : list (N * N);               (* outbound TCP connection id, owning session id *)
  udp_socks : list (N * N);             (* outbound UDP socket id, owning session id *)
  (* the exported values *)
  g_sessions : proto -> Z;
  g_tcp : Z;
  g_udp : Z;
  c_in : proto -> Z;                    (* inbound_traffic_bytes: uploaded by clients *)
  c_out : proto -> Z                    (* outbound_traffic_bytes: downloaded by clients *)
}.

Definition upd (f : proto -> Z) (p : proto) (d : Z) : proto -> Z :=
  fun q => if proto_eqb p q then f q + d else f q.

Definition w0 : world :=
  {| sessions := []; tunnels := []; udp_socks := []; g_sessions := fun _ => 0; g_tcp := 0; g_udp := 0;
     c_in := fun _ => 0; c_out := fun _ => 0 |}.

Inductive mop :=
| OpenSession (id : N) (p : proto)
| CloseSession (id : N)                  (* drops the session, its tunnels and its UDP sockets *)
| OpenTunnel (id sess : N)               (* outbound TCP connection established *)
| FailedConnect (sess : N)               (* connect refused / timed out / policy: no socket object *)
| CloseTunnel (id : N)                   (* graceful end, reset or idle timeout: the stream objects are dropped *)
| OpenUdp (id sess : N)
| CloseUdp (id : N)                      (* expiry, answered DNS flow, socket error *)
| Transfer (sess : N) (up down : N).     (* payload bytes actually relayed on a tunnel / multiplexer of the session *)

Definition owned_by {A} (sess : N) (l : list (A * N)) : list (A * N) := filter (fun t => snd t =? sess)%N l.
Definition not_owned_by {A} (sess : N) (l : list (A * N)) : list (A * N) := filter (fun t => negb (snd t =? sess)%N) l.
Definition without {B} (id : N) (l : list (N * B)) : list (N * B) := filter (fun t => negb (fst t =? id)%N) l.
Definition count_id {B} (id : N) (l : list (N * B)) : Z := Z.of_nat (length (filter (fun t => (fst t =? id)%N) l)).

Definition proto_of (w : world) (sess : N) : option proto :=
  match filter (fun s => (fst s =? sess)%N) (sessions w) with (_, p) :: _ => Some p | [] => None end.

Definition mstep (w : world) (o : mop) : world :=
  match o with
  | OpenSession id p =>
    {| sessions := (id, p) :: sessions w; tunnels := tunnels w; udp_socks := udp_socks w;
       g_sessions := upd (g_sessions w) p 1; g_tcp := g_tcp w; g_udp := g_udp w; c_in := c_in w; c_out := c_out w |}
  | CloseSession id =>
    let gone := filter (fun s => (fst s =? id)%N) (sessions w) in
    {| sessions := without id (sessions w);
       tunnels := not_owned_by id (tunnels w); udp_socks := not_owned_by id (udp_socks w);
       g_sessions := fold_left (fun g s => upd g (snd s) (-1)) gone (g_sessions w);
       g_tcp := g_tcp w - Z.of_nat (length (owned_by id (tunnels w)));
       g_udp := g_udp w - Z.of_nat (length (owned_by id (udp_socks w)));
       c_in := c_in w; c_out := c_out w |}
  | OpenTunnel id sess =>
    {| sessions := sessions w; tunnels := (id, sess) :: tunnels w; udp_socks := udp_socks w;
       g_sessions := g_sessions w; g_tcp := g_tcp w + 1; g_udp := g_udp w; c_in := c_in w; c_out := c_out w |}
  | FailedConnect _ => w
  | CloseTunnel id =>
    {| sessions := sessions w; tunnels := without id (tunnels w); udp_socks := udp_socks w;
       g_sessions := g_sessions w; g_tcp := g_tcp w - count_id id (tunnels w); g_udp := g_udp w;
       c_in := c_in w; c_out := c_out w |}
  | OpenUdp id sess =>
    {| sessions := sessions w; tunnels := tunnels w; udp_socks := (id, sess) :: udp_socks w;
       g_sessions := g_sessions w; g_tcp := g_tcp w; g_udp := g_udp w + 1; c_in := c_in w; c_out := c_out w |}
  | CloseUdp id =>
    {| sessions := sessions w; tunnels := tunnels w; udp_socks := without id (udp_socks w);
       g_sessions := g_sessions w; g_tcp := g_tcp w; g_udp := g_udp w - count_id id (udp_socks w);
       c_in := c_in w; c_out := c_out w |}
  | Transfer sess up down =>
    match proto_of w sess with
    | None => w
    | Some p =>
      let up_z := Z.of_N up in let down_z := Z.of_N down in
      {| sessions := sessions w; tunnels := tunnels w; udp_socks := udp_socks w;
         g_sessions := g_sessions w; g_tcp := g_tcp w; g_udp := g_udp w;
         c_in := upd (c_in w) p (if METRICS_UPLOAD_IS_INBOUND then up_z else down_z);
         c_out := upd (c_out w) p (if METRICS_UPLOAD_IS_INBOUND then down_z else up_z) |}
    end
  end.

Definition mrun (ops : list mop) : world := fold_left mstep ops w0.

Definition live_sessions (w : world) (p : proto) : Z :=
  Z.of_nat (length (filter (fun s => proto_eqb (snd s) p) (sessions w))).

(* Datagram traffic (udp_pipe.rs): each datagram is offered to the sink of its direction, which reports it
   Sent or Dropped. [sent_only] = METRICS_COUNT_SENT_DATAGRAMS_ONLY: the counter moves in the Sent arm only;
   otherwise (the slip this guards against) for every datagram offered. *)
Definition count_datagrams (sent_only : bool) (offers : list (N * bool)) : N :=
  fold_left (fun (acc : N) (o : N * bool) => if (snd o || negb sent_only)%bool then (acc + fst o)%N else acc) offers 0%N.

Definition delivered_datagram_bytes (offers : list (N * bool)) : N :=
  fold_left (fun (acc : N) (o : N * bool) => if snd o then (acc + fst o)%N else acc) offers 0%N.
