(* Model of the destination policy of TcpForwarder::connect (tcp_forwarder.rs): literal
   destinations are checked and then connected to as they are; host names are resolved once and
   the first suitable address of the answer is taken. *)
From Coq Require Import List NArith Bool.
From TT Require Import Model.IpStd Generated.GlobalIp.
Import ListNotations.
Open Scope N_scope.

Record addr := { afam : N; aip : N }.     (* family 4 | 6, numeric address *)

Definition is_global_ip (a : addr) : bool :=
  if afam a =? 4 then is_global_ipv4 (aip a) else is_global_ipv6 (aip a).

(* IpAddr::is_loopback: 127.0.0.0/8 or ::1 (an IPv4-mapped address is not "loopback" for std) *)
Definition ip_is_loopback (a : addr) : bool :=
  if afam a =? 4 then is_loopback (aip a) else is_loopback6 (aip a).

Inductive decision :=
| ConnectTo (a : addr)
| RefuseLoopback          (* ConnectionError::DnsLoopback    -> 502 / X-Warning 311 *)
| RefuseNonroutable       (* ConnectionError::DnsNonroutable -> 502 / X-Warning 310 *)
| ResolveFailed.          (* empty answer -> io error -> 502 / 300 *)

(* TcpDestination::Address(peer) *)
Definition decide_literal (allow : bool) (a : addr) : decision :=
  if negb allow && negb (is_global_ip a) then
    (if ip_is_loopback a then RefuseLoopback else RefuseNonroutable)
  else ConnectTo a.

Inductive sel := SelLoopback | SelNonRoutable | SelSuitable (a : addr).

(* every address refused so far was a loopback one (none yet, or the status is still Loopback).
   As found, the test was `status.is_none()`: only the first address of an answer could be reported
   as loopback, so a name with two loopback addresses was reported as non-routable (310 for 311) *)
Definition only_loopback_so_far (status : option sel) : bool :=
  match status with None | Some SelLoopback => true | Some _ => false end.

(* the `for a in resolved` loop *)
Fixpoint select (allow v6ok : bool) (status : option sel) (answers : list addr) : option sel :=
  match answers with
  | [] => status
  | a :: rest =>
    if (afam a =? 6) && negb v6ok then select allow v6ok status rest
    else if is_global_ip a || allow then Some (SelSuitable a)
    else if ip_is_loopback a && only_loopback_so_far status
         then select allow v6ok (Some SelLoopback) rest
    else select allow v6ok (Some SelNonRoutable) rest
  end.

(* TcpDestination::HostName *)
Definition decide_hostname (allow v6ok : bool) (answers : list addr) : decision :=
  match select allow v6ok None answers with
  | None => ResolveFailed
  | Some SelLoopback => RefuseLoopback
  | Some SelNonRoutable => RefuseNonroutable
  | Some (SelSuitable a) => ConnectTo a
  end.
