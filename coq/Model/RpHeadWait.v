(* Model of reverse_proxy.rs read_response_head: while the reverse proxy waits for the origin's response head it goes on writing
   the client's request body to the origin. The events are taken in the order the loop handles them: a read from the origin
   (bytes, end of stream, error) or a step of the body write (progress, failure, end of the body).
   [keeps] = RP_HEAD_WAIT_KEEPS_THE_ORIGINS_ANSWER: a failed write to the origin is remembered and the origin's side is read on
   (its answer may already be there: it refused the upload and closed); as found the failure ended the wait with 502, and which of
   the two ready events was handled first was a coin toss.
   [complete] is the head parser (decode_response): Some (head, rest) once the buffer holds a whole head. *)
From Coq Require Import List NArith Bool.
Import ListNotations.

Inductive ev :=
| EOrigin (bytes : list N) | EOriginEof | EOriginErr
| EFwdProgress | EFwdFailed | EFwdBodyEnd.

Definition is_origin (e : ev) : bool :=
  match e with EOrigin _ | EOriginEof | EOriginErr => true | _ => false end.

Inductive outcome :=
| Waiting (buf : list N) (write_failed : bool)
| Head (head rest : list N)
| BadGateway.

Section Wait.
  Variable complete : list N -> option (list N * list N).

  Definition step (keeps : bool) (o : outcome) (e : ev) : outcome :=
    match o with
    | Waiting buf wf =>
      match e with
      | EOrigin b => match complete (buf ++ b) with Some (h, r) => Head h r | None => Waiting (buf ++ b) wf end
      | EOriginEof | EOriginErr => BadGateway          (* no head will come: 502 (the remembered write failure is the reason given) *)
      | EFwdFailed => if keeps then Waiting buf true else BadGateway
      | EFwdProgress | EFwdBodyEnd => o
      end
    | _ => o
    end.

  Definition run_from (keeps : bool) (o : outcome) (evs : list ev) : outcome := fold_left (step keeps) evs o.
  Definition run (keeps : bool) (evs : list ev) : outcome := run_from keeps (Waiting [] false) evs.

  (* what the client is told: the origin's head, 502, or nothing yet *)
  Definition verdict (o : outcome) : option (option (list N * list N)) :=
    match o with Waiting _ _ => None | Head h r => Some (Some (h, r)) | BadGateway => Some None end.
End Wait.
