(* Model of the per-request decision of a tunnel session: core.rs on_tunnel_request (SNI
   authentication of the connection), http_codec.rs PendingRequest::auth_info, tunnel.rs
   Tunnel::listen_inner (the five-way match before promote_to_next_state) and
   http_downstream.rs promote_to_next_state / tunnel_error_to_status_code (dispatch on method and
   authority, status and headers of the answer). The authenticator is a function. *)
From Coq Require Import List NArith Bool.
From TT Require Import Lib.BytesL Generated.GateFacts.
Import ListNotations.
Open Scope N_scope.

Inductive source := SSni (creds : list N) | SBasic (token : list N).
Definition authenticator := source -> bool.

(* HeaderValue::to_str: visible ASCII (and tab) only *)
Definition visible (c : N) : bool := ((32 <=? c) && (c <? 127)) || (c =? 9).
Definition BASIC : list N := [66; 97; 115; 105; 99; 32].     (* "Basic " *)

Fixpoint strip_prefix (p v : list N) : option (list N) :=
  match p, v with
  | [], _ => Some v
  | x :: p', y :: v' => if x =? y then strip_prefix p' v' else None
  | _ :: _, [] => None
  end.

Inductive hdr := HAbsent | HBasic (token : list N) | HBad.

(* PendingRequest::auth_info on the (first) Proxy-Authorization value *)
Definition auth_info (raw : option (list N)) : hdr :=
  match raw with
  | None => HAbsent
  | Some v => if forallb visible v then
                match strip_prefix BASIC v with Some t => HBasic t | None => HBad end
              else HBad
  end.

Inductive policy := PDefault | PAuthenticated (creds : list N).

(* Core::on_tunnel_request: None = the connection is dropped before any request is read *)
Definition connection_policy (auth : option authenticator) (sni_creds : option (list N)) : option policy :=
  match auth, sni_creds with
  | Some a, Some c => if a (SSni c) then Some (PAuthenticated c) else None
  | _, _ => Some PDefault
  end.

Inductive gate_result := Allow (forwarder_auth : option source) | Deny407 | Deny502.

(* Tunnel::listen_inner *)
Definition gate (auth : option authenticator) (p : policy) (h : hdr) : gate_result :=
  match h, p, auth with
  | HBasic t, _, Some a => if a (SBasic t) then Allow (Some (SBasic t)) else Deny407
  | HAbsent, PAuthenticated x, Some _ => Allow (Some (SSni x))
  | HBasic t, _, None => Allow (Some (SBasic t))
  | HAbsent, PDefault, None => Allow None
  | HAbsent, PAuthenticated x, None => Allow (Some (SSni x))
  | HAbsent, PDefault, Some _ => Deny407
  | HBad, _, Some _ => if AUTH_UNREADABLE_IS_407 then Deny407 else Deny502
  | HBad, _, None => Deny502
  end.

(* ---- dispatch ---- *)
Definition CHECK : list N := [95; 99; 104; 101; 99; 107].
Definition UDP2 : list N := [95; 117; 100; 112; 50].
Definition ICMP : list N := [95; 105; 99; 109; 112].
Definition beq (a b : list N) : bool := list_eqb N.eqb a b.

Inductive route := RHealth | RUdp | RIcmp | RRefused | RConnect.

(* http_downstream.rs PendingRequest::promote_to_next_state *)
Definition dispatch (is_connect : bool) (authority : option (list N)) : route :=
  match authority with
  | Some a =>
    if beq a CHECK then (if is_connect then RHealth else RRefused)
    else if beq a UDP2 then (if is_connect then RUdp else RRefused)
    else if beq a ICMP then (if is_connect then RIcmp else RRefused)
    else RConnect
  | None => RConnect
  end.

(* outcome of the outbound attempt, as tcp_forwarder / tunnel classify it *)
Inductive conn_outcome := COk | CIo | CTimeout | CUnreachable | CNonRoutable | CLoopback | COther.

Record answer := { a_status : N; a_challenge : bool; a_warning : N; a_names_host : bool; a_egress : bool }.

Definition fail_answer (o : conn_outcome) : answer :=
  match o with
  | CTimeout => {| a_status := 502; a_challenge := false; a_warning := 302; a_names_host := false; a_egress := true |}
  | CUnreachable => {| a_status := 502; a_challenge := false; a_warning := 301; a_names_host := false; a_egress := true |}
  | CNonRoutable => {| a_status := 502; a_challenge := false; a_warning := 310; a_names_host := true; a_egress := false |}
  | CLoopback => {| a_status := 502; a_challenge := false; a_warning := 311; a_names_host := true; a_egress := false |}
  | _ => {| a_status := 502; a_challenge := false; a_warning := 300; a_names_host := false; a_egress := true |}
  end.

Definition ok_answer (egress : bool) : answer :=
  {| a_status := 200; a_challenge := false; a_warning := 0; a_names_host := false; a_egress := egress |}.

(* one request on an established tunnel connection; [has_port] = the authority carries a port
   (CONNECT without one is refused before any attempt); [o] = what the forwarder reports *)
Definition handle (auth : option authenticator) (p : policy) (raw : option (list N))
           (is_connect : bool) (authority : option (list N)) (has_port : bool) (o : conn_outcome) : answer :=
  match gate auth p (auth_info raw) with
  | Deny407 => {| a_status := 407; a_challenge := true; a_warning := 0; a_names_host := false; a_egress := false |}
  | Deny502 => {| a_status := 502; a_challenge := false; a_warning := 300; a_names_host := false; a_egress := false |}
  | Allow _ =>
    match dispatch is_connect authority with
    | RHealth => ok_answer false
    | RUdp =>
      (* [o] = what the forwarder says about the client before a multiplexer is made (the direct forwarder: always
         COk; the SOCKS5 forwarder: the outcome of a dialogue with its server, settled by the establishment timeout):
         a refusal is reported like a failed connection attempt *)
      match o with COk => ok_answer true | _ => fail_answer o end
    | RIcmp =>
      (* [o] = COk: the ICMP forwarder is set up and a multiplexer could be made. Otherwise the request is refused before any
         answer (ICMP_REFUSED_WHEN_NOT_SET_UP); as found, 200 had already been sent when the forwarder turned out to be absent *)
      if ICMP_REFUSED_WHEN_NOT_SET_UP
      then match o with
           | COk => ok_answer true
           | _ => (* a multiplexer that cannot be made is a connection that cannot be made: the generic code 300
                     (ICMP_REFUSAL_CARRIES_WARNING; the first repair answered a bare 502) *)
                  {| a_status := 502; a_challenge := false; a_warning := if ICMP_REFUSAL_CARRIES_WARNING then 300 else 0;
                     a_names_host := false; a_egress := false |}
           end
      else ok_answer true
    | RRefused => {| a_status := 502; a_challenge := false; a_warning := 0; a_names_host := false; a_egress := false |}
    | RConnect =>
      match authority with
      | None => {| a_status := 502; a_challenge := false; a_warning := 300; a_names_host := false; a_egress := false |}
      | Some _ =>
        if is_connect && negb has_port
        then {| a_status := 502; a_challenge := false; a_warning := 300; a_names_host := false; a_egress := false |}
        else match o with COk => ok_answer true | _ => fail_answer o end
      end
    end
  end.

Record request := { r_raw : option (list N); r_connect : bool; r_authority : option (list N);
                    r_has_port : bool; r_outcome : conn_outcome }.

(* a whole session: every request is answered on its own *)
Definition serve (auth : option authenticator) (sni_creds : option (list N)) (reqs : list request) : option (list answer) :=
  match connection_policy auth sni_creds with
  | None => None
  | Some p => Some (map (fun r => handle auth p (r_raw r) (r_connect r) (r_authority r) (r_has_port r) (r_outcome r)) reqs)
  end.
