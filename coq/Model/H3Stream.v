(* Model of one HTTP/3 request stream as http3_codec.rs keeps it: two directions that are shut down
   independently, an entry in the codec's stream table through which a waiting sink is woken, and what
   the events of the client do to them.
   [keeps]  = H3_REQUEST_END_KEEPS_RESPONSE_DIRECTION: the end of the client's request stream (FIN) shuts
              the read side only; otherwise (as found) it shut both.
   [forget_both] = (part of) H3_SINK_WRITE_AS_MODELLED: the table entry is dropped when both directions
              are shut; otherwise (the seeded slip) as soon as either is. *)
From Coq Require Import List NArith Bool.
Import ListNotations.

Inductive h3ev :=
| ClientFin                 (* the client finished its request stream: the normal end of a request *)
| ClientReset               (* the client abandoned the stream *)
| Respond (chunk : N).      (* the endpoint writes a piece of the response (head or body); it may have to wait for credit *)

Record h3s := { rd_open : bool; wr_open : bool; known : bool; delivered : list N; lost : list N }.
Definition h3_0 : h3s := {| rd_open := true; wr_open := true; known := true; delivered := []; lost := [] |}.

Definition still_known (forget_both rd wr : bool) : bool := if forget_both then rd || wr else rd && wr.

Definition h3step (keeps forget_both : bool) (s : h3s) (e : h3ev) : h3s :=
  match e with
  | ClientFin =>
    let wr := if keeps then wr_open s else false in
    {| rd_open := false; wr_open := wr; known := known s && still_known forget_both false wr;
       delivered := delivered s; lost := lost s |}
  | ClientReset => {| rd_open := false; wr_open := false; known := false; delivered := delivered s; lost := lost s |}
  | Respond c =>
    if wr_open s && known s
    then {| rd_open := rd_open s; wr_open := true; known := true; delivered := delivered s ++ [c]; lost := lost s |}
    else {| rd_open := rd_open s; wr_open := wr_open s; known := known s; delivered := delivered s; lost := lost s ++ [c] |}
  end.

Definition h3run (keeps forget_both : bool) (evs : list h3ev) : h3s := fold_left (h3step keeps forget_both) evs h3_0.

Fixpoint responses (evs : list h3ev) : list N :=
  match evs with
  | [] => []
  | Respond c :: r => c :: responses r
  | _ :: r => responses r
  end.

(* The read side of the same stream, as StreamSource::read decides it once the QUIC socket has nothing buffered for the
   stream (QuicSocket::read returned None). The source looks at four things:
   [reset_seen]  the codec has handled the client's RESET_STREAM (QuicSocketEvent::Close) and raised the flag it shares with
                 the source;
   [q_reset]     the QUIC connection knows of a reset the codec has not handled: it lies unread in the stream (a finished stream
                 that is still readable and whose read fails with StreamReset), or the socket remembers having read it
                 (QuicSocket::reset_streams, filled under the lock of the connection, also by the poll that yields
                 h3::Event::Reset; forgotten only after the codec has raised the flag);
   [q_finished]  quiche's stream_finished: true once the client's FIN has been read up to, and ALSO true for a stream that was
                 reset (RecvBuf::reset moves the read offset to the final size) or that has been collected;
   [registered]  the stream is still in the codec's table, i.e. the sender of the source's readable events lives.
   [checks_reset] = H3_SOURCE_RESET_IS_A_READ_FAILURE: the flag is looked at before stream_finished; otherwise (as found) it
   did not exist and a reset handled while the source was not parked in recv() was read as the end of the upload.
   [asks_conn] = H3_SOURCE_ASKS_THE_CONNECTION: a finished stream is an end of the upload only if the connection does not know
   of a reset (QuicSocket::stream_reset_by_peer); otherwise (as found) a reset the codec had not been told of - quiche's HTTP/3
   layer says Data and then Finished, not Reset, for a stream reset while one of its DATA frames is being read - or had not yet
   handled was read as the end of the upload. *)
Record h3src := { reset_seen : bool; q_reset : bool; q_finished : bool; registered : bool }.
Definition h3src_0 : h3src := {| reset_seen := false; q_reset := false; q_finished := false; registered := true |}.

Inductive h3read :=
| SrcEof        (* Ok(Data::Eof): the pipe passes an end of stream on to the destination and keeps the other direction *)
| SrcErr        (* Err: the pipe fails and the tunnel is torn down *)
| SrcWait.      (* parked in readable_event_rx.recv() *)

Definition h3_read_empty (checks_reset asks_conn : bool) (s : h3src) : h3read :=
  if checks_reset && reset_seen s then SrcErr
  else if q_finished s then (if asks_conn && q_reset s then SrcErr else SrcEof)
  else if registered s then SrcWait
  else SrcErr.

(* what the client's events do to what the source looks at (Respond does not concern the read side). [told]: by the time the
   source reads, the codec has been told of the reset and has handled it (flag raised, stream shut down and forgotten, the
   socket's note dropped); not [told]: it has not (yet, or - without the question to the connection in the Finished arm - ever) *)
Definition h3src_step (told : bool) (s : h3src) (e : h3ev) : h3src :=
  match e with
  | ClientFin => {| reset_seen := reset_seen s; q_reset := q_reset s; q_finished := true; registered := registered s |}
  | ClientReset => {| reset_seen := reset_seen s || told; q_reset := negb told; q_finished := true; registered := registered s && negb told |}
  | Respond _ => s
  end.

Definition h3src_run (told : bool) (evs : list h3ev) : h3src := fold_left (h3src_step told) evs h3src_0.
