(* Model of one HTTP/3 request stream as http3_codec.rs keeps it: two directions that are shut down
   independently, and what the events of the client do to them. [keeps] =
   H3_REQUEST_END_KEEPS_RESPONSE_DIRECTION: the end of the client's request stream (FIN) shuts the read
   side only; otherwise (as found) it shut both. *)
From Coq Require Import List NArith Bool.
Import ListNotations.

Inductive h3ev :=
| ClientFin                 (* the client finished its request stream: the normal end of a request *)
| ClientReset               (* the client abandoned the stream *)
| Respond (chunk : N).      (* the endpoint writes a piece of the response (head or body) *)

Record h3s := { rd_open : bool; wr_open : bool; delivered : list N; lost : list N }.
Definition h3_0 : h3s := {| rd_open := true; wr_open := true; delivered := []; lost := [] |}.

Definition h3step (keeps : bool) (s : h3s) (e : h3ev) : h3s :=
  match e with
  | ClientFin => {| rd_open := false; wr_open := if keeps then wr_open s else false;
                    delivered := delivered s; lost := lost s |}
  | ClientReset => {| rd_open := false; wr_open := false; delivered := delivered s; lost := lost s |}
  | Respond c => if wr_open s
                 then {| rd_open := rd_open s; wr_open := true; delivered := delivered s ++ [c]; lost := lost s |}
                 else {| rd_open := rd_open s; wr_open := false; delivered := delivered s; lost := lost s ++ [c] |}
  end.

Definition h3run (keeps : bool) (evs : list h3ev) : h3s := fold_left (h3step keeps) evs h3_0.

Fixpoint responses (evs : list h3ev) : list N :=
  match evs with
  | [] => []
  | Respond c :: r => c :: responses r
  | _ :: r => responses r
  end.

Definition no_reset (evs : list h3ev) : Prop := ~ In ClientReset evs.

