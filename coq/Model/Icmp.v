(* Model of net_utils::{rfc1071_checksum, skip_ipv4_header, skip_ipv6_header},
   icmp_utils (Echo::serialize, v4/v6 Message::deserialize, responded_echo_request, Echo ==),
   http_icmp_codec (Decoder, Encoder). Every panicking Bytes operation is an explicit Panic. *)
From Coq Require Import List NArith Bool.
From TT Require Import Lib.Res Lib.BytesL Generated.Consts Model.UdpCodec.
Import ListNotations.
Open Scope N_scope.

(* ---------- rfc1071_checksum ---------- *)

(* the index loop: bytes[i] << 8, plus bytes[i+1] unless i is the last index of an odd slice *)
Fixpoint sum16 (bs : list N) : N :=
  match bs with
  | [] => 0
  | [a] => a * 256
  | a :: b :: r => a * 256 + b + sum16 r
  end.

Definition U32 : N := 4294967296.
Definition U16 : N := 65536.

Definition rfc1071_checksum (bs : list N) : res N :=
  let sum := sum16 bs in
  if U32 <=? sum then Panic                                  (* u32 += overflow check *)
  else
    let sum1 := sum / U16 + sum mod U16 in                   (* (sum >> 16) + (sum & 0xffff) *)
    let sum2 := (sum1 / U16 + sum1) mod U16 in               (* ((sum >> 16) + sum) as u16 *)
    Ok (U16 - 1 - sum2).                                      (* ! on u16 *)

(* icmp_utils::Echo::serialize *)
Definition echo_serialize (type_id id seq : N) (data : list N) : res (list N) :=
  let packet0 := [type_id; 0; 0; 0] ++ to_be 2 id ++ to_be 2 seq ++ data in
  c <- rfc1071_checksum packet0 ;;
  Ok ([type_id; 0] ++ to_be 2 c ++ to_be 2 id ++ to_be 2 seq ++ data).

(* ---------- Bytes primitives ---------- *)

Definition get_u8 (p : list N) : res (N * list N) :=
  match p with b :: r => Ok (b, r) | [] => Panic end.
Definition get_be (n : N) (p : list N) : res (N * list N) :=
  if lenN p <? n then Panic else Ok (be (takeN n p), dropN n p).
Definition advance (n : N) (p : list N) : res (list N) :=
  if lenN p <? n then Panic else Ok (dropN n p).
(* split_off(at): keeps [0,at) in self, returns [at,len) *)
Definition split_off (n : N) (p : list N) : res (list N) := advance n p.

(* ---------- IP header skipping ---------- *)

Definition skip_ipv4_header (packet : list N) : res (option (N * list N)) :=
  if lenN packet <? MIN_IPV4_HEADER_SIZE then Ok None
  else
    '(x, p1) <- get_u8 packet ;;
    let header_length := (N.land x 15 * 4) mod 256 in          (* u8 arithmetic, then as usize *)
    if (header_length <? 20) || (lenN p1 + 1 <? header_length) then Ok None
    else
      p2 <- advance 8 p1 ;;
      '(proto, p3) <- get_u8 p2 ;;
      p4 <- advance (10 + (header_length - MIN_IPV4_HEADER_SIZE)) p3 ;;
      Ok (Some (proto, p4)).

Definition IPPROTO_HOPOPTS : N := 0.
Definition IPPROTO_ROUTING : N := 43.
Definition IPPROTO_FRAGMENT : N := 44.
Definition IPPROTO_DSTOPTS : N := 60.
Definition IPPROTO_ICMP : N := 1.
Definition IPPROTO_ICMPV6 : N := 58.

Fixpoint skip_v6_ext (fuel : nat) (next : N) (p : list N) : res (option (N * list N)) :=
  match fuel with
  | O => Fuel
  | S f =>
    if (next =? IPPROTO_HOPOPTS) || (next =? IPPROTO_ROUTING) || (next =? IPPROTO_DSTOPTS) then
      if lenN p <? 2 then Ok None
      else
        '(n1, p1) <- get_u8 p ;;
        '(l, p2) <- get_u8 p1 ;;
        if V6_EXT_LENGTH_CHECKED && (lenN p2 <? l) then Ok None
        else p3 <- advance l p2 ;; skip_v6_ext f n1 p3
    else if next =? IPPROTO_FRAGMENT then
      if lenN p <? IPV6_FRAGMENT_EXT_LENGTH then Ok None
      else
        '(n1, p1) <- get_u8 p ;;
        p2 <- advance (IPV6_FRAGMENT_EXT_LENGTH - 1) p1 ;;
        skip_v6_ext f n1 p2
    else Ok (Some (next, p))
  end.

Definition skip_ipv6_header (packet : list N) : res (option (N * list N)) :=
  if lenN packet <? MIN_IPV6_HEADER_SIZE then Ok None
  else
    p1 <- advance 6 packet ;;
    '(next, p2) <- get_u8 p1 ;;
    p3 <- advance 33 p2 ;;
    skip_v6_ext (S (length p3)) next p3.

(* ---------- messages ---------- *)

Inductive body :=
| BEcho (id seq : N) (data : list N)      (* Echo / EchoReply / EchoRequest *)
| BData (data : list N)                   (* errors quoting the offending datagram *)
| BFixed (extra : N).                     (* timestamp (12) / information (0) *)

Record msg := { m_v6 : bool; m_type : N; m_code : N; m_body : body }.

Inductive length_check := Exact (n : N) | LowerBound (n : N).

(* deserialize_packet!: packet = the bytes after the type octet *)
Definition deserialize_packet {A} (lc : length_check) (packet : list N)
           (parse : N -> list N -> res A) : res A :=
  let m := 1 + lenN packet in
  let bad := match lc with Exact n => negb (n =? m) | LowerBound n => m <? n end in
  if bad then Reject
  else
    '(code, p1) <- get_u8 packet ;;
    p2 <- split_off CHECKSUM_SIZE p1 ;;
    parse code p2.

Definition parse_echo (code : N) (p : list N) : res (N * body) :=
  '(id, p1) <- get_be 2 p ;;
  '(seq, p2) <- get_be 2 p1 ;;
  Ok (code, BEcho id seq p2).

Definition parse_data_after (skip : N) (code_ok : N -> bool) (code : N) (p : list N)
  : res (N * body) :=
  if code_ok code then (d <- split_off skip p ;; Ok (code, BData d)) else Reject.

Definition parse_fixed (need extra : N) (code : N) (p : list N) : res (N * body) :=
  if lenN p <? need then Panic else Ok (code, BFixed extra).

Definition any_code (_ : N) : bool := true.

(* parse_destination_unreachable: the code is handed on as received (the regenerated flags say so); the code it had
   before tested it against the codes of RFC 792 (0..5) / RFC 4443 (0..6) and dropped e.g. code 13, "communication
   administratively prohibited" (RFC 1812), as malformed *)
Definition v4_unreachable_code_ok : N -> bool :=
  if V4_UNREACHABLE_ANY_CODE then any_code else (fun c => c <=? 5).
Definition v6_unreachable_code_ok : N -> bool :=
  if V6_UNREACHABLE_ANY_CODE then any_code else (fun c => c <=? 6).

Definition V4_ERR_LEN : N := ICMP_MIN_COMMON_HEADER_SIZE + ICMP_V4_MIN_MATCHING_DATA_SIZE.
Definition V6_ERR_LEN : N := ICMP_MIN_COMMON_HEADER_SIZE + MIN_IPV6_HEADER_SIZE.

Definition v4_deserialize (packet : list N) : res msg :=
  match packet with
  | [] => Reject
  | ty :: p =>
    r <- (if (ty =? V4_ECHO_REPLY) || (ty =? V4_ECHO) then
            deserialize_packet (LowerBound ECHO_HEADER_SIZE) p parse_echo
          else if ty =? V4_DESTINATION_UNREACHABLE then
            deserialize_packet (LowerBound V4_ERR_LEN) p (parse_data_after 4 v4_unreachable_code_ok)
          else if ty =? V4_SOURCE_QUENCH then
            deserialize_packet (LowerBound V4_ERR_LEN) p (parse_data_after 4 any_code)
          else if ty =? V4_REDIRECT then
            deserialize_packet (LowerBound V4_ERR_LEN) p (parse_data_after 4 any_code)
          else if ty =? V4_TIME_EXCEEDED then
            deserialize_packet (LowerBound V4_ERR_LEN) p (parse_data_after 4 (fun c => c <=? 1))
          else if ty =? V4_PARAMETER_PROBLEM then
            deserialize_packet (LowerBound V4_ERR_LEN) p (parse_data_after 4 any_code)
          else if (ty =? V4_TIMESTAMP) || (ty =? V4_TIMESTAMP_REPLY) then
            deserialize_packet (Exact 20) p (parse_fixed 16 12)
          else if (ty =? V4_INFORMATION_REQUEST) || (ty =? V4_INFORMATION_REPLY) then
            deserialize_packet (Exact 20) p (parse_fixed 4 0)
          else Reject) ;;
    Ok {| m_v6 := false; m_type := ty; m_code := fst r; m_body := snd r |}
  end.

Definition v6_deserialize (packet : list N) : res msg :=
  match packet with
  | [] => Reject
  | ty :: p =>
    r <- (if ty =? V6_DESTINATION_UNREACHABLE then
            deserialize_packet (LowerBound V6_ERR_LEN) p (parse_data_after 4 v6_unreachable_code_ok)
          else if ty =? V6_PACKET_TOO_BIG then
            deserialize_packet (LowerBound V6_ERR_LEN) p (parse_data_after 4 any_code)
          else if ty =? V6_TIME_EXCEEDED then
            deserialize_packet (LowerBound V6_ERR_LEN) p (parse_data_after 4 (fun c => c <=? 1))
          else if ty =? V6_PARAMETER_PROBLEM then
            deserialize_packet (LowerBound V6_ERR_LEN) p (parse_data_after 4 any_code)
          else if (ty =? V6_ECHO_REQUEST) || (ty =? V6_ECHO_REPLY) then
            deserialize_packet (LowerBound ICMP_MIN_COMMON_HEADER_SIZE) p parse_echo
          else Reject) ;;
    Ok {| m_v6 := true; m_type := ty; m_code := fst r; m_body := snd r |}
  end.

Definition msg_len (m : msg) : N :=
  ICMP_MIN_COMMON_HEADER_SIZE +
  match m_body m with BEcho _ _ d => lenN d | BData d => lenN d | BFixed e => e end.

(* (identifier, sequence number, data) of the answered request *)
Definition echo_key := (N * N * list N)%type.

Definition quoted_echo (v6 : bool) (data : list N) : res (option echo_key) :=
  hp <- (if v6 then skip_ipv6_header data else skip_ipv4_header data) ;;
  match hp with
  | None => Ok None
  | Some (proto, payload) =>
    if negb (proto =? (if v6 then IPPROTO_ICMPV6 else IPPROTO_ICMP)) then Ok None
    else
      match payload with
      | [] => Ok None
      | ty :: p =>
        if negb (ty =? (if v6 then V6_ECHO_REQUEST else V4_ECHO)) then Ok None
        else
          match deserialize_packet
                  (LowerBound (if v6 then ICMP_MIN_COMMON_HEADER_SIZE else ECHO_HEADER_SIZE))
                  p parse_echo with
          | Ok (_, BEcho id seq d) => Ok (Some (id, seq, d))
          | Ok _ => Ok None
          | Reject => Ok None
          | Panic => Panic
          | Fuel => Fuel
          end
      end
  end.

Definition responded_echo_request (m : msg) : res (option echo_key) :=
  match m_body m with
  | BEcho id seq d =>
    if m_type m =? (if m_v6 m then V6_ECHO_REPLY else V4_ECHO_REPLY) then Ok (Some (id, seq, d))
    else Ok None
  | BData d => quoted_echo (m_v6 m) d
  | BFixed _ => Ok None
  end.

(* impl PartialEq for Echo (the key relation of the reply-waiter table) *)
Fixpoint is_prefix (a b : list N) : bool :=
  match a, b with
  | [], _ => true
  | x :: a', y :: b' => (x =? y) && is_prefix a' b'
  | _ :: _, [] => false
  end.

Definition echo_eq (a b : echo_key) : bool :=
  let '(i1, s1, d1) := a in
  let '(i2, s2, d2) := b in
  (i1 =? i2) && (s1 =? s2)
  && (if lenN d2 <=? lenN d1 then is_prefix d2 d1 else is_prefix d1 d2).

(* The waiter table is a HashMap keyed by Echo. What the hash of a key looks at:
   [ids_only] (= ECHO_HASH_OF_ID_AND_SEQ) => the identifier and the sequence number; otherwise the data too.
   A probe finds a stored key only when the two are equal and hash alike. *)
Definition echo_hashed (ids_only : bool) (k : echo_key) : echo_key :=
  let '(i, s, d) := k in if ids_only then (i, s, []) else k.

Definition key_same (a b : echo_key) : bool :=
  let '(i1, s1, d1) := a in
  let '(i2, s2, d2) := b in
  (i1 =? i2) && (s1 =? s2) && list_eqb N.eqb d1 d2.

Definition waiter_found (ids_only : bool) (stored probe : echo_key) : bool :=
  echo_eq stored probe && key_same (echo_hashed ids_only stored) (echo_hashed ids_only probe).

(* ---------- http_icmp_codec ---------- *)

Record icmp_request := {
  rq_peer : ipaddr; rq_id : N; rq_seq : N; rq_ttl : N; rq_size : N
}.

(* Decoder::on_message_chunk *)
Definition on_message_chunk (buffer chunk : list N)
  : res (list N * option (list N * list N)) :=
  if negb (is_nil buffer) || (lenN buffer + lenN chunk <? ICMPPKT_REQ_SIZE) then
    if ICMPPKT_REQ_SIZE <? lenN buffer then Panic             (* REQ_SIZE - buffer.len() *)
    else
      let k := N.min (lenN chunk) (ICMPPKT_REQ_SIZE - lenN buffer) in
      let b' := buffer ++ takeN k chunk in
      let chunk' := dropN k chunk in
      if ICMPPKT_REQ_SIZE <? lenN b' then Panic               (* assert! *)
      else if lenN b' <? ICMPPKT_REQ_SIZE then
        (if is_nil chunk' then Ok (b', None) else Panic)      (* assert!(chunk.is_empty()) *)
      else Ok ([], Some (b', chunk'))
  else Ok (buffer, Some (takeN ICMPPKT_REQ_SIZE chunk, dropN ICMPPKT_REQ_SIZE chunk)).

Definition parse_request (raw : list N) : res icmp_request :=
  '(id, p1) <- get_be 2 raw ;;
  if lenN p1 <? 16 then Panic else
  let dest := get_fixed_size_ip (takeN 16 p1) in
  '(seq, p2) <- get_be 2 (dropN 16 p1) ;;
  '(ttl, p3) <- get_u8 p2 ;;
  '(size, _) <- get_be 2 p3 ;;
  Ok {| rq_peer := dest; rq_id := id; rq_seq := seq; rq_ttl := ttl; rq_size := size |}.

(* decode_chunk + the re-queue loop of DatagramDecoder::read, as for the UDP codec *)
Fixpoint icmp_decode_all (fuel : nat) (buffer data : list N)
  : res (list N * list icmp_request) :=
  if is_nil data then Ok (buffer, [])
  else
    match fuel with
    | O => Fuel
    | S f =>
      '(b1, r) <- on_message_chunk buffer data ;;
      match r with
      | None => Ok (b1, [])
      | Some (raw, tail) =>
        q <- parse_request raw ;;
        '(b2, out) <- icmp_decode_all f b1 tail ;;
        Ok (b2, q :: out)
      end
    end.

Fixpoint icmp_run (buffer : list N) (chunks : list (list N))
  : res (list N * list (list icmp_request)) :=
  match chunks with
  | [] => Ok (buffer, [])
  | c :: rest =>
    '(b1, out) <- icmp_decode_all (S (length c)) buffer c ;;
    '(b2, outs) <- icmp_run b1 rest ;;
    Ok (b2, out :: outs)
  end.

(* Encoder::encode_packet *)
Definition icmp_encode (peer : ipaddr) (m : msg) : res (option (list N)) :=
  k <- responded_echo_request m ;;
  match k with
  | None => Ok None
  | Some (id, seq, _) =>
    Ok (Some (to_be 2 id ++ put_fixed_size_ip peer ++ [m_type m; m_code m] ++ to_be 2 seq))
  end.
